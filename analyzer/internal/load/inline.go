package load

// In-place SSA inlining of *new* helper functions.
//
// The rule tables were written against the functions that existed on the reference tree (baseline_funcs.txt). A
// behaviour-preserving refactoring typically moves a block of an audited function into a new helper (or a new method, or
// a local closure); the intraprocedural rules (ordering, guards, provenance) would then no longer see the block. To keep
// them exact, every static call to a module function that is NOT in the baseline list is expanded in place, right after
// the SSA is built and before the call graph: the callee's blocks are cloned into the caller, parameters are replaced by
// the arguments, returns become jumps to a continuation block whose phis carry the results. Functions of the baseline are
// never inlined, so the analysis of the reference tree itself is untouched.
//
// go/ssa keeps the owning block and the referrer lists in unexported fields; they are set through reflect+unsafe
// (x/tools is pinned to v0.29.0; the field names are looked up by name and a missing field is a hard failure).

import (
	_ "embed"
	"fmt"
	"go/token"
	"reflect"
	"strings"
	"unsafe"

	"golang.org/x/tools/go/ssa"
)

//go:embed baseline_funcs.txt
var baselineFuncs string

func baselineSet() map[string]bool {
	out := map[string]bool{}
	for name := range baselineParams() {
		out[name] = true
	}
	return out
}

// baselineParams: function name -> (parameter name, parameter type) pairs on the reference tree.
func baselineParams() map[string][][2]string {
	out := map[string][][2]string{}
	for _, l := range strings.Split(baselineFuncs, "\n") {
		if strings.TrimSpace(l) == "" || strings.HasPrefix(l, "#") {
			continue
		}
		parts := strings.Split(l, "\t")
		var ps [][2]string
		for i := 1; i+1 < len(parts); i += 2 {
			ps = append(ps, [2]string{parts[i], parts[i+1]})
		}
		out[strings.TrimSpace(parts[0])] = ps
	}
	return out
}

// CanonicalParamNames maps every parameter of a baseline function to the name it had on the reference tree (same
// position and same type), so that renaming a parameter does not change the provenance strings the rules compare. A
// function whose parameter list changed in length or types keeps its own names.
func (p *Prog) CanonicalParamNames(all map[*ssa.Function]bool) map[*ssa.Parameter]string {
	base := baselineParams()
	out := map[*ssa.Parameter]string{}
	for f := range all {
		if !InModule(f) {
			continue
		}
		ps, ok := base[FuncName(f)]
		if !ok || len(ps) != len(f.Params) {
			continue
		}
		same := true
		for i, prm := range f.Params {
			if ps[i][1] != prm.Type().String() {
				same = false
			}
		}
		if !same {
			continue
		}
		for i, prm := range f.Params {
			if ps[i][0] != "" && ps[i][0] != prm.Name() {
				out[prm] = ps[i][0]
			}
		}
	}
	return out
}

// Inlined records what was expanded (for the evidence).
type Inlined struct{ Caller, Callee, Pos string }

func setUnexported(structPtr interface{}, val interface{}, path ...string) {
	v := reflect.ValueOf(structPtr).Elem()
	for _, name := range path {
		f := v.FieldByName(name)
		if !f.IsValid() {
			panic(fmt.Sprintf("go/ssa layout changed: no field %s in %s", name, v.Type()))
		}
		v = f
	}
	p := reflect.NewAt(v.Type(), unsafe.Pointer(v.UnsafeAddr())).Elem()
	if val == nil {
		p.Set(reflect.Zero(v.Type()))
	} else {
		p.Set(reflect.ValueOf(val))
	}
}

func setBlock(in ssa.Instruction, b *ssa.BasicBlock) {
	v := reflect.ValueOf(in).Elem()
	if f := v.FieldByName("register"); f.IsValid() {
		setUnexported(in, b, "register", "anInstruction", "block")
		return
	}
	setUnexported(in, b, "anInstruction", "block")
}

func newBlock(fn *ssa.Function, comment string) *ssa.BasicBlock {
	b := &ssa.BasicBlock{Comment: comment}
	setUnexported(b, fn, "parent")
	return b
}

// cloneInstr makes a shallow copy with private slices and no referrers.
func cloneInstr(in ssa.Instruction) ssa.Instruction {
	ov := reflect.ValueOf(in)
	nv := reflect.New(ov.Elem().Type())
	nv.Elem().Set(ov.Elem())
	out := nv.Interface().(ssa.Instruction)
	switch x := out.(type) {
	case *ssa.Call:
		x.Call.Args = append([]ssa.Value(nil), x.Call.Args...)
	case *ssa.Phi:
		x.Edges = append([]ssa.Value(nil), x.Edges...)
	case *ssa.MakeClosure:
		x.Bindings = append([]ssa.Value(nil), x.Bindings...)
	case *ssa.Select:
		st := make([]*ssa.SelectState, len(x.States))
		for i, s := range x.States {
			c := *s
			st[i] = &c
		}
		x.States = st
	case *ssa.Return:
		x.Results = append([]ssa.Value(nil), x.Results...)
	}
	if _, isVal := out.(ssa.Value); isVal {
		if f := nv.Elem().FieldByName("register"); f.IsValid() {
			setUnexported(out, nil, "register", "referrers")
		}
	}
	return out
}

func addReferrer(v ssa.Value, user ssa.Instruction) {
	if v == nil {
		return
	}
	if r := v.Referrers(); r != nil {
		*r = append(*r, user)
	}
}

func dropReferrer(v ssa.Value, user ssa.Instruction) {
	if v == nil {
		return
	}
	if r := v.Referrers(); r != nil {
		out := (*r)[:0]
		for _, u := range *r {
			if u != user {
				out = append(out, u)
			}
		}
		*r = out
	}
}

// replaceUses rewrites every use of old by nu in the instructions that refer to old.
func replaceUses(old, nu ssa.Value) {
	r := old.Referrers()
	if r == nil {
		return
	}
	users := append([]ssa.Instruction(nil), *r...)
	for _, u := range users {
		var buf [8]*ssa.Value
		for _, op := range u.Operands(buf[:0]) {
			if *op == old {
				*op = nu
				addReferrer(nu, u)
			}
		}
	}
	*r = nil
}

// flatten: thin private wrappers of the reference tree between a handler and the primitive it calls. They are expanded
// too, so that the rules see the same code whether such a wrapper exists, was merged into its caller, or was split
// further: the rules about them are written against the flattened handler.
var flatten = map[string]bool{
	"(*airgapped.Machine).encryptDataForParticipant":  true,
	"(*airgapped.Machine).decryptDataFromParticipant": true,
	"(*airgapped.Machine).createPartialSign":          true,
	"pkg/wc_rotation.computeForkDataRoot":             true,
}

func inlinable(h *ssa.Function, baseline map[string]bool) bool {
	if h == nil || len(h.Blocks) == 0 || (h.Synthetic != "" && !strings.HasPrefix(h.Synthetic, "instance of")) || !InModule(h) || h.Recover != nil || (h.TypeParams().Len() > 0 && len(h.TypeArgs()) == 0) {
		return false
	}
	if baseline[FuncName(h)] && !flatten[FuncName(h)] {
		return false
	}
	if h.Pkg != nil && (strings.Contains(h.Pkg.Pkg.Path(), "/mocks/") || strings.HasSuffix(h.Pkg.Pkg.Path(), "_test")) {
		return false
	}
	for _, b := range h.Blocks {
		for _, in := range b.Instrs {
			switch in.(type) {
			case *ssa.Defer, *ssa.RunDefers, *ssa.Go:
				return false
			}
		}
	}
	return true
}

// inlineCall expands call (an instruction of block blk at index idx of fn) to h.
func inlineCall(fn *ssa.Function, blk *ssa.BasicBlock, idx int, call *ssa.Call, h *ssa.Function, free []ssa.Value) {
	// 1. split the block: blk keeps [0,idx), cont gets (idx, end]
	cont := newBlock(fn, "inline.cont")
	cont.Instrs = append([]ssa.Instruction(nil), blk.Instrs[idx+1:]...)
	for _, in := range cont.Instrs {
		setBlock(in, cont)
	}
	cont.Succs = blk.Succs
	for _, s := range cont.Succs {
		for i, p := range s.Preds {
			if p == blk {
				s.Preds[i] = cont
			}
		}
	}
	blk.Instrs = blk.Instrs[:idx:idx]
	blk.Succs = nil

	// 2. clone the callee's blocks
	vmap := map[ssa.Value]ssa.Value{}
	for i, p := range h.Params {
		vmap[p] = call.Call.Args[i]
	}
	for i, fv := range h.FreeVars {
		if i < len(free) {
			vmap[fv] = free[i]
		}
	}
	bmap := map[*ssa.BasicBlock]*ssa.BasicBlock{}
	var nblocks []*ssa.BasicBlock
	for _, hb := range h.Blocks {
		nb := newBlock(fn, "inline."+h.Name()+"."+hb.Comment)
		bmap[hb] = nb
		nblocks = append(nblocks, nb)
	}
	type retInfo struct {
		from    *ssa.BasicBlock
		results []ssa.Value
	}
	var rets []retInfo
	var cloned []ssa.Instruction
	for _, hb := range h.Blocks {
		nb := bmap[hb]
		for _, in := range hb.Instrs {
			if ret, ok := in.(*ssa.Return); ok {
				j := &ssa.Jump{}
				setBlock(j, nb)
				nb.Instrs = append(nb.Instrs, j)
				rets = append(rets, retInfo{nb, append([]ssa.Value(nil), ret.Results...)})
				continue
			}
			ci := cloneInstr(in)
			setBlock(ci, nb)
			nb.Instrs = append(nb.Instrs, ci)
			cloned = append(cloned, ci)
			if ov, ok := in.(ssa.Value); ok {
				vmap[ov] = ci.(ssa.Value)
			}
			if al, ok := ci.(*ssa.Alloc); ok && !al.Heap {
				fn.Locals = append(fn.Locals, al)
			}
		}
		for _, s := range hb.Succs {
			nb.Succs = append(nb.Succs, bmap[s])
		}
		for _, p := range hb.Preds {
			nb.Preds = append(nb.Preds, bmap[p])
		}
	}
	remap := func(v ssa.Value) ssa.Value {
		if nv, ok := vmap[v]; ok {
			return nv
		}
		return v
	}
	for _, ci := range cloned {
		var buf [8]*ssa.Value
		for _, op := range ci.Operands(buf[:0]) {
			if *op == nil {
				continue
			}
			*op = remap(*op)
			addReferrer(*op, ci)
		}
	}
	// 3. wire: blk -> entry ; returns -> cont
	entry := bmap[h.Blocks[0]]
	j := &ssa.Jump{}
	setBlock(j, blk)
	blk.Instrs = append(blk.Instrs, j)
	blk.Succs = []*ssa.BasicBlock{entry}
	entry.Preds = append(entry.Preds, blk)
	cont.Preds = nil
	for _, r := range rets {
		r.from.Succs = []*ssa.BasicBlock{cont}
		cont.Preds = append(cont.Preds, r.from)
	}
	// 4. results
	nres := h.Signature.Results().Len()
	results := make([]ssa.Value, nres)
	var phis []ssa.Instruction
	for i := 0; i < nres; i++ {
		switch len(rets) {
		case 0:
		case 1:
			results[i] = remap(rets[0].results[i])
		default:
			phi := &ssa.Phi{Comment: "inline." + h.Name()}
			for _, r := range rets {
				phi.Edges = append(phi.Edges, remap(r.results[i]))
			}
			setUnexported(phi, h.Signature.Results().At(i).Type(), "register", "typ")
			setUnexported(phi, call.Pos(), "register", "pos")
			setBlock(phi, cont)
			for _, e := range phi.Edges {
				addReferrer(e, phi)
			}
			phis = append(phis, phi)
			results[i] = phi
		}
	}
	cont.Instrs = append(phis, cont.Instrs...)
	// 5. replace the uses of the call
	for _, a := range call.Call.Args {
		dropReferrer(a, call)
	}
	dropReferrer(call.Call.Value, call)
	if nres == 1 {
		if results[0] != nil {
			replaceUses(call, results[0])
		}
	} else if nres > 1 {
		users := append([]ssa.Instruction(nil), *call.Referrers()...)
		for _, u := range users {
			ex, ok := u.(*ssa.Extract)
			if !ok || ex.Tuple != ssa.Value(call) {
				continue
			}
			if results[ex.Index] != nil {
				replaceUses(ex, results[ex.Index])
			}
			// delete the extract
			eb := ex.Block()
			for k, in := range eb.Instrs {
				if in == ssa.Instruction(ex) {
					eb.Instrs = append(eb.Instrs[:k:k], eb.Instrs[k+1:]...)
					break
				}
			}
		}
	}
	// 6. register the new blocks
	fn.Blocks = append(fn.Blocks, nblocks...)
	fn.Blocks = append(fn.Blocks, cont)
	for i, b := range fn.Blocks {
		b.Index = i
	}
}

func (p *Prog) inTestFile(f *ssa.Function) bool {
	for g := f; g != nil; g = g.Parent() {
		if g.Pos().IsValid() {
			return strings.HasSuffix(p.Fset.Position(g.Pos()).Filename, "_test.go")
		}
	}
	return false
}

func callsItself(h *ssa.Function) bool {
	for _, b := range h.Blocks {
		for _, in := range b.Instrs {
			if c, ok := in.(ssa.CallInstruction); ok && c.Common().StaticCallee() == h {
				return true
			}
		}
	}
	return false
}

// InlineNewFunctions expands calls to non-baseline module functions in every module function.
func (p *Prog) InlineNewFunctions(all map[*ssa.Function]bool) []Inlined {
	baseline := baselineSet()
	if len(baseline) < 500 {
		panic("baseline function list missing or truncated")
	}
	var done []Inlined
	for fn := range all {
		if !InModule(fn) || len(fn.Blocks) == 0 || fn.Synthetic != "" || p.inTestFile(fn) {
			continue
		}
		for round := 0; round < 80; round++ {
			found := false
		scan:
			for _, b := range fn.Blocks {
				for i, in := range b.Instrs {
					call, ok := in.(*ssa.Call)
					if !ok || call.Call.IsInvoke() {
						continue
					}
					var h *ssa.Function
					var free []ssa.Value
					switch v := call.Call.Value.(type) {
					case *ssa.Function:
						h = v
					case *ssa.MakeClosure:
						h, _ = v.Fn.(*ssa.Function)
						free = v.Bindings
					case *ssa.UnOp:
						// a local closure that other closures capture lives in a variable cell: `write := func…` called as
						// (*cell)(…) — directly, or from a closure that was itself expanded here
						if v.Op == token.MUL {
							if mc := singleClosureCell(v.X); mc != nil {
								h, _ = mc.Fn.(*ssa.Function)
								free = mc.Bindings
							}
						}
					}
					if h == nil || h == fn || p.inTestFile(h) || !inlinable(h, baseline) || callsItself(h) || len(call.Call.Args) != len(h.Params) {
						continue
					}
					done = append(done, Inlined{FuncName(fn), FuncName(h), p.Pos(call.Pos())})
					if p.inlinedCallees == nil {
						p.inlinedCallees = map[*ssa.Function]bool{}
					}
					p.inlinedCallees[h] = true
					inlineCall(fn, b, i, call, h, free)
					found = true
					break scan
				}
			}
			if !found {
				break
			}
		}
	}
	// tidy the control flow of the functions that were changed: a block that only jumps to a block with no other
	// predecessor is joined with it (restores the block structure the code would have had if written in line)
	touched := map[string]bool{}
	for _, d := range done {
		touched[d.Caller] = true
	}
	for fn := range all {
		if touched[FuncName(fn)] {
			mergeLinearBlocks(fn)
			for threadPhiOnlyBlocks(fn) {
				mergeLinearBlocks(fn)
			}
		}
	}
	return done
}

func mergeLinearBlocks(fn *ssa.Function) {
	for changed := true; changed; {
		changed = false
		for _, b := range fn.Blocks {
			if len(b.Instrs) == 0 || len(b.Succs) != 1 {
				continue
			}
			if _, isJump := b.Instrs[len(b.Instrs)-1].(*ssa.Jump); !isJump {
				continue
			}
			s := b.Succs[0]
			if s == b || s == fn.Blocks[0] || s == fn.Recover || len(s.Preds) != 1 || s.Preds[0] != b {
				continue
			}
			// single-predecessor phis are copies
			ok := true
			for _, in := range s.Instrs {
				if phi, isPhi := in.(*ssa.Phi); isPhi && len(phi.Edges) != 1 {
					ok = false
				}
			}
			if !ok {
				continue
			}
			b.Instrs = b.Instrs[:len(b.Instrs)-1]
			for _, in := range s.Instrs {
				if phi, isPhi := in.(*ssa.Phi); isPhi {
					for _, e := range phi.Edges {
						dropReferrer(e, phi)
					}
					replaceUses(phi, phi.Edges[0])
					continue
				}
				setBlock(in, b)
				b.Instrs = append(b.Instrs, in)
			}
			b.Succs = s.Succs
			for _, t := range s.Succs {
				for i, p := range t.Preds {
					if p == s {
						t.Preds[i] = b
					}
				}
			}
			// remove s
			var nb []*ssa.BasicBlock
			for _, x := range fn.Blocks {
				if x != s {
					nb = append(nb, x)
				}
			}
			fn.Blocks = nb
			for i, x := range fn.Blocks {
				x.Index = i
			}
			changed = true
			break
		}
	}
}

// singleClosureCell: addr is a local variable cell that is assigned exactly once, a closure literal, and is otherwise
// only read (directly or through closures that capture it without assigning to it). Returns that closure.
func singleClosureCell(addr ssa.Value) *ssa.MakeClosure {
	al, ok := addr.(*ssa.Alloc)
	if !ok || al.Referrers() == nil {
		return nil
	}
	var mc *ssa.MakeClosure
	for _, ref := range *al.Referrers() {
		switch r := ref.(type) {
		case *ssa.Store:
			if r.Addr != ssa.Value(al) {
				return nil // the cell's address is stored somewhere
			}
			m, isMC := r.Val.(*ssa.MakeClosure)
			if !isMC || mc != nil {
				return nil
			}
			mc = m
		case *ssa.UnOp, *ssa.DebugRef:
		case *ssa.MakeClosure:
			// captured: the capturing closure must only read it
			cf, _ := r.Fn.(*ssa.Function)
			if cf == nil {
				return nil
			}
			for i, b := range r.Bindings {
				if b != ssa.Value(al) || i >= len(cf.FreeVars) {
					continue
				}
				fv := cf.FreeVars[i]
				if fv.Referrers() == nil {
					continue
				}
				for _, fr := range *fv.Referrers() {
					switch fr.(type) {
					case *ssa.UnOp, *ssa.DebugRef:
					default:
						return nil
					}
				}
			}
		default:
			return nil
		}
	}
	return mc
}

// threadPhiOnlyBlocks: a block P that holds nothing but phis and a jump to K, whose phis are used only by K's phis,
// is a pure merge point in front of another merge (the `return err` of an expanded helper whose err variable was
// assigned on several paths, followed by the caller's `if err != nil`). Its predecessors are connected to K directly
// and K's phis take the values P's phis would have passed on — the block structure the code has when written in line,
// and the form in which the per-predecessor reasoning about merged error values applies. Returns true if it changed fn.
func threadPhiOnlyBlocks(fn *ssa.Function) bool {
	for _, P := range fn.Blocks {
		if P == fn.Blocks[0] || P == fn.Recover || len(P.Succs) != 1 || len(P.Instrs) < 2 || len(P.Preds) < 2 {
			continue
		}
		if _, isJump := P.Instrs[len(P.Instrs)-1].(*ssa.Jump); !isJump {
			continue
		}
		K := P.Succs[0]
		if K == P || K == fn.Blocks[0] || K == fn.Recover {
			continue
		}
		ok := true
		pphis := map[ssa.Value]*ssa.Phi{}
		for _, in := range P.Instrs[:len(P.Instrs)-1] {
			phi, isPhi := in.(*ssa.Phi)
			if !isPhi || len(phi.Edges) != len(P.Preds) {
				ok = false
				break
			}
			pphis[phi] = phi
			if phi.Referrers() != nil {
				for _, ref := range *phi.Referrers() {
					kphi, isK := ref.(*ssa.Phi)
					if !isK || kphi.Block() != K {
						ok = false
					}
				}
			}
		}
		if !ok || len(pphis) == 0 {
			continue
		}
		idx, n := -1, 0
		for i, q := range K.Preds {
			if q == P {
				idx = i
				n++
			}
		}
		if n != 1 {
			continue
		}
		dup := false
		for _, q := range P.Preds {
			for _, kq := range K.Preds {
				if kq == q {
					dup = true
				}
			}
			cnt := 0
			for _, sq := range q.Succs {
				if sq == P {
					cnt++
				}
			}
			if cnt != 1 {
				dup = true
			}
		}
		if dup {
			continue
		}
		// K's phis
		for _, in := range K.Instrs {
			kphi, isPhi := in.(*ssa.Phi)
			if !isPhi {
				continue
			}
			if len(kphi.Edges) != len(K.Preds) {
				ok = false
			}
		}
		if !ok {
			continue
		}
		for _, in := range K.Instrs {
			kphi, isPhi := in.(*ssa.Phi)
			if !isPhi {
				continue
			}
			vP := kphi.Edges[idx]
			var edges []ssa.Value
			for i, e := range kphi.Edges {
				if i != idx {
					edges = append(edges, e)
				}
			}
			dropReferrer(vP, kphi)
			for j := range P.Preds {
				nv := vP
				if pp, isP := pphis[vP]; isP {
					nv = pp.Edges[j]
				}
				edges = append(edges, nv)
				addReferrer(nv, kphi)
			}
			kphi.Edges = edges
		}
		var preds []*ssa.BasicBlock
		for i, q := range K.Preds {
			if i != idx {
				preds = append(preds, q)
			}
		}
		preds = append(preds, P.Preds...)
		K.Preds = preds
		for _, q := range P.Preds {
			for i, sq := range q.Succs {
				if sq == P {
					q.Succs[i] = K
				}
			}
		}
		for _, pp := range pphis {
			for _, e := range pp.Edges {
				dropReferrer(e, pp)
			}
		}
		var nb []*ssa.BasicBlock
		for _, x := range fn.Blocks {
			if x != P {
				nb = append(nb, x)
			}
		}
		fn.Blocks = nb
		for i, x := range fn.Blocks {
			x.Index = i
		}
		return true
	}
	return false
}
