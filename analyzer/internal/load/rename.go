package load

import (
	"go/types"
	"sort"
	"strings"

	"dcverif/internal/ssax"

	"golang.org/x/tools/go/ssa"
)

// Renamed records a function that is treated as a baseline function under a new name.
type Renamed struct {
	Old, New, Pos string
}

// detectRenames: the rule tables anchor on functions of the reference tree by (package, receiver, name). A maintainer who
// renames an unexported helper (send -> appendMessage) has changed no behaviour, but the anchor would dangle and the new
// name — not being on the reference list — would be expanded into its callers. So: a baseline function that is missing
// from this tree and a function of this tree that is not on the baseline are taken to be the same function when they
// have the same package and receiver and identical parameter types, and the match is unique in both directions. The
// function is then analysed under its reference name (its SSA name, its FuncID and the anchor lookup answer to the old
// name); it is listed in the evidence ("treated as renamed"). Anything less clear-cut is left alone: the anchor stays
// unresolved and the check fails as undecided, as before.
func (p *Prog) detectRenames(all map[*ssa.Function]bool) []Renamed {
	base := baselineParams()
	present := map[string]bool{}
	var fresh []*ssa.Function
	for f := range all {
		if !InModule(f) || f.Synthetic != "" || f.Parent() != nil || p.inTestFile(f) {
			continue
		}
		n := FuncName(f)
		present[n] = true
		if _, ok := base[n]; !ok && !strings.Contains(n, "$") {
			fresh = append(fresh, f)
		}
	}
	container := func(name string) string {
		if i := strings.LastIndex(name, "."); i >= 0 {
			return name[:i]
		}
		return ""
	}
	sameParams := func(f *ssa.Function, ps [][2]string) bool {
		if len(f.Params) != len(ps) {
			return false
		}
		for i, prm := range f.Params {
			if prm.Type().String() != ps[i][1] {
				return false
			}
		}
		return true
	}
	var missing []string
	for b := range base {
		if !present[b] && !strings.Contains(b, "$") {
			missing = append(missing, b)
		}
	}
	sort.Strings(missing)
	candOf := map[string][]*ssa.Function{}
	claimed := map[*ssa.Function][]string{}
	for _, b := range missing {
		for _, f := range fresh {
			if container(FuncName(f)) == container(b) && sameParams(f, base[b]) {
				candOf[b] = append(candOf[b], f)
				claimed[f] = append(claimed[f], b)
			}
		}
	}
	var out []Renamed
	for _, b := range missing {
		if len(candOf[b]) != 1 || len(claimed[candOf[b][0]]) != 1 {
			continue
		}
		f := candOf[b][0]
		old := b[strings.LastIndex(b, ".")+1:]
		out = append(out, Renamed{Old: b, New: FuncName(f), Pos: p.Pos(f.Pos())})
		if obj, ok := f.Object().(*types.Func); ok && obj != nil {
			ssax.FuncAlias[obj] = old
		}
		setUnexported(f, old, "name")
		if p.renamed == nil {
			p.renamed = map[string]*ssa.Function{}
		}
		p.renamed[b] = f
	}
	return out
}
