package load

import (
	_ "embed"
	"go/types"
	"sort"
	"strings"

	"dcverif/internal/ssax"

	"golang.org/x/tools/go/ssa"
)

// Renamed records a function that is treated as a baseline function under a new name.
type Renamed struct {
	Old, New, Pos string
}

// detectRenames: the rule tables anchor on functions of the reference tree by (package, receiver, name). A maintainer who
// renames an unexported helper (send -> appendMessage) has changed no behaviour, but the anchor would dangle and the new
// name — not being on the reference list — would be expanded into its callers. So: a baseline function that is missing
// from this tree and a function of this tree that is not on the baseline are taken to be the same function when they
// have the same package and receiver and identical parameter types, and the match is unique in both directions. The
// function is then analysed under its reference name (its SSA name, its FuncID and the anchor lookup answer to the old
// name); it is listed in the evidence ("treated as renamed"). Anything less clear-cut is left alone: the anchor stays
// unresolved and the check fails as undecided, as before.
func (p *Prog) detectRenames(all map[*ssa.Function]bool) []Renamed {
	base := baselineParams()
	present := map[string]bool{}
	var fresh []*ssa.Function
	for f := range all {
		if !InModule(f) || f.Synthetic != "" || f.Parent() != nil || p.inTestFile(f) {
			continue
		}
		n := FuncName(f)
		present[n] = true
		if _, ok := base[n]; !ok && !strings.Contains(n, "$") {
			fresh = append(fresh, f)
		}
	}
	container := func(name string) string {
		if i := strings.LastIndex(name, "."); i >= 0 {
			return name[:i]
		}
		return ""
	}
	sameParams := func(f *ssa.Function, ps [][2]string) bool {
		if len(f.Params) != len(ps) {
			return false
		}
		for i, prm := range f.Params {
			if prm.Type().String() != ps[i][1] {
				return false
			}
		}
		return true
	}
	var missing []string
	for b := range base {
		if !present[b] && !strings.Contains(b, "$") {
			missing = append(missing, b)
		}
	}
	sort.Strings(missing)
	candOf := map[string][]*ssa.Function{}
	claimed := map[*ssa.Function][]string{}
	for _, b := range missing {
		for _, f := range fresh {
			if container(FuncName(f)) == container(b) && sameParams(f, base[b]) {
				candOf[b] = append(candOf[b], f)
				claimed[f] = append(claimed[f], b)
			}
		}
	}
	// several functions of one shape renamed at once (callbacks, handlers): pair them by what they do. A pair is taken
	// when it is the best match for BOTH sides, clearly (similarity >= 0.6 and 0.08 ahead of either side's runner-up).
	baseFP := baselineFingerprints()
	volatile := map[string]bool{}
	for _, b := range missing {
		volatile[b] = true
	}
	for _, f := range fresh {
		volatile[FuncName(f)] = true
	}
	ignore := func(tok string) bool {
		if !strings.HasPrefix(tok, "call:") {
			return false
		}
		n := strings.TrimPrefix(tok, "call:")
		n = strings.ReplaceAll(strings.ReplaceAll(n, Module+"/", ""), Module, "dc4bc")
		return volatile[n]
	}
	freshFP := map[*ssa.Function]map[string]int{}
	score := func(b string, f *ssa.Function) float64 {
		if freshFP[f] == nil {
			freshFP[f] = fingerprint(f)
		}
		return similarity(baseFP[b], freshFP[f], ignore)
	}
	best := func(xs []float64) (int, float64, float64) {
		bi, b1, b2 := -1, -1.0, -1.0
		for i, x := range xs {
			if x > b1 {
				bi, b2, b1 = i, b1, x
			} else if x > b2 {
				b2 = x
			}
		}
		return bi, b1, b2
	}
	for _, b := range missing {
		cs := candOf[b]
		if len(cs) == 1 && len(claimed[cs[0]]) == 1 {
			// unique by shape — but a function that was REPLACED by another one of the same shape (getBaseSeed removed,
			// generateBaseSeed added) is not a rename: what the two do must also be alike
			if baseFP[b] != nil && score(b, cs[0]) < 0.5 {
				candOf[b] = nil
			}
			continue
		}
		if len(cs) == 0 || baseFP[b] == nil {
			continue
		}
		var sc []float64
		for _, f := range cs {
			sc = append(sc, score(b, f))
		}
		bi, s1, s2 := best(sc)
		if bi < 0 || s1 < 0.6 || s1-s2 < 0.08 {
			candOf[b] = nil
			continue
		}
		f := cs[bi]
		// f's best baseline must be b, clearly
		var back []float64
		for _, b2 := range claimed[f] {
			back = append(back, score(b2, f))
		}
		bj, t1, t2 := best(back)
		if bj < 0 || claimed[f][bj] != b || t1-t2 < 0.08 {
			candOf[b] = nil
			continue
		}
		candOf[b] = []*ssa.Function{f}
		claimed[f] = []string{b}
	}
	var out []Renamed
	for _, b := range missing {
		if len(candOf[b]) != 1 || len(claimed[candOf[b][0]]) != 1 {
			continue
		}
		f := candOf[b][0]
		old := b[strings.LastIndex(b, ".")+1:]
		out = append(out, Renamed{Old: b, New: FuncName(f), Pos: p.Pos(f.Pos())})
		if obj, ok := f.Object().(*types.Func); ok && obj != nil {
			ssax.FuncAlias[obj] = old
		}
		setUnexported(f, old, "name")
		if p.renamed == nil {
			p.renamed = map[string]*ssa.Function{}
		}
		p.renamed[b] = f
	}
	return out
}

//go:embed baseline_fields.txt
var baselineFields string

// RenamedField records a struct field analysed under the name it had on the reference tree.
type RenamedField struct {
	Type, Old, New string
}

// structFieldsOf lists the struct types declared in the module packages: "pkgpath.Type" -> fields (name, type, tag).
func structFieldsOf(pkgs []*types.Package) map[string][][3]string {
	out := map[string][][3]string{}
	for _, pk := range pkgs {
		sc := pk.Scope()
		for _, n := range sc.Names() {
			tn, ok := sc.Lookup(n).(*types.TypeName)
			if !ok || tn.IsAlias() {
				continue
			}
			st, ok := tn.Type().Underlying().(*types.Struct)
			if !ok {
				continue
			}
			var fs [][3]string
			for i := 0; i < st.NumFields(); i++ {
				fs = append(fs, [3]string{st.Field(i).Name(), st.Field(i).Type().String(), st.Tag(i)})
			}
			out[pk.Path()+"."+n] = fs
		}
	}
	return out
}

func dumpStructFields(pkgs []*types.Package) string {
	m := structFieldsOf(pkgs)
	var keys []string
	for k := range m {
		keys = append(keys, k)
	}
	sort.Strings(keys)
	var b strings.Builder
	b.WriteString("# struct types of the reference tree: type<TAB>(field<TAB>type<TAB>tag)* — see rename.go\n")
	for _, k := range keys {
		b.WriteString(k)
		for _, f := range m[k] {
			b.WriteString("\t" + f[0] + "\t" + f[1] + "\t" + strings.ReplaceAll(f[2], "\t", " "))
		}
		b.WriteString("\n")
	}
	return b.String()
}

// detectFieldRenames: rules name struct fields (…PubPolyBz, …BatchID, the mutex of a repository). A field that was only
// renamed — same struct, same type, same tag, and either the same position in a struct of unchanged length or the unique
// candidate among the fields that disappeared/appeared — is analysed under its reference name: the *types.Var is given
// its old name, so access paths, FieldOf(...).Name() and the JSON walk all see the reference spelling. (The wire name
// is the tag or — for untagged fields — the Go name: an untagged EXPORTED field of a type that is marshalled changes
// its wire name when renamed; such a rename is not behaviour-preserving and is deliberately not followed.)
func detectFieldRenames(pkgs []*types.Package) []RenamedField {
	base := map[string][][3]string{}
	for _, l := range strings.Split(baselineFields, "\n") {
		if strings.TrimSpace(l) == "" || strings.HasPrefix(l, "#") {
			continue
		}
		parts := strings.Split(l, "\t")
		var fs [][3]string
		for i := 1; i+2 < len(parts); i += 3 {
			fs = append(fs, [3]string{parts[i], parts[i+1], parts[i+2]})
		}
		base[parts[0]] = fs
	}
	var out []RenamedField
	for _, pk := range pkgs {
		sc := pk.Scope()
		for _, n := range sc.Names() {
			tn, ok := sc.Lookup(n).(*types.TypeName)
			if !ok || tn.IsAlias() {
				continue
			}
			st, ok := tn.Type().Underlying().(*types.Struct)
			if !ok {
				continue
			}
			key := pk.Path() + "." + n
			bf, ok := base[key]
			if !ok {
				continue
			}
			cur := map[string]int{}
			for i := 0; i < st.NumFields(); i++ {
				cur[st.Field(i).Name()] = i
			}
			was := map[string]int{}
			for i, f := range bf {
				was[f[0]] = i
			}
			followable := func(i int, old [3]string) bool {
				f := st.Field(i)
				if f.Type().String() != old[1] || strings.ReplaceAll(st.Tag(i), "\t", " ") != old[2] {
					return false
				}
				// an untagged exported field's Go name is its wire name
				if f.Exported() && !strings.Contains(st.Tag(i), "json:") && old[0] != "" && strings.ToUpper(old[0][:1]) == old[0][:1] {
					return false
				}
				return !f.Embedded()
			}
			var gone, fresh []int
			for i, f := range bf {
				if _, still := cur[f[0]]; !still {
					gone = append(gone, i)
				}
			}
			for i := 0; i < st.NumFields(); i++ {
				if _, had := was[st.Field(i).Name()]; !had {
					fresh = append(fresh, i)
				}
			}
			for _, gi := range gone {
				var cands []int
				for _, fi := range fresh {
					if followable(fi, bf[gi]) {
						cands = append(cands, fi)
					}
				}
				pick := -1
				if len(cands) == 1 {
					pick = cands[0]
				} else if len(cands) > 1 && len(bf) == st.NumFields() {
					for _, ci := range cands {
						if ci == gi {
							pick = ci
						}
					}
				}
				if pick < 0 {
					continue
				}
				// the candidate must not be claimed by another vanished field of the same shape (unless by position)
				claims := 0
				for _, g2 := range gone {
					if followable(pick, bf[g2]) {
						claims++
					}
				}
				if claims > 1 && !(len(bf) == st.NumFields() && pick == gi) {
					continue
				}
				v := st.Field(pick)
				out = append(out, RenamedField{Type: key, Old: bf[gi][0], New: v.Name()})
				setUnexported(v, bf[gi][0], "object", "name")
				var nf []int
				for _, fi := range fresh {
					if fi != pick {
						nf = append(nf, fi)
					}
				}
				fresh = nf
			}
		}
	}
	return out
}

//go:embed baseline_fp.txt
var baselineFP string

// fingerprint: what a function calls, which constants it mentions and which fields it touches — enough to tell apart
// functions that share a signature (the FSM callbacks, the airgapped handlers) when several of them are renamed at once.
func fingerprint(f *ssa.Function) map[string]int {
	fp := map[string]int{}
	for _, b := range f.Blocks {
		for _, in := range b.Instrs {
			switch x := in.(type) {
			case ssa.CallInstruction:
				cc := x.Common()
				if cc.IsInvoke() {
					fp["invoke:"+cc.Method.Name()]++
				} else if sc := cc.StaticCallee(); sc != nil {
					fp["call:"+sc.String()]++
				}
			case *ssa.FieldAddr:
				if st, ok := x.X.Type().Underlying().(*types.Pointer); ok {
					if s, ok := st.Elem().Underlying().(*types.Struct); ok && x.Field < s.NumFields() {
						fp["field:"+s.Field(x.Field).Name()]++
					}
				}
			}
			for _, op := range in.Operands(nil) {
				if op == nil || *op == nil {
					continue
				}
				if k, ok := (*op).(*ssa.Const); ok && k.Value != nil {
					s := k.Value.ExactString()
					if len(s) > 2 && len(s) < 60 && s != "true" && s != "false" {
						fp["const:"+s]++
					}
				}
			}
		}
	}
	return fp
}

func dumpFingerprints(all map[*ssa.Function]bool) string {
	var lines []string
	for f := range all {
		if !InModule(f) || f.Synthetic != "" || f.Parent() != nil {
			continue
		}
		fp := fingerprint(f)
		var toks []string
		for t, n := range fp {
			toks = append(toks, t+"#"+itoa(n))
		}
		sort.Strings(toks)
		lines = append(lines, FuncName(f)+"\t"+strings.Join(toks, "\t"))
	}
	sort.Strings(lines)
	return "# fingerprints of the reference tree's functions (callees, constants, fields) — see rename.go\n" + strings.Join(lines, "\n") + "\n"
}

func itoa(n int) string {
	if n == 0 {
		return "0"
	}
	s := ""
	for n > 0 {
		s = string(rune('0'+n%10)) + s
		n /= 10
	}
	return s
}

func baselineFingerprints() map[string]map[string]int {
	out := map[string]map[string]int{}
	for _, l := range strings.Split(baselineFP, "\n") {
		if strings.TrimSpace(l) == "" || strings.HasPrefix(l, "#") {
			continue
		}
		parts := strings.Split(l, "\t")
		fp := map[string]int{}
		for _, t := range parts[1:] {
			if i := strings.LastIndex(t, "#"); i > 0 {
				n := 0
				for _, ch := range t[i+1:] {
					n = n*10 + int(ch-'0')
				}
				fp[t[:i]] = n
			}
		}
		out[parts[0]] = fp
	}
	return out
}

// similarity: weighted Jaccard of two fingerprints, ignoring the tokens in `ignore` (calls to functions that are
// themselves being matched: their names differ between the two trees by construction).
func similarity(a, b map[string]int, ignore func(string) bool) float64 {
	inter, union := 0, 0
	seen := map[string]bool{}
	for t, n := range a {
		if ignore(t) {
			continue
		}
		seen[t] = true
		m := b[t]
		if m < n {
			inter += m
			union += n
		} else {
			inter += n
			union += m
		}
	}
	for t, m := range b {
		if ignore(t) || seen[t] {
			continue
		}
		union += m
	}
	if union == 0 {
		return 0
	}
	return float64(inter) / float64(union)
}


// newUnimportedPackages: a package that does not exist on the reference tree, is not a command, and is imported by no
// non-test file of the module cannot influence what the daemons do: nothing reachable from any entry point calls into
// it (test fixtures, example helpers, a tool library not wired in yet). Its functions are treated like test code by
// the censuses (writers of a field, callers of a setter, panic sites), exactly as `_test.go` files are.
func newUnimportedPackages(pkgs []*types.Package) map[*types.Package]bool {
	basePk := map[string]bool{}
	for name := range baselineParams() {
		// "(*a/b.T).m" | "(a/b.T).m" | "a/b.f" | "a/b.f$1"
		n := strings.TrimLeft(name, "(*")
		if i := strings.LastIndex(n, "."); i >= 0 {
			n = n[:i]
		}
		if j := strings.LastIndex(n, "."); j >= 0 && strings.Contains(name, ")") {
			n = n[:j]
		}
		basePk[n] = true
	}
	for _, l := range strings.Split(baselineFields, "\n") {
		if i := strings.Index(l, "\t"); i > 0 {
			k := l[:i]
			if j := strings.LastIndex(k, "."); j >= 0 {
				basePk[strings.TrimPrefix(strings.TrimPrefix(k[:j], Module+"/"), Module)] = true
			}
		}
	}
	imported := map[*types.Package]bool{}
	for _, pk := range pkgs {
		for _, im := range pk.Imports() {
			imported[im] = true
		}
	}
	out := map[*types.Package]bool{}
	for _, pk := range pkgs {
		rel := strings.TrimPrefix(strings.TrimPrefix(pk.Path(), Module+"/"), Module)
		if pk.Name() == "main" || imported[pk] || basePk[rel] || strings.HasSuffix(pk.Path(), "_test") {
			continue
		}
		out[pk] = true
	}
	return out
}
