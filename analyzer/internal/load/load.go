// Package load loads /repo's current working tree into a type-checked program
// with SSA and a VTA call graph. Nothing is cached between runs.
package load

import (
	"fmt"
	"go/ast"
	"go/token"
	"go/types"
	"os"
	"sort"
	"strings"

	"dcverif/internal/ssax"

	"golang.org/x/tools/go/callgraph"
	"golang.org/x/tools/go/callgraph/cha"
	"golang.org/x/tools/go/callgraph/vta"
	"golang.org/x/tools/go/packages"
	"golang.org/x/tools/go/ssa"
	"golang.org/x/tools/go/ssa/ssautil"
)

const Module = "github.com/lidofinance/dc4bc"

// Prog is the loaded program.
type Prog struct {
	Dir            string
	Fset           *token.FileSet
	Pkgs           []*packages.Package          // module packages only
	ByPath         map[string]*packages.Package // all packages (incl. deps)
	SSA            *ssa.Program
	SSAPkgs        map[string]*ssa.Package
	cg             *callgraph.Graph
	Tests          bool
	GOARCH         string
	NModule        int
	NAll           int
	allFuncs       map[*ssa.Function]bool
	Inlined        []Inlined
	RenamedFuncs   []Renamed
	RenamedFields  []RenamedField
	DeadNewPkgs    map[*types.Package]bool
	renamed        map[string]*ssa.Function
	inlinedCallees map[*ssa.Function]bool
}

type Options struct {
	Dir    string
	Tests  bool
	GOARCH string
}

// Load type-checks every package of the module under dir (full syntax, deps
// included) and builds SSA. Any package error is fatal: a tree that does not
// type-check is "broken", never a pass.
func Load(opt Options) (*Prog, error) {
	env := append(os.Environ(),
		"GOFLAGS=-mod=mod", "GOPROXY=off", "GOSUMDB=off", "GOTOOLCHAIN=local", "GOWORK=off",
		"CGO_ENABLED=1",
	)
	if opt.GOARCH != "" {
		env = append(env, "GOARCH="+opt.GOARCH, "CGO_ENABLED=0")
	}
	fset := token.NewFileSet()
	cfg := &packages.Config{
		Mode:  packages.LoadAllSyntax,
		Dir:   opt.Dir,
		Env:   env,
		Fset:  fset,
		Tests: opt.Tests,
	}
	pkgs, err := packages.Load(cfg, "./...")
	if err != nil {
		return nil, fmt.Errorf("packages.Load: %w", err)
	}
	p := &Prog{Dir: opt.Dir, Fset: fset, ByPath: map[string]*packages.Package{}, Tests: opt.Tests, GOARCH: opt.GOARCH}
	var errs []string
	packages.Visit(pkgs, nil, func(pk *packages.Package) {
		p.NAll++
		if _, dup := p.ByPath[pk.ID]; !dup {
			p.ByPath[pk.ID] = pk
		}
		if strings.HasPrefix(pk.PkgPath, Module) {
			for _, e := range pk.Errors {
				errs = append(errs, e.Error())
			}
		}
	})
	for _, pk := range pkgs {
		if strings.HasPrefix(pk.PkgPath, Module) {
			p.Pkgs = append(p.Pkgs, pk)
		}
	}
	sort.Slice(p.Pkgs, func(i, j int) bool { return p.Pkgs[i].ID < p.Pkgs[j].ID })
	p.NModule = len(p.Pkgs)
	if len(errs) > 0 {
		sort.Strings(errs)
		if len(errs) > 10 {
			errs = errs[:10]
		}
		return nil, fmt.Errorf("type-check errors in module packages:\n  %s", strings.Join(errs, "\n  "))
	}
	if p.NModule < 40 {
		return nil, fmt.Errorf("only %d module packages loaded from %s (expected >= 40)", p.NModule, opt.Dir)
	}
	prog, ssapkgs := ssautil.AllPackages(pkgs, ssa.InstantiateGenerics)
	prog.Build()
	p.SSA = prog
	if os.Getenv("DCVERIF_DUMP_FUNCS") == "" && os.Getenv("DCVERIF_NO_INLINE") == "" {
		// (after SSA construction: the builder resolves keyed composite literals by field NAME; everything the rules read
		// — FieldOf(...).Name(), access paths, the JSON walk — goes through the *types.Var and sees the reference name)
		var tps []*types.Package
		for _, pk := range pkgs {
			if pk.Types != nil && (pk.PkgPath == Module || strings.HasPrefix(pk.PkgPath, Module+"/")) && !strings.HasSuffix(pk.PkgPath, "_test") {
				tps = append(tps, pk.Types)
			}
		}
		p.RenamedFields = detectFieldRenames(tps)
		p.DeadNewPkgs = newUnimportedPackages(tps)
	}

	if dump := os.Getenv("DCVERIF_DUMP_FUNCS"); dump != "" {
		// (maintenance) write the list of module functions of this tree: the baseline of the inliner
		var names []string
		for f := range ssautil.AllFunctions(prog) {
			if InModule(f) && f.Synthetic == "" {
				line := FuncName(f)
				for _, prm := range f.Params {
					line += "\t" + prm.Name() + "\t" + prm.Type().String()
				}
				names = append(names, line)
			}
		}
		sort.Strings(names)
		_ = os.WriteFile(dump, []byte("# module functions of the reference tree; functions not listed here are inlined into their callers (see inline.go)\n"+strings.Join(names, "\n")+"\n"), 0o644)
		var tps []*types.Package
		for _, pk := range pkgs {
			if pk.Types != nil && (pk.PkgPath == Module || strings.HasPrefix(pk.PkgPath, Module+"/")) {
				tps = append(tps, pk.Types)
			}
		}
		_ = os.WriteFile(dump+".fields", []byte(dumpStructFields(tps)), 0o644)
		_ = os.WriteFile(dump+".fp", []byte(dumpFingerprints(ssautil.AllFunctions(prog))), 0o644)
	} else if os.Getenv("DCVERIF_NO_INLINE") == "" {
		all := ssautil.AllFunctions(prog)
		p.RenamedFuncs = p.detectRenames(all)
		p.Inlined = p.InlineNewFunctions(all)
		ssax.ParamNames = p.CanonicalParamNames(all)
	}
	p.SSAPkgs = map[string]*ssa.Package{}
	for i, sp := range ssapkgs {
		if sp == nil {
			continue
		}
		// with Tests=true a path may appear twice (pkg and pkg [pkg.test]); prefer the test variant
		// because it is a superset.
		path := pkgs[i].PkgPath
		if old, ok := p.SSAPkgs[path]; ok && !strings.Contains(pkgs[i].ID, "[") {
			_ = old
			continue
		}
		p.SSAPkgs[path] = sp
	}
	return p, nil
}

// Pkg returns the module package with the given path relative to the module root ("" = root).
func (p *Prog) Pkg(rel string) *packages.Package {
	path := Module
	if rel != "" {
		path += "/" + rel
	}
	var best *packages.Package
	for _, pk := range p.Pkgs {
		if pk.PkgPath == path {
			if best == nil || strings.Contains(pk.ID, "[") {
				best = pk
			}
		}
	}
	return best
}

// SSAPkg returns the SSA package for a module-relative path.
func (p *Prog) SSAPkg(rel string) *ssa.Package {
	path := Module
	if rel != "" {
		path += "/" + rel
	}
	return p.SSAPkgs[path]
}

// Func resolves a function or method by (module-relative package, receiver type name or "", name).
// The receiver may be given with or without '*'; methods on both T and *T are searched.
func (p *Prog) Func(rel, recv, name string) *ssa.Function {
	if f := p.funcByName(rel, recv, name); f != nil {
		return f
	}
	// a baseline function that lives on under another name (see detectRenames)
	r := strings.TrimPrefix(recv, "*")
	for _, k := range []string{rel + "." + name, "(*" + rel + "." + r + ")." + name, "(" + rel + "." + r + ")." + name} {
		if f := p.renamed[k]; f != nil {
			return f
		}
	}
	return nil
}

func (p *Prog) funcByName(rel, recv, name string) *ssa.Function {
	sp := p.SSAPkg(rel)
	if sp == nil {
		return nil
	}
	if recv == "" {
		return sp.Func(name)
	}
	recv = strings.TrimPrefix(recv, "*")
	tn, ok := sp.Pkg.Scope().Lookup(recv).(*types.TypeName)
	if !ok {
		return nil
	}
	for _, t := range []types.Type{tn.Type(), types.NewPointer(tn.Type())} {
		ms := p.SSA.MethodSets.MethodSet(t)
		for i := 0; i < ms.Len(); i++ {
			sel := ms.At(i)
			if sel.Obj().Name() == name && sel.Obj().Pkg() == sp.Pkg {
				// only methods declared on this type (not promoted)
				if f := p.SSA.MethodValue(sel); f != nil && f.Synthetic == "" {
					return f
				}
			}
		}
	}
	return nil
}

// CallGraph builds (once) the VTA call graph over all functions.
func (p *Prog) CallGraph() *callgraph.Graph {
	if p.cg == nil {
		p.allFuncs = ssautil.AllFunctions(p.SSA)
		p.cg = vta.CallGraph(p.allFuncs, cha.CallGraph(p.SSA))
		// helpers that were expanded into all their callers no longer exist as far as the rules are concerned: their
		// bodies are part of the callers now (counting them again would double every census)
		for f := range p.inlinedCallees {
			n := p.cg.Nodes[f]
			live := false
			if n != nil {
				for _, e := range n.In {
					// (promoted-method wrappers of an embedding struct are not callers: nothing calls them)
					if InModule(e.Caller.Func) && !p.inTestFile(e.Caller.Func) && !(e.Caller.Func.Synthetic != "" && len(e.Caller.In) == 0) {
						live = true
					}
				}
			}
			if !live {
				delete(p.allFuncs, f)
			}
		}
	}
	return p.cg
}

// AllFuncs returns every function known to the program (after CallGraph).
func (p *Prog) AllFuncs() map[*ssa.Function]bool {
	p.CallGraph()
	return p.allFuncs
}

// InModule reports whether fn belongs to a module package.
func InModule(fn *ssa.Function) bool {
	if fn == nil {
		return false
	}
	if fn.Pkg != nil {
		return strings.HasPrefix(fn.Pkg.Pkg.Path(), Module)
	}
	if fn.Parent() != nil {
		return InModule(fn.Parent())
	}
	if o := fn.Origin(); o != nil && o != fn {
		return InModule(o)
	}
	// synthetic wrappers ($bound, $thunk, interface method wrappers) have no package: enter them, they only forward
	// to the wrapped method, whose own package decides
	if fn.Synthetic != "" {
		// a promoted-method wrapper of a type declared outside the module (errors.withStack embedding error, …) is
		// dependency code
		if recv := fn.Signature.Recv(); recv != nil {
			t := recv.Type()
			if pt, ok := t.(*types.Pointer); ok {
				t = pt.Elem()
			}
			if nt, ok := t.(*types.Named); ok && nt.Obj().Pkg() != nil {
				return strings.HasPrefix(nt.Obj().Pkg().Path(), Module)
			}
		}
		return true
	}
	return false
}

// Pos renders a position relative to the repo dir.
func (p *Prog) Pos(pos token.Pos) string {
	if !pos.IsValid() {
		return "-"
	}
	ps := p.Fset.Position(pos)
	f := strings.TrimPrefix(ps.Filename, p.Dir+"/")
	return fmt.Sprintf("%s:%d", f, ps.Line)
}

// FuncDecl finds the AST declaration of fn.
func (p *Prog) FuncDecl(fn *ssa.Function) (*ast.FuncDecl, *packages.Package) {
	if fn == nil || fn.Pkg == nil {
		return nil, nil
	}
	for _, pk := range p.Pkgs {
		if pk.Types != fn.Pkg.Pkg {
			continue
		}
		for _, f := range pk.Syntax {
			for _, d := range f.Decls {
				if fd, ok := d.(*ast.FuncDecl); ok && fd.Name.Pos() == fn.Pos() {
					return fd, pk
				}
			}
		}
	}
	return nil, nil
}

// FuncName renders pkg.(*T).name relative to the module.
func FuncName(fn *ssa.Function) string {
	if fn == nil {
		return "<nil>"
	}
	s := fn.String()
	s = strings.ReplaceAll(s, Module+"/", "")
	s = strings.ReplaceAll(s, Module, "dc4bc")
	return s
}
