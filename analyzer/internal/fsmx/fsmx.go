// Package fsmx extracts the three FSM transition tables from the New()
// functions (resolved callee fsm.MustNewFSM, constant-evaluated EventDesc
// literals, callback map) and computes per-callback emitted-event sets on SSA.
package fsmx

import (
	"fmt"
	"go/ast"
	"go/constant"
	"go/token"
	"go/types"
	"sort"

	"dcverif/internal/load"
	"dcverif/internal/ssax"

	"golang.org/x/tools/go/packages"
	"golang.org/x/tools/go/ssa"
)

type Event struct {
	Name     string
	Src      []string
	Dst      string
	Internal bool
	Auto     bool
	Mode     int64 // 0 default, 1 before, 2 after
	Pos      token.Pos
}

type Machine struct {
	Pkg       string // module-relative package path
	Name      string
	Initial   string
	Events    []*Event
	ByName    map[string]*Event
	Callbacks map[string]*ssa.Function // event -> method
	CbPos     map[string]token.Pos
	// Trans[(src,event)] = event desc
	Trans map[[2]string]*Event
	// AutoAfter[state] = event (mode after, incl. default->after), AutoBefore likewise
	AutoAfter  map[string]*Event
	AutoBefore map[string]*Event
	Sources    map[string]bool
	Dests      map[string]bool
	Undecided  []string
}

var MachinePkgs = []string{
	"fsm/state_machines/signature_proposal_fsm",
	"fsm/state_machines/dkg_proposal_fsm",
	"fsm/state_machines/signing_proposal_fsm",
}

const mustNewFSM = load.Module + "/fsm/fsm.MustNewFSM"

// Extract reads the machine defined by <pkg>.New().
func Extract(p *load.Prog, rel string) (*Machine, error) {
	pk := p.Pkg(rel)
	if pk == nil {
		return nil, fmt.Errorf("package %s not loaded", rel)
	}
	m := &Machine{Pkg: rel, ByName: map[string]*Event{}, Callbacks: map[string]*ssa.Function{}, CbPos: map[string]token.Pos{},
		Trans: map[[2]string]*Event{}, AutoAfter: map[string]*Event{}, AutoBefore: map[string]*Event{}, Sources: map[string]bool{}, Dests: map[string]bool{}}
	var call *ast.CallExpr
	for _, f := range pk.Syntax {
		ast.Inspect(f, func(n ast.Node) bool {
			ce, ok := n.(*ast.CallExpr)
			if !ok {
				return true
			}
			if fn := calleeFunc(pk, ce); fn != nil && ssax.FuncID(fn) == mustNewFSM {
				if call != nil {
					m.Undecided = append(m.Undecided, "more than one MustNewFSM call in "+rel)
				}
				call = ce
			}
			return true
		})
	}
	if call == nil {
		return nil, fmt.Errorf("no call to fsm.MustNewFSM found in %s", rel)
	}
	if len(call.Args) != 4 {
		return nil, fmt.Errorf("MustNewFSM: expected 4 args")
	}
	var ok bool
	if m.Name, ok = constStr(pk, call.Args[0]); !ok {
		m.Undecided = append(m.Undecided, "machine name is not constant")
	}
	if m.Initial, ok = constStr(pk, call.Args[1]); !ok {
		m.Undecided = append(m.Undecided, "initial state is not constant")
	}
	evs, ok := call.Args[2].(*ast.CompositeLit)
	if !ok {
		return nil, fmt.Errorf("MustNewFSM: events argument is not a composite literal")
	}
	for _, el := range evs.Elts {
		cl, ok := el.(*ast.CompositeLit)
		if !ok {
			m.Undecided = append(m.Undecided, "event entry is not a composite literal at "+p.Pos(el.Pos()))
			continue
		}
		ev := &Event{Pos: cl.Pos()}
		for _, fe := range cl.Elts {
			kv, ok := fe.(*ast.KeyValueExpr)
			if !ok {
				m.Undecided = append(m.Undecided, "positional EventDesc field at "+p.Pos(fe.Pos()))
				continue
			}
			key := kv.Key.(*ast.Ident).Name
			switch key {
			case "Name":
				if ev.Name, ok = constStr(pk, kv.Value); !ok {
					m.Undecided = append(m.Undecided, "non-constant event name at "+p.Pos(kv.Pos()))
				}
			case "DstState":
				if ev.Dst, ok = constStr(pk, kv.Value); !ok {
					m.Undecided = append(m.Undecided, "non-constant DstState at "+p.Pos(kv.Pos()))
				}
			case "SrcState":
				sl, ok := kv.Value.(*ast.CompositeLit)
				if !ok {
					m.Undecided = append(m.Undecided, "SrcState is not a literal at "+p.Pos(kv.Pos()))
					continue
				}
				for _, s := range sl.Elts {
					str, ok := constStr(pk, s)
					if !ok {
						m.Undecided = append(m.Undecided, "non-constant SrcState at "+p.Pos(s.Pos()))
						continue
					}
					if str != "" {
						ev.Src = append(ev.Src, str)
					}
				}
			case "IsInternal":
				ev.Internal = constBool(pk, kv.Value, &m.Undecided, p)
			case "IsAuto":
				ev.Auto = constBool(pk, kv.Value, &m.Undecided, p)
			case "AutoRunMode":
				tv := pk.TypesInfo.Types[kv.Value]
				if tv.Value == nil {
					m.Undecided = append(m.Undecided, "non-constant AutoRunMode at "+p.Pos(kv.Pos()))
				} else {
					ev.Mode, _ = constant.Int64Val(tv.Value)
				}
			default:
				m.Undecided = append(m.Undecided, "unknown EventDesc field "+key)
			}
		}
		if ev.Auto && ev.Mode == 0 {
			ev.Mode = 2 // MustNewFSM: default -> after
		}
		m.Events = append(m.Events, ev)
		if _, dup := m.ByName[ev.Name]; dup {
			m.Undecided = append(m.Undecided, "duplicate event "+ev.Name)
		}
		m.ByName[ev.Name] = ev
		m.Dests[ev.Dst] = true
		for _, s := range ev.Src {
			m.Sources[s] = true
			k := [2]string{s, ev.Name}
			if _, dup := m.Trans[k]; dup {
				m.Undecided = append(m.Undecided, "duplicate transition "+s+"/"+ev.Name)
			}
			m.Trans[k] = ev
			if ev.Auto {
				if ev.Mode == 1 {
					m.AutoBefore[s] = ev
				} else {
					m.AutoAfter[s] = ev
				}
			}
		}
	}
	cbs, ok := call.Args[3].(*ast.CompositeLit)
	if !ok {
		return nil, fmt.Errorf("MustNewFSM: callbacks argument is not a composite literal")
	}
	for _, el := range cbs.Elts {
		kv, ok := el.(*ast.KeyValueExpr)
		if !ok {
			m.Undecided = append(m.Undecided, "callback entry without key")
			continue
		}
		name, ok := constStr(pk, kv.Key)
		if !ok {
			m.Undecided = append(m.Undecided, "non-constant callback key at "+p.Pos(kv.Pos()))
			continue
		}
		var fobj *types.Func
		switch v := kv.Value.(type) {
		case *ast.SelectorExpr:
			if sel := pk.TypesInfo.Selections[v]; sel != nil {
				fobj, _ = sel.Obj().(*types.Func)
			} else if o, ok := pk.TypesInfo.Uses[v.Sel].(*types.Func); ok {
				fobj = o
			}
		case *ast.Ident:
			fobj, _ = pk.TypesInfo.Uses[v].(*types.Func)
		}
		if fobj == nil {
			m.Undecided = append(m.Undecided, "callback for "+name+" is not a resolvable method value at "+p.Pos(kv.Pos()))
			continue
		}
		fn := p.SSA.FuncValue(fobj)
		if fn == nil {
			m.Undecided = append(m.Undecided, "no SSA function for callback "+fobj.FullName())
			continue
		}
		m.Callbacks[name] = fn
		m.CbPos[name] = kv.Pos()
	}
	return m, nil
}

func calleeFunc(pk *packages.Package, ce *ast.CallExpr) *types.Func {
	switch f := ce.Fun.(type) {
	case *ast.SelectorExpr:
		if o, ok := pk.TypesInfo.Uses[f.Sel].(*types.Func); ok {
			return o
		}
	case *ast.Ident:
		if o, ok := pk.TypesInfo.Uses[f].(*types.Func); ok {
			return o
		}
	}
	return nil
}

func constStr(pk *packages.Package, e ast.Expr) (string, bool) {
	tv, ok := pk.TypesInfo.Types[e]
	if !ok || tv.Value == nil || tv.Value.Kind() != constant.String {
		return "", false
	}
	return constant.StringVal(tv.Value), true
}

func constBool(pk *packages.Package, e ast.Expr, und *[]string, p *load.Prog) bool {
	tv, ok := pk.TypesInfo.Types[e]
	if !ok || tv.Value == nil || tv.Value.Kind() != constant.Bool {
		*und = append(*und, "non-constant bool at "+p.Pos(e.Pos()))
		return false
	}
	return constant.BoolVal(tv.Value)
}

// Emitted is the set of events a callback can return as result #0.
type Emitted struct {
	Consts  map[string][]ssa.Instruction // constant event -> the instructions that produce it (Store or Return)
	InEvent bool                         // may return the inEvent parameter
	Empty   bool                         // may return ""
	Unknown []string
}

// EmittedEvents computes the emitted-event set of a callback.
func EmittedEvents(fn *ssa.Function) *Emitted {
	em := &Emitted{Consts: map[string][]ssa.Instruction{}}
	if fn == nil || len(fn.Params) < 2 {
		em.Unknown = append(em.Unknown, "no function")
		return em
	}
	inEvent := fn.Params[1] // receiver, inEvent, args
	if fn.Signature.Recv() == nil {
		inEvent = fn.Params[0]
	}
	seen := map[ssa.Value]bool{}
	var visit func(v ssa.Value, at ssa.Instruction)
	visit = func(v ssa.Value, at ssa.Instruction) {
		v = ssax.Strip(v)
		switch x := v.(type) {
		case *ssa.Const:
			s := ""
			if x.Value != nil {
				if x.Value.Kind() != constant.String {
					em.Unknown = append(em.Unknown, "non-string constant")
					return
				}
				s = constant.StringVal(x.Value)
			}
			if s == "" {
				em.Empty = true
			} else {
				em.Consts[s] = append(em.Consts[s], at)
			}
		case *ssa.Parameter:
			if x == inEvent {
				em.InEvent = true
			} else {
				em.Unknown = append(em.Unknown, "parameter "+x.Name())
			}
		case *ssa.Phi:
			if seen[v] {
				return
			}
			seen[v] = true
			for _, e := range ssax.FeasibleEdges(x) {
				visit(e, at)
			}
		case *ssa.UnOp:
			if x.Op == token.MUL {
				if a, ok := x.X.(*ssa.Alloc); ok {
					// named result kept in an alloca (function has a defer): zero value + every store
					em.Empty = true
					if seen[a] {
						return
					}
					seen[a] = true
					for _, r := range *a.Referrers() {
						if st, ok := r.(*ssa.Store); ok && st.Addr == a {
							visit(st.Val, st)
						}
					}
					return
				}
			}
			em.Unknown = append(em.Unknown, "value "+x.String())
		default:
			em.Unknown = append(em.Unknown, fmt.Sprintf("value %T %s", v, v.String()))
		}
	}
	for _, r := range ssax.Returns(fn) {
		if len(r.Results) < 1 {
			em.Unknown = append(em.Unknown, "return without results")
			continue
		}
		visit(r.Results[0], r)
	}
	return em
}

// Names returns the sorted constant event names.
func (e *Emitted) Names() []string {
	var out []string
	for k := range e.Consts {
		out = append(out, k)
	}
	sort.Strings(out)
	return out
}

// CallbackEvents lists the events for which fn is the registered callback.
func (m *Machine) CallbackEvents(fn *ssa.Function) []string {
	var out []string
	for ev, f := range m.Callbacks {
		if f == fn {
			out = append(out, ev)
		}
	}
	sort.Strings(out)
	return out
}
