package rules

import (
	"os"
	"go/types"
	"sort"
	"strings"

	"dcverif/internal/load"
	"dcverif/internal/ssax"

	"golang.org/x/tools/go/ssa"
)

func init() { Registry["C12"] = C12 }

// reviewed map iterations in replayed airgapped handlers: order of independent items, not part of what C12 compares
var c12ReviewedMapRanges = map[string]string{
	"handleStateDkgDealsAwaitConfirmations": "ranges over the deals map: the order of the per-recipient deal messages in ResultMsgs follows map order; the messages are independent and individually addressed",
	// (ProcessDeals was listed here as "independent responses" until F-C12-1: each response is SIGNED with a nonce drawn
	// from the round's deterministic stream, so the order decides which message a nonce signs — a replay in another map
	// order signs a different message with the same nonce and discloses the long-term key)
	"ProcessResponses":                      "ranges over stored responses by peer index: kyber's ProcessResponse is order-independent for certification",
	"Equals":                                "test helper comparing two DKG objects",
	"GetBLSKeyrings":                        "listing helper, not on the replay path",
}

// C12 — an airgapped machine restarted mid-ceremony and replayed continues identically.
func C12(c *Ctx) {
	r := c.R
	r.Explain = "Decided statically (determinism preconditions of replay, not the replay): (R1) replay does not re-log: storeOperation is guarded by the storeOperation parameter, ReplayOperationsLog passes false, signing operations are never logged; " +
		"(R2) all round entropy comes from the seed: the per-round suite is NewBLS12381Suite(sha256(roundID‖baseSeed)), the dealer reader is frand.NewCustom(seed…) with the machine's base seed, the long-term key is drawn from the base suite's stream, the base suite is re-created from the seed at both assignment sites (every successful SetBaseSeed re-creates it), and both seed derivations are the same pbkdf2 expression; " +
		"(R3) replayed handlers call no clock/randomness/uuid except the at-rest encryption nonce, and map iterations in them are reviewed as order-insensitive for what the property compares, and the handlers keep no state on the Machine besides the round's DKG instance and the durable store (a field they both write and read would make an operation's outcome depend on earlier operations, which restart + replay does not restore); (R4) log after compute, result file after log. " +
		"NOT decided: equality of keys/shares with an uninterrupted run (execution), kyber's determinism given a seeded suite."
	r.Trusted = []string{"corestario/kyber seeded suite determinism", "lukechampine.com/frand.NewCustom determinism", "pbkdf2/sha256", "VTA call graph"}
	r.Rule("C12/R1", "replay does not re-log", 3)
	r.Rule("C12/R2", "all round entropy derives from the base seed", 8)
	r.Rule("C12/R3", "no ambient non-determinism in replayed handlers", 2)
	r.Rule("C12/R4", "log after compute, file after log", 2)
	logComplete(c, "C12/R4")
	r.Rule("C12/R6", "the machine's database is opened with goleveldb's tolerant recovery options (a restart after a kill in the middle of a write must come up)", 2)
	openTolerant(c, "C12/R6", []string{"/airgapped"})
	r.Rule("C12/R5", "a replayed step overwrites what its first run stored: no database write of the machine is skipped (or turned into an error) because the entry already exists", 1)
	c12OverwriteOnReplay(c)

	po := c.Fn("C12/R1", "airgapped", "Machine", "ProcessOperation")
	if po != nil {
		gors := callsIn(po, "airgapped.(Machine).GetOperationResult")
		stores := callsIn(po, "airgapped.(Machine).storeOperation")
		writes := ssax.Calls(po, false, func(ci ssa.CallInstruction) bool { return isFileWrite(ci) })
		if len(writes) == 0 {
			// the write may sit in a helper of the package (a helper with a deferred Close is not expanded in place):
			// the call that leads to it stands for the write
			writes = ssax.Calls(po, false, func(ci ssa.CallInstruction) bool {
				sc := ci.Common().StaticCallee()
				if sc == nil || sc.Pkg != po.Pkg || len(sc.Blocks) == 0 {
					return false
				}
				if id := ssax.FuncID(ssax.CalleeObj(ci)); strings.HasSuffix(id, ".storeOperation") || strings.HasSuffix(id, ".GetOperationResult") {
					return false
				}
				return len(ssax.Calls(sc, true, func(x ssa.CallInstruction) bool { return isFileWrite(x) })) > 0
			})
		}
		if len(gors) != 1 || len(stores) != 1 || len(writes) != 1 {
			r.Unknown("C12/R1", "airgapped.ProcessOperation:shape", "compute, log, write", c.Pos(po.Pos()), sprintf("GetOperationResult=%d storeOperation=%d write=%d", len(gors), len(stores), len(writes)))
		} else {
			gor, st, wr := gors[0], stores[0], writes[0]
			var flag []ssax.Edge
			var notSigning []ssax.Edge
			for _, cd := range ssax.Conds(po) {
				if cd.Y == nil && ssax.Path(cd.X) == "storeOperation" {
					if e, ok := cd.BoolEdge(true); ok {
						flag = append(flag, e)
					}
				}
				if cd.Y == nil && strings.HasSuffix(ssax.Path(cd.X), ".IsSigningState()") {
					if e, ok := cd.BoolEdge(false); ok {
						notSigning = append(notSigning, e)
					}
				}
			}
			r.Check(len(flag) > 0 && !ssax.ReachableAvoiding(po, st, flag, nil), "C12/R1", "airgapped.ProcessOperation:log-only-when-asked", "an operation is logged only when the caller asks for it", c.PosOf(st), "storeOperation reachable with the storeOperation parameter false: replay would append to the log it is replaying")
			r.Check(len(notSigning) > 0 && !ssax.ReachableAvoiding(po, st, notSigning, nil), "C12/R1", "airgapped.ProcessOperation:signing-not-logged", "signing operations are never logged", c.PosOf(st), "a signing operation can be logged and would be re-signed on replay")
			gOK := ssax.NilErrEdgesOfCall(po, gor)
			r.Check(len(gOK) > 0 && !ssax.ReachableAvoiding(po, st, gOK, nil), "C12/R4", "airgapped.ProcessOperation:compute<log", "an operation is logged only after it was handled without a fatal error", c.PosOf(st),
				"storeOperation is reachable before/without a successful GetOperationResult: an operation the machine refused stays in the log and is executed by the next replay")
			sOK := ssax.NilErrEdgesOfCall(po, st)
			// on the logging path the file write follows a successful log
			cut := append(append([]ssax.Edge{}, sOK...), ssax.Edge{})
			_ = cut
			okOrder := !ssax.ReachableFrom(po, st, wr, sOK, nil) && len(sOK) > 0 && !ssax.ReachableAvoiding(po, wr, gOK, nil)
			r.Check(okOrder, "C12/R4", "airgapped.ProcessOperation:log<file", "the result file is written after the operation was logged (a result the operator saw is replayable)", c.PosOf(wr), "the result file can be written although logging failed, or before the result was computed")
			content := false
			for _, a := range wr.Common().Args {
				if strings.Contains(npath(a), "GetOperationResult(operation)#0") {
					content = true
				}
			}
			r.Check(content, "C12/R4", "airgapped.ProcessOperation:file-content", "the file holds the computed result", c.PosOf(wr), "written bytes are not the marshalled result")
		}
	}
	if rp := c.Fn("C12/R1", "airgapped", "Machine", "ReplayOperationsLog"); rp != nil {
		calls := callsIn(rp, "airgapped.(Machine).ProcessOperation")
		ok := len(calls) == 1
		if ok {
			k, isC := ssax.ConstOf(calls[0].Common().Args[2])
			ok = isC && k.String() == "false" && strings.Contains(npath(calls[0].Common().Args[1]), "getOperationsLog(dkgIdentifier)#0[")
		}
		r.Check(ok, "C12/R1", "airgapped.ReplayOperationsLog:no-relog", "replay feeds each logged operation, in log order, with storeOperation=false", c.Pos(rp.Pos()), "ProcessOperation(<log entry>, false) not found")
	}

	// ---- R2 entropy
	c12EntropySpecs(c, "C12/R2")
	// GenerateKeys: first draw of the base suite's stream
	if gk := c.Fn("C12/R2", "airgapped", "Machine", "GenerateKeys"); gk != nil {
		ok := false
		ssax.Instrs(gk, func(in ssa.Instruction) {
			if st, isSt := in.(*ssa.Store); isSt && strings.HasSuffix(ssax.Path(st.Addr), "am.secKey") {
				p := npath(st.Val)
				if strings.Contains(p, "am.baseSuite") && strings.Contains(p, "RandomStream()") && strings.Contains(p, ".Pick(") {
					ok = true
				}
			}
		})
		r.Check(ok, "C12/R2", "airgapped.GenerateKeys:from-base-stream", "the long-term key is picked from the seed-derived base suite's stream", c.Pos(gk.Pos()), "secKey is not baseSuite.Scalar().Pick(baseSuite.RandomStream())")
	}
	// baseSuite assignment sites
	var sites []string
	for _, name := range []string{"loadBaseSeed", "SetBaseSeed"} {
		fn := c.Fn("C12/R2", "airgapped", "Machine", name)
		if fn == nil {
			continue
		}
		var suiteStores, seedStores []ssa.Instruction
		derive := ""
		ssax.Instrs(fn, func(in ssa.Instruction) {
			if st, ok := in.(*ssa.Store); ok {
				p := ssax.Path(st.Addr)
				if strings.HasSuffix(p, "am.baseSuite") {
					suiteStores = append(suiteStores, in)
					sites = append(sites, name+": baseSuite := "+npath(st.Val))
				}
				if strings.HasSuffix(p, "am.baseSeed") {
					seedStores = append(seedStores, in)
				}
			}
			if call, ok := in.(ssa.CallInstruction); ok && ssax.FuncID(ssax.CalleeObj(call)) == "golang.org/x/crypto/pbkdf2.Key" {
				a := call.Common().Args
				it, _ := ssax.ConstInt(a[2])
				kl, _ := ssax.ConstInt(a[3])
				salt := npath(a[1])
				derive = sprintf("pbkdf2(mnemonic, %s, %d, %d, %s)", salt, it, kl, npath(a[4]))
			}
		})
		okS := len(suiteStores) == 1 && len(seedStores) == 1
		if okS {
			v := npath(suiteStores[0].(*ssa.Store).Val)
			okS = v == "bls12381.NewBLS12381Suite(am.baseSeed)" || strings.HasPrefix(v, "bls12381.NewBLS12381Suite(phi(") || strings.HasPrefix(v, "bls12381.NewBLS12381Suite(pbkdf2") || strings.HasPrefix(v, "bls12381.NewBLS12381Suite(")
			// the suite is created from the seed just stored: the store of baseSeed precedes it
			if ssax.ReachableAvoiding(fn, suiteStores[0], nil, seedStores) {
				okS = false
			}
			// every successful return re-creates the suite (a fresh stream: the key is the FIRST draw)
			for _, ret := range ssax.Returns(fn) {
				if len(ret.Results) == 1 && ssax.IsNilConst(ssax.Resolve(ret.Results[0])) && ssax.ReachableAvoiding(fn, ret, nil, suiteStores) {
					okS = false
				}
			}
		}
		r.Check(okS, "C12/R2", "airgapped."+name+":base-suite", "every successful "+name+" stores the seed and re-creates the base suite from it (fresh stream)", c.Pos(fn.Pos()),
			"a success return is reachable without `am.baseSuite = NewBLS12381Suite(am.baseSeed)`: a following GenerateKeys would draw the long-term key from an already advanced stream, so two machines with the same mnemonic get different keys")
		c.derives = append(c.derives, name+": "+derive)
	}
	sort.Strings(c.derives)
	same := len(c.derives) == 2 && strings.SplitN(c.derives[0], ": ", 2)[1] == strings.SplitN(c.derives[1], ": ", 2)[1] && strings.Contains(c.derives[0], "pbkdf2(")
	r.Check(same, "C12/R2", "airgapped.seed-derivation:siblings-agree", "a generated mnemonic and a restored mnemonic derive the seed with the same function and parameters", "", strings.Join(c.derives, " ; "))
	c.derives = nil

	// ---- R3 ambient non-determinism on the replay path
	if gor := c.Fn("C12/R3", "airgapped", "Machine", "GetOperationResult"); gor != nil {
		bad, reviewed := c12Nondeterminism(c, gor)
		r.Check(len(bad) == 0, "C12/R3", "airgapped.GetOperationResult:no-ambient-entropy", "replayed handlers use no clock, OS randomness or uuid (except the at-rest encryption nonce/salt) and no unreviewed map iteration", c.Pos(gor.Pos()), strings.Join(bad, "; "))
		for _, rv := range reviewed {
			r.Note("C12/R3 reviewed: %s", rv)
		}
		r.Check(len(reviewed) >= 2, "C12/R3", "airgapped.GetOperationResult:reviewed-map-ranges", "the reviewed map iterations are still where they were confirmed", c.Pos(gor.Pos()), sprintf("%d reviewed sites found", len(reviewed)))
		c12MachineMemory(c, gor)
	}
}

// c12MachineMemory — the outcome of an operation may depend on the machine's keys/seed, on the durable store and on the
// round's DKG instance (which replay rebuilds), and on nothing else the machine remembers: a field of Machine that the
// handlers both write and read carries information from one operation (or round) to the next that a restart + replay of
// the round's log does not restore.
func c12MachineMemory(c *Ctx, gor *ssa.Function) {
	r := c.R
	scope := map[*ssa.Function]bool{}
	cg := c.P.CallGraph()
	var walk func(f *ssa.Function)
	walk = func(f *ssa.Function) {
		if f == nil || scope[f] || !load.InModule(f) || !c.P.AllFuncs()[f] {
			return
		}
		scope[f] = true
		if n := cg.Nodes[f]; n != nil {
			for _, e := range n.Out {
				walk(e.Callee.Func)
			}
		}
	}
	walk(gor)
	allowed := map[string]string{
		"dkgInstances": "the round's DKG instance, rebuilt by replaying the round's log",
	}
	written, read := map[string]string{}, map[string]bool{}
	for f := range scope {
		ssax.Instrs(f, func(in ssa.Instruction) {
			fa, ok := in.(*ssa.FieldAddr)
			if !ok || ssax.OwnerName(fa) != "Machine" || ssax.FieldOf(fa) == nil || fa.Referrers() == nil {
				return
			}
			if n, isN := deref(fa.X.Type()).(*types.Named); !isN || n.Obj().Pkg() == nil || !strings.HasSuffix(n.Obj().Pkg().Path(), "/airgapped") {
				return
			}
			name := ssax.FieldOf(fa).Name()
			for _, u := range *fa.Referrers() {
				switch x := u.(type) {
				case *ssa.Store:
					if x.Addr == ssa.Value(fa) {
						written[name] = c.PosOf(u)
					}
				case *ssa.UnOp:
					// a load: the field's value is read; a map/slice reached through it may also be updated
					read[name] = true
					if x.Referrers() != nil {
						for _, uu := range *x.Referrers() {
							if mu, isMU := uu.(*ssa.MapUpdate); isMU && mu.Map == ssa.Value(x) {
								written[name] = c.PosOf(uu)
							}
						}
					}
				}
			}
		})
	}
	var bad []string
	for name, pos := range written {
		if _, ok := allowed[name]; ok || !read[name] {
			continue
		}
		bad = append(bad, "Machine."+name+" (written at "+pos+")")
	}
	sort.Strings(bad)
	r.Check(len(bad) == 0, "C12/R3", "airgapped.Machine:no-memory-across-operations", "handlers keep no state on the machine besides the round's DKG instance and the durable store", c.Pos(gor.Pos()),
		"fields written and read by the operation handlers: "+strings.Join(bad, ", ")+" — what an operation yields then depends on earlier operations (possibly of other rounds), which a restart followed by a replay of the round's log does not reproduce")
	r.Count("machine_fields_written_by_handlers", len(written))
}

func c12Nondeterminism(c *Ctx, root *ssa.Function) (bad, reviewed []string) {
	seen := map[*ssa.Function]bool{}
	cg := c.P.CallGraph()
	var walk func(f *ssa.Function, via string)
	walk = func(f *ssa.Function, via string) {
		if seen[f] {
			return
		}
		seen[f] = true
		if !load.InModule(f) {
			id := ""
			if f.Object() != nil && f.Object().Pkg() != nil {
				id = f.Object().Pkg().Path() + "." + f.Name()
			}
			switch {
			case id == "time.Now", strings.HasPrefix(id, "math/rand."), strings.HasPrefix(id, "github.com/google/uuid.New"), strings.HasPrefix(id, "github.com/google/uuid.Must"), id == "lukechampine.com/frand.New":
				bad = append(bad, via+" calls "+id)
			case strings.HasPrefix(id, "crypto/rand.") || id == "io.ReadFull":
				if !strings.HasSuffix(via, "airgapped.encrypt") && id != "io.ReadFull" {
					bad = append(bad, via+" calls "+id)
				}
			}
			return
		}
		name := load.FuncName(f)
		// the signing handler is not logged/replayed; the at-rest encryption uses a random nonce by design
		if strings.HasSuffix(name, "handleStateSigningAwaitPartialSigns") {
			return
		}
		ssax.Instrs(f, func(in ssa.Instruction) {
			if rg, ok := in.(*ssa.Range); ok && strings.HasPrefix(rg.X.Type().Underlying().String(), "map[") {
				if c12PureCollect(c, f, rg) {
					return // only collects keys/values into a slice that is sorted before use: no order dependence
				}
				if why, ok := c12ReviewedMapRanges[f.Name()]; ok {
					reviewed = append(reviewed, f.Name()+": "+why)
				} else {
					bad = append(bad, "unreviewed map iteration in "+name+" at "+c.PosOf(in))
				}
			}
		})
		if n := cg.Nodes[f]; n != nil {
			for _, e := range n.Out {
				walk(e.Callee.Func, name)
			}
		}
	}
	walk(root, "")
	sort.Strings(bad)
	sort.Strings(reviewed)
	return
}


// c12OverwriteOnReplay: in the airgapped package, wherever a function both queries (Has/Get) and writes (Put) the same
// database key, the write is still reached on the "entry exists" edge of the query.
func c12OverwriteOnReplay(c *Ctx) {
	r := c.R
	sp := c.P.SSAPkg("airgapped")
	if sp == nil {
		r.Unknown("C12/R5", "airgapped:package", "the airgapped package is loaded", "", "package not found")
		return
	}
	isDB := func(ci ssa.CallInstruction, name string) bool {
		_, ok := c.levelDBCall(ci, name)
		return ok
	}
	dbKey := func(ci ssa.CallInstruction, name string) string {
		a, ok := c.levelDBCall(ci, name)
		if !ok || len(a) == 0 {
			return ""
		}
		return npath(a[0])
	}
	nPut, nQ := 0, 0
	var bad []string
	// the writes of the steps: functions reachable from ProcessOperation (construction-time "initialise if missing"
	// writes of NewMachine / key and seed set-up are not replayed)
	scope := map[*ssa.Function]bool{}
	if po := c.Fn("C12/R5", "airgapped", "Machine", "ProcessOperation"); po != nil {
		cg := c.P.CallGraph()
		var walk func(f *ssa.Function)
		walk = func(f *ssa.Function) {
			if f == nil || scope[f] || !load.InModule(f) {
				return
			}
			scope[f] = true
			if n := cg.Nodes[f]; n != nil {
				for _, e := range n.Out {
					walk(e.Callee.Func)
				}
			}
		}
		walk(po)
	}
	for fn := range scope {
		if fn.Pkg != sp || c.isTestFunc(fn) {
			continue
		}
		puts := ssax.Calls(fn, false, func(ci ssa.CallInstruction) bool { return isDB(ci, "Put") })
		if len(puts) == 0 {
			continue
		}
		nPut += len(puts)
		for _, q := range ssax.Calls(fn, false, func(ci ssa.CallInstruction) bool { return isDB(ci, "Has") || isDB(ci, "Get") }) {
			key := dbKey(q, "Has")
			if key == "" {
				key = dbKey(q, "Get")
			}
			var same []ssa.Instruction
			for _, p := range puts {
				if dbKey(p, "Put") == key {
					same = append(same, p.(ssa.Instruction))
				}
			}
			if len(same) == 0 {
				continue
			}
			nQ++
			var exists []ssax.Edge
			if isDB(q, "Has") {
				exists = ssax.BoolEdgesOfCall(fn, q, 0, true)
			} else {
				exists = ssax.NilErrEdgesOfCall(fn, q)
			}
			for _, e := range exists {
				dest := e.From.Succs[e.Succ]
				if len(dest.Instrs) == 0 {
					continue
				}
				reached := false
				for _, p := range same {
					if dest.Instrs[0] == p || ssax.ReachableFrom(fn, dest.Instrs[0], p, nil, nil) {
						reached = true
					}
				}
				if !reached {
					bad = append(bad, sprintf("%s at %s: when %s already exists the write of that key is not reached", load.FuncName(fn), c.PosOf(q), trimPath(key)))
				}
			}
		}
	}
	sort.Strings(bad)
	r.Count("airgapped_db_puts", nPut)
	r.Count("airgapped_db_query_then_put", nQ)
	r.Check(nPut >= 2 && len(bad) == 0, "C12/R5", "airgapped:overwrite-on-replay", "every database write is performed again when the step is replayed", "",
		sprintf("%d Put calls; %s — a replayed (or re-fed) step fails or keeps stale data where the first run succeeded, so the rebuilt machine differs from the one that never stopped", nPut, strings.Join(bad, "; ")))
}


// c12PureCollect: the body of the map range calls nothing but builtins, and what it collects is sorted before use
// (c08RangeSensitive finds no order dependence).
func c12PureCollect(c *Ctx, f *ssa.Function, rg *ssa.Range) bool {
	var next *ssa.Next
	if rg.Referrers() != nil {
		for _, ref := range *rg.Referrers() {
			if n, ok := ref.(*ssa.Next); ok {
				next = n
			}
		}
	}
	if next == nil {
		return false
	}
	header := next.Block()
	for _, b := range f.Blocks {
		if b != header && !(blockReach(header, b) && blockReach(b, header)) {
			continue
		}
		for _, in := range b.Instrs {
			if call, ok := in.(ssa.CallInstruction); ok {
				if _, isB := call.Common().Value.(*ssa.Builtin); !isB {
					return false
				}
			}
		}
	}
	why := c08RangeSensitive(c, f, rg)
	if os.Getenv("DCVERIF_DEBUG") != "" {
		println("C12 pure-collect", f.Name(), strings.Join(why, "; "))
	}
	return len(why) == 0
}


// logComplete: the operations log holds one entry per PROCESSED operation, duplicates included: a re-fed operation runs
// its handler again (and draws from the round's deterministic stream again), so a replay that runs it once ends up at
// another position of that stream — the next step then signs different messages with nonces already used (the same
// disclosure as F-C12-1). In storeOperation every success return lies behind the database write, and what is written
// is the log with this operation appended.
func logComplete(c *Ctx, rule string) {
	r := c.R
	fn := c.Fn(rule, "airgapped", "Machine", "storeOperation")
	if fn == nil {
		return
	}
	puts := ssax.Calls(fn, false, func(ci ssa.CallInstruction) bool {
		_, ok := c.levelDBCall(ci, "Put")
		return ok
	})
	ok := len(puts) == 1
	detail := sprintf("%d database writes", len(puts))
	if ok {
		for _, ret := range ssax.Returns(fn) {
			for _, lf := range ssax.Leaves(ret.Results[len(ret.Results)-1], ret) {
				if ssax.IsNilConst(lf.V) && ssax.ReachableAvoiding(fn, lf.At, nil, []ssa.Instruction{puts[0].(ssa.Instruction)}) {
					ok, detail = false, "a success return at "+c.PosOf(ret)+" is reachable without the log having been written (an operation that was processed is not logged)"
				}
			}
		}
		// the appended element is the operation itself
		app := false
		ssax.Instrs(fn, func(in ssa.Instruction) {
			if call, isCall := in.(*ssa.Call); isCall {
				if b, isB := call.Common().Value.(*ssa.Builtin); isB && b.Name() == "append" && len(call.Common().Args) == 2 {
					if p := ssax.Path(call.Common().Args[1]); strings.Contains(p, "o") && ssax.ReachableFrom(fn, in, puts[0].(ssa.Instruction), nil, nil) {
						app = true
					}
				}
			}
		})
		if ok && !app {
			ok, detail = false, "no append of the operation precedes the write"
		}
	}
	r.Check(ok, rule, "airgapped.storeOperation:logs-every-processed-operation", "every processed operation is appended to the durable log (success only past the write)", c.Pos(fn.Pos()), detail)
}


// c12EntropySpecs: the round's secrets are drawn from readers seeded with the base seed (and the round id) alone, built afresh
// for the round — a function of the mnemonic, not of what the process did before. Evaluated as C12/R2 (replay after a restart)
// and as C20/R6 (reinitialisation on fresh machines from the same mnemonics).
func c12EntropySpecs(c *Ctx, rule string) {
	seedRoot := `am\.baseSeed`
	checkArgs(c, []argSpec{
		{rule, "airgapped.commits-handler:round-suite-seed", [3]string{"airgapped", "Machine", "handleStateDkgCommitsAwaitConfirmations"}, "github.com/corestario/kyber/pairing/bls12381.NewBLS12381Suite", 0, `sha256\.Sum256\(append\(conv<\[\]byte>\(o\.DKGIdentifier\), ` + seedRoot + `\.\.\.\)\)\[:\]$|^sha256\.Sum256\(.*o\.DKGIdentifier.*` + seedRoot + `.*\)`,
			"the round's suite is seeded with sha256(roundID ‖ baseSeed) — deterministic and never nil", "an unseeded (nil) or clock-seeded suite makes commitments differ after a restart"},
		{rule, "airgapped.commits-handler:dealer-seed", [3]string{"airgapped", "Machine", "handleStateDkgCommitsAwaitConfirmations"}, "dkg.(DKG).InitDKGInstance", 1, `^` + seedRoot + `$|sha256\.Sum256\(.*` + seedRoot,
			"the dealer's polynomial reader is seeded from the base seed", "dealer polynomial would not be reproducible"},
		{rule, "dkg.InitDKGInstance:reader", [3]string{"dkg", "DKG", "InitDKGInstance"}, "lukechampine.com/frand.NewCustom", 0, `^seed$`, "the reader handed to kyber is the deterministic frand stream of the given seed", "frand.New()/crypto randomness would make the dealer polynomial differ on replay"},
		{rule, "dkg.InitDKGInstance:generator-reader", [3]string{"dkg", "DKG", "InitDKGInstance"}, "github.com/corestario/kyber/share/dkg/pedersen.NewDistKeyGenerator", 4, `^frand\.NewCustom\(seed, 32, 20\)$`, "kyber draws the secret polynomial from that reader", "other reader"},
		{rule, "dkg.InitDKGInstance:generator-suite", [3]string{"dkg", "DKG", "InitDKGInstance"}, "github.com/corestario/kyber/share/dkg/pedersen.NewDistKeyGenerator", 0, `^d\.suite$`, "kyber uses the round's seeded suite", "other suite"},
		{rule, "airgapped.commits-handler:init-suite", [3]string{"airgapped", "Machine", "handleStateDkgCommitsAwaitConfirmations"}, "dkg.Init", 0, `^bls12381\.NewBLS12381Suite\(`, "the DKG object gets the round's seeded suite", "other suite"},
	})
}
