package rules

import (
	"go/types"
	"strings"

	"dcverif/internal/load"
	"dcverif/internal/ssax"

	"golang.org/x/tools/go/ssa"
)

// calleesAt returns the functions a call site may invoke according to the VTA call graph
// (static callee, or every implementation VTA admits for an interface/dynamic call).
func (c *Ctx) calleesAt(site ssa.CallInstruction) []*ssa.Function {
	if c.siteIdx == nil {
		c.siteIdx = map[ssa.CallInstruction][]*ssa.Function{}
		cg := c.P.CallGraph()
		for _, n := range cg.Nodes {
			for _, e := range n.Out {
				if e.Site != nil {
					c.siteIdx[e.Site] = append(c.siteIdx[e.Site], e.Callee.Func)
				}
			}
		}
	}
	return c.siteIdx[site]
}

// reaches reports whether fn (or anything it may call, through module functions only) satisfies pred,
// and returns one witness call chain.
func (c *Ctx) reaches(fn *ssa.Function, pred func(*ssa.Function) bool) ([]string, bool) {
	type item struct {
		fn   *ssa.Function
		path []string
	}
	seen := map[*ssa.Function]bool{fn: true}
	queue := []item{{fn, []string{load.FuncName(fn)}}}
	cg := c.P.CallGraph()
	for len(queue) > 0 {
		it := queue[0]
		queue = queue[1:]
		if pred(it.fn) {
			return it.path, true
		}
		if !load.InModule(it.fn) {
			continue // dependencies are the trusted base and are not entered
		}
		n := cg.Nodes[it.fn]
		if n == nil {
			continue
		}
		for _, e := range n.Out {
			cf := e.Callee.Func
			if seen[cf] {
				continue
			}
			seen[cf] = true
			p := append(append([]string{}, it.path...), load.FuncName(cf))
			queue = append(queue, item{cf, p})
		}
	}
	return nil, false
}

// siteReaches: does the call site reach a function satisfying pred?
func (c *Ctx) siteReaches(site ssa.CallInstruction, pred func(*ssa.Function) bool) ([]string, bool) {
	for _, cf := range c.calleesAt(site) {
		if p, ok := c.reaches(cf, pred); ok {
			return p, true
		}
	}
	// interface method itself may be the sink (no implementation loaded)
	return nil, false
}

// isDurableSink: functions of the node that change durable state or post to the board.
func isDurableSink(fn *ssa.Function) bool {
	name := load.FuncName(fn)
	switch {
	case strings.HasSuffix(name, "client/modules/state.LevelDBState).Set"),
		strings.HasSuffix(name, "client/modules/state.LevelDBState).Delete"),
		strings.HasSuffix(name, "client/modules/state.LevelDBState).Reset"),
		strings.HasSuffix(name, "client/modules/state.LevelDBState).SaveOffset"):
		return true
	case strings.HasSuffix(name, "file_storage.FileStorage).Send"), strings.HasSuffix(name, "kafka_storage.KafkaStorage).Send"):
		return true
	case strings.Contains(name, "mocks/") && (strings.HasSuffix(name, ").Set") || strings.HasSuffix(name, ").Send") || strings.HasSuffix(name, ").Delete")):
		return true
	}
	return false
}

func isFSMDo(fn *ssa.Function) bool {
	return strings.HasSuffix(load.FuncName(fn), "fsm/state_machines.FSMInstance).Do")
}

// callName renders the resolved callee of a call instruction.
func callName(ci ssa.CallInstruction) string {
	id := ssax.FuncID(ssax.CalleeObj(ci))
	return strings.ReplaceAll(id, load.Module+"/", "")
}


// moduleClosure returns fn and every module function it may call, transitively (VTA call graph: function values kept in
// tables and generic instances are followed, dependencies are not entered). Used where a rule reads off what a decoding
// entry point can produce: the work may be spread over helpers chosen through a table.
func (c *Ctx) moduleClosure(fn *ssa.Function) []*ssa.Function {
	var out []*ssa.Function
	c.reaches(fn, func(f *ssa.Function) bool {
		if load.InModule(f) && len(f.Blocks) > 0 {
			out = append(out, f)
		}
		return false
	})
	return out
}


// levelDBCall: the call is goleveldb's (*DB).<name> / (*Transaction).<name> — directly, or through an interface that
// marks the boundary in front of the database (an interface method call one of whose implementations, per the VTA call
// graph, is that goleveldb method). Returns the arguments without the receiver.
func (c *Ctx) levelDBCall(ci ssa.CallInstruction, name string) ([]ssa.Value, bool) {
	is := func(id string) bool {
		return id == "github.com/syndtr/goleveldb/leveldb.(DB)."+name || id == "github.com/syndtr/goleveldb/leveldb.(Transaction)."+name
	}
	cc := ci.Common()
	if !cc.IsInvoke() {
		if is(ssax.FuncID(ssax.CalleeObj(ci))) && len(cc.Args) > 0 {
			return cc.Args[1:], true
		}
		return nil, false
	}
	if cc.Method == nil || cc.Method.Name() != name {
		return nil, false
	}
	for _, cf := range c.calleesAt(ci) {
		if obj, ok := cf.Object().(*types.Func); ok && is(ssax.FuncID(obj)) {
			return cc.Args, true
		}
	}
	return nil, false
}
