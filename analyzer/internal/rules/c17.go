package rules

import (
	"encoding/hex"
	"go/ast"
	"go/constant"
	"go/token"
	"go/types"
	"os"
	"path/filepath"
	"reflect"
	"sort"
	"strconv"
	"strings"

	"dcverif/internal/load"
	"dcverif/internal/ssax"

	"golang.org/x/tools/go/ssa"
)

func init() { Registry["C17"] = C17 }

const pkgWC = "pkg/wc_rotation"

// Spec reference tables (Ethereum consensus specs phase0/capella; mainnet values named in the source comments).
var c17Containers = map[string][]struct{ Name, Type, SSZ, Put string }{
	"BLSToExecutionChange": {{"ValidatorIndex", "uint64", "", "PutUint64"}, {"FromBlsPubkey", "[48]byte", "48", "PutBytes"}, {"ToExecutionAddress", "[20]byte", "20", "PutBytes"}},
	"SigningData":          {{"ObjectRoot", "[32]byte", "32", "PutBytes"}, {"Domain", "[32]byte", "32", "PutBytes"}},
	"ForkData":             {{"CurrentVersion", "[4]byte", "4", "PutBytes"}, {"GenesisValidatorsRoot", "[32]byte", "32", "PutBytes"}},
}

var c17Constants = map[string]string{
	"GenesisForkVersion":         "00000000",
	"DomainBlsToExecutionChange": "0a000000",
	"GenesisValidatorRoot":       "4b363db94e286120d76eb905340fdd4e54bfe9f06bf33ff6cf5ad27f511bfe95",
	"LidoBlsPubKeyBB":            "b67aca71f04b673037b54009b760f1961f3836e5714141c892afdb75ec0834dce6784d9c72ed8ad7db328cff8fe9f13e",
	"ToExecutionAddress":         "b9d7934878b5fb9610b3fe8a5e441e8fad7e293f",
}

const c17ListLen = 18632

// C17 — baked withdrawal-credential messages equal the consensus-spec signing roots.
func C17(c *Ctx) {
	r := c.R
	r.Explain = "Decided statically: (R1) the embedded validator list, parsed by the analyzer exactly as the code splits it, has 18,632 canonical pairwise-distinct uint64 entries followed by one empty entry (exhaustive check of static data); (R2) the position lookup is total: the index expression is dominated by guards establishing 0 <= id < len(list), the parse error is returned, MessageID is the list entry and Payload is the signing root of that entry; " +
		"(R3) the three SSZ containers have the spec's field order, types and ssz-size tags and each HashTreeRootWith is Index(); Put*(field_i) in declaration order; Merkleize(); (R4) GetSigningRoot is wired as compute_signing_root(BLSToExecutionChange(index, key, address), compute_domain(DOMAIN_BLS_TO_EXECUTION_CHANGE, GENESIS_FORK_VERSION, genesis_validators_root)) with domain = domain_type ‖ fork_data_root[:28], and the five constants equal the mainnet/spec values. " +
		"NOT decided: that fastssz merkleisation + SHA-256 produce the spec's numbers (arithmetic; the trusted base)."
	r.Trusted = []string{"ferranbt/fastssz HashWalker (PutUint64/PutBytes/Merkleize)", "the spec table and mainnet constants embedded in the checker", "strconv.ParseInt"}
	r.Rule("C17/R1", "embedded list: 18,632 canonical, distinct uint64 entries + one trailing empty entry", 4)
	r.Rule("C17/R2", "position lookup is total (both bounds guarded, errors returned) and yields the entry's signing root", 5)
	r.Rule("C17/R3", "SSZ container layout and hashing order equal the spec's", 6)
	r.Rule("C17/R4", "GetSigningRoot/computeDomain wiring and constants equal the spec's", 10)
	c17List(c)
	c17Lookup(c)
	c17Containers_(c)
	c17Wiring(c)
}

func c17List(c *Ctx) {
	r := c.R
	pk := c.P.Pkg(pkgWC)
	if pk == nil {
		r.Unknown("C17/R1", "anchor:"+pkgWC, "package loaded", "", "missing")
		return
	}
	var file string
	var pos token.Pos
	for _, f := range pk.Syntax {
		for _, d := range f.Decls {
			gd, ok := d.(*ast.GenDecl)
			if !ok || gd.Tok != token.VAR {
				continue
			}
			for _, s := range gd.Specs {
				vs := s.(*ast.ValueSpec)
				for _, n := range vs.Names {
					if n.Name != "ValidatorsIndexes" {
						continue
					}
					for _, cg := range []*ast.CommentGroup{vs.Doc, gd.Doc} {
						if cg == nil {
							continue
						}
						for _, cm := range cg.List {
							if strings.HasPrefix(cm.Text, "//go:embed ") {
								file = strings.TrimSpace(strings.TrimPrefix(cm.Text, "//go:embed "))
								pos = n.Pos()
							}
						}
					}
				}
			}
		}
	}
	if file == "" {
		r.Unknown("C17/R1", "wc_rotation.ValidatorsIndexes:embed", "the list is embedded from a file", "", "no //go:embed directive on ValidatorsIndexes")
		return
	}
	dir := filepath.Dir(c.P.Fset.Position(pos).Filename)
	data, err := os.ReadFile(filepath.Join(dir, file))
	if err != nil {
		r.Unknown("C17/R1", "wc_rotation.ValidatorsIndexes:embed", "embedded file readable", c.Pos(pos), err.Error())
		return
	}
	// the separator used by the code
	sep := "\n"
	if fn := c.P.Func(pkgRequests, "", "ReconstructBakedMessage"); fn != nil {
		for _, call := range ssax.CallsTo(fn, "strings.Split") {
			if s, ok := ssax.ConstString(call.Common().Args[1]); ok {
				sep = s
			}
			r.Check(strings.HasSuffix(ssax.Path(call.Common().Args[0]), "ValidatorsIndexes"), "C17/R1", "requests.ReconstructBakedMessage:list-source", "the list looked up is the embedded ValidatorsIndexes", c.PosOf(call), "Split argument is "+ssax.Path(call.Common().Args[0]))
		}
	}
	entries := strings.Split(string(data), sep)
	r.Count("list_entries", len(entries))
	nonEmpty := 0
	seen := map[uint64]int{}
	var bad []string
	for i, e := range entries {
		if e == "" {
			if i != len(entries)-1 {
				bad = append(bad, "empty entry at position "+strconv.Itoa(i))
			}
			continue
		}
		nonEmpty++
		v, err := strconv.ParseUint(e, 10, 64)
		if err != nil || strconv.FormatUint(v, 10) != e {
			if len(bad) < 5 {
				bad = append(bad, "entry "+strconv.Itoa(i)+" is not a canonical uint64: "+strconv.Quote(e))
			}
			continue
		}
		if _, perr := strconv.ParseInt(e, 10, 64); perr != nil {
			bad = append(bad, "entry "+strconv.Itoa(i)+" overflows the int64 parse used by the code")
		}
		if j, dup := seen[v]; dup {
			if len(bad) < 5 {
				bad = append(bad, "validator index "+e+" appears at positions "+strconv.Itoa(j)+" and "+strconv.Itoa(i))
			}
		}
		seen[v] = i
	}
	r.Check(nonEmpty == c17ListLen, "C17/R1", "wc_rotation/payloads.csv:count", "the list has exactly 18,632 entries", file, sprintf("%d non-empty entries", nonEmpty))
	r.Check(len(bad) == 0, "C17/R1", "wc_rotation/payloads.csv:well-formed", "every entry is one canonical, distinct uint64 validator index", file, strings.Join(bad, "; "))
	r.Check(len(entries) == nonEmpty+1 && entries[len(entries)-1] == "", "C17/R1", "wc_rotation/payloads.csv:trailing", "exactly one trailing empty entry (position 18632 is refused by the parse error)", file, sprintf("%d entries after split, %d non-empty", len(entries), nonEmpty))
	r.Extra["exhaustive_static_data"] = true
}

func c17Lookup(c *Ctx) {
	r := c.R
	fn := c.Fn("C17/R2", pkgRequests, "", "ReconstructBakedMessage")
	if fn == nil {
		return
	}
	id := fn.Params[0]
	// every index expression on the split list
	var idx []*ssa.IndexAddr
	ssax.Instrs(fn, func(in ssa.Instruction) {
		if ia, ok := in.(*ssa.IndexAddr); ok {
			if call, isCall := ssax.Resolve(ia.X).(*ssa.Call); isCall && ssax.FuncID(ssax.CalleeObj(call)) == "strings.Split" {
				idx = append(idx, ia)
			}
		}
	})
	if len(idx) == 0 {
		r.Unknown("C17/R2", "requests.ReconstructBakedMessage:index", "the list is indexed by position", c.Pos(fn.Pos()), "no index expression on the split list")
		return
	}
	var upper, lower []ssax.Edge
	for _, cd := range ssax.Conds(fn) {
		if cd.Op == token.ILLEGAL || cd.Op == token.EQL || cd.Op == token.NEQ {
			continue
		}
		x, y := ssax.Resolve(cd.X), ssax.Resolve(cd.Y)
		op := cd.Op
		if y == ssa.Value(id) {
			x, y = y, x
			op = flipOp(op)
		}
		if x != ssa.Value(id) {
			continue
		}
		blk := cd.If.Block()
		// id OP len(list)
		if call, ok := y.(*ssa.Call); ok {
			if b, ok := call.Common().Value.(*ssa.Builtin); ok && b.Name() == "len" && strings.Contains(ssax.Path(call.Common().Args[0]), "strings.Split(") {
				switch op {
				case token.LSS:
					upper = append(upper, ssax.Edge{From: blk, Succ: 0})
				case token.GEQ:
					upper = append(upper, ssax.Edge{From: blk, Succ: 1})
				}
			}
		}
		if k, ok := ssax.ConstInt(y); ok {
			switch {
			case op == token.GEQ && k == 0, op == token.GTR && k == -1:
				lower = append(lower, ssax.Edge{From: blk, Succ: 0})
			case op == token.LSS && k == 0, op == token.LEQ && k == -1:
				lower = append(lower, ssax.Edge{From: blk, Succ: 1})
			}
		}
	}
	for i, ia := range idx {
		if ssax.Resolve(ia.Index) != ssa.Value(id) {
			r.Unknown("C17/R2", sprintf("requests.ReconstructBakedMessage:index#%d", i+1), "index is the position parameter", c.PosOf(ia), "index is "+ssax.Path(ia.Index))
			continue
		}
		r.Check(len(upper) > 0 && !ssax.ReachableAvoiding(fn, ia, upper, nil), "C17/R2", sprintf("requests.ReconstructBakedMessage:index#%d:upper-bound", i+1), "list[id] only when id < len(list)", c.PosOf(ia), "index reachable without the upper-bound guard")
		r.Check(len(lower) > 0 && !ssax.ReachableAvoiding(fn, ia, lower, nil), "C17/R2", sprintf("requests.ReconstructBakedMessage:index#%d:lower-bound", i+1), "list[id] only when id >= 0", c.PosOf(ia),
			"no guard establishes id >= 0 before the index expression: a negative position (a board proposal with RangeStart < 0 passes SigningTask.Validate) panics with index out of range instead of returning an error")
	}
	// parse error returned; root from the parsed entry
	parses := ssax.CallsTo(fn, "strconv.ParseInt", "strconv.ParseUint")
	roots := ssax.CallsTo(fn, load.Module+"/"+pkgWC+".GetSigningRoot")
	if len(parses) == 1 && len(roots) == 1 {
		pOK := ssax.NilErrEdgesOfCall(fn, parses[0])
		r.Check(len(pOK) > 0 && !ssax.ReachableAvoiding(fn, roots[0], pOK, nil), "C17/R2", "requests.ReconstructBakedMessage:parse-checked", "a malformed entry (e.g. the trailing empty line) is refused with an error", c.PosOf(parses[0]), "GetSigningRoot reachable after a failed parse")
		r.Check(strings.Contains(ssax.Path(parses[0].Common().Args[0]), "strings.Split(") && strings.HasSuffix(ssax.Path(parses[0].Common().Args[0]), "[id]"), "C17/R2", "requests.ReconstructBakedMessage:parse-source", "the entry parsed is list[id]", c.PosOf(parses[0]), "parse argument "+ssax.Path(parses[0].Common().Args[0]))
		r.Check(ssax.ResultOf(stripConv(roots[0].Common().Args[0]), parses[0], 0), "C17/R2", "requests.ReconstructBakedMessage:root-of-entry", "the signing root is computed for the parsed validator index", c.PosOf(roots[0]), "GetSigningRoot argument is "+ssax.Path(roots[0].Common().Args[0]))
		rOK := ssax.NilErrEdgesOfCall(fn, roots[0])
		// the success return: Payload = root[:], MessageID = list[id]
		good := false
		ssax.Instrs(fn, func(in ssa.Instruction) {
			st, ok := in.(*ssa.Store)
			if !ok {
				return
			}
			if fa, ok := st.Addr.(*ssa.FieldAddr); ok && ssax.FieldOf(fa).Name() == "Payload" && ssax.OwnerName(fa) == "MessageToSign" {
				p := ssax.Path(st.Val)
				if strings.Contains(p, "GetSigningRoot(") && strings.HasSuffix(p, "[:]") && len(rOK) > 0 && !ssax.ReachableAvoiding(fn, st, rOK, nil) {
					good = true
				}
			}
		})
		r.Check(good, "C17/R2", "requests.ReconstructBakedMessage:payload=root", "Payload is the full 32-byte signing root, set only when GetSigningRoot succeeded", c.Pos(fn.Pos()), "Payload store not recognised as root[:] under the success edge")
	} else {
		r.Unknown("C17/R2", "requests.ReconstructBakedMessage:shape", "one parse and one GetSigningRoot call", c.Pos(fn.Pos()), sprintf("parse=%d root=%d", len(parses), len(roots)))
	}
}

func stripConv(v ssa.Value) ssa.Value {
	for {
		v = ssax.Resolve(v)
		if cv, ok := v.(*ssa.Convert); ok {
			v = cv.X
			continue
		}
		return v
	}
}

func flipOp(op token.Token) token.Token {
	switch op {
	case token.LSS:
		return token.GTR
	case token.GTR:
		return token.LSS
	case token.LEQ:
		return token.GEQ
	case token.GEQ:
		return token.LEQ
	}
	return op
}

func c17Containers_(c *Ctx) {
	r := c.R
	for _, name := range []string{"BLSToExecutionChange", "SigningData", "ForkData"} {
		spec := c17Containers[name]
		t := c.lookupType("C17/R3", pkgWC+"/entity", name)
		if t == nil {
			continue
		}
		st := t.Underlying().(*types.Struct)
		var diffs []string
		if st.NumFields() != len(spec) {
			diffs = append(diffs, sprintf("%d fields, spec has %d", st.NumFields(), len(spec)))
		}
		for i := 0; i < st.NumFields() && i < len(spec); i++ {
			f := st.Field(i)
			if f.Name() != spec[i].Name || types.TypeString(f.Type(), nil) != spec[i].Type {
				diffs = append(diffs, sprintf("field %d is %s %s, spec: %s %s", i, f.Name(), types.TypeString(f.Type(), nil), spec[i].Name, spec[i].Type))
			}
			if sz := reflect.StructTag(st.Tag(i)).Get("ssz-size"); sz != spec[i].SSZ {
				diffs = append(diffs, sprintf("field %s ssz-size %q, spec %q", f.Name(), sz, spec[i].SSZ))
			}
		}
		r.Check(len(diffs) == 0, "C17/R3", "entity."+name+":layout", "container fields, order, types and ssz sizes equal the consensus spec", "", strings.Join(diffs, "; "))
		fn := c.Fn("C17/R3", pkgWC+"/entity", name, "HashTreeRootWith")
		if fn == nil {
			continue
		}
		var seq []string
		ssax.Instrs(fn, func(in ssa.Instruction) {
			call, ok := in.(ssa.CallInstruction)
			if !ok || !call.Common().IsInvoke() {
				return
			}
			m := call.Common().Method.Name()
			arg := ""
			if len(call.Common().Args) > 0 {
				arg = ssax.Path(call.Common().Args[0])
			}
			seq = append(seq, m+"("+arg+")")
		})
		recv := fn.Params[0].Name()
		want := []string{"Index()"}
		for _, f := range spec {
			a := recv + "." + f.Name
			if f.Put == "PutBytes" {
				a += "[:]"
			}
			want = append(want, f.Put+"("+a+")")
		}
		want = append(want, "Merkleize("+recv+"hh.Index())")
		// Merkleize's argument is the saved index: path renders as hh.Index()
		got := strings.Join(seq, " ; ")
		wantS := strings.Join(want[:len(want)-1], " ; ")
		okSeq := strings.HasPrefix(got, wantS+" ; Merkleize(") && strings.Contains(seq[len(seq)-1], "Index()") && len(seq) == len(want) && len(fn.Blocks) == 1
		r.Check(okSeq, "C17/R3", "entity."+name+":hash-order", "HashTreeRootWith hashes the fields in spec order with the spec's basic-type encoders and merkleizes from the saved index", c.Pos(fn.Pos()), "call sequence: "+got)
	}
}

func c17Wiring(c *Ctx) {
	r := c.R
	pk := c.P.Pkg(pkgWC)
	// constants
	if pk != nil {
		for _, name := range sortedKeys(c17Constants) {
			got, ok := arrayVarHex(pk.Syntax, pk.TypesInfo, name)
			r.Check(ok && got == c17Constants[name], "C17/R4", "wc_rotation."+name+":value", "constant equals the mainnet/spec value", "", "value in source: "+got+" expected "+c17Constants[name])
		}
	}
	if fn := c.Fn("C17/R4", pkgWC, "", "GetSigningRoot"); fn != nil {
		cds := ssax.CallsTo(fn, load.Module+"/"+pkgWC+".computeDomain")
		if len(cds) == 1 {
			a := cds[0].Common().Args
			got := []string{ssax.Path(a[0]), ssax.Path(a[1]), ssax.Path(a[2])}
			want := []string{"global:wc_rotation.DomainBlsToExecutionChange", "global:wc_rotation.GenesisForkVersion", "global:wc_rotation.GenesisValidatorRoot"}
			r.Check(strings.Join(got, ",") == strings.Join(want, ","), "C17/R4", "wc_rotation.GetSigningRoot:domain-args", "compute_domain(DOMAIN_BLS_TO_EXECUTION_CHANGE, GENESIS_FORK_VERSION, genesis_validators_root)", c.PosOf(cds[0]), "arguments: "+strings.Join(got, ", "))
		} else {
			r.Unknown("C17/R4", "wc_rotation.GetSigningRoot:domain-args", "one computeDomain call", c.Pos(fn.Pos()), sprintf("%d calls", len(cds)))
		}
		stores := map[string]string{}
		ssax.Instrs(fn, func(in ssa.Instruction) {
			if st, ok := in.(*ssa.Store); ok {
				if fa, ok := st.Addr.(*ssa.FieldAddr); ok {
					stores[ssax.OwnerName(fa)+"."+ssax.FieldOf(fa).Name()] = ssax.Path(st.Val)
				}
			}
		})
		want := map[string]string{
			"BLSToExecutionChange.ValidatorIndex":     "validatorIndex",
			"BLSToExecutionChange.FromBlsPubkey":      "global:wc_rotation.LidoBlsPubKeyBB",
			"BLSToExecutionChange.ToExecutionAddress": "global:wc_rotation.ToExecutionAddress",
			"SigningData.ObjectRoot":                  ".HashTreeRoot()#0",
			"SigningData.Domain":                      "computeDomain(",
		}
		for _, k := range sortedKeys(want) {
			g := stores[k]
			ok := g == want[k] || (strings.HasPrefix(want[k], ".") && strings.HasSuffix(g, want[k])) || (strings.HasSuffix(want[k], "(") && strings.Contains(g, want[k]) && strings.HasSuffix(g, "#0"))
			r.Check(ok, "C17/R4", "wc_rotation.GetSigningRoot:"+k, k+" is wired as in compute_signing_root / BLSToExecutionChange", c.Pos(fn.Pos()), "value is "+g)
		}
		// ObjectRoot is the BLSToExecutionChange root, result is SigningData root
		// EVERY success return yields the root just computed (a value remembered from an earlier call, a zero root, … is
		// not the spec's function of this index)
		good, nSucc := true, 0
		for _, ret := range ssax.Returns(fn) {
			if len(ret.Results) != 2 || ret.Block() == fn.Recover {
				continue
			}
			for _, lf := range ssax.Leaves(ret.Results[0], ret) {
				// the zero root accompanies an error return
				if c0, isConst := lf.V.(*ssa.Const); isConst && c0.Value == nil {
					continue
				}
				nSucc++
				isRoot := false
				if ex, ok := lf.V.(*ssa.Extract); ok && ex.Index == 0 {
					if call, ok := ex.Tuple.(*ssa.Call); ok && strings.HasSuffix(callName(call), "entity.(SigningData).HashTreeRoot") {
						isRoot = true
					}
				}
				if !isRoot {
					good = false
				}
			}
		}
		good = good && nSucc > 0
		r.Check(good && strings.Contains(stores["SigningData.ObjectRoot"], "ValidatorIndex") == false, "C17/R4", "wc_rotation.GetSigningRoot:result", "the result is hash_tree_root(SigningData)", c.Pos(fn.Pos()), "success return is not SigningData.HashTreeRoot()")
		if orr := stores["SigningData.ObjectRoot"]; true {
			r.Check(strings.Contains(orr, "HashTreeRoot()#0"), "C17/R4", "wc_rotation.GetSigningRoot:object-root-source", "object_root is hash_tree_root(BLSToExecutionChange)", c.Pos(fn.Pos()), "ObjectRoot := "+orr)
		}
	}
	if fn := c.Fn("C17/R4", pkgWC, "", "computeDomain"); fn != nil {
		// domain = domainType[:] ++ forkDataRoot[:28] — decided on a byte-layout model of the returned array: every
		// copy() into a slice of the 32-byte local with constant bounds contributes segments (destination offset,
		// length, source, source offset); accepted are `copy(d[:], append(a[:], b[:28]...))` and piecewise copies.
		type seg struct {
			off, n int64
			src    string
			srcOff int64
		}
		var segs []seg
		detail := ""
		sliceOf := func(v ssa.Value) (base ssa.Value, lo, hi int64, ok bool) {
			sl, isS := v.(*ssa.Slice)
			if !isS {
				return nil, 0, 0, false
			}
			n := int64(-1)
			t := sl.X.Type()
			if pt, isP := t.Underlying().(*types.Pointer); isP {
				t = pt.Elem()
			}
			if at, isA := t.Underlying().(*types.Array); isA {
				n = at.Len()
			}
			lo, hi = 0, n
			if sl.Low != nil {
				k, okk := ssax.ConstInt(sl.Low)
				if !okk {
					return nil, 0, 0, false
				}
				lo = k
			}
			if sl.High != nil {
				k, okk := ssax.ConstInt(sl.High)
				if !okk {
					return nil, 0, 0, false
				}
				hi = k
			}
			if hi < 0 {
				return nil, 0, 0, false
			}
			return sl.X, lo, hi, true
		}
		ssax.Instrs(fn, func(in ssa.Instruction) {
			call, isCall := in.(*ssa.Call)
			if !isCall {
				return
			}
			b, isB := call.Common().Value.(*ssa.Builtin)
			if !isB || b.Name() != "copy" {
				return
			}
			dbase, dlo, dhi, okd := sliceOf(call.Common().Args[0])
			if !okd {
				detail += " copy with non-constant destination bounds;"
				return
			}
			if al, isAl := dbase.(*ssa.Alloc); !isAl || !strings.HasSuffix(al.Type().String(), "[32]byte") {
				return
			}
			var parts []ssa.Value
			src := call.Common().Args[1]
			if ac, isAc := src.(*ssa.Call); isAc {
				if ab, isAb := ac.Common().Value.(*ssa.Builtin); isAb && ab.Name() == "append" {
					parts = append(parts, ac.Common().Args[0], ac.Common().Args[1])
				}
			}
			if parts == nil {
				parts = []ssa.Value{src}
			}
			off := dlo
			for _, pt := range parts {
				pb, plo, phi, okp := sliceOf(pt)
				if !okp {
					detail += " source " + ssax.Path(pt) + " has no constant bounds;"
					return
				}
				n := phi - plo
				if off+n > dhi {
					n = dhi - off
				}
				if n > 0 {
					segs = append(segs, seg{off, n, ssax.Path(pb), plo})
				}
				off += n
			}
		})
		sort.Slice(segs, func(a, b int) bool { return segs[a].off < segs[b].off })
		ok := len(segs) == 2 &&
			segs[0].off == 0 && segs[0].n == 4 && segs[0].src == "domainType" && segs[0].srcOff == 0 &&
			segs[1].off == 4 && segs[1].n == 28 && strings.Contains(segs[1].src, ".HashTreeRoot()#0") && segs[1].srcOff == 0
		for _, sg := range segs {
			detail += sprintf(" [%d,%d)<-%s[%d:]", sg.off, sg.off+sg.n, sg.src, sg.srcOff)
		}
		r.Check(ok, "C17/R4", "wc_rotation.computeDomain:concat", "domain = domain_type ‖ fork_data_root[:28]", c.Pos(fn.Pos()), "byte layout of the returned domain is"+detail)
		// the root is that of ForkData(current_version=fork_version, genesis_validators_root=root)
		// (computeForkDataRoot is expanded into computeDomain — load.flatten)
		htr := ssax.Calls(fn, false, func(ci ssa.CallInstruction) bool {
			return strings.HasSuffix(ssax.FuncID(ssax.CalleeObj(ci)), "entity.(ForkData).HashTreeRoot")
		})
		stores := map[string]string{}
		if len(htr) == 1 {
			recv := ssax.Resolve(htr[0].Common().Args[0])
			ssax.Instrs(fn, func(in ssa.Instruction) {
				if st, ok := in.(*ssa.Store); ok {
					if fa, ok := st.Addr.(*ssa.FieldAddr); ok && ssax.Resolve(fa.X) == recv && ssax.FieldOf(fa) != nil {
						stores[ssax.FieldOf(fa).Name()] = ssax.Path(st.Val)
					}
				}
			})
		}
		r.Check(len(htr) == 1 && strings.Contains(stores["CurrentVersion"], "forkVersion") && strings.Contains(stores["GenesisValidatorsRoot"], "genesisValidatorsRoot"), "C17/R4", "wc_rotation.computeForkDataRoot:fields", "ForkData(current_version=fork_version, genesis_validators_root=root)", c.Pos(fn.Pos()),
			sprintf("%d ForkData.HashTreeRoot calls; CurrentVersion=%s GenesisValidatorsRoot=%s", len(htr), stores["CurrentVersion"], stores["GenesisValidatorsRoot"]))
		// the laid-out local is what is returned
		retOK := false
		for _, ret := range ssax.Returns(fn) {
			if len(ret.Results) == 2 && ssax.IsNilConst(ssax.Resolve(ret.Results[1])) {
				if ld, isLd := ret.Results[0].(*ssa.UnOp); isLd {
					if al, isAl := ld.X.(*ssa.Alloc); isAl && strings.HasSuffix(al.Type().String(), "[32]byte") {
						retOK = true
					}
				}
			}
		}
		r.Check(retOK, "C17/R4", "wc_rotation.computeDomain:copy", "the concatenation is what is returned as the 32-byte domain", c.Pos(fn.Pos()), "the success return is not the 32-byte local the bytes were copied into")
	}
}

// arrayVarHex evaluates a package-level byte-array variable initialised by a composite literal of constants.
func arrayVarHex(files []*ast.File, info *types.Info, name string) (string, bool) {
	for _, f := range files {
		for _, d := range f.Decls {
			gd, ok := d.(*ast.GenDecl)
			if !ok || gd.Tok != token.VAR {
				continue
			}
			for _, s := range gd.Specs {
				vs := s.(*ast.ValueSpec)
				for i, n := range vs.Names {
					if n.Name != name || i >= len(vs.Values) {
						continue
					}
					cl, ok := vs.Values[i].(*ast.CompositeLit)
					if !ok {
						return "", false
					}
					at, ok := info.TypeOf(cl).Underlying().(*types.Array)
					if !ok {
						return "", false
					}
					buf := make([]byte, at.Len())
					for j, e := range cl.Elts {
						if _, isKV := e.(*ast.KeyValueExpr); isKV {
							return "", false
						}
						tv := info.Types[e]
						if tv.Value == nil {
							return "", false
						}
						v, _ := constant.Int64Val(tv.Value)
						if j < len(buf) {
							buf[j] = byte(v)
						}
					}
					return hex.EncodeToString(buf), true
				}
			}
		}
	}
	return "", false
}
