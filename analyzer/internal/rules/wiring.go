package rules

import (
	"regexp"
	"sort"
	"strings"

	"dcverif/internal/load"
	"dcverif/internal/ssax"

	"golang.org/x/tools/go/ssa"
)

// the index of a range loop ((phi(-1, i) + 1)) or of a classic counter starting at 0 (phi(0, i+1))
var reLoopIdx = regexp.MustCompile(`\(phi\(\(<cycle> \+ 1\)\|-1\) \+ 1\)|phi\(\(<cycle> \+ 1\)\|0\)`)

// npath is ssax.Path with range-loop indices abbreviated to "i".
func npath(v ssa.Value) string {
	return reLoopIdx.ReplaceAllString(ssax.Path(v), "i")
}

// callsIn returns the calls of fn to the given callee id (load.Module-relative ids are expanded).
func callsIn(fn *ssa.Function, id string) []ssa.CallInstruction {
	if !strings.Contains(id, ".com/") && !strings.HasPrefix(id, "encoding/") && !strings.HasPrefix(id, "crypto/") && !strings.HasPrefix(id, "strconv") && !strings.HasPrefix(id, "lukechampine") && !strings.HasPrefix(id, "golang.org") {
		id = load.Module + "/" + id
	}
	return ssax.CallsTo(fn, id)
}

// argSpec: argument #Arg of the unique call to Callee inside Fn must have a provenance path matching Want.
type argSpec struct {
	Rule, Key  string
	Fn         [3]string // rel, recv, name
	Callee     string
	Arg        int
	Want       string // regexp on npath
	What, Fail string
}

func checkArgs(c *Ctx, specs []argSpec) {
	for _, s := range specs {
		fn := c.Fn(s.Rule, s.Fn[0], s.Fn[1], s.Fn[2])
		if fn == nil {
			continue
		}
		calls := callsIn(fn, s.Callee)
		if len(calls) != 1 {
			c.R.Fail(s.Rule, s.Key, s.What, c.Pos(fn.Pos()), sprintf("%d calls to %s in %s (expected exactly 1): %s", len(calls), s.Callee, s.Fn[2], s.Fail))
			continue
		}
		args := calls[0].Common().Args
		if s.Arg >= len(args) {
			c.R.Unknown(s.Rule, s.Key, s.What, c.PosOf(calls[0]), "argument index out of range")
			continue
		}
		p := npath(args[s.Arg])
		ok, _ := regexp.MatchString(s.Want, p)
		if !ok {
			// the value is handed in by the caller (computed once per batch instead of once per message, say): the rule
			// is then about what every caller passes for that parameter
			if via, paths := c.forwardedParam(fn, args[s.Arg]); via {
				ok = len(paths) > 0
				for _, ap := range paths {
					if m, _ := regexp.MatchString(s.Want, ap); !m {
						ok = false
					}
				}
				p = p + "` = at the call sites of " + s.Fn[2] + " `" + strings.Join(paths, "` / `")
			}
		}
		c.R.Check(ok, s.Rule, s.Key, s.What, c.PosOf(calls[0]), "argument is `"+p+"`, expected to match `"+s.Want+"`: "+s.Fail)
	}
}

// storeSpec: inside Fn, the (unique) store to a field Owner.Field must have a value path matching Want.
type storeSpec struct {
	Rule, Key    string
	Fn           [3]string
	Owner, Field string
	Want         string
	What, Fail   string
}

func checkStores(c *Ctx, specs []storeSpec) {
	for _, s := range specs {
		fn := c.Fn(s.Rule, s.Fn[0], s.Fn[1], s.Fn[2])
		if fn == nil {
			continue
		}
		var vals []string
		var at ssa.Instruction
		ssax.Instrs(fn, func(in ssa.Instruction) {
			st, ok := in.(*ssa.Store)
			if !ok {
				return
			}
			fa, ok := st.Addr.(*ssa.FieldAddr)
			if !ok || ssax.FieldOf(fa) == nil || ssax.FieldOf(fa).Name() != s.Field || ssax.OwnerName(fa) != s.Owner {
				return
			}
			vals = append(vals, npath(st.Val))
			at = in
		})
		if len(vals) == 0 {
			c.R.Fail(s.Rule, s.Key, s.What, c.Pos(fn.Pos()), "no store to "+s.Owner+"."+s.Field+" in "+s.Fn[2]+": "+s.Fail)
			continue
		}
		sort.Strings(vals)
		ok := true
		for _, v := range vals {
			if m, _ := regexp.MatchString(s.Want, v); !m {
				ok = false
			}
		}
		c.R.Check(ok, s.Rule, s.Key, s.What, c.PosOf(at), s.Owner+"."+s.Field+" := `"+strings.Join(vals, "` / `")+"`, expected to match `"+s.Want+"`: "+s.Fail)
	}
}

// callersOf lists module (non-test, non-mock) functions that call the function id.
func (c *Ctx) callersOf(id string) []string {
	var out []string
	for f := range c.P.AllFuncs() {
		if !load.InModule(f) || c.isTestFunc(f) || strings.Contains(load.FuncName(f), "mocks/") || f.Synthetic != "" {
			continue // synthetic wrappers (promoted methods, bound method closures) only forward
		}
		for range callsIn(f, id) {
			out = append(out, load.FuncName(f))
		}
	}
	sort.Strings(out)
	return out
}

func regexpMatchString(pat, s string) (bool, error) { return regexp.MatchString(pat, s) }


// forwardedParam: v is (exactly) a parameter of fn; returns the access paths of the corresponding actual argument at every
// non-test call site of fn in the module.
func (c *Ctx) forwardedParam(fn *ssa.Function, v ssa.Value) (bool, []string) {
	prm, ok := ssax.Resolve(v).(*ssa.Parameter)
	if !ok {
		if prm, ok = v.(*ssa.Parameter); !ok {
			return false, nil
		}
	}
	idx := -1
	for i, q := range fn.Params {
		if q == prm {
			idx = i
		}
	}
	if idx < 0 {
		return false, nil
	}
	var paths []string
	for f := range c.P.AllFuncs() {
		if !load.InModule(f) || c.isTestFunc(f) || strings.Contains(load.FuncName(f), "mocks/") || f.Synthetic != "" {
			continue
		}
		ssax.Instrs(f, func(in ssa.Instruction) {
			call, isCall := in.(ssa.CallInstruction)
			if !isCall || call.Common().StaticCallee() != fn {
				return
			}
			a := call.Common().Args
			if idx < len(a) {
				paths = append(paths, npath(a[idx]))
			}
		})
	}
	sort.Strings(paths)
	return true, paths
}
