package rules

import (
	"sort"
	"strings"

	"dcverif/internal/load"
	"dcverif/internal/ssax"

	"golang.org/x/tools/go/ssa"
)

func init() { Registry["C01"] = C01 }

const (
	mMsgs  = `makemap<map\[string\]requests\.MessageToSign>`
	mBatch = `makemap<types\.BatchPartialSignatures>`
)

// C01 — reconstructed threshold signatures verify under the group key and agree.
func C01(c *Ctx) {
	r := c.R
	r.Explain = "Decided statically (wiring of the two cryptographic call sites; the arithmetic inside kyber is trusted): (R1) the only producer of ReconstructedSignature.Signature is tbls.Recover called with the round's own public polynomial (PubPolyBz of the same FSM instance), the expanded proposal payload of the message whose id keys the share list, the shares collected under that id, t = the round's Threshold and n = number of registered participants, and every non-nil value recoverFullSign returns is that call's result (nothing remembered across calls or rounds); " +
		"(R2) a partial signature is tbls.Sign(suite, share of the keyring stored for the operation's round, payload of the expanded message) and is labelled with that message's id; (R3) what is broadcast and stored is exactly what was reconstructed; " +
		"(R4) the threshold used for key generation (NewDistKeyGenerator) is the proposal's threshold carried by the operation, identical in origin to the FSM's Threshold used for releasing and interpolating a batch — no site rewrites it. " +
		"NOT decided: correctness of tbls.Recover/tbls.Sign, equality of all t-subsets' interpolation (BLS uniqueness), validity under an independent Ethereum verifier, the (n,t)/subset/order quantifier."
	r.Trusted = []string{"corestario/kyber sign/tbls (Sign, Recover), share.PubPoly", "go/ssa value provenance"}
	r.Rule("C01/R1", "reconstruction call site: callee and the five arguments of tbls.Recover", 10)
	r.Rule("C01/R2", "signing call site: tbls.Sign with the round's share over the expanded payload; id of the signed message attached", 4)
	r.Rule("C01/R3", "what is broadcast/stored is what was reconstructed", 3)
	r.Rule("C01/R4", "one threshold: key generation, batch release and interpolation use the proposal's threshold unmodified", 5)
	node := [3]string{pkgNode, "", "recoverFullSign"}
	rts := [3]string{pkgNode, "", "reconstructThresholdSignature"}
	checkArgs(c, []argSpec{
		{"C01/R1", "node.recoverFullSign:Recover:public", node, "github.com/corestario/kyber/sign/tbls.Recover", 1, `^dkg\.LoadPubPolyBLSKeyringFromBytes\(.*, signingFSM\.FSMDump\(\)\.Payload\.DKGProposalPayload\.PubPolyBz\)#0\.PubPoly$`,
			"shares are checked and interpolated against the round's own public polynomial", "another polynomial would accept foreign shares or yield a value that is not a signature under the group key"},
		{"C01/R1", "node.recoverFullSign:Recover:msg", node, "github.com/corestario/kyber/sign/tbls.Recover", 2, `^msg$`, "the message verified/interpolated is the caller's payload", "payload substituted"},
		{"C01/R1", "node.recoverFullSign:Recover:shares", node, "github.com/corestario/kyber/sign/tbls.Recover", 3, `^sigShares$`, "the shares interpolated are the caller's", "shares substituted"},
		{"C01/R1", "node.recoverFullSign:Recover:t", node, "github.com/corestario/kyber/sign/tbls.Recover", 4, `^t$`, "the interpolation degree is the caller's threshold", "interpolating over fewer than t points yields a value that is not a valid signature and differs between signer subsets"},
		{"C01/R1", "node.recoverFullSign:Recover:n", node, "github.com/corestario/kyber/sign/tbls.Recover", 5, `^n$`, "n is the caller's participant count", "n substituted"},
		{"C01/R1", "node.reconstructThresholdSignature:recover:msg", rts, pkgNode + ".recoverFullSign", 1, `^` + mMsgs + `\[next\(range\(` + mBatch + `\)\)#1\]\.Payload$`,
			"the payload is that of the expanded proposal message whose id keys the share list", "signature computed over bytes of a different message"},
		{"C01/R1", "node.reconstructThresholdSignature:recover:shares", rts, pkgNode + ".recoverFullSign", 2, `^next\(range\(` + mBatch + `\)\)#2$`, "the shares are those collected under the same message id", "shares of another message"},
		{"C01/R1", "node.reconstructThresholdSignature:recover:t", rts, pkgNode + ".recoverFullSign", 3, `^signingFSM\.FSMDump\(\)\.Payload\.Threshold$`, "t is the round's threshold", "threshold substituted (t-1, n, len(shares), ...)"},
		{"C01/R1", "node.reconstructThresholdSignature:recover:n", rts, pkgNode + ".recoverFullSign", 4, `^len\(signingFSM\.FSMDump\(\)\.Payload\.PubKeys\)$`, "n is the number of registered participants", "n substituted"},
		{"C01/R1", "node.reconstructThresholdSignature:expansion", rts, "fsm/types/requests.TasksToMessages", 0, `^json\(payload\.SrcPayload\)$`, "messages come from the single expansion of the proposal's tasks", "ad-hoc expansion"},
		{"C01/R1", "node.reconstructThresholdSignature:tasks-source", rts, "encoding/json.Unmarshal", 0, `^payload\.SrcPayload$`, "the tasks are the proposal's SrcPayload carried by the FSM response", "tasks taken from elsewhere"},
		{"C01/R1", "node.reconstructThresholdSignature:share-grouping", rts, "fsm/types.(BatchPartialSignatures).AddPartialSignature", 1, `^next\(range\(payload\.Participants\[i\]\.PartialSigns\)\)#1$`, "shares are grouped by the message id they were submitted under", "grouping key changed"},
		// (createPartialSign is expanded into the handler — load.flatten — so these hold whether the wrapper exists or not)
		{"C01/R2", "airgapped.signing-handler:Sign:share", [3]string{"airgapped", "Machine", "handleStateSigningAwaitPartialSigns"}, "github.com/corestario/kyber/sign/tbls.Sign", 1, `^am\.loadBLSKeyring\(o\.DKGIdentifier\)#0\.Share$`,
			"the signing key is the share stored for the operation's round", "share of another round / another key"},
		{"C01/R2", "airgapped.signing-handler:Sign:msg", [3]string{"airgapped", "Machine", "handleStateSigningAwaitPartialSigns"}, "github.com/corestario/kyber/sign/tbls.Sign", 2, `^requests\.TasksToMessages\(json\(json\(o\.Payload\)\.SrcPayload\)\)#0\[i\]\.Payload$`,
			"each expanded message's payload is signed", "other bytes signed (file name, task payload, ...)"},
		{"C01/R3", "node.broadcastReconstructedSignatures:payload", [3]string{pkgNode, "BaseNodeService", "broadcastReconstructedSignatures"}, "encoding/json.Marshal", 0, `^sigs$`, "the broadcast carries the reconstructed signatures unmodified", "broadcast value differs from the reconstructed one"},
		{"C01/R4", "dkg.InitDKGInstance:threshold", [3]string{"dkg", "DKG", "InitDKGInstance"}, "github.com/corestario/kyber/share/dkg/pedersen.NewDistKeyGenerator", 3, `^d\.Threshold$`,
			"the key is generated with exactly the configured threshold", "a threshold that differs from the one the hot nodes release and interpolate batches with makes every reconstruction a non-signature"},
	})
	checkStores(c, []storeSpec{
		{"C01/R1", "node.reconstructThresholdSignature:Signature", rts, "ReconstructedSignature", "Signature", `^node\.recoverFullSign\(.*\)#0$`, "the stored/broadcast signature is the value tbls.Recover returned", "signature field filled from elsewhere"},
		{"C01/R1", "node.reconstructThresholdSignature:MessageID", rts, "ReconstructedSignature", "MessageID", `^next\(range\(` + mBatch + `\)\)#1$`, "the signature is filed under the id its shares were grouped by", "id mismatch"},
		{"C01/R2", "airgapped.signing-handler:PartialSign.MessageID", [3]string{"airgapped", "Machine", "handleStateSigningAwaitPartialSigns"}, "PartialSign", "MessageID", `^requests\.TasksToMessages\(json\(json\(o\.Payload\)\.SrcPayload\)\)#0\[i\]\.MessageID$`,
			"each partial signature is labelled with the id of the message whose payload was signed", "label taken from another element"},
		{"C01/R2", "airgapped.signing-handler:PartialSign.Sign", [3]string{"airgapped", "Machine", "handleStateSigningAwaitPartialSigns"}, "PartialSign", "Sign", `^tbls\.Sign\(am\.baseSuite\.\(pairing\.Suite\), am\.loadBLSKeyring\(o\.DKGIdentifier\)#0\.Share, requests\.TasksToMessages\(json\(json\(o\.Payload\)\.SrcPayload\)\)#0\[i\]\.Payload\)#0$`,
			"the partial signature is the one computed for that element", "value mismatch"},
		{"C01/R4", "airgapped.commits-handler:DKG.Threshold", [3]string{"airgapped", "Machine", "handleStateDkgCommitsAwaitConfirmations"}, "DKG", "Threshold", `^json\(o\.Payload\)\[0\]\.Threshold$`, "key generation uses the threshold carried by the operation (the proposal's)", "threshold rewritten on the airgapped side"},
	})
	// messages map is keyed by the message's own id
	if fn := c.Fn("C01/R1", pkgNode, "", "reconstructThresholdSignature"); fn != nil {
		ok := false
		ssax.Instrs(fn, func(in ssa.Instruction) {
			if mu, isMu := in.(*ssa.MapUpdate); isMu {
				k, v := npath(mu.Key), npath(mu.Value)
				if strings.HasSuffix(k, "#0[i].MessageID") && strings.HasPrefix(k, "requests.TasksToMessages(") && v+".MessageID" == k {
					ok = true
				}
			}
		})
		r.Check(ok, "C01/R1", "node.reconstructThresholdSignature:messages-by-id", "the lookup table maps each expanded message's own id to that message", c.Pos(fn.Pos()), "messages[m.MessageID] = m not recognised")
		// what recoverFullSign hands back is what tbls.Recover computed in this very call: from the round's polynomial and these
		// shares — never a remembered value (a signature kept from another round is not a signature under this round's key)
		if rf := c.Fn("C01/R1", pkgNode, "", "recoverFullSign"); rf != nil {
			var off []string
			nret := 0
			for _, ret := range ssax.Returns(rf) {
				if len(ret.Results) != 2 {
					continue
				}
				v := ssax.Resolve(ret.Results[0])
				if ssax.IsNilConst(v) {
					continue
				}
				nret++
				if p := npath(ret.Results[0]); !strings.HasPrefix(p, "tbls.Recover(") || !strings.HasSuffix(p, ")#0") {
					off = append(off, p+" at "+c.PosOf(ret))
				}
			}
			sort.Strings(off)
			r.Check(nret >= 1 && len(off) == 0, "C01/R1", "node.recoverFullSign:returns-recovered", "every signature recoverFullSign returns is tbls.Recover's result of this call", c.Pos(rf.Pos()),
				sprintf("%d non-nil results; not the interpolation's result: %s — a value remembered across calls ignores the round's group key and the shares delivered", nret, strings.Join(off, "; ")))
		}
		// all callers of recover
		cs := c.callersOf(pkgNode + ".recoverFullSign")
		r.Check(len(cs) == 1 && strings.HasSuffix(cs[0], "reconstructThresholdSignature"), "C01/R1", "node.recoverFullSign:callers", "signatures are reconstructed at one site only", "", "callers: "+strings.Join(cs, ", "))
	}
	// who else produces tbls.Recover / bls aggregate values into ReconstructedSignature.Signature
	var prod []string
	for f := range c.P.AllFuncs() {
		if !load.InModule(f) || c.isTestFunc(f) || strings.Contains(load.FuncName(f), "cmd/") {
			continue
		}
		ssax.Instrs(f, func(in ssa.Instruction) {
			if st, ok := in.(*ssa.Store); ok {
				if fa, ok := st.Addr.(*ssa.FieldAddr); ok && ssax.OwnerName(fa) == "ReconstructedSignature" && ssax.FieldOf(fa).Name() == "Signature" {
					prod = append(prod, load.FuncName(f))
				}
			}
		})
	}
	sort.Strings(prod)
	r.Check(len(prod) == 1 && strings.HasSuffix(prod[0], "reconstructThresholdSignature"), "C01/R3", "types.ReconstructedSignature.Signature:writers", "the Signature field is written only by the reconstruction (received broadcasts are stored as decoded)", "", "writers: "+strings.Join(prod, ", "))
	// processMessage hands the reconstruction result to the broadcast
	if pm := c.Fn("C01/R3", pkgNode, "BaseNodeService", "processMessage"); pm != nil {
		bcs := callsIn(pm, pkgNode+".(BaseNodeService).broadcastReconstructedSignatures")
		ok := len(bcs) == 1 && strings.Contains(npath(bcs[0].Common().Args[2]), "reconstructThresholdSignature(") && strings.HasSuffix(npath(bcs[0].Common().Args[2]), "#0")
		r.Check(ok, "C01/R3", "node.processMessage:broadcast-arg", "the value broadcast is reconstructThresholdSignature's result", c.Pos(pm.Pos()), "broadcast argument not the reconstruction result")
	}
	thresholdWriters(c, "C01/R4")
	// the operation's threshold entry comes from the same proposal value
	checkStores(c, []storeSpec{
		{"C01/R4", "dkg_proposal_fsm.actionInitDKGProposal:entry-threshold", [3]string{pkgDPF, "DKGProposalFSM", "actionInitDKGProposal"}, "DKGProposalPubKeysParticipantEntry", "Threshold", `SignatureProposalPayload\.Quorum\[0\]\.Threshold$`, "the threshold sent to the airgapped machines is the invitation's", "threshold substituted"},
		{"C01/R4", "signature_proposal_fsm.actionInitSignatureProposal:participant-threshold", [3]string{pkgSPF, "SignatureProposalFSM", "actionInitSignatureProposal"}, "SignatureProposalParticipant", "Threshold", `\.SigningThreshold$`, "the invitation records the proposal's SigningThreshold", "threshold substituted"},
	})
}


// thresholdWriters: the round threshold is written once on each side (airgapped DKG object, FSM payload), from the
// proposal, and nowhere else — a later rewrite (a "hardening" that raises it, a clamp) makes the polynomial degree
// differ from the t that the signing quorum and the interpolation use. Shared by C01/R4 and C02/R4.
func thresholdWriters(c *Ctx, rule string) {
	r := c.R
	// R4: writers of DKG.Threshold and of DumpedMachineStatePayload.Threshold
	var tw []string
	for f := range c.P.AllFuncs() {
		if !load.InModule(f) || c.isTestFunc(f) {
			continue
		}
		ssax.Instrs(f, func(in ssa.Instruction) {
			if st, ok := in.(*ssa.Store); ok {
				if fa, ok := st.Addr.(*ssa.FieldAddr); ok && ssax.FieldOf(fa).Name() == "Threshold" && (ssax.OwnerName(fa) == "DKG" || ssax.OwnerName(fa) == "DumpedMachineStatePayload") {
					tw = append(tw, ssax.OwnerName(fa)+"@"+f.Name()+":="+npath(st.Val))
				}
			}
		})
	}
	sort.Strings(tw)
	want := []string{"DKG@handleStateDkgCommitsAwaitConfirmations:=json(o.Payload)[0].Threshold", "DumpedMachineStatePayload@actionInitSignatureProposal:=args[0].(requests.SignatureProposalParticipantsListRequest)#0.SigningThreshold"}
	okW := len(tw) == 2 && strings.HasPrefix(tw[0], "DKG@handleStateDkgCommitsAwaitConfirmations:=") && strings.HasPrefix(tw[1], "DumpedMachineStatePayload@actionInitSignatureProposal:=") && strings.HasSuffix(tw[1], ".SigningThreshold")
	_ = want
	r.Check(okW, rule, "threshold:writers", "the round threshold is written once on each side, from the proposal", "", "writers: "+strings.Join(tw, " ; "))
}
