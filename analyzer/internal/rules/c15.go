package rules

import (
	"go/token"
	"go/types"
	"sort"
	"strings"

	"dcverif/internal/load"
	"dcverif/internal/ssax"

	"golang.org/x/tools/go/ssa"
)

func init() { Registry["C15"] = C15 }

const (
	pkgTypes  = "client/types"
	pkgOpRepo = "client/repositories/operation"
)

// C15 — only unaltered answers to operations the node issued reach the board, once.
func C15(c *Ctx) {
	r := c.R
	r.Explain = "Decided statically: (R1) in node.executeOperation every board post and the OperationProcessed write-back lie behind: Event not empty, a successful pool lookup by operation.ID, and storedOperation.Equal(operation)==nil; (R2) Operation.Equal returns nil only past comparisons of ID, Type and Payload of the two operands; " +
		"(R3) each posted message gets SenderAddr from the node's user name, then Signature = signMessage(message.Bytes()) computed after the sender overwrite, is stored back at its index, and the slice sent is that slice; (R4) the operation is retired after a successful post (DeleteOperation on the success path, tombstone written before the pool rewrite, a tombstoned id is refused, GetOperations/PutOperation filter by tombstones, the tombstone list is rewritten whole and no entry is ever removed from it); " +
		"(R5) NewOperation derives the id from exactly (round id, payload); (R6) Operation/OperationForm/OperationDTO and Message/MessageForm/MessageDTO agree field-for-field, ProcessOperation copies every DTO field, every (Form,DTO) pair bound in the handlers satisfies go-dto's same-name-same-type rule, and the Operation type closure plus the request/response payload types are JSON round-trip safe. " +
		"NOT decided: submission histories as executed facts; encoding/json itself."
	r.Trusted = []string{"encoding/json", "censync/go-dto RequestToDTO semantics (field by name, identical type)", "crypto/ed25519.Sign", "go/ssa"}
	r.Rule("C15/R1", "check before post: IsEmpty false, GetOperationByID ok, Equal ok dominate Send and the write-back", 6)
	r.Rule("C15/R2", "Operation.Equal binds ID, Type and Payload", 4)
	r.Rule("C15/R3", "attribution: sender overwritten, then signed, stored back, same slice sent", 5)
	r.Rule("C15/R4", "retirement: delete after post, tombstone first, tombstoned id refused, pool filtered by tombstones, tombstones never removed; concurrent submissions serialised", 9)
	r.Rule("C15/R5", "operation id is a function of (round id, payload) only", 1)
	r.Rule("C15/R7", "the write-back answer (OperationProcessed) is accepted only for a stored reinit operation and is applied to the round the node issued that operation for — Equal does not bind Event, DKGIdentifier or ExtraData of the submitted copy", 2)
	r.Rule("C15/R6", "file/API round trip: sibling schemas agree, all DTO fields copied, (Form,DTO) pairs bindable, JSON-safe types", 20)
	c15Execute(c)
	c15Equal(c)
	c15Repo(c)
	c15NewOperation(c)
	c15Schemas(c)
}

func c15Execute(c *Ctx) {
	r := c.R
	c15WriteBackBound(c)
	c15AnswerSerialised(c)
	fn := c.Fn("C15/R1", pkgNode, "BaseNodeService", "executeOperation")
	if fn == nil {
		return
	}
	byName := func(name string) []ssa.CallInstruction {
		return ssax.Calls(fn, false, func(ci ssa.CallInstruction) bool { o := ssax.CalleeObj(ci); return o != nil && o.Name() == name })
	}
	sends, saves, dels := byName("Send"), byName("SaveFSM"), byName("DeleteOperation")
	empties, gets, equals := byName("IsEmpty"), byName("GetOperationByID"), byName("Equal")
	if len(sends) == 0 || len(gets) != 1 || len(equals) != 1 || len(empties) == 0 || len(dels) != 1 {
		r.Unknown("C15/R1", "node.executeOperation:anchors", "executeOperation has the lookup, the comparison, the post and the retirement", c.Pos(fn.Pos()),
			sprintf("Send=%d GetOperationByID=%d Equal=%d IsEmpty=%d DeleteOperation=%d", len(sends), len(gets), len(equals), len(empties), len(dels)))
		return
	}
	get, eq, del := gets[0], equals[0], dels[0]
	var notEmpty []ssax.Edge
	for _, e := range empties {
		if strings.HasSuffix(ssax.Path(e.Common().Args[0]), "operation.Event") {
			notEmpty = append(notEmpty, ssax.BoolEdgesOfCall(fn, e, -1, false)...)
		}
	}
	getOK := ssax.NilErrEdgesOfCall(fn, get)
	eqOK := ssax.NilErrEdgesOfCall(fn, eq)
	// what is looked up and what is compared
	r.Check(strings.HasSuffix(ssax.Path(get.Common().Args[len(get.Common().Args)-1]), "operation.ID"), "C15/R1", "node.executeOperation:lookup-key", "the pool lookup uses the submitted operation's ID", c.PosOf(get), "lookup key is "+ssax.Path(get.Common().Args[len(get.Common().Args)-1]))
	ea := eq.Common().Args
	r.Check(len(ea) == 2 && strings.Contains(ssax.Path(ea[0]), "GetOperationByID(") && ssax.Path(ea[1]) == "operation" && callName(eq) == "client/types.(Operation).Equal", "C15/R1", "node.executeOperation:compare-operands",
		"the stored pool entry is compared with the submitted operation", c.PosOf(eq), "Equal operands: "+ssax.Path(ea[0])+" , "+ssax.Path(ea[len(ea)-1]))
	effects := append(append([]ssa.CallInstruction{}, sends...), saves...)
	effects = append(effects, del)
	idx := map[string]int{}
	for _, e := range effects {
		n := ssax.CalleeObj(e).Name()
		idx[n]++
		key := sprintf("node.executeOperation->%s#%d", n, idx[n])
		for _, g := range []struct {
			name  string
			edges []ssax.Edge
			why   string
		}{
			{"result-operation", notEmpty, "a request-only operation (empty Event) could be posted/retired"},
			{"pending-in-pool", getOK, "an unknown or already retired id could be posted/retired"},
			{"unaltered", eqOK, "a result whose id/type/payload differs from the issued request could be posted/retired"},
		} {
			r.Check(len(g.edges) > 0 && !ssax.ReachableAvoiding(fn, e, g.edges, nil), "C15/R1", key+":"+g.name, n+" only after the "+g.name+" check", c.PosOf(e), g.why)
		}
	}
	// R3 attribution
	var senderStores, sigStores, backStores []ssa.Instruction
	ssax.Instrs(fn, func(in ssa.Instruction) {
		st, ok := in.(*ssa.Store)
		if !ok {
			return
		}
		ap := ssax.Path(st.Addr)
		switch {
		case strings.HasSuffix(ap, ".SenderAddr"):
			if strings.HasSuffix(ssax.Path(st.Val), "s.GetUsername()") {
				senderStores = append(senderStores, in)
			} else {
				r.Fail("C15/R3", "node.executeOperation:sender-value", "SenderAddr is the node's own user name", c.PosOf(in), "SenderAddr := "+ssax.Path(st.Val))
			}
		case strings.HasSuffix(ap, ".Signature"):
			sigStores = append(sigStores, in)
		case strings.Contains(ap, "operation.ResultMsgs[") && !strings.Contains(ap, "]."):
			if _, isIdx := st.Addr.(*ssa.IndexAddr); isIdx {
				backStores = append(backStores, in)
			}
		}
	})
	signs := ssax.CallsTo(fn, load.Module+"/"+pkgNode+".(BaseNodeService).signMessage")
	bytesCalls := ssax.CallsTo(fn, load.Module+"/storage.(Message).Bytes")
	if len(sends) >= 1 && len(senderStores) == 1 && len(sigStores) == 1 && len(signs) == 1 && len(bytesCalls) == 1 && len(backStores) == 1 {
		r.OK("C15/R3", "node.executeOperation:sender-value", "SenderAddr is the node's own user name", c.PosOf(senderStores[0]))
		r.Check(!ssax.ReachableAvoiding(fn, bytesCalls[0], nil, senderStores), "C15/R3", "node.executeOperation:order:sender<bytes", "the bytes to sign are taken after the sender overwrite", c.PosOf(bytesCalls[0]), "message.Bytes() reachable before SenderAddr is overwritten")
		r.Check(ssax.Resolve(signs[0].Common().Args[1]) == ssa.Value(bytesCalls[0].(*ssa.Call)), "C15/R3", "node.executeOperation:signed-bytes", "what is signed is message.Bytes()", c.PosOf(signs[0]), "signMessage argument is "+ssax.Path(signs[0].Common().Args[1]))
		sv := sigStores[0].(*ssa.Store).Val
		r.Check(ssax.ResultOf(sv, signs[0], 0), "C15/R3", "node.executeOperation:signature-value", "Signature is the result of signMessage", c.PosOf(sigStores[0]), "Signature := "+ssax.Path(sv))
		r.Check(!ssax.ReachableAvoiding(fn, backStores[0], nil, sigStores) && !ssax.ReachableAvoiding(fn, backStores[0], nil, senderStores), "C15/R3", "node.executeOperation:store-back", "the re-attributed, signed message replaces the element", c.PosOf(backStores[0]), "operation.ResultMsgs[i] is written before sender/signature were set")
		// the index stored is the loop index and the value is the modified copy
		bs := backStores[0].(*ssa.Store)
		valOK := false
		if ld, ok := bs.Val.(*ssa.UnOp); ok {
			if fa, ok := senderStores[0].(*ssa.Store).Addr.(*ssa.FieldAddr); ok && ld.X == fa.X {
				valOK = true // the same local copy whose SenderAddr/Signature were overwritten
			}
		}
		idxOK := false
		if ia, ok := bs.Addr.(*ssa.IndexAddr); ok {
			// same index as the element the copy was read from
			ssax.Instrs(fn, func(in ssa.Instruction) {
				if ia2, ok := in.(*ssa.IndexAddr); ok && ia2 != ia && ia2.Index == ia.Index {
					idxOK = true
				}
			})
		}
		r.Check(valOK && idxOK, "C15/R3", "node.executeOperation:store-back-value", "the modified copy is stored back at the index it was read from", c.PosOf(bs), sprintf("value-is-modified-copy=%v same-index=%v", valOK, idxOK))
		for i, s := range sends {
			if _, ok := c.siteReaches(s, isDurableSink); !ok {
				continue
			}
			ap := ssax.Path(s.Common().Args[len(s.Common().Args)-1])
			r.Check(strings.HasSuffix(ap, "operation.ResultMsgs"), "C15/R3", sprintf("node.executeOperation:sent-slice#%d", i+1), "exactly the operation's (re-attributed) result messages are posted", c.PosOf(s), "Send argument is "+ap)
			// all messages re-attributed before the send: Send is after the loop, so it must not be reachable avoiding the loop's exit... approximated by order w.r.t. the back-store when the slice is non-empty
		}
	} else {
		r.Unknown("C15/R3", "node.executeOperation:attribution-shape", "sender overwrite, signing and store-back are recognisable", c.Pos(fn.Pos()),
			sprintf("SenderAddr stores=%d Signature stores=%d signMessage=%d Bytes=%d store-back=%d", len(senderStores), len(sigStores), len(signs), len(bytesCalls), len(backStores)))
	}
	// R4 order: retire after post
	for i, s := range sends {
		sOK := ssax.NilErrEdgesOfCall(fn, s)
		// on the path through this send, DeleteOperation only after its success
		r.Check(len(sOK) > 0 && !ssax.ReachableFrom(fn, s, del, sOK, nil), "C15/R4", sprintf("node.executeOperation:post<retire#%d", i+1), "the operation is retired only after the post succeeded", c.PosOf(s),
			"DeleteOperation reachable after a failed Send: the answer would be lost and the operation gone")
	}
	delOK := ssax.NilErrEdgesOfCall(fn, del)
	bad := false
	nOKRet := 0
	for _, ret := range ssax.Returns(fn) {
		if ret.Block() == fn.Recover || len(ret.Results) != 1 || !ssax.IsNilConst(ssax.Resolve(ret.Results[0])) {
			continue
		}
		nOKRet++
		if len(delOK) == 0 || ssax.ReachableAvoiding(fn, ret, delOK, nil) {
			bad = true
		}
	}
	r.Check(nOKRet >= 1 && !bad, "C15/R4", "node.executeOperation:success=>retired", "success is reported only after the operation was retired", c.PosOf(del), "a nil return is reachable without a successful DeleteOperation: the operation stays pending and can be answered again")
}

func c15Equal(c *Ctx) {
	r := c.R
	fn := c.Fn("C15/R2", pkgTypes, "Operation", "Equal")
	if fn == nil {
		return
	}
	need := map[string][]ssax.Edge{"ID": nil, "Type": nil, "Payload": nil}
	for _, cd := range ssax.Conds(fn) {
		var x, y string
		var eqEdge ssax.Edge
		switch cd.Op {
		case token.EQL, token.NEQ:
			x, y = ssax.Path(cd.X), ssax.Path(cd.Y)
			eqEdge, _ = cd.EdgeWhere(token.EQL)
		case token.ILLEGAL:
			call, ok := ssax.Resolve(cd.X).(*ssa.Call)
			if !ok || ssax.FuncID(ssax.CalleeObj(call)) != "bytes.Equal" {
				continue
			}
			x, y = ssax.Path(call.Common().Args[0]), ssax.Path(call.Common().Args[1])
			eqEdge, _ = cd.BoolEdge(true)
		default:
			continue
		}
		for f := range need {
			if (x == "o."+f && y == "o2."+f) || (x == "o2."+f && y == "o."+f) {
				need[f] = append(need[f], eqEdge)
			}
		}
	}
	var nilRets []*ssa.Return
	for _, ret := range ssax.Returns(fn) {
		if len(ret.Results) == 1 && ssax.IsNilConst(ssax.Resolve(ret.Results[0])) {
			nilRets = append(nilRets, ret)
		}
	}
	r.Check(len(nilRets) >= 1, "C15/R2", "types.(*Operation).Equal:returns", "Equal can report equality", c.Pos(fn.Pos()), "no nil return")
	for _, f := range []string{"ID", "Type", "Payload"} {
		ok := len(need[f]) > 0
		for _, ret := range nilRets {
			if ok && ssax.ReachableAvoiding(fn, ret, need[f], nil) {
				ok = false
			}
		}
		r.Check(ok, "C15/R2", "types.(*Operation).Equal:binds-"+f, "equality is reported only if the two operations' "+f+" are equal", c.Pos(fn.Pos()),
			"`return nil` is reachable without passing the equal edge of a comparison o."+f+" vs o2."+f+": a result with an altered "+f+" would be accepted")
	}
}

func c15Repo(c *Ctx) { c15RepoRules(c, "C15/R4") }

func c15RepoRules(c *Ctx, rule string) {
	r := c.R
	del := c.Fn(rule, pkgOpRepo, "BaseOperationRepo", "DeleteOperation")
	if del != nil {
		sets := ssax.Calls(del, false, func(ci ssa.CallInstruction) bool { o := ssax.CalleeObj(ci); return o != nil && o.Name() == "Set" })
		var tomb, pool ssa.CallInstruction
		for _, s := range sets {
			kp := ssax.Path(s.Common().Args[len(s.Common().Args)-2])
			if strings.HasSuffix(kp, ".deleteOperationsCompositeKey") {
				tomb = s
			} else if strings.HasSuffix(kp, ".operationsCompositeKey") {
				pool = s
			}
		}
		if tomb == nil || pool == nil {
			r.Unknown(rule, "operation.DeleteOperation:writes", "DeleteOperation writes the tombstone list and the pool", c.Pos(del.Pos()), "writes not recognised")
		} else {
			tOK := ssax.NilErrEdgesOfCall(del, tomb)
			r.Check(len(tOK) > 0 && !ssax.ReachableAvoiding(del, pool, tOK, nil), rule, "operation.DeleteOperation:tombstone-first", "the tombstone is durable before the pool is rewritten", c.PosOf(pool), "pool rewrite reachable without a successful tombstone write")
			nf := mapLookupEdges(del, "getDeletedOperations()", false)
			r.Check(len(nf) > 0 && !ssax.ReachableAvoiding(del, tomb, nf, nil), rule, "operation.DeleteOperation:refuse-retired", "an id that already has a tombstone is refused", c.PosOf(tomb), "tombstone write reachable without the not-yet-deleted test")
			// what is written back is the stored tombstone list itself (plus the new entry): never a pruned or fresh one
			vp := ssax.Path(tomb.Common().Args[len(tomb.Common().Args)-1])
			r.Check(strings.Contains(vp, "json.Marshal(") && strings.Contains(vp, "getDeletedOperations()"), rule, "operation.DeleteOperation:tombstones-rewritten-whole", "the tombstone list written back is the stored list with the new entry added", c.PosOf(tomb),
				"the value stored under the tombstone key is "+vp+", not the encoding of the list just read: earlier tombstones are lost and their operations can be answered again after a replay")
		}
	}
	// a tombstone is for good: nothing in the repository removes an entry of the tombstone list
	if sp := c.P.SSAPkg(pkgOpRepo); sp != nil {
		var prunes []string
		for f := range c.P.AllFuncs() {
			if f.Pkg != sp || c.isTestFunc(f) {
				continue
			}
			ssax.Instrs(f, func(in ssa.Instruction) {
				if call, ok := in.(*ssa.Call); ok {
					if b, isB := call.Common().Value.(*ssa.Builtin); isB && b.Name() == "delete" && strings.Contains(ssax.Path(call.Common().Args[0]), "getDeletedOperations()") {
						prunes = append(prunes, f.Name()+" at "+c.PosOf(in))
					}
				}
			})
		}
		sort.Strings(prunes)
		r.Check(len(prunes) == 0, rule, "operation.tombstones:never-removed", "no entry is ever removed from the tombstone list (a retired operation stays retired across replays of the board)", "",
			"tombstones are deleted in "+strings.Join(prunes, "; ")+": when the board is replayed (offset rewind, reinit) the same operation id is derived again, is pending again, and its answer is accepted and posted a second time")
	}
	if get := c.Fn(rule, pkgOpRepo, "BaseOperationRepo", "GetOperations"); get != nil {
		// every insertion into the returned map is guarded by "id not in deletedOperations"
		nf := mapLookupEdges(get, "getDeletedOperations()", false)
		n := 0
		bad := false
		ssax.Instrs(get, func(in ssa.Instruction) {
			mu, ok := in.(*ssa.MapUpdate)
			if !ok {
				return
			}
			n++
			if len(nf) == 0 || ssax.ReachableAvoiding(get, mu, nf, nil) {
				bad = true
			}
		})
		// and what is returned on the success path is that filtered map, not the raw one
		retOK := true
		for _, ret := range ssax.Returns(get) {
			if len(ret.Results) == 2 && ssax.IsNilConst(ssax.Resolve(ret.Results[1])) {
				if _, isMake := ssax.Resolve(ret.Results[0]).(*ssa.MakeMap); !isMake {
					retOK = false
				}
			}
		}
		r.Check(n >= 1 && !bad && retOK, rule, "operation.GetOperations:tombstone-filter", "the pool view excludes every id that has a tombstone (a retired operation never comes back)", c.Pos(get.Pos()),
			sprintf("filtered insertions=%d, unguarded=%v, returns-filtered-map=%v: a re-issued or crash-leftover entry of a retired id would be pending again and could be answered twice", n, bad, retOK))
	}
	if put := c.Fn(rule, pkgOpRepo, "BaseOperationRepo", "PutOperation"); put != nil {
		uses := len(ssax.CallsTo(put, load.Module+"/"+pkgOpRepo+".(BaseOperationRepo).GetOperations")) > 0
		r.Check(uses, rule, "operation.PutOperation:reads-filtered-pool", "PutOperation works on the tombstone-filtered view", c.Pos(put.Pos()), "PutOperation does not read the pool through GetOperations")
	}
	if byID := c.Fn(rule, pkgOpRepo, "BaseOperationRepo", "GetOperationByID"); byID != nil {
		uses := len(ssax.CallsTo(byID, load.Module+"/"+pkgOpRepo+".(BaseOperationRepo).GetOperations")) > 0
		okE := mapLookupEdges(byID, "GetOperations()", true)
		good := uses && len(okE) > 0
		for _, ret := range ssax.Returns(byID) {
			if len(ret.Results) == 2 && ssax.IsNilConst(ssax.Resolve(ret.Results[1])) && ssax.ReachableAvoiding(byID, ret, okE, nil) {
				good = false
			}
		}
		r.Check(good, rule, "operation.GetOperationByID:pending-only", "lookup by id succeeds only for an id present in the tombstone-filtered pool", c.Pos(byID.Pos()), "success return not guarded by the filtered-pool lookup")
	}
}

// mapLookupEdges: edges where a comma-ok lookup in a map whose provenance path contains `src` reports found==want.
func mapLookupEdges(fn *ssa.Function, src string, want bool) []ssax.Edge {
	var out []ssax.Edge
	for _, cd := range ssax.Conds(fn) {
		if cd.Op != token.ILLEGAL {
			continue
		}
		ex, ok := ssax.Resolve(cd.X).(*ssa.Extract)
		if !ok || ex.Index != 1 {
			continue
		}
		lk, ok := ex.Tuple.(*ssa.Lookup)
		if !ok || !lk.CommaOk || !strings.Contains(ssax.Path(lk.X), src) {
			continue
		}
		if e, ok := cd.BoolEdge(want); ok {
			out = append(out, e)
		}
	}
	return out
}

func c15NewOperation(c *Ctx) {
	r := c.R
	fn := c.Fn("C15/R5", pkgTypes, "", "NewOperation")
	if fn == nil {
		return
	}
	found := false
	ssax.Instrs(fn, func(in ssa.Instruction) {
		st, ok := in.(*ssa.Store)
		if !ok || !strings.HasSuffix(ssax.Path(st.Addr), ".ID") {
			return
		}
		found = true
		p := ssax.Path(st.Val)
		good := strings.Contains(p, "dkgRoundID") && strings.Contains(p, "payload")
		for _, banned := range []string{"time.", "uuid.", "rand.", "state", "CreatedAt"} {
			if strings.Contains(p, banned) {
				good = false
			}
		}
		r.Check(good, "C15/R5", "types.NewOperation:id", "the id is derived from the round id and the payload and nothing else", c.PosOf(st), "ID := "+p)
	})
	if !found {
		r.Unknown("C15/R5", "types.NewOperation:id", "NewOperation sets the ID", c.Pos(fn.Pos()), "no store to ID")
	}
}

func c15Schemas(c *Ctx) {
	r := c.R
	type trio struct{ name, aRel, aName, fRel, fName, dRel, dName string }
	for _, t := range []trio{
		{"Operation", pkgTypes, "Operation", "client/api/http_api/requests", "OperationForm", "client/api/dto", "OperationDTO"},
		{"Message", "storage", "Message", "client/api/http_api/requests", "MessageForm", "client/api/dto", "MessageDTO"},
	} {
		a, f, d := c.lookupType("C15/R6", t.aRel, t.aName), c.lookupType("C15/R6", t.fRel, t.fName), c.lookupType("C15/R6", t.dRel, t.dName)
		if a == nil || f == nil || d == nil {
			continue
		}
		// wire agreement between the file format (type a, as marshalled by the airgapped machine/CLI) and the API form
		aw, fw := wireSchema(a), wireSchema(f)
		am, fm := map[string]wireField{}, map[string]wireField{}
		for _, x := range aw {
			am[x.Wire] = x
		}
		for _, x := range fw {
			fm[x.Wire] = x
		}
		var diffs []string
		for w, x := range am {
			y, ok := fm[w]
			if !ok {
				diffs = append(diffs, "field "+w+" of "+t.aName+" is missing in "+t.fName+" (dropped on submission)")
				continue
			}
			if !sameWireType(c, a, x.GoName, f, y.GoName) {
				diffs = append(diffs, "field "+w+": "+x.Type+" vs "+y.Type)
			}
		}
		for w := range fm {
			if _, ok := am[w]; !ok {
				diffs = append(diffs, "field "+w+" of "+t.fName+" has no counterpart in "+t.aName)
			}
		}
		sort.Strings(diffs)
		r.Check(len(diffs) == 0, "C15/R6", "schema:"+t.aName+"<->"+t.fName, "file format and API form agree on every JSON name and type", "", strings.Join(diffs, "; "))
	}
	// ProcessOperation copies every field
	if fn := c.Fn("C15/R6", pkgNode, "BaseNodeService", "ProcessOperation"); fn != nil {
		want := map[string]string{"ID": "ID", "Type": "Type", "Payload": "Payload", "ResultMsgs": "ResultMsgs", "CreatedAt": "CreatedAt", "DKGIdentifier": "DkgID", "To": "To", "Event": "Event", "ExtraData": "ExtraData"}
		got := map[string]string{}
		ssax.Instrs(fn, func(in ssa.Instruction) {
			st, ok := in.(*ssa.Store)
			if !ok {
				return
			}
			fa, ok := st.Addr.(*ssa.FieldAddr)
			if !ok || ssax.OwnerName(fa) != "Operation" {
				return
			}
			got[ssax.FieldOf(fa).Name()] = ssax.Path(st.Val)
		})
		if t := c.lookupType("C15/R6", pkgTypes, "Operation"); t != nil {
			for name := range structFields(t) {
				src, ok := got[name]
				exp, known := want[name]
				switch {
				case !known:
					r.Fail("C15/R6", "node.ProcessOperation:copy:"+name, "every Operation field has a DTO source", c.Pos(fn.Pos()), "Operation has a field "+name+" the checker has no mapping for: a result written by the airgapped machine would lose it on submission")
				case !ok:
					r.Fail("C15/R6", "node.ProcessOperation:copy:"+name, "field copied from the DTO", c.Pos(fn.Pos()), "Operation."+name+" is not set from the submitted DTO")
				default:
					r.Check(strings.HasSuffix(src, "dto."+exp) || strings.Contains(src, "dto."+exp+")"), "C15/R6", "node.ProcessOperation:copy:"+name, "Operation."+name+" := dto."+exp, c.Pos(fn.Pos()), "source is "+src)
				}
			}
		}
	}
	// (Form, DTO) pairs bound in handlers
	pairs := map[string][2]types.Type{}
	for f := range c.P.AllFuncs() {
		if !load.InModule(f) || c.isTestFunc(f) {
			continue
		}
		for _, call := range ssax.Calls(f, false, func(ci ssa.CallInstruction) bool {
			o := ssax.CalleeObj(ci)
			return o != nil && (o.Name() == "BindToDTO" || (o.Name() == "RequestToDTO" && o.Pkg() != nil && strings.HasSuffix(o.Pkg().Path(), "go-dto")))
		}) {
			if strings.HasSuffix(load.FuncName(f), "ContextService).BindToDTO") {
				continue
			}
			args := call.Common().Args
			o := ssax.CalleeObj(call)
			var formV, dtoV ssa.Value
			if o.Name() == "BindToDTO" {
				formV, dtoV = args[len(args)-2], args[len(args)-1]
			} else {
				dtoV = args[0]
				if el := sliceElems(args[1]); len(el) == 1 {
					formV = el[0]
				}
			}
			ft, dt := ifaceOperandType(formV), ifaceOperandType(dtoV)
			if ft == nil || dt == nil {
				r.Unknown("C15/R6", "dto-binding:"+load.FuncName(f), "form and DTO types of the binding are statically known", c.PosOf(call), "cannot determine operand types")
				continue
			}
			pairs[types.TypeString(ft, nil)+" -> "+types.TypeString(dt, nil)] = [2]types.Type{ft, dt}
		}
	}
	for _, k := range sortedKeys(pairs) {
		ft, dt := pairs[k][0], pairs[k][1]
		ff, df := structFields(ft), structFields(dt)
		var diffs []string
		for n, ty := range ff {
			if dty, ok := df[n]; !ok {
				diffs = append(diffs, "DTO has no field "+n)
			} else if dty != ty {
				diffs = append(diffs, n+": "+ty+" vs "+dty)
			}
		}
		sort.Strings(diffs)
		short := strings.ReplaceAll(k, load.Module+"/", "")
		r.Check(len(diffs) == 0, "C15/R6", "dto-binding:"+short, "every form field has a same-named DTO field of identical type (otherwise go-dto rejects every request)", "", strings.Join(diffs, "; "))
	}
	r.Count("dto_pairs", len(pairs))
	// JSON safety
	for _, tn := range [][2]string{{pkgTypes, "Operation"}, {"fsm/types", "ReconstructedSignature"},
		{pkgRequests, "SignatureProposalParticipantsListRequest"}, {pkgRequests, "SignatureProposalParticipantRequest"}, {pkgRequests, "DKGProposalCommitConfirmationRequest"},
		{pkgRequests, "DKGProposalDealConfirmationRequest"}, {pkgRequests, "DKGProposalResponseConfirmationRequest"}, {pkgRequests, "DKGProposalMasterKeyConfirmationRequest"},
		{pkgRequests, "DKGProposalConfirmationErrorRequest"}, {pkgRequests, "SignatureProposalConfirmationErrorRequest"}, {pkgRequests, "SigningBatchProposalStartRequest"},
		{pkgRequests, "SigningProposalBatchPartialSignRequests"},
		{"fsm/types/responses", "SignatureProposalParticipantInvitationsResponse"}, {"fsm/types/responses", "DKGProposalPubKeysParticipantResponse"}, {"fsm/types/responses", "DKGProposalCommitParticipantResponse"},
		{"fsm/types/responses", "DKGProposalDealParticipantResponse"}, {"fsm/types/responses", "DKGProposalResponseParticipantResponse"}, {"fsm/types/responses", "SigningPartialSignsParticipantInvitationsResponse"},
		{pkgTypes, "ReDKG"}} {
		t := c.lookupType("C15/R6", tn[0], tn[1])
		if t == nil {
			continue
		}
		var issues []jsonIssue
		var visited []string
		jsonWalk(t, tn[1], map[string]bool{}, &issues, &visited)
		r.Count("json_types_walked", len(visited))
		if len(issues) == 0 {
			r.OK("C15/R6", "json-safe:"+tn[0]+"."+tn[1], "value survives the JSON file/board round trip", "")
		}
		for _, is := range issues {
			r.Fail("C15/R6", "json-safe:"+is.Path, "field survives the JSON round trip", "", is.Why)
		}
	}
}

// sameWireType: two fields are wire-compatible when their JSON encodings coincide: identical types, or named types
// with identical underlying basic kinds (string-like OperationType vs string, fsm.Event vs fsm.Event).
func sameWireType(c *Ctx, a types.Type, an string, f types.Type, fn string) bool {
	ta, tf := fieldType(a, an), fieldType(f, fn)
	if ta == nil || tf == nil {
		return false
	}
	if types.Identical(ta, tf) {
		return true
	}
	ba, ok1 := ta.Underlying().(*types.Basic)
	bf, ok2 := tf.Underlying().(*types.Basic)
	if ok1 && ok2 && ba.Kind() == bf.Kind() && !hasMethod(ta, "MarshalJSON") && !hasMethod(tf, "MarshalJSON") {
		return true
	}
	return false
}

func fieldType(t types.Type, name string) types.Type {
	st, ok := deref(t).Underlying().(*types.Struct)
	if !ok {
		return nil
	}
	for i := 0; i < st.NumFields(); i++ {
		if st.Field(i).Name() == name {
			return st.Field(i).Type()
		}
	}
	return nil
}

// ifaceOperandType returns the struct type behind an `interface{}` argument (&T{} or a *T variable).
func ifaceOperandType(v ssa.Value) types.Type {
	if v == nil {
		return nil
	}
	v = ssax.Resolve(v)
	if mi, ok := v.(*ssa.MakeInterface); ok {
		v = mi.X
	}
	t := v.Type()
	if p, ok := t.Underlying().(*types.Pointer); ok {
		t = p.Elem()
	}
	if _, ok := t.Underlying().(*types.Struct); ok {
		return t
	}
	return nil
}

// sliceElems returns the elements of a variadic argument slice.
func sliceElems(v ssa.Value) []ssa.Value {
	sl, ok := v.(*ssa.Slice)
	if !ok {
		return nil
	}
	a, ok := sl.X.(*ssa.Alloc)
	if !ok {
		return nil
	}
	return ssax.ArrayElems(a)
}


// c15WriteBackBound: in executeOperation the branch that writes the submitted ExtraData into a round (event
// operation_processed_successfully, no board post) is taken only when the STORED operation is a reinit operation, and
// the round it loads and saves is the stored operation's.
func c15WriteBackBound(c *Ctx) {
	r := c.R
	fn := c.Fn("C15/R7", pkgNode, "BaseNodeService", "executeOperation")
	if fn == nil {
		return
	}
	stored := func(p string) bool { return strings.Contains(p, "GetOperationByID(operation.ID)#0") }
	var isReinit []ssax.Edge
	for _, cd := range ssax.Conds(fn) {
		if cd.Op != token.EQL && cd.Op != token.NEQ {
			continue
		}
		for _, pr := range [][2]ssa.Value{{cd.X, cd.Y}, {cd.Y, cd.X}} {
			if k, ok := ssax.ConstString(pr[1]); ok && k == "reinit_dkg" && stored(npath(pr[0])) && strings.HasSuffix(npath(pr[0]), ".Type") {
				e, _ := cd.EdgeWhere(token.EQL)
				isReinit = append(isReinit, e)
			}
		}
	}
	var saves, loads []ssa.CallInstruction
	for _, call := range ssax.Calls(fn, false, func(ci ssa.CallInstruction) bool { o := ssax.CalleeObj(ci); return o != nil && (o.Name() == "SaveFSM" || o.Name() == "GetFSMInstance") }) {
		if ssax.CalleeObj(call).Name() == "SaveFSM" {
			saves = append(saves, call)
		} else {
			loads = append(loads, call)
		}
	}
	okGate := len(isReinit) > 0 && len(saves) > 0
	for _, sv := range saves {
		if ssax.ReachableAvoiding(fn, sv.(ssa.Instruction), isReinit, nil) {
			okGate = false
		}
	}
	r.Check(okGate, "C15/R7", "node.executeOperation:write-back-only-for-reinit", "the round write-back is reached only when the stored operation is a reinit operation", c.Pos(fn.Pos()),
		sprintf("%d tests of the stored operation's Type against reinit_dkg, %d SaveFSM calls; a save is reachable without one: any pending operation can be answered with the operation_processed_successfully event — nothing is posted, the operation is retired, and ExtraData is written into a round", len(isReinit), len(saves)))
	okRound := len(saves) > 0 && len(loads) > 0
	detail := ""
	for _, call := range append(append([]ssa.CallInstruction{}, saves...), loads...) {
		a := call.Common().Args
		idx := len(a) - 2
		p := npath(a[idx])
		if !(stored(p) && strings.Contains(p, ".DKGIdentifier")) {
			okRound, detail = false, callName(call)+" uses round "+trimPath(p)
		}
	}
	r.Check(okRound, "C15/R7", "node.executeOperation:write-back-round", "the round loaded and saved by the write-back is the stored operation's round", c.Pos(fn.Pos()),
		detail+": the submitted copy chooses which round's public polynomial is overwritten")
}


// c15AnswerSerialised: executeOperation is check-then-act (pool lookup, post, retirement) and is called from HTTP handlers
// that run concurrently: the whole sequence runs under one mutex of the node service that is taken before the lookup and
// released by a deferred Unlock, so two submissions of the same answer cannot both find the operation pending.
func c15AnswerSerialised(c *Ctx) {
	r := c.R
	fn := c.Fn("C15/R4", pkgNode, "BaseNodeService", "executeOperation")
	if fn == nil {
		return
	}
	var locks []ssa.Instruction
	lockPath := ""
	for _, call := range ssax.Calls(fn, false, func(ci ssa.CallInstruction) bool {
		id := ssax.FuncID(ssax.CalleeObj(ci))
		return id == "sync.(Mutex).Lock"
	}) {
		if _, isDefer := call.(*ssa.Defer); isDefer {
			continue
		}
		p := npath(call.Common().Args[0])
		if strings.HasPrefix(p, "&s.") || strings.HasPrefix(p, "s.") {
			locks = append(locks, call.(ssa.Instruction))
			lockPath = p
		}
	}
	deferred := false
	for _, call := range ssax.Calls(fn, false, func(ci ssa.CallInstruction) bool {
		_, isDefer := ci.(*ssa.Defer)
		return isDefer && ssax.FuncID(ssax.CalleeObj(ci)) == "sync.(Mutex).Unlock"
	}) {
		if npath(call.Common().Args[0]) == lockPath {
			deferred = true
		}
	}
	gets := ssax.Calls(fn, false, func(ci ssa.CallInstruction) bool { o := ssax.CalleeObj(ci); return o != nil && o.Name() == "GetOperationByID" })
	ok := len(locks) == 1 && deferred && len(gets) == 1 && !ssax.ReachableAvoiding(fn, gets[0].(ssa.Instruction), nil, locks)
	r.Check(ok, "C15/R4", "node.executeOperation:answer-serialised", "lookup, post and retirement of an answer run under one mutex of the node service (deferred unlock)", c.Pos(fn.Pos()),
		sprintf("%d Lock calls on a mutex of the service before the pool lookup, deferred Unlock=%v: two concurrent submissions of the same answer both find the operation pending and both post it (the second fails only at DeleteOperation, after its messages are on the board)", len(locks), deferred))
}
