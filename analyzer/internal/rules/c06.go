package rules

import (
	"go/token"
	"strings"

	"dcverif/internal/fsmx"
	"dcverif/internal/load"
	"dcverif/internal/ssax"

	"golang.org/x/tools/go/ssa"
)

func init() { Registry["C06"] = C06 }

const (
	evSigningValidate = "event_signing_partial_signs_await_validate"
	stSigningCancErr  = "state_signing_partial_signs_await_cancelled_by_error"
	stSigningCancTO   = "state_signing_partial_signs_await_cancelled_by_timeout"
)

// C06 — reconstruction starts at exactly t distinct contributions to the current batch.
func C06(c *Ctx) {
	r := c.R
	r.Explain = "Decided statically on the signing FSM table and callbacks: (R1) the 'collected' event is emitted only under the normalised guard count(Status==PartialSignsConfirmed) >= T with T the round threshold, and the validator runs after every accepted event (internal auto event), so the first emission is at exactly T; " +
		"(R2) a contribution is accepted only under Status==AwaitPartialSigns on the participant fetched by request.ParticipantId (which the same callback then overwrites: one count per participant per batch), and each proposal re-creates the quorum with every status AwaitPartialSigns; " +
		"(R3) every store into the participant record in the partial-signature callback is dominated by request.BatchID == payload.SigningProposalPayload.BatchID; " +
		"(R4) the cancel event is emitted only under count(Status==SigningError) > N-T and the collected event only when that does not hold; " +
		"(R5) event_signing_restart leads from collected and both cancelled states to idle, and the node issues it under resp.State==collected. " +
		"NOT decided: the exhaustive n<=4 exploration, longer randomised sequences, reconstruction itself (C01/C07)."
	r.Trusted = []string{"go/types, go/ssa", "Go map range semantics", "fsm engine model (checked under C05/E1-E4)"}
	ms := c.Machines("C06/A1")
	if len(ms) != 3 {
		return
	}
	m := ms[pkgSIF]
	r.Rule("C06/R1", "collected only under count(PartialSignsConfirmed) >= T; validator is internal+auto", 3)
	r.Rule("C06/R2", "a contribution is accepted only under Status==AwaitPartialSigns (once per participant per batch); every proposal re-creates the quorum", 5)
	r.Rule("C06/R3", "partial signatures are bound to the current batch: request.BatchID == SigningProposalPayload.BatchID dominates every store", 1)
	r.Rule("C06/R4", "cancel only under count(SigningError) > N-T; collected only when failures <= N-T", 2)
	r.Rule("C06/R5", "restart leads collected/cancelled -> idle and is issued by the node on the collected path", 4)
	r.Rule("C06/R6", "a stale deadline cannot cancel a batch before t contributions arrived (shared with C07/R4)", 1)
	c07DeadlineAs(c, "C06/R6")
	r.Rule("C06/R8", "a contribution that counts carries at least one partial signature: the request's validation refuses an empty list (a counted participant without shares is dropped from the reconstruction's input, which then starts below t)", 1)
	c06NonEmptyContribution(c)
	r.Rule("C06/R7", "whether a contribution (or a failure report) counts does not depend on time stamps: the two receiving callbacks branch on no value derived from a time.Time", 2)
	for _, ev := range []string{evPartialSign, evPartialSignError} {
		cb := m.Callbacks[ev]
		if cb == nil {
			continue
		}
		isTime := func(v ssa.Value) bool {
			t := v.Type().String()
			return t == "time.Time" || t == "*time.Time" || t == "time.Duration"
		}
		bad := ""
		for _, cd := range ssax.Conds(cb) {
			for _, x := range []ssa.Value{cd.X, cd.Y} {
				if x != nil && x.Type().String() != "error" && derivesFrom(x, isTime, 0, map[ssa.Value]bool{}) {
					bad = c.PosOf(cd.If)
				}
			}
		}
		r.Check(bad == "", "C06/R7", "signing_proposal_fsm:"+ev+":time-independent", "no branch of the receiving callback depends on a time stamp", c.Pos(cb.Pos()),
			"the branch at "+bad+" compares time stamps (the answer's with the batch's, or with a clock): answers are stamped by the answering participant's own clock, a participant a few seconds behind the proposer delivers valid contributions that every node refuses — t distinct deliveries no longer start the reconstruction")
	}

	kConf, ok1 := c.internalConst("C06/R1", "SigningPartialSignsConfirmed")
	kErr, ok2 := c.internalConst("C06/R4", "SigningError")
	kAwait, ok3 := c.internalConst("C06/R2", "SigningAwaitPartialSigns")
	fn := m.Callbacks[evSigningValidate]
	if fn == nil || !ok1 || !ok2 || !ok3 {
		r.Unknown("C06/R1", "signing_proposal_fsm:"+evSigningValidate, "validator callback must be registered", "", "no callback / constants")
		return
	}
	desc := m.ByName[evSigningValidate]
	r.Check(desc != nil && desc.Auto && desc.Internal && len(desc.Src) == 1 && desc.Src[0] == stSigningAwait, "C06/R1", "signing_proposal_fsm:"+evSigningValidate+":auto",
		"validation runs automatically after every accepted event in the await state", c.Pos(fn.Pos()), "validator event is not internal+auto on "+stSigningAwait)
	// both contribution events must keep the machine in the await state so that the auto validator runs after them
	for _, ev := range []string{evPartialSign, evPartialSignError} {
		d := m.ByName[ev]
		r.Check(d != nil && d.Dst == stSigningAwait && len(d.Src) == 1 && d.Src[0] == stSigningAwait && !d.Internal, "C06/R1", "signing_proposal_fsm:"+ev+":table",
			ev+" is accepted only in "+stSigningAwait+" and stays there (so the validator runs next)", "", "table entry for "+ev+" changed")
	}
	em := fsmx.EmittedEvents(fn)
	nz := &ssax.Normalizer{Fn: fn}
	rels := nz.EdgeRelations()
	cConf := sprintf("c:Signing:%d", kConf)
	cErr := sprintf("c:Signing:%d", kErr)
	sawCollected, sawCancel := false, false
	for _, x := range em.Names() {
		t := m.Trans[[2]string{stSigningAwait, x}]
		key := "signing_proposal_fsm:" + evSigningValidate + "->" + x
		if t == nil {
			r.Fail("C06/R1", key, "emitted event has a transition from the await state", c.PosOf(em.Consts[x][0]), "no transition")
			continue
		}
		switch t.Dst {
		case stSigningCollected:
			sawCollected = true
			c05RequireGuard(c, "C06/R1", key+":threshold", fn, em.Consts[x], rels,
				ssax.MakeLin(0, map[string]int{cConf: 1, "T": -1}), "collected only when at least T participants have status PartialSignsConfirmed", nz)
			c05RequireGuard(c, "C06/R4", key+":failures-below-bound", fn, em.Consts[x], rels,
				ssax.MakeLin(0, map[string]int{cErr: -1, "N:Signing": 1, "T": -1}), "collected only when failures <= N-T (failure test comes first)", nz)
		case stSigningCancErr:
			sawCancel = true
			c05RequireGuard(c, "C06/R4", key+":too-many-failures", fn, em.Consts[x], rels,
				ssax.MakeLin(-1, map[string]int{cErr: 1, "N:Signing": -1, "T": 1}), "cancel only when more than N-T participants reported failure", nz)
		case stSigningCancTO:
			bad := false
			for _, s := range em.Consts[x] {
				ed := expiredEdges(fn)
				if len(ed) == 0 || ssax.ReachableAvoiding(fn, s, ed, nil) {
					bad = true
				}
			}
			r.Check(!bad, "C06/R1", key+":on-timeout", "timeout event only under IsExpired()", c.PosOf(em.Consts[x][0]), "timeout emitted without the deadline test")
		default:
			r.Fail("C06/R1", key, "validator emits only collected/cancel/timeout", c.PosOf(em.Consts[x][0]), "unexpected destination "+t.Dst)
		}
	}
	r.Check(sawCollected, "C06/R1", "signing_proposal_fsm:"+evSigningValidate+":collected-exists", "validator can emit the collected event", c.Pos(fn.Pos()), "no emitted event leads to "+stSigningCollected)
	r.Check(sawCancel, "C06/R4", "signing_proposal_fsm:"+evSigningValidate+":cancel-exists", "validator can emit the cancel event", c.Pos(fn.Pos()), "no emitted event leads to "+stSigningCancErr)

	// R2 gates
	checkGate(c, "C06/R2", ms, gateSpec{pkgSIF, evPartialSign, "SigningParticipantStatus", "SigningAwaitPartialSigns", []string{"SigningPartialSignsConfirmed"}, "SigningQuorumExists"})
	checkGate(c, "C06/R2", ms, gateSpec{pkgSIF, evPartialSignError, "SigningParticipantStatus", "SigningAwaitPartialSigns", []string{"SigningError"}, "SigningQuorumExists"})
	// every PartialSigns map update happens under the same gate
	if cb := m.Callbacks[evPartialSign]; cb != nil {
		var gate []ssax.Edge
		for _, sc := range ssax.StatusConds(cb) {
			if sc.K == kAwait && strings.Contains(sc.Base, "QuorumGet(") {
				gate = append(gate, sc.EqEdge)
			}
		}
		n := 0
		ssax.Instrs(cb, func(in ssa.Instruction) {
			mu, ok := in.(*ssa.MapUpdate)
			if !ok || !strings.HasSuffix(ssax.Path(mu.Map), ".PartialSigns") {
				return
			}
			n++
			okGate := len(gate) > 0 && !ssax.ReachableAvoiding(cb, mu, gate, nil)
			okBase := strings.Contains(ssax.Path(mu.Map), "QuorumGet(") && strings.Contains(ssax.Path(mu.Map), ".ParticipantId")
			r.Check(okGate && okBase, "C06/R2", sprintf("signing_proposal_fsm:%s:partial-signs-store#%d", evPartialSign, n),
				"partial signatures are recorded only for the awaited participant fetched by request.ParticipantId", c.PosOf(mu), "store into "+ssax.Path(mu.Map)+" is not under the status gate")
		})
		r.Check(n >= 1, "C06/R2", "signing_proposal_fsm:"+evPartialSign+":partial-signs-recorded", "callback records the partial signatures", c.Pos(cb.Pos()), "no store into PartialSigns")
		c06BatchBinding(c, cb)
	}
	c06FreshQuorum(c, m, kAwait)

	// R5
	d := m.ByName[evSigningRestart]
	want := map[string]bool{stSigningCollected: true, stSigningCancErr: true, stSigningCancTO: true}
	okTab := d != nil && d.Dst == stSigningIdle && !d.Internal && len(d.Src) == 3
	if okTab {
		for _, s := range d.Src {
			if !want[s] {
				okTab = false
			}
		}
	}
	r.Check(okTab, "C06/R5", "signing_proposal_fsm:"+evSigningRestart+":table", "restart: {collected, cancelled_by_error, cancelled_by_timeout} -> idle", "", "restart transition changed")
	ds := m.ByName[evSigningStart]
	r.Check(ds != nil && len(ds.Src) == 1 && ds.Src[0] == stSigningIdle && ds.Dst == stSigningAwait, "C06/R5", "signing_proposal_fsm:"+evSigningStart+":table",
		"a proposal is accepted only in idle and leads to await", "", "start transition changed")
	c06RestartSites(c)
}

// c06RestartSites: processMessage issues event_signing_restart at three kinds of sites, one per source state of the
// restart transition: after a collected batch (resp.State == collected), and in the two pre-handlers for a round found
// in a cancelled signing state (state name suffix _error with a signing payload / suffix _timeout with prefix state_signing_).
func c06RestartSites(c *Ctx) {
	r := c.R
	fn := c.Fn("C06/R5", pkgNode, "BaseNodeService", "processMessage")
	if fn == nil {
		return
	}
	strEdges := func(fname, lit string) []ssax.Edge {
		var out []ssax.Edge
		for _, call := range ssax.CallsTo(fn, "strings."+fname) {
			if s, ok := ssax.ConstString(call.Common().Args[1]); ok && s == lit && strings.HasSuffix(ssax.Path(call.Common().Args[0]), ".State") {
				out = append(out, ssax.BoolEdgesOfCall(fn, call, -1, true)...)
			}
		}
		return out
	}
	kinds := map[string][][]ssax.Edge{
		"collected": {respStateEdges(fn, stSigningCollected)},
		"error":     {strEdges("HasSuffix", "_error")},
		"timeout":   {strEdges("HasSuffix", "_timeout"), strEdges("HasPrefix", "state_signing_")},
	}
	seen := map[string]int{}
	n := 0
	for _, call := range ssax.CallsTo(fn, load.Module+"/fsm/state_machines.(FSMInstance).Do") {
		ev, ok := ssax.ConstString(call.Common().Args[1])
		if !ok || ev != evSigningRestart {
			continue
		}
		n++
		kind := ""
		for _, k := range []string{"collected", "error", "timeout"} {
			all := true
			for _, edges := range kinds[k] {
				if len(edges) == 0 || ssax.ReachableAvoiding(fn, call, edges, nil) {
					all = false
				}
			}
			if all {
				kind = k
				break
			}
		}
		if kind == "" {
			r.Fail("C06/R5", sprintf("node.processMessage:Do(%s)#%d", evSigningRestart, n), "restart is issued only for a collected batch or a cancelled signing state", c.PosOf(call),
				"this restart site is not guarded by resp.State==collected nor by the _error/_timeout state tests")
			continue
		}
		seen[kind]++
		r.OKd("C06/R5", "node.processMessage:Do("+evSigningRestart+"):"+kind, "restart site guarded by the "+kind+" state test", c.PosOf(call), "")
		// feasibility: in every signing state both the DKG payload and the signing payload are present (set at
		// event_dkg_init_process / event_signing_init and never cleared); under that assumption the site must stay reachable
		var absent []ssax.Edge
		for _, cd := range ssax.Conds(fn) {
			if cd.Op != token.EQL && cd.Op != token.NEQ {
				continue
			}
			for _, pr := range [][2]ssa.Value{{cd.X, cd.Y}, {cd.Y, cd.X}} {
				pp := ssax.Path(pr[0])
				if ssax.IsNilConst(ssax.Resolve(pr[1])) && (strings.HasSuffix(pp, ".DKGProposalPayload") || strings.HasSuffix(pp, ".SigningProposalPayload")) {
					if e, ok := cd.EdgeWhere(token.EQL); ok {
						absent = append(absent, e)
					}
				}
			}
		}
		r.Check(ssax.ReachableAvoiding(fn, call, absent, nil), "C06/R5", "node.processMessage:Do("+evSigningRestart+"):"+kind+":feasible",
			"the "+kind+" restart site is reachable for a round that has both a DKG and a signing payload (every signing round has)", c.PosOf(call),
			"the restart is only reachable when DKGProposalPayload or SigningProposalPayload is nil, which never holds in a signing state: after a "+kind+" batch the round never returns to idle")
	}
	c06CollectedAlwaysRestarts(c, "C06/R5", fn)
	for _, k := range []string{"collected", "error", "timeout"} {
		if seen[k] == 0 {
			r.Fail("C06/R5", "node.processMessage:Do("+evSigningRestart+"):"+k, "the node returns the round to idle after a "+k+" batch", c.Pos(fn.Pos()),
				"no restart site for the "+k+" case: the round would stay out of idle and reject the next proposal")
		}
	}
}

// c06BatchBinding: every store into the participant record is reached only via the edge
// request.BatchID == payload.SigningProposalPayload.BatchID.
func c06BatchBinding(c *Ctx, cb *ssa.Function) { c06BatchBindingRule(c, cb, "C06/R3") }

func c06BatchBindingRule(c *Ctx, cb *ssa.Function, rule string) {
	r := c.R
	var eq []ssax.Edge
	for _, cd := range ssax.Conds(cb) {
		if cd.Op != token.EQL && cd.Op != token.NEQ {
			continue
		}
		a, b := ssax.Path(cd.X), ssax.Path(cd.Y)
		isReq := func(p string) bool { return strings.HasSuffix(p, ".BatchID") && !strings.Contains(p, "payload") }
		isCur := func(p string) bool { return strings.HasSuffix(p, ".payload.SigningProposalPayload.BatchID") }
		if (isReq(a) && isCur(b)) || (isReq(b) && isCur(a)) {
			if e, ok := cd.EdgeWhere(token.EQL); ok {
				eq = append(eq, e)
			}
		}
	}
	var stores []ssa.Instruction
	ssax.Instrs(cb, func(in ssa.Instruction) {
		switch x := in.(type) {
		case *ssa.MapUpdate:
			if strings.HasSuffix(ssax.Path(x.Map), ".PartialSigns") {
				stores = append(stores, in)
			}
		case *ssa.Store:
			if fa, ok := x.Addr.(*ssa.FieldAddr); ok && ssax.FieldOf(fa) != nil && ssax.FieldOf(fa).Name() == "Status" {
				stores = append(stores, in)
			}
		}
	})
	bad := ""
	for _, s := range stores {
		if len(eq) == 0 || ssax.ReachableAvoiding(cb, s, eq, nil) {
			bad = c.PosOf(s)
			break
		}
	}
	key := load.FuncName(cb)
	key = key[strings.LastIndex(key, ".")+1:]
	if len(stores) == 0 {
		r.Unknown(rule, "signing_proposal_fsm."+key+":batch-binding", "callback stores the contribution", c.Pos(cb.Pos()), "no stores found")
		return
	}
	r.Check(bad == "", rule, "signing_proposal_fsm."+key+":batch-binding",
		"a partial signature is counted only if its BatchID equals the current batch's", c.Pos(cb.Pos()),
		"no comparison of request.BatchID with payload.SigningProposalPayload.BatchID dominates the store at "+bad+": a contribution made for a different batch is accepted and counted")
}

// c06FreshQuorum: actionStartSigningProposal assigns a fresh map to SigningProposalPayload.Quorum and fills it
// from the ordered DKG quorum with Status = AwaitPartialSigns; it stores the request's BatchID.
func c06FreshQuorum(c *Ctx, m *fsmx.Machine, kAwait int64) {
	r := c.R
	fn := m.Callbacks[evSigningStart]
	if fn == nil {
		r.Unknown("C06/R2", "signing_proposal_fsm:"+evSigningStart, "start callback registered", "", "missing")
		return
	}
	fresh, batch := false, false
	var freshStores []ssa.Instruction
	ssax.Instrs(fn, func(in ssa.Instruction) {
		st, ok := in.(*ssa.Store)
		if !ok {
			return
		}
		p := ssax.Path(st.Addr)
		if strings.HasSuffix(p, ".payload.SigningProposalPayload.Quorum") {
			if _, ok := ssax.Resolve(st.Val).(*ssa.MakeMap); ok {
				fresh = true
				freshStores = append(freshStores, st)
			}
		}
		if strings.HasSuffix(p, ".payload.SigningProposalPayload.BatchID") && strings.HasSuffix(ssax.Path(st.Val), ".BatchID") {
			batch = true
		}
	})
	r.Check(fresh, "C06/R2", "signing_proposal_fsm:"+evSigningStart+":fresh-quorum", "each proposal replaces the signing quorum by a new map", c.Pos(fn.Pos()),
		"SigningProposalPayload.Quorum is not re-created: statuses/partial signatures of the previous batch would carry over")
	r.Check(batch, "C06/R2", "signing_proposal_fsm:"+evSigningStart+":batch-id", "the proposal's BatchID becomes the current batch", c.Pos(fn.Pos()),
		"SigningProposalPayload.BatchID is not set from request.BatchID")
	// all status values stored while filling are AwaitPartialSigns, inside a loop over the ordered DKG quorum
	n := 0
	for _, ss := range statusStores([]*ssa.Function{fn}, "SigningParticipantStatus") {
		n++
		r.Check(ss.K == kAwait, "C06/R2", sprintf("signing_proposal_fsm:%s:initial-status#%d", evSigningStart, n), "new quorum members start as AwaitPartialSigns", c.PosOf(ss.Store),
			sprintf("initial status is %d", ss.K))
		r.Check(fresh && !ssax.ReachableAvoiding(fn, ss.Store, nil, freshStores), "C06/R2", sprintf("signing_proposal_fsm:%s:fresh-quorum-on-every-path#%d", evSigningStart, n),
			"the quorum is replaced by a new map on every path before it is filled", c.PosOf(ss.Store),
			"the quorum can be filled without having been re-created (the new-map assignment is conditional): entries of the previous batch survive")
	}
	srcOK := false
	for _, call := range ssax.Calls(fn, false, func(ci ssa.CallInstruction) bool {
		o := ssax.CalleeObj(ci)
		return o != nil && o.Name() == "GetOrderedParticipants"
	}) {
		if strings.Contains(ssax.Path(call.Common().Args[0]), "DKGProposalPayload.Quorum") {
			srcOK = true
		}
	}
	r.Check(n >= 1 && srcOK, "C06/R2", "signing_proposal_fsm:"+evSigningStart+":from-dkg-quorum", "the signing quorum is built from the DKG quorum's participants", c.Pos(fn.Pos()),
		"quorum construction from DKGProposalPayload.Quorum.GetOrderedParticipants() not found")
}

// c06CollectedAlwaysRestarts: assuming resp.State == collected (the not-equal edges of every such test are cut), the final
// SaveFSM of processMessage is unreachable from the main Do(message.Event) without executing Do(event_signing_restart).
func c06CollectedAlwaysRestarts(c *Ctx, rule string, fn *ssa.Function) {
	r := c.R
	var mainDo ssa.Instruction
	var restarts []ssa.Instruction
	for _, call := range ssax.CallsTo(fn, load.Module+"/fsm/state_machines.(FSMInstance).Do") {
		if ev, ok := ssax.ConstString(call.Common().Args[1]); ok {
			if ev == evSigningRestart {
				restarts = append(restarts, call)
			}
			continue
		}
		if strings.HasSuffix(ssax.Path(call.Common().Args[1]), "message.Event") {
			mainDo = call
		}
	}
	saves := ssax.Calls(fn, false, func(ci ssa.CallInstruction) bool {
		o := ssax.CalleeObj(ci)
		return o != nil && o.Name() == "SaveFSM"
	})
	if mainDo == nil || len(saves) == 0 || len(restarts) == 0 {
		r.Unknown(rule, "node.processMessage:collected-always-restarts", "processMessage has a main Do, a restart and a final SaveFSM", c.Pos(fn.Pos()), "anchors not found")
		return
	}
	ne := respStateAssume(fn, stSigningCollected)
	bad := false
	for _, sv := range saves {
		if !ssax.ReachableFrom(fn, mainDo, sv, nil, nil) {
			continue // pre-handler saves precede the main Do
		}
		if ssax.ReachableFrom(fn, mainDo, sv, ne, restarts) {
			bad = true
		}
	}
	r.Check(!bad, rule, "node.processMessage:collected-always-restarts", "after a collected batch the state is saved only past the restart (round back to idle)", c.PosOf(mainDo),
		"with resp.State == collected the final SaveFSM is reachable without Do(event_signing_restart): the round would be persisted in the collected state and reject the next proposal")
}


// c06NonEmptyContribution: the validator of the signing stage counts statuses, the reconstruction takes shares. The two agree
// only if a participant cannot be marked confirmed without delivering a share: Validate() of the partial-signature request
// returns nil only where len(PartialSigns) >= 1 is known.
func c06NonEmptyContribution(c *Ctx) {
	r := c.R
	fn := c.Fn("C06/R8", pkgRequests, "SigningProposalBatchPartialSignRequests", "Validate")
	if fn == nil {
		return
	}
	atLeast := lenAtLeastEdges(fn, func(p string) bool { return strings.HasSuffix(p, ".PartialSigns") }, 1)
	nOK, bad := 0, ""
	for _, ret := range ssax.Returns(fn) {
		if len(ret.Results) != 1 || !ssax.IsNilConst(ssax.Resolve(ret.Results[0])) {
			continue
		}
		nOK++
		if len(atLeast) == 0 || ssax.ReachableAvoiding(fn, ret, atLeast, nil) {
			bad = c.PosOf(ret)
		}
	}
	r.Check(nOK >= 1 && bad == "", "C06/R8", "requests.SigningProposalBatchPartialSignRequests.Validate:non-empty", "the request is accepted only with at least one partial signature", c.Pos(fn.Pos()),
		sprintf("%d accepting returns; the one at %s is reachable without len(PartialSigns) >= 1: an answer with an empty list marks its sender confirmed, the count reaches t, and the reconstruction (which skips participants without shares) starts with fewer than t contributions", nOK, bad))
}
