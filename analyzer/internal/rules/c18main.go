package rules

import (
	"go/token"
	"go/types"
	"regexp"
	"sort"
	"strings"

	"dcverif/internal/fsmx"
	"dcverif/internal/load"
	"dcverif/internal/ssax"

	"golang.org/x/tools/go/ssa"
)

// C18 — no input can crash a node or the airgapped machine; rejected input is a no-op.
func c18Main(c *Ctx) {
	r := c.R
	r.Explain = "Decided statically: (R1) a census of every potential run-time panic site (index, slice, unchecked type assertion, explicit panic, integer division, dereference of a map element or of a per-machine payload pointer, panicking constructors, process exits) in the module code reachable through the VTA call graph from Poll/ProcessMessage, the 20 HTTP handlers and the airgapped machine's ProcessOperation/ReplayOperationsLog/GetOperationResult and the airgapped prompt commands that feed them; each site is proved safe by a dominating guard, proved by the payload typestate argument over the extracted transition tables, or matched to a reviewed entry whose stated premise is re-checked on the current source; anything else is a violation. " +
		"(R2) in processMessage, reinitDKG, Machine.ProcessOperation and the master-key handler no call that writes durable state or posts to the board is followed on any path by a step that can still reject the input (a fallible call that is not itself storage I/O), except reviewed steps; " +
		"(R3) the poller and the airgapped prompt keep running after a failing input: the error of ProcessMessage / of a prompt command reaches no return, and no log.Fatal/os.Exit is reachable from the input handlers; " +
		"(R4) every FSM callback whose request type has a Validate method reads the request's fields only after Validate returned nil. " +
		"NOT decided: panics inside dependencies (kyber on malformed points, leveldb, echo, encoding/json), nil dereferences other than map elements and the three payload pointers, resource exhaustion, and everything a fuzzer would search for beyond these shapes."
	r.Trusted = []string{"go/types, go/ssa, VTA call graph (dynamic calls resolved by type flow)", "net/http recovers a panicking handler goroutine", "dependencies (kyber, leveldb, echo, encoding/json) do not panic on the values passed"}
	r.Assume = append(r.Assume, "durable state written by the node itself (round dumps, operation pool) is well-formed: the typestate argument covers rounds that reached their state through the transition tables",
		"the signing-restart pre-handlers of processMessage persist a restarted round before the triggering message is handled; the restart depends on the stored state and the clock, not on the message, and is exempt from R2 (see C07/R3)")
	r.Rule("C18/R1", "every potential panic site on input-reachable module code is proved, typestate-proved or reviewed with a re-checked premise", 60)
	r.Rule("C18/R2", "no durable write is followed by a step that can reject the input", 6)
	r.Rule("C18/R3", "a failing input does not stop the poller or the airgapped prompt, and no handler exits the process", 3)
	r.Rule("C18/R4", "FSM callbacks read request fields only after request.Validate() == nil", 8)

	ms := c.Machines("C18/A1")
	if len(ms) != 3 {
		return
	}
	sites := c18Sites(c)
	c18Typestate(c, ms, sites)
	c18Review(c, ms, sites)
	c18NoWriteBeforeReject(c)
	c18Survive(c, sites)
	c18ValidateFirst(c, ms)
	// premises shared with other properties, re-evaluated here because R1 relies on them
	c05Engine(c)
	c19Restorable(c, ms)
}

// ---------------------------------------------------------------- payload typestate

type payloadInfo struct {
	field   string // e.g. DKGProposalPayload
	allocFn *ssa.Function
	events  map[string]bool // events whose callback allocates the pointer
	noAlloc map[string]bool // states reachable from __idle without passing an allocating event
}

func c18PayloadInfo(c *Ctx, ms map[string]*fsmx.Machine) map[string]*payloadInfo {
	r := c.R
	out := map[string]*payloadInfo{}
	for _, sfx := range payloadPtrs {
		out[sfx[1:]] = &payloadInfo{field: sfx[1:], events: map[string]bool{}}
	}
	for f := range c.P.AllFuncs() {
		if !load.InModule(f) || c.isTestFunc(f) || f.Synthetic != "" || strings.Contains(load.FuncName(f), "mocks/") {
			continue
		}
		ssax.Instrs(f, func(in ssa.Instruction) {
			st, ok := in.(*ssa.Store)
			if !ok {
				return
			}
			fa, ok := st.Addr.(*ssa.FieldAddr)
			if !ok || ssax.FieldOf(fa) == nil || ssax.OwnerName(fa) != "DumpedMachineStatePayload" {
				return
			}
			pi := out[ssax.FieldOf(fa).Name()]
			if pi == nil {
				return
			}
			key := "payload-pointer-store:" + shortFn(f) + ":" + pi.field
			switch v := ssax.Resolve(st.Val).(type) {
			case *ssa.Alloc:
				_ = v
				if pi.allocFn != nil && pi.allocFn != f {
					r.Fail("C18/R1", key, "one callback allocates the payload pointer", c.PosOf(in), "a second function allocates "+pi.field+" (also "+shortFn(pi.allocFn)+")")
					return
				}
				pi.allocFn = f
				r.OKd("C18/R1", key, "the payload pointer is set to a freshly allocated value", c.PosOf(in), "allocating callback")
			default:
				// a nil store is harmless only while building a brand-new payload value
				if ssax.IsNilConst(ssax.Resolve(st.Val)) {
					if _, fresh := ssax.Resolve(fa.X).(*ssa.Alloc); fresh {
						r.OKd("C18/R1", key, "nil only inside the literal of a brand-new payload", c.PosOf(in), "composite literal")
						return
					}
				}
				r.Fail("C18/R1", key, "the payload pointer is only ever set to a fresh allocation", c.PosOf(in),
					pi.field+" := "+npath(st.Val)+": the typestate argument (pointer non-nil once its machine was entered) no longer holds")
			}
		})
	}
	for _, pi := range out {
		if pi.allocFn == nil {
			r.Unknown("C18/R1", "payload-pointer-store:"+pi.field, "the payload pointer has an allocating callback", "", "no store of a fresh allocation found")
			continue
		}
		for _, m := range ms {
			for ev, cb := range m.Callbacks {
				if cb == pi.allocFn {
					pi.events[ev] = true
				}
			}
		}
		// states reachable from __idle using only non-allocating events
		pi.noAlloc = map[string]bool{stIdle: true}
		for changed := true; changed; {
			changed = false
			for _, m := range ms {
				for _, e := range m.Events {
					if pi.events[e.Name] {
						continue
					}
					for _, s := range e.Src {
						if pi.noAlloc[s] && !pi.noAlloc[e.Dst] {
							pi.noAlloc[e.Dst] = true
							changed = true
						}
					}
				}
			}
		}
	}
	return out
}

// callbackRoots walks the call graph upwards from f and returns the FSM callbacks through which f is reached, and the
// other roots (functions without module callers that are not callbacks).
func (c *Ctx) callbackRoots(f *ssa.Function, isCb map[*ssa.Function]bool) (cbs []*ssa.Function, ext []*ssa.Function) {
	cg := c.P.CallGraph()
	seen := map[*ssa.Function]bool{f: true}
	queue := []*ssa.Function{f}
	for len(queue) > 0 {
		g := queue[0]
		queue = queue[1:]
		if isCb[g] {
			cbs = append(cbs, g)
			continue
		}
		n := cg.Nodes[g]
		ncallers := 0
		if n != nil {
			for _, e := range n.In {
				if !c.P.AllFuncs()[e.Caller.Func] {
					continue // a helper that was expanded into all its callers (or a function outside the census)
				}
				cf := e.Caller.Func
				if !load.InModule(cf) || c.isTestFunc(cf) || strings.Contains(load.FuncName(cf), "mocks/") {
					continue
				}
				ncallers++
				if !seen[cf] {
					seen[cf] = true
					queue = append(queue, cf)
				}
			}
		}
		if ncallers == 0 {
			ext = append(ext, g)
		}
	}
	return
}

func c18Typestate(c *Ctx, ms map[string]*fsmx.Machine, sites []panicSite) {
	info := c18PayloadInfo(c, ms)
	c.c18info = info
	isCb := map[*ssa.Function]bool{}
	cbMachine := map[*ssa.Function]*fsmx.Machine{}
	for _, m := range ms {
		for _, cb := range m.Callbacks {
			isCb[cb] = true
			cbMachine[cb] = m
		}
	}
	nTS := 0
	for i := range sites {
		s := &sites[i]
		if s.Kind != "payload-deref" || s.Status != "unproved" {
			continue
		}
		fa := s.In.(*ssa.FieldAddr)
		xp := ssax.Path(fa.X)
		var pi *payloadInfo
		for _, sfx := range payloadPtrs {
			if strings.HasSuffix(xp, sfx) {
				pi = info[sfx[1:]]
			}
		}
		if pi == nil || pi.allocFn == nil {
			continue
		}
		cbs, ext := c.callbackRoots(s.Fn, isCb)
		if len(ext) > 0 {
			s.Why = "reached outside the FSM callbacks (from " + shortFn(ext[0]) + "): the typestate argument does not apply"
			continue
		}
		if len(cbs) == 0 {
			continue
		}
		ok := true
		why := ""
		for _, cb := range cbs {
			m := cbMachine[cb]
			for _, ev := range m.CallbackEvents(cb) {
				e := m.ByName[ev]
				if e == nil {
					continue
				}
				for _, src := range e.Src {
					if !pi.noAlloc[src] {
						continue
					}
					// the allocating callback itself: the use (or the call that leads to it) must follow the allocation
					if cb == pi.allocFn && usedAfterAlloc(c, cb, pi.field, s) {
						continue
					}
					ok = false
					why = sprintf("callback %s runs for event %s in state %s, which is reachable from %s without any event that allocates %s", shortFn(cb), ev, src, stIdle, pi.field)
				}
			}
		}
		if ok {
			s.Status = "typestate"
			var evs []string
			for e := range pi.events {
				evs = append(evs, e)
			}
			sort.Strings(evs)
			s.Why = sprintf("every state in which the enclosing callback(s) run is reachable from %s only through %s, whose callback %s allocates %s (never reset to nil)", stIdle, strings.Join(evs, "/"), shortFn(pi.allocFn), pi.field)
			nTS++
		} else {
			s.Why = why
		}
	}
	c.R.Count("payload_deref_typestate_proved", nTS)
}

// usedAfterAlloc: inside the allocating callback cb the site (if it lies in cb) or every call of cb that leads to the
// site's function is reachable only after the allocation.
func usedAfterAlloc(c *Ctx, cb *ssa.Function, field string, s *panicSite) bool {
	if s.Fn == cb {
		return storedBefore(cb, field, s.In)
	}
	n := 0
	for _, call := range ssax.Calls(cb, true, func(ssa.CallInstruction) bool { return true }) {
		if _, ok := c.siteReaches(call, func(f *ssa.Function) bool { return f == s.Fn }); !ok {
			continue
		}
		n++
		in, isIn := call.(ssa.Instruction)
		if !isIn || in.Parent() != cb || !storedBefore(cb, field, in) {
			return false
		}
	}
	return n > 0
}

// storedBefore: inside fn, `at` is reachable only after a store of a fresh allocation to the payload pointer `field`.
func storedBefore(fn *ssa.Function, field string, at ssa.Instruction) bool {
	var stores []ssa.Instruction
	ssax.Instrs(fn, func(in ssa.Instruction) {
		if st, ok := in.(*ssa.Store); ok {
			if fa, ok := st.Addr.(*ssa.FieldAddr); ok && ssax.FieldOf(fa) != nil && ssax.FieldOf(fa).Name() == field {
				if _, fresh := ssax.Resolve(st.Val).(*ssa.Alloc); fresh {
					stores = append(stores, in)
				}
			}
		}
	})
	return len(stores) > 0 && !ssax.ReachableAvoiding(fn, at, nil, stores)
}

// ---------------------------------------------------------------- R1 review table

type reviewEntry struct {
	Pat     *regexp.Regexp
	Reason  string
	Premise func(c *Ctx, ms map[string]*fsmx.Machine, s *panicSite) (bool, string)
}

func re(s string) *regexp.Regexp { return regexp.MustCompile(s) }

var c18Reviewed = []reviewEntry{
	{re(`^\(\*api/http_api/handlers\.HTTPApp\)\.\w+:type-assert:c\.\(\*context_service\.ContextService\)$`),
		"every request context is wrapped by contextServiceMiddleware, installed with Use() before the routes; a handler panic would in any case be recovered by net/http", premHTTPCtx},
	{re(`:type-assert:.*\.\(pairing\.Suite\)$`),
		"the operand is always the value of bls12381.NewBLS12381Suite, whose concrete type implements pairing.Suite", premSuite},
	{re(`^\(\*dkg\.DKG\)\.ProcessResponses:type-assert:`),
		"d.responses is filled only by StoreResponses, which stores *dkg.Response values", premResponses},
	{re(`^\(\*fsm/fsm\.FSM\)\.MustCopyWithState:panic:panic$|WithSetup:must-call:fsm\.\(FSM\)\.MustCopyWithState$`),
		"the state handed to WithSetup is the dump's own state for which MachineByState just found the machine; C19/R1 (re-evaluated below) shows every registered state is accepted", premWithSetup},
	{re(`^fsm/fsm\.MustNewFSM:panic:|^fsm/fsm_pool\.Init:panic:`),
		"constructor checks over compile-time tables: the outcome does not depend on any input (a malformed table fails at the first round of any test)", premMustCallers},
	{re(`:must-call:fsm\.MustNewFSM$|:must-call:fsm_pool\.Init$`),
		"called with compile-time tables / freshly constructed machines only", premMustArgs},
	{re(`^fsm/state_machines\.(Create|FromDump):type-assert:.*\.\(internal\.DumpedMachineProvider\)$`),
		"all three machines handed to fsm_pool.Init implement DumpedMachineProvider", premProviders},
	{re(`^\(dkg\.PKStore\)\.GetParticipantByIndex:index:s\[index\]$`),
		"reached only from processDealCommits after kyber's ProcessDeal accepted the deal, i.e. deal.Index names one of the N verifiers, N = len(pubKeys); the guard `index > len(s)` is off by one but not reachable with index == len(s) (observation F-C18-3)", premDealIndex},
	{re(`^services/node\.createSignID:index:`),
		"index = crypto/rand.Int(max = len(letters)) lies in [0, len(letters))", premSignID},
	{re(`actionInitDKGProposal:nil-map-elem:m\.payload\.SignatureProposalPayload\.Quorum\[0\]\.Threshold$`),
		"participant ids are the indices 0..n-1 of the opening proposal's participant list, whose Validate requires at least MinParticipants entries", premQuorum0},
	{re(`SigningQuorumGet:nil-map-elem:`),
		"every caller tests SigningQuorumExists(id) first", premSigningGet},
	{re(`GetOrderedParticipants:nil-map-elem:`),
		"the key enumerates the same map, and quorum maps only ever receive non-nil participants", premOrdered},
	{re(`^\(\*services/node\.BaseNodeService\)\.processMessage:payload-deref:.*SigningProposalPayload\.BatchID$`),
		"executed only when the stored state has the prefix state_signing_ — all such states lie behind event_signing_init, which allocates the pointer", premSigningPrefix},
	{re(`^services/node\.(recoverFullSign|reconstructThresholdSignature):payload-deref:.*DKGProposalPayload\.PubPolyBz$`),
		"reached only from processMessage when the FSM answered state_signing_partial_signs_collected, a state behind event_dkg_init", premRecover},
	{re(`^\(\*services/node\.BaseNodeService\)\.ApproveParticipation:decoded-deref:json\(s\.getOperation\(dto\.OperationID\)#0\.Payload\)`),
		"the payload decoded here is that of an operation taken from the node's own pool, which the node wrote itself from its FSM's response (durable state of the node, not an input)", nil},
	{re(`^airgapped\.(encrypt|decrypt):makeslice:.*\.NonceSize\(\)$`),
		"the nonce size of the AEAD (cipher.AEAD.NonceSize) is a small constant of the cipher, not an input", nil},
	{re(`^\(\*cmd/airgapped\.prompt\)\.(print|println|printf|restoreTerminal|reloadTerminal):panic:`),
		"terminal write/restore failure of the operator's console, independent of the operation file", nil},
}

func c18Review(c *Ctx, ms map[string]*fsmx.Machine, sites []panicSite) {
	r := c.R
	byKind := map[string]int{}
	byStatus := map[string]int{}
	fns := map[*ssa.Function]bool{}
	for i := range sites {
		s := &sites[i]
		fns[s.Fn] = true
		byKind[s.Kind]++
		if s.Status == "proved" || s.Status == "typestate" {
			byStatus[s.Status]++
			continue
		}
		if s.Kind == "exit" {
			continue // R3
		}
		var ent *reviewEntry
		for j := range c18Reviewed {
			if c18Reviewed[j].Pat.MatchString(s.Key) {
				ent = &c18Reviewed[j]
				break
			}
		}
		if ent == nil {
			byStatus["unreviewed"]++
			r.Fail("C18/R1", s.Key, "potential panic site is proved safe or reviewed", s.Pos, s.Kind+": "+s.Why+" — reachable from the input handlers; a panic in the poller goroutine terminates the daemon and recurs at every restart because the offset is saved after handling")
			continue
		}
		ok, detail := true, ""
		if ent.Premise != nil {
			ok, detail = ent.Premise(c, ms, s)
		}
		if ok {
			byStatus["reviewed"]++
			r.OKd("C18/R1", s.Key, "reviewed: "+ent.Reason, s.Pos, detail)
		} else {
			byStatus["premise-failed"]++
			r.Fail("C18/R1", s.Key, "reviewed: "+ent.Reason, s.Pos, "the premise of this reviewed entry no longer holds: "+detail)
		}
	}
	for k, n := range byKind {
		r.Count("panic_sites_"+k, n)
	}
	for k, n := range byStatus {
		r.Count("panic_sites_status_"+k, n)
	}
	r.Count("panic_audit_functions", len(c18Scope(c)))
	r.Count("panic_audit_functions_with_sites", len(fns))
	if len(sites) < 600 || len(c18Scope(c)) < 250 {
		r.Unknown("C18/R1", "census", "the census covers the input-reachable module code", "", sprintf("only %d sites in %d functions (confirmed by hand: > 700 sites, > 300 functions)", len(sites), len(c18Scope(c))))
	} else {
		r.OKd("C18/R1", "census", "the census covers the input-reachable module code", "", sprintf("%d sites in %d functions; proved %d, typestate %d", len(sites), len(c18Scope(c)), byStatus["proved"], byStatus["typestate"]))
	}
	// the scope must contain the handlers that matter
	for _, want := range []string{"(*airgapped.Machine).handleStateDkgCommitsAwaitConfirmations", "(*services/node.BaseNodeService).processMessage", "(*fsm/state_machines/signing_proposal_fsm.SigningProposalFSM).actionStartSigningProposal", "fsm/types/requests.ReconstructBakedMessage", "(*types.Operation).Filename", "(*dkg.DKG).ProcessDeals"} {
		found := false
		for _, f := range c18Scope(c) {
			if shortFn(f) == want {
				found = true
			}
		}
		r.Check(found, "C18/R1", "scope:"+want, "function is inside the audited scope", "", "not reached from the entry points by the call graph: its sites are not audited")
	}
}

// ---------------------------------------------------------------- premises

func premHTTPCtx(c *Ctx, _ map[string]*fsmx.Machine, s *panicSite) (bool, string) {
	api := c.P.Func("client/api/http_api", "", "NewRESTApi")
	mw := c.P.Func("client/api/http_api", "", "contextServiceMiddleware")
	if api == nil || mw == nil {
		return false, "NewRESTApi / contextServiceMiddleware not found"
	}
	installed := false
	var useCall, routerCall ssa.Instruction
	ssax.Instrs(api, func(in ssa.Instruction) {
		call, ok := in.(ssa.CallInstruction)
		if !ok {
			return
		}
		id := ssax.FuncID(ssax.CalleeObj(call))
		if strings.HasSuffix(id, "echo/v4.(Echo).Use") {
			for _, a := range call.Common().Args {
				if strings.Contains(ssax.Path(a), "contextServiceMiddleware") {
					installed = true
					useCall = in
				}
			}
		}
		if strings.HasSuffix(id, "router.SetRouter") {
			routerCall = in
		}
	})
	if !installed || routerCall == nil {
		return false, "NewRESTApi does not install contextServiceMiddleware with Use() before SetRouter"
	}
	if ssax.ReachableAvoiding(api, routerCall, nil, []ssa.Instruction{useCall}) {
		return false, "the routes can be registered without the middleware being installed"
	}
	// the middleware's closure calls next(cs.New(ctx)) on every path
	wraps := false
	for _, an := range mw.AnonFuncs {
		ssax.Instrs(an, func(in ssa.Instruction) {
			if call, ok := in.(ssa.CallInstruction); ok && call.Common().StaticCallee() == nil && !call.Common().IsInvoke() {
				for _, a := range call.Common().Args {
					if strings.Contains(ssax.Path(a), "context_service.New(") {
						wraps = true
					}
				}
			}
		})
	}
	if !wraps {
		return false, "contextServiceMiddleware does not pass cs.New(ctx) to the next handler"
	}
	// the handler is registered through SetRouter (an echo route), not called in another way
	return true, "NewRESTApi: Use(contextServiceMiddleware) precedes SetRouter; the middleware calls next(cs.New(ctx))"
}

// suiteConcrete returns the concrete type boxed by bls12381.NewBLS12381Suite.
func suiteConcrete(c *Ctx) types.Type {
	for f := range c.P.AllFuncs() {
		if f.Name() == "NewBLS12381Suite" && f.Pkg != nil && strings.HasSuffix(f.Pkg.Pkg.Path(), "pairing/bls12381") {
			var t types.Type
			for _, ret := range ssax.Returns(f) {
				if len(ret.Results) == 1 {
					if mi, ok := ret.Results[0].(*ssa.MakeInterface); ok {
						t = mi.X.Type()
					}
				}
			}
			return t
		}
	}
	return nil
}

func isSuiteValue(p string) bool {
	return strings.HasPrefix(p, "bls12381.NewBLS12381Suite(") || strings.HasSuffix(p, ".baseSuite")
}

func premSuite(c *Ctx, _ map[string]*fsmx.Machine, s *panicSite) (bool, string) {
	ta := s.In.(*ssa.TypeAssert)
	ct := suiteConcrete(c)
	if ct == nil {
		return false, "concrete type of NewBLS12381Suite not found"
	}
	it, ok := ta.AssertedType.Underlying().(*types.Interface)
	if !ok || !types.Implements(ct, it) {
		return false, types.TypeString(ct, shortQ) + " does not implement the asserted interface"
	}
	// every store to Machine.baseSuite holds a NewBLS12381Suite value
	for f := range c.P.AllFuncs() {
		if !load.InModule(f) || c.isTestFunc(f) || f.Synthetic != "" {
			continue
		}
		bad := ""
		ssax.Instrs(f, func(in ssa.Instruction) {
			if st, ok := in.(*ssa.Store); ok {
				if fa, ok := st.Addr.(*ssa.FieldAddr); ok && ssax.FieldOf(fa) != nil && ssax.FieldOf(fa).Name() == "baseSuite" && ssax.OwnerName(fa) == "Machine" {
					if p := npath(st.Val); !strings.HasPrefix(p, "bls12381.NewBLS12381Suite(") {
						bad = shortFn(f) + ": baseSuite := " + p
					}
				}
			}
		})
		if bad != "" {
			return false, bad
		}
	}
	p := npath(ta.X)
	if isSuiteValue(p) {
		return true, "operand " + trimPath(p) + "; concrete type " + types.TypeString(ct, shortQ)
	}
	// a parameter: every module caller passes a suite value
	if prm, ok := ta.X.(*ssa.Parameter); ok {
		idx := -1
		for i, q := range s.Fn.Params {
			if q == prm {
				idx = i
			}
		}
		cg := c.P.CallGraph()
		n := 0
		if node := cg.Nodes[s.Fn]; node != nil && idx >= 0 {
			for _, e := range node.In {
		if !c.P.AllFuncs()[e.Caller.Func] {
			continue // a helper that was expanded into all its callers (or a function outside the census)
		}
				if !c.P.AllFuncs()[e.Caller.Func] {
					continue // a helper that was expanded into all its callers (or a function outside the census)
				}
				if !load.InModule(e.Caller.Func) || c.isTestFunc(e.Caller.Func) || e.Site == nil {
					continue
				}
				n++
				ap := npath(e.Site.Common().Args[idx])
				if !isSuiteValue(ap) {
					return false, shortFn(e.Caller.Func) + " passes " + trimPath(ap)
				}
			}
		}
		if n > 0 {
			return true, sprintf("parameter fed by %d module call sites, all with am.baseSuite / NewBLS12381Suite(...)", n)
		}
	}
	return false, "operand " + trimPath(p) + " is not recognisably a NewBLS12381Suite value"
}

func premResponses(c *Ctx, _ map[string]*fsmx.Machine, s *panicSite) (bool, string) {
	ta := s.In.(*ssa.TypeAssert)
	n := 0
	for f := range c.P.AllFuncs() {
		if !load.InModule(f) || c.isTestFunc(f) || f.Synthetic != "" {
			continue
		}
		bad := ""
		ssax.Instrs(f, func(in ssa.Instruction) {
			call, ok := in.(ssa.CallInstruction)
			if !ok {
				return
			}
			if id := ssax.FuncID(ssax.CalleeObj(call)); !strings.HasSuffix(id, "dkg.(messageStore).add") {
				return
			}
			a := call.Common().Args
			if !strings.HasSuffix(ssax.Path(a[0]), ".responses") {
				return
			}
			n++
			mi, ok := a[len(a)-1].(*ssa.MakeInterface)
			if !ok || !types.Identical(mi.X.Type(), ta.AssertedType) {
				bad = shortFn(f) + " stores " + a[len(a)-1].Type().String() + " into d.responses"
			}
		})
		if bad != "" {
			return false, bad
		}
	}
	// indexToData is written only by add
	for f := range c.P.AllFuncs() {
		if !load.InModule(f) || c.isTestFunc(f) || f.Synthetic != "" || strings.HasSuffix(shortFn(f), "messageStore).add") || strings.HasSuffix(shortFn(f), "newMessageStore") {
			continue
		}
		bad := ""
		ssax.Instrs(f, func(in ssa.Instruction) {
			if mu, ok := in.(*ssa.MapUpdate); ok && strings.Contains(ssax.Path(mu.Map), ".indexToData") {
				bad = shortFn(f) + " writes indexToData directly"
			}
		})
		if bad != "" {
			return false, bad
		}
	}
	return n > 0, sprintf("%d add() calls on d.responses, all with *dkg.Response", n)
}

func premWithSetup(c *Ctx, ms map[string]*fsmx.Machine, s *panicSite) (bool, string) {
	fd := c.P.Func("fsm/state_machines", "", "FromDump")
	if fd == nil {
		return false, "FromDump not found"
	}
	var ws, mbs []ssa.CallInstruction
	for _, call := range ssax.Calls(fd, false, func(ssa.CallInstruction) bool { return true }) {
		if call.Common().IsInvoke() && call.Common().Method.Name() == "WithSetup" {
			ws = append(ws, call)
		}
		if strings.HasSuffix(ssax.FuncID(ssax.CalleeObj(call)), "fsm_pool.(FSMPool).MachineByState") {
			mbs = append(mbs, call)
		}
	}
	if len(ws) != 1 || len(mbs) != 1 {
		return false, sprintf("FromDump: %d WithSetup / %d MachineByState calls", len(ws), len(mbs))
	}
	ne := ssax.NilErrEdgesOfCall(fd, mbs[0])
	if len(ne) == 0 || ssax.ReachableAvoiding(fd, ws[0], ne, nil) {
		return false, "WithSetup is reachable without MachineByState having succeeded"
	}
	a0, m0 := npath(ws[0].Common().Args[0]), npath(mbs[0].Common().Args[len(mbs[0].Common().Args)-1])
	if a0 != m0 || !strings.HasSuffix(a0, ".State") {
		return false, "WithSetup is given " + a0 + " but the machine was looked up for " + m0
	}
	// all module callers of MustCopyWithState are the three WithSetup siblings
	for _, cl := range c.callersOf("fsm/fsm.(FSM).MustCopyWithState") {
		if !strings.HasSuffix(cl, ".WithSetup") {
			return false, "MustCopyWithState is also called from " + cl
		}
	}
	return true, "FromDump: WithSetup(dump.State, …) only after MachineByState(dump.State) == nil error; see C19/R1 obligations in this report"
}

func premMustCallers(c *Ctx, _ map[string]*fsmx.Machine, s *panicSite) (bool, string) {
	var all []string
	for _, id := range []string{"fsm/fsm.MustNewFSM", "fsm/fsm_pool.Init"} {
		for _, cl := range c.callersOf(id) {
			// (the documentation tool under fsm/cmd builds the same pool from the same compile-time tables and reads no input)
			if strings.HasPrefix(cl, "fsm/cmd/") {
				continue
			}
			all = append(all, cl)
			ok := strings.HasSuffix(cl, "_fsm.New") || cl == "fsm/state_machines.Create" || cl == "fsm/state_machines.FromDump"
			if !ok {
				return false, id + " is also called from " + cl
			}
		}
	}
	return len(all) >= 5, sprintf("callers: %s", strings.Join(uniqStr(all), ", "))
}

func premMustArgs(c *Ctx, _ map[string]*fsmx.Machine, s *panicSite) (bool, string) {
	call := s.In.(ssa.CallInstruction)
	id := ssax.FuncID(ssax.CalleeObj(call))
	if strings.HasSuffix(id, "MustNewFSM") {
		if len(s.Fn.Params) != 0 || len(s.Fn.FreeVars) != 0 {
			return false, shortFn(s.Fn) + " takes parameters: the table could depend on them"
		}
		return true, "constructor without parameters: arguments are compile-time tables"
	}
	// fsm_pool.Init(machines...): every element is the result of a machine package's New()
	for _, a := range call.Common().Args {
		p := npath(a)
		for _, part := range strings.Split(strings.Trim(strings.TrimSuffix(p, "[:]"), "{}"), ", ") {
			if !regexp.MustCompile(`^[a-z_]+_fsm\.New\(\)$`).MatchString(part) {
				return false, "Init argument " + trimPath(p) + " is not a list of <machine>.New() values"
			}
		}
	}
	return true, "Init(signature_proposal_fsm.New(), dkg_proposal_fsm.New(), signing_proposal_fsm.New())"
}

func premProviders(c *Ctx, _ map[string]*fsmx.Machine, s *panicSite) (bool, string) {
	ta := s.In.(*ssa.TypeAssert)
	it, ok := ta.AssertedType.Underlying().(*types.Interface)
	if !ok {
		return false, "asserted type is not an interface"
	}
	n := 0
	for _, rel := range fsmx.MachinePkgs {
		nf := c.P.Func(rel, "", "New")
		if nf == nil {
			return false, rel + ".New not found"
		}
		for _, ret := range ssax.Returns(nf) {
			for _, res := range ret.Results {
				mi, ok := res.(*ssa.MakeInterface)
				if !ok {
					return false, rel + ".New does not return a boxed concrete machine"
				}
				if !types.Implements(mi.X.Type(), it) {
					return false, types.TypeString(mi.X.Type(), shortQ) + " does not implement " + types.TypeString(ta.AssertedType, shortQ)
				}
				n++
			}
		}
	}
	return n >= 3, sprintf("%d machine constructors return types implementing the interface", n)
}

func premDealIndex(c *Ctx, _ map[string]*fsmx.Machine, s *panicSite) (bool, string) {
	for _, cl := range c.callersOf("dkg.(PKStore).GetParticipantByIndex") {
		if !strings.HasSuffix(cl, "DKG).processDealCommits") && !strings.HasSuffix(cl, "DKG).GetParticipantByIndex") {
			return false, "GetParticipantByIndex is also called from " + cl
		}
	}
	// the exported forwarder is given a key of kyber's Deals() map (one per other participant) or the instance's own id
	nfw := 0
	for f := range c.P.AllFuncs() {
		if !load.InModule(f) || c.isTestFunc(f) || f.Synthetic != "" {
			continue
		}
		for _, call := range callsIn(f, "dkg.(DKG).GetParticipantByIndex") {
			nfw++
			a := call.Common().Args
			p := npath(a[len(a)-1])
			if !(strings.HasSuffix(p, ".ParticipantID") || (strings.HasPrefix(p, "next(range(") && strings.Contains(p, ".GetDeals()#0))#1"))) {
				return false, shortFn(f) + " calls DKG.GetParticipantByIndex(" + trimPath(p) + ")"
			}
		}
	}
	for _, cl := range c.callersOf("dkg.(DKG).processDealCommits") {
		if !strings.HasSuffix(cl, "DKG).ProcessDeals") {
			return false, "processDealCommits is also called from " + cl
		}
	}
	pd := c.P.Func("dkg", "DKG", "ProcessDeals")
	if pd == nil {
		return false, "ProcessDeals not found"
	}
	var pdeal, pcomm []ssa.CallInstruction
	for _, call := range ssax.Calls(pd, false, func(ssa.CallInstruction) bool { return true }) {
		id := ssax.FuncID(ssax.CalleeObj(call))
		if o := ssax.CalleeObj(call); o != nil && o.Name() == "ProcessDeal" && o.Pkg() != nil && strings.Contains(o.Pkg().Path(), "kyber") {
			pdeal = append(pdeal, call)
		}
		if strings.HasSuffix(id, "dkg.(DKG).processDealCommits") {
			pcomm = append(pcomm, call)
		}
	}
	if len(pdeal) != 1 || len(pcomm) != 1 {
		return false, sprintf("ProcessDeals: %d ProcessDeal / %d processDealCommits calls", len(pdeal), len(pcomm))
	}
	ne := ssax.NilErrEdgesOfCall(pd, pdeal[0])
	if len(ne) == 0 || ssax.ReachableAvoiding(pd, pcomm[0], ne, nil) {
		return false, "processDealCommits is reachable without instance.ProcessDeal(deal) having accepted the deal"
	}
	if npath(pdeal[0].Common().Args[len(pdeal[0].Common().Args)-1]) != npath(pcomm[0].Common().Args[len(pcomm[0].Common().Args)-1]) {
		return false, "ProcessDeal and processDealCommits are given different deals"
	}
	return true, "ProcessDeals: processDealCommits(…, deal) only after instance.ProcessDeal(deal) == nil error"
}

func premSignID(c *Ctx, _ map[string]*fsmx.Machine, s *panicSite) (bool, string) {
	var idx, seq ssa.Value
	switch x := s.In.(type) {
	case *ssa.Index:
		idx, seq = x.Index, x.X
	case *ssa.IndexAddr:
		idx, seq = x.Index, x.X
	case *ssa.Lookup:
		idx, seq = x.Index, x.X
	}
	if idx == nil {
		return false, "unexpected site shape"
	}
	ip := npath(idx)
	str, ok := ssax.ConstString(seq)
	if !ok {
		return false, "indexed value is not a constant string"
	}
	want := sprintf(`rand.Int(rand.Reader, big.NewInt(%d))#0.Uint64()`, len(str))
	alt := "len(" + ssax.Path(seq) + ")"
	if strings.Contains(ip, "crypto/rand.Int(") || strings.Contains(ip, "rand.Int(") {
		if strings.Contains(ip, sprintf("NewInt(%d)", len(str))) || strings.Contains(ip, alt) || strings.Contains(ip, "NewInt(conv<int64>(len(") {
			return true, "index is " + trimPath(ip)
		}
	}
	return false, "index " + trimPath(ip) + " is not rand.Int(…, NewInt(len(letters))) (expected like " + want + ")"
}

func premQuorum0(c *Ctx, ms map[string]*fsmx.Machine, s *panicSite) (bool, string) {
	init := c.P.Func("fsm/state_machines/signature_proposal_fsm", "SignatureProposalFSM", "actionInitSignatureProposal")
	val := c.P.Func("fsm/types/requests", "SignatureProposalParticipantsListRequest", "Validate")
	if init == nil || val == nil {
		return false, "actionInitSignatureProposal / Validate not found"
	}
	// Quorum[index] = … with index ranging over request.Participants
	okStore := false
	ssax.Instrs(init, func(in ssa.Instruction) {
		if mu, ok := in.(*ssa.MapUpdate); ok {
			// the invitation quorum, by type (it may be filled through a local before it is attached to the payload)
			if nm, isNamed := mu.Map.Type().(*types.Named); isNamed && nm.Obj().Name() == "SignatureProposalQuorum" && npath(mu.Key) == "i" {
				okStore = true
			}
		}
	})
	if !okStore {
		return false, "actionInitSignatureProposal does not key the quorum by the index of the participant list"
	}
	// Validate rejects lists shorter than a positive minimum: every nil return lies behind an edge on which
	// len(Participants) >= 1 (whatever way the comparison is written)
	atLeast := lenAtLeastEdges(val, func(p string) bool { return strings.HasSuffix(p, ".Participants") }, 1)
	okMin := len(atLeast) > 0
	for _, ret := range ssax.Returns(val) {
		if ret.Block() == val.Recover || len(ret.Results) != 1 {
			continue
		}
		for _, lf := range ssax.Leaves(ret.Results[0], ret) {
			if ssax.IsNilConst(ssax.Resolve(lf.V)) && ssax.ReachableAvoiding(val, lf.At, atLeast, nil) {
				okMin = false
			}
		}
	}
	if !okMin {
		return false, "Validate has no lower bound on len(Participants)"
	}
	calls := ssax.Calls(init, false, func(ci ssa.CallInstruction) bool { o := ssax.CalleeObj(ci); return o != nil && o.Name() == "Validate" })
	if len(calls) == 0 {
		return false, "actionInitSignatureProposal does not call Validate"
	}
	return true, "Quorum keyed by list index; Validate enforces a positive minimum length"
}

func premSigningGet(c *Ctx, _ map[string]*fsmx.Machine, s *panicSite) (bool, string) {
	cg := c.P.CallGraph()
	n := 0
	node := cg.Nodes[s.Fn]
	if node == nil {
		return false, "no call-graph node"
	}
	for _, e := range node.In {
		if !c.P.AllFuncs()[e.Caller.Func] {
			continue // a helper that was expanded into all its callers (or a function outside the census)
		}
		cf := e.Caller.Func
		if !load.InModule(cf) || c.isTestFunc(cf) || e.Site == nil {
			continue
		}
		n++
		arg := npath(e.Site.Common().Args[len(e.Site.Common().Args)-1])
		var edges []ssax.Edge
		for _, call := range ssax.Calls(cf, false, func(ci ssa.CallInstruction) bool {
			o := ssax.CalleeObj(ci)
			return o != nil && o.Name() == "SigningQuorumExists"
		}) {
			if npath(call.Common().Args[len(call.Common().Args)-1]) == arg {
				edges = append(edges, ssax.BoolEdgesOfCall(cf, call, 0, true)...)
			}
		}
		in, _ := e.Site.(ssa.Instruction)
		if len(edges) == 0 || ssax.ReachableAvoiding(cf, in, edges, nil) {
			return false, shortFn(cf) + " calls SigningQuorumGet(" + arg + ") without a dominating SigningQuorumExists(" + arg + ")"
		}
	}
	return n > 0, sprintf("%d callers, each behind SigningQuorumExists(id) == true", n)
}

var quorumMaps = map[string]bool{"SignatureProposalQuorum": true, "DKGProposalQuorum": true, "SigningProposalQuorum": true}

func premOrdered(c *Ctx, _ map[string]*fsmx.Machine, s *panicSite) (bool, string) {
	fa := s.In.(*ssa.FieldAddr)
	lk := ssax.Resolve(fa.X).(*ssa.Lookup)
	mp := ssax.Path(lk.X)
	if !strings.Contains(ssax.Path(lk.Index), "next(range("+mp+"))") {
		return false, "the key does not enumerate the same map"
	}
	n := 0
	for f := range c.P.AllFuncs() {
		if !load.InModule(f) || c.isTestFunc(f) || f.Synthetic != "" {
			continue
		}
		bad := ""
		ssax.Instrs(f, func(in ssa.Instruction) {
			mu, ok := in.(*ssa.MapUpdate)
			if !ok {
				return
			}
			nm, ok := mu.Map.Type().(*types.Named)
			if !ok || !quorumMaps[nm.Obj().Name()] {
				return
			}
			n++
			switch v := ssax.Resolve(mu.Value).(type) {
			case *ssa.Alloc:
			case *ssa.Parameter:
				// <X>QuorumUpdate(id, participant): callers pass what <X>QuorumGet returned under <X>QuorumExists
				if !strings.HasSuffix(f.Name(), "QuorumUpdate") {
					bad = shortFn(f) + " stores parameter " + v.Name()
				}
			default:
				bad = shortFn(f) + " stores " + npath(mu.Value)
			}
		})
		if bad != "" {
			return false, bad
		}
	}
	// QuorumUpdate callers pass the participant obtained from QuorumGet in the same function
	for f := range c.P.AllFuncs() {
		if !load.InModule(f) || c.isTestFunc(f) || f.Synthetic != "" {
			continue
		}
		bad := ""
		for _, call := range ssax.Calls(f, false, func(ci ssa.CallInstruction) bool {
			o := ssax.CalleeObj(ci)
			return o != nil && strings.HasSuffix(o.Name(), "QuorumUpdate")
		}) {
			a := call.Common().Args
			p := npath(a[len(a)-1])
			if !strings.Contains(p, "QuorumGet(") {
				bad = shortFn(f) + " passes " + trimPath(p) + " to " + ssax.CalleeObj(call).Name()
			}
		}
		if bad != "" {
			return false, bad
		}
	}
	return n >= 6, sprintf("%d quorum map stores: fresh allocations, or the element previously read with <X>QuorumGet", n)
}

func premSigningPrefix(c *Ctx, ms map[string]*fsmx.Machine, s *panicSite) (bool, string) {
	info := c.c18info["SigningProposalPayload"]
	if info == nil || info.noAlloc == nil {
		return false, "no typestate information"
	}
	var edges []ssax.Edge
	for _, call := range ssax.CallsTo(s.Fn, "strings.HasPrefix") {
		if k, ok := ssax.ConstString(call.Common().Args[1]); ok && k == "state_signing_" && strings.Contains(npath(call.Common().Args[0]), ".FSMDump().State") {
			edges = append(edges, ssax.BoolEdgesOfCall(s.Fn, call, 0, true)...)
		}
	}
	if len(edges) == 0 || ssax.ReachableAvoiding(s.Fn, s.In, edges, nil) {
		return false, "the dereference is reachable without the strings.HasPrefix(state, \"state_signing_\") test"
	}
	n := 0
	for st := range info.noAlloc {
		if strings.HasPrefix(st, "state_signing_") {
			return false, "state " + st + " has the prefix but is reachable without event_signing_init"
		}
	}
	for _, m := range ms {
		for st := range m.Sources {
			if strings.HasPrefix(st, "state_signing_") {
				n++
			}
		}
	}
	return n > 0, sprintf("guarded by the prefix test; %d state_signing_* states, none reachable without the allocating event", n)
}

func premRecover(c *Ctx, ms map[string]*fsmx.Machine, s *panicSite) (bool, string) {
	info := c.c18info["DKGProposalPayload"]
	if info == nil || info.noAlloc == nil {
		return false, "no typestate information"
	}
	const st = "state_signing_partial_signs_collected"
	if info.noAlloc[st] {
		return false, st + " is reachable without the event that allocates DKGProposalPayload"
	}
	for _, cl := range c.callersOf(pkgNode + ".recoverFullSign") {
		if !strings.HasSuffix(cl, "reconstructThresholdSignature") {
			return false, "recoverFullSign is also called from " + cl
		}
	}
	for _, cl := range c.callersOf(pkgNode + ".reconstructThresholdSignature") {
		if !strings.HasSuffix(cl, ").processMessage") {
			return false, "reconstructThresholdSignature is also called from " + cl
		}
	}
	pm := c.P.Func(pkgNode, "BaseNodeService", "processMessage")
	if pm == nil {
		return false, "processMessage not found"
	}
	calls := callsIn(pm, pkgNode+".reconstructThresholdSignature")
	edges := respStateEdges(pm, st)
	if len(calls) != 1 || len(edges) == 0 || ssax.ReachableAvoiding(pm, calls[0], edges, nil) {
		return false, "reconstructThresholdSignature is reachable without resp.State == " + st
	}
	return true, "called only under resp.State == " + st + ", which lies behind the allocating event"
}


// lenAtLeastEdges: the branch edges of fn on which len(x) >= min is known, for values x whose access path satisfies match;
// every way of writing the comparison is covered (either polarity, constant on either side, negated).
func lenAtLeastEdges(fn *ssa.Function, match func(path string) bool, min int64) []ssax.Edge {
	var out []ssax.Edge
	for _, cd := range ssax.Conds(fn) {
		la := lenArg(cd.X)
		if la == nil || !match(ssax.Path(la)) {
			continue
		}
		k, isC := ssax.ConstInt(cd.Y)
		if !isC {
			continue
		}
		t, f := ssax.Edge{From: cd.If.Block(), Succ: 0}, ssax.Edge{From: cd.If.Block(), Succ: 1}
		switch cd.Op {
		case token.LSS: // len < k  => on the false edge len >= k
			if k >= min {
				out = append(out, f)
			}
		case token.LEQ: // len <= k => false edge: len >= k+1
			if k+1 >= min {
				out = append(out, f)
			}
		case token.GEQ:
			if k >= min {
				out = append(out, t)
			}
		case token.GTR:
			if k+1 >= min {
				out = append(out, t)
			}
		case token.EQL: // len == 0 => false edge: len >= 1
			if k == 0 && min <= 1 {
				out = append(out, f)
			}
		case token.NEQ:
			if k == 0 && min <= 1 {
				out = append(out, t)
			}
		}
	}
	return out
}


// emptyEdges: the branch edges of fn on which a string or slice whose access path satisfies match is empty, whatever way
// the test is written (x == "", len(x) == 0, len(x) < 1, len(x) <= 0, and the complements of != / > / >=).
func emptyEdges(fn *ssa.Function, match func(path string) bool) []ssax.Edge {
	var out []ssax.Edge
	for _, cd := range ssax.Conds(fn) {
		t, f := ssax.Edge{From: cd.If.Block(), Succ: 0}, ssax.Edge{From: cd.If.Block(), Succ: 1}
		// direct comparison with the empty string
		if cd.Op == token.EQL || cd.Op == token.NEQ {
			for _, pr := range [][2]ssa.Value{{cd.X, cd.Y}, {cd.Y, cd.X}} {
				if pr[1] == nil {
					continue
				}
				if s, ok := ssax.ConstString(pr[1]); ok && s == "" && match(ssax.Path(pr[0])) {
					if cd.Op == token.EQL {
						out = append(out, t)
					} else {
						out = append(out, f)
					}
				}
			}
		}
		la := lenArg(cd.X)
		if la == nil || !match(ssax.Path(la)) {
			continue
		}
		k, isC := ssax.ConstInt(cd.Y)
		if !isC {
			continue
		}
		switch {
		case cd.Op == token.EQL && k == 0, cd.Op == token.LSS && k == 1, cd.Op == token.LEQ && k == 0:
			out = append(out, t)
		case cd.Op == token.NEQ && k == 0, cd.Op == token.GEQ && k == 1, cd.Op == token.GTR && k == 0:
			out = append(out, f)
		}
	}
	return out
}
