package rules

import (
	"os"
	"go/token"
	"go/types"
	"sort"
	"strings"

	"dcverif/internal/load"
	"dcverif/internal/ssax"

	"golang.org/x/tools/go/ssa"
)

func init() { Registry["C18"] = C18 }

type panicSite struct {
	Kind, Status, Key, Pos, Why string
	Fn                          *ssa.Function
	In                          ssa.Instruction
}

// entry points whose inputs come from the board, the local API or an operation file
func c18Entries(c *Ctx) []*ssa.Function {
	var out []*ssa.Function
	add := func(rel, recv, name string) {
		if f := c.P.Func(rel, recv, name); f != nil {
			out = append(out, f)
		}
	}
	add(pkgNode, "BaseNodeService", "Poll")
	add(pkgNode, "BaseNodeService", "ProcessMessage")
	add("airgapped", "Machine", "ProcessOperation")
	add("airgapped", "Machine", "ReplayOperationsLog")
	add("airgapped", "Machine", "GetOperationResult")
	add("cmd/airgapped", "prompt", "readOperationCommand")
	add("cmd/airgapped", "prompt", "replayOperationLogCommand")
	for _, h := range c14Roots(c)["http"] {
		out = append(out, h)
	}
	return out
}

func c18Scope(c *Ctx) []*ssa.Function {
	if c.c18scope != nil {
		return c.c18scope
	}
	seen := map[*ssa.Function]bool{}
	cg := c.P.CallGraph()
	var out []*ssa.Function
	var walk func(f *ssa.Function)
	walk = func(f *ssa.Function) {
		if f == nil || seen[f] {
			return
		}
		seen[f] = true
		if !load.InModule(f) || strings.Contains(load.FuncName(f), "mocks/") || c.isTestFunc(f) {
			return
		}
		if f.Synthetic == "" && len(f.Blocks) > 0 {
			out = append(out, f)
		}
		if n := cg.Nodes[f]; n != nil {
			for _, e := range n.Out {
				walk(e.Callee.Func)
			}
		}
	}
	for _, e := range c18Entries(c) {
		walk(e)
	}
	sort.Slice(out, func(i, j int) bool { return load.FuncName(out[i]) < load.FuncName(out[j]) })
	c.c18scope = out
	return out
}

// c18Sites enumerates the potential panic sites of the input-reachable module code and tries to prove each safe.
func c18Sites(c *Ctx) []panicSite {
	var sites []panicSite
	for _, f := range c18Scope(c) {
		cnt := map[string]int{}
		mk := func(kind string, in ssa.Instruction, expr string) *panicSite {
			k := shortFn(f) + ":" + kind + ":" + expr
			cnt[k]++
			if cnt[k] > 1 {
				k = sprintf("%s#%d", k, cnt[k])
			}
			sites = append(sites, panicSite{Kind: kind, Key: k, Pos: c.PosOf(in), Fn: f, In: in, Status: "unproved"})
			return &sites[len(sites)-1]
		}
		ssax.Instrs(f, func(in ssa.Instruction) {
			switch x := in.(type) {
			case *ssa.IndexAddr:
				s := mk("index", in, trimPath(ssax.Path(x.X))+"["+trimPath(npath(x.Index))+"]")
				s.Status, s.Why = proveIndex(f, x.X, x.Index, in)
			case *ssa.Index:
				s := mk("index", in, trimPath(ssax.Path(x.X))+"["+trimPath(npath(x.Index))+"]")
				s.Status, s.Why = proveIndex(f, x.X, x.Index, in)
			case *ssa.Slice:
				if x.Low == nil && x.High == nil && x.Max == nil {
					return
				}
				s := mk("slice", in, trimPath(ssax.Path(x.X))+"["+slicePart(x.Low)+":"+slicePart(x.High)+"]")
				s.Status, s.Why = proveSlice(f, x, in)
			case *ssa.TypeAssert:
				if x.CommaOk {
					return
				}
				s := mk("type-assert", in, trimPath(ssax.Path(x.X))+".("+types.TypeString(x.AssertedType, shortQ)+")")
				s.Status, s.Why = proveAssert(f, x)
			case *ssa.MakeSlice:
				// make([]T, n, m) panics when a size is negative or exceeds the address space
				for _, sz := range []ssa.Value{x.Len, x.Cap} {
					if _, isC := ssax.ConstInt(sz); isC {
						continue
					}
					if lenArg(sz) != nil {
						continue // the length of something that already exists
					}
					s := mk("makeslice", in, trimPath(npath(sz)))
					s.Status, s.Why = proveSize(f, sz, in)
					break
				}
			case *ssa.Panic:
				s := mk("panic", in, "panic")
				s.Status, s.Why = "unproved", "explicit panic"
				if mi, ok := x.X.(*ssa.MakeInterface); ok {
					if str, ok := ssax.ConstString(mi.X); ok && str == "blocking select matched no case" {
						s.Status, s.Why = "proved", "SSA artefact of a blocking select (unreachable: one of the cases was chosen)"
					}
				}
				if s.Status != "proved" && provePanicByCallerCheck(c, f, in) {
					s.Status, s.Why = "proved", "reached only when a lookup keyed by a parameter misses, and every caller calls the function behind a membership test of the same map and key"
				}
			case *ssa.BinOp:
				if x.Op == token.QUO || x.Op == token.REM {
					if b, ok := x.X.Type().Underlying().(*types.Basic); ok && b.Info()&types.IsInteger != 0 {
						s := mk("div", in, trimPath(ssax.Path(x.Y)))
						if k, ok := ssax.ConstInt(x.Y); ok && k != 0 {
							s.Status, s.Why = "proved", "constant non-zero divisor"
						}
					}
				}
			case *ssa.FieldAddr:
				// dereference of a pointer obtained directly from a map lookup without comma-ok: m[k].f
				if lk, ok := ssax.Resolve(x.X).(*ssa.Lookup); ok && !lk.CommaOk {
					if _, isPtr := lk.Type().Underlying().(*types.Pointer); isPtr {
						s := mk("nil-map-elem", in, trimPath(ssax.Path(lk.X))+"["+trimPath(ssax.Path(lk.Index))+"]."+ssax.FieldOf(x).Name())
						s.Status, s.Why = proveMapElem(f, lk, in)
					}
				}
				// dereference of a pointer that came out of a JSON decode (an element of a decoded []*T, a pointer field of a
				// decoded struct): `null` in the input makes it nil
				if xp := ssax.Path(x.X); strings.HasPrefix(xp, "json(") {
					if _, isPtr := x.X.Type().Underlying().(*types.Pointer); isPtr {
						// only a pointer VALUE read from the decoded data can be nil; &x[i] and &s.f are address computations
						if isLoadedPointer(x.X) {
							s := mk("decoded-deref", in, trimPath(npath(x.X))+"."+ssax.FieldOf(x).Name())
							s.Status, s.Why = proveNonNil(f, x.X, in)
							if s.Status != "proved" && provedByValidationLoop(f, x.X, in) {
								s.Status, s.Why = "proved", "behind a loop over the same decoded list that rejects a nil element"
							}
							if s.Status != "proved" {
								s.Why = "the pointer comes from decoded input (a JSON null leaves it nil) and is dereferenced without a nil check"
							}
						}
					}
				}
				// dereference of a pointer read from a field (or from an element of a slice/map field) of a module type that
				// is decoded from input somewhere: whoever receives such a value (a request's Validate, an FSM callback)
				// sees nil where the document said null
				if xp := ssax.Path(x.X); !strings.HasPrefix(xp, "json(") {
					if _, isPtr := x.X.Type().Underlying().(*types.Pointer); isPtr {
						if owner, fld := wireSource(c, f, x.X); owner != "" {
							s := mk("wire-deref", in, owner+"."+fld+"->"+ssax.FieldOf(x).Name())
							s.Status, s.Why = proveNonNil(f, x.X, in)
							if s.Status != "proved" && provedByValidationLoop(f, x.X, in) {
								s.Status, s.Why = "proved", "behind a loop over the same list that rejects a nil element"
							}
							if s.Status != "proved" && provedByValidate(c, f, x.X, in) {
								s.Status, s.Why = "proved", "behind request.Validate() == nil, and Validate rejects a nil element of that list before it returns nil"
							}
							if s.Status != "proved" {
								s.Why = "the pointer is read from " + owner + "." + fld + ", a type decoded from input (a JSON null leaves it nil), and is dereferenced without a nil check"
							}
						}
					}
				}
				// dereference of one of the three per-machine payload pointers (nil until their machine is entered)
				if xp := ssax.Path(x.X); isPayloadPtr(xp) {
					if _, isPtr := x.X.Type().Underlying().(*types.Pointer); isPtr {
						s := mk("payload-deref", in, trimPath(xp)+"."+ssax.FieldOf(x).Name())
						s.Status, s.Why = proveNonNil(f, x.X, in)
					}
				}
			case ssa.CallInstruction:
				id := ssax.FuncID(ssax.CalleeObj(x))
				if strings.HasSuffix(id, "fsm/fsm.(FSM).MustCopyWithState") || strings.HasSuffix(id, "fsm/fsm_pool.Init") || strings.HasSuffix(id, "fsm/fsm.MustNewFSM") {
					s := mk("must-call", in, lastSeg(shortID(id)))
					s.Status, s.Why = "unproved", "callee panics on invalid input"
				}
				// dependency functions that panic on malformed input-derived arguments (read in their source)
				for _, dp := range c18DepPanics {
					if id != dp.callee {
						continue
					}
					s := mk("dep-panic", in, lastSeg(id))
					switch {
					case c18UnderRecover(c, f, map[*ssa.Function]bool{}):
						s.Status, s.Why = "proved", "executed under a deferred recover() on every call path from the input handlers"
					case dp.minLenArg >= 0 && provedMinLen(f, x.Common().Args[dp.minLenArg], dp.minLenOf, in):
						s.Status, s.Why = "proved", "the argument's length is tested against "+dp.minLenOf+" before the call"
					default:
						s.Status, s.Why = "unproved", id+" "+dp.why+"; the call is not made under a deferred recover() and the argument comes from the operation being processed"
					}
				}
				if os.Getenv("DCVERIF_DEBUG_DEPS") != "" && strings.Contains(id, "corestario/kyber") {
					var as []string
					for _, a := range x.Common().Args {
						as = append(as, trimPath(npath(a)))
					}
					println("DEPCALL", shortFn(f), id, strings.Join(as, " ; "))
				}
				// library calls that panic when an argument has the wrong length
				for _, pc := range c18LenPreconds {
					if id == pc.callee && pc.arg < len(x.Common().Args) {
						a := x.Common().Args[pc.arg]
						s := mk("arg-length", in, lastSeg(id)+"("+trimPath(npath(a))+")")
						s.Status, s.Why = proveLenEq(f, a, pc.want, in)
						if s.Status != "proved" && pc.ownStore != "" && strings.Contains(npath(a), pc.ownStore) {
							s.Status, s.Why = "proved", "the argument is read from the node's own key store (written by the node's key generation), not from input"
						}
						if s.Status != "proved" {
							s.Why = sprintf("%s panics unless len(argument %d) == %d; the value %s is not tested for that length on every path", id, pc.arg, pc.want, trimPath(npath(a)))
						}
					}
				}
				if id == "encoding/json.Unmarshal" && len(x.Common().Args) == 2 {
					c18DecodedEscapes(c, f, x, mk)
				}
				if id == "log.Fatal" || id == "log.Fatalf" || id == "log.Fatalln" || id == "os.Exit" || id == "log.Panic" || id == "log.Panicf" {
					s := mk("exit", in, id)
					s.Status, s.Why = "unproved", "terminates the process"
				}
			}
		})
	}
	return sites
}

// provedByValidationLoop: v is an element P[..] of a decoded list P; the use lies behind the normal exit of an earlier
// loop `for _, e := range P { if e == nil { return … } }` over the same list.
func provedByValidationLoop(f *ssa.Function, v ssa.Value, at ssa.Instruction) bool {
	vp := npath(v)
	i := strings.LastIndex(vp, "[")
	if i < 0 || !strings.HasSuffix(vp, "]") {
		return false
	}
	return nilRejectingLoopBefore(f, vp[:i], at)
}

// nilRejectingLoopBefore: `at` lies behind the normal exit of a loop over `list` that leaves on a nil element.
func nilRejectingLoopBefore(f *ssa.Function, list string, at ssa.Instruction) bool {
	for _, cd := range condsBoth(f) {
		if cd.Op != token.EQL && cd.Op != token.NEQ {
			continue
		}
		for _, pr := range [][2]ssa.Value{{cd.X, cd.Y}, {cd.Y, cd.X}} {
			if !ssax.IsNilConst(ssax.Resolve(pr[1])) || npath(pr[0]) != list+"[i]" {
				continue
			}
			// the nil edge must not reach the use
			ne, _ := cd.EdgeWhere(token.EQL)
			first := ne.From.Succs[ne.Succ].Instrs[0]
			if first == at || ssax.ReachableFrom(f, first, at, nil, nil) {
				continue
			}
			// the loop this test sits in: header `idx < len(list)` from whose body the test is reached and which the test
			// reaches again; the use must lie behind the header's exit edge
			for _, h := range condsBoth(f) {
				if h.Op != token.LSS {
					continue
				}
				la := lenArg(h.Y)
				if la == nil || npath(la) != list {
					continue
				}
				body := h.If.Block().Succs[0]
				if len(body.Instrs) == 0 || !(body == cd.If.Block() || ssax.ReachableFrom(f, body.Instrs[0], cd.If, nil, []ssa.Instruction{h.If})) {
					continue
				}
				if !ssax.ReachableFrom(f, cd.If, h.If, nil, nil) {
					continue
				}
				if !ssax.ReachableAvoiding(f, at, []ssax.Edge{{From: h.If.Block(), Succ: 1}}, nil) {
					return true
				}
			}
		}
	}
	return false
}

// proveSize: the size of a make() is a sum/product of lengths of existing values and constants, or lies behind both a
// lower-bound test (>= 0) and an upper-bound test against a constant.
func proveSize(f *ssa.Function, sz ssa.Value, at ssa.Instruction) (string, string) {
	var fromLens func(v ssa.Value, d int) bool
	fromLens = func(v ssa.Value, d int) bool {
		if d > 5 {
			return false
		}
		if k, ok := ssax.ConstInt(v); ok {
			return k >= 0
		}
		if lenArg(v) != nil {
			return true
		}
		switch x := ssax.Resolve(v).(type) {
		case *ssa.BinOp:
			if x.Op == token.ADD || x.Op == token.MUL {
				return fromLens(x.X, d+1) && fromLens(x.Y, d+1)
			}
			// len(a) - k / len(a)/k with constants: still bounded above by len(a); negative is possible for SUB
			if x.Op == token.QUO {
				return fromLens(x.X, d+1)
			}
		case *ssa.Convert:
			return fromLens(x.X, d+1)
		case *ssa.Phi:
			for _, e := range x.Edges {
				if e == ssa.Value(x) {
					continue
				}
				if !fromLens(e, d+1) {
					return false
				}
			}
			return true
		}
		return false
	}
	if fromLens(sz, 0) {
		return "proved", "size is built from lengths of existing values and non-negative constants"
	}
	szp := npath(sz)
	lo, hi := false, false
	for _, cd := range condsBoth(f) {
		if cd.Y == nil || npath(cd.X) != szp {
			continue
		}
		k, ok := ssax.ConstInt(cd.Y)
		if !ok {
			continue
		}
		var e *ssax.Edge
		switch {
		case (cd.Op == token.GEQ && k >= 0) || (cd.Op == token.GTR && k >= -1):
			e = &ssax.Edge{From: cd.If.Block(), Succ: 0}
			if !ssax.ReachableAvoiding(f, at, []ssax.Edge{*e}, nil) {
				lo = true
			}
		case (cd.Op == token.LSS && k >= 0) || (cd.Op == token.LEQ && k >= -1):
			// true edge bounds above; false edge bounds below (for k <= 0)
			e = &ssax.Edge{From: cd.If.Block(), Succ: 0}
			if !ssax.ReachableAvoiding(f, at, []ssax.Edge{*e}, nil) {
				hi = true
			}
			if (cd.Op == token.LSS && k == 0) || (cd.Op == token.LEQ && k == -1) {
				e2 := ssax.Edge{From: cd.If.Block(), Succ: 1}
				if !ssax.ReachableAvoiding(f, at, []ssax.Edge{e2}, nil) {
					lo = true
				}
			}
		case cd.Op == token.GTR || cd.Op == token.GEQ:
			e2 := ssax.Edge{From: cd.If.Block(), Succ: 1}
			if !ssax.ReachableAvoiding(f, at, []ssax.Edge{e2}, nil) {
				hi = true
			}
		}
	}
	if lo && hi {
		return "proved", "size lies behind a lower-bound and a constant upper-bound test"
	}
	return "unproved", "make() with a size taken from the input and not bounded: a negative or huge value panics (makeslice: len/cap out of range)"
}

func isLoadedPointer(v ssa.Value) bool {
	switch x := v.(type) {
	case *ssa.UnOp:
		if x.Op != token.MUL {
			return false
		}
		switch x.X.(type) {
		case *ssa.IndexAddr, *ssa.FieldAddr:
			return true
		case *ssa.Alloc:
			// a local copy of such a pointer (range value variable)
			if src := ssax.LoadSource(x); src != nil {
				return isLoadedPointer(src)
			}
		}
	case *ssa.Lookup, *ssa.Extract, *ssa.Index, *ssa.Field:
		return true
	case *ssa.Phi:
		for _, e := range x.Edges {
			if isLoadedPointer(e) {
				return true
			}
		}
	}
	return false
}

// c18DecodedEscapes: a struct decoded from input whose type has pointer fields to structs (kyber's Deal.Deal) and which is
// then handed to other code: the receiver dereferences the field, so the field must have been tested against nil before
// the value escapes.
func c18DecodedEscapes(c *Ctx, f *ssa.Function, um ssa.CallInstruction, mk func(kind string, in ssa.Instruction, expr string) *panicSite) {
	mi, ok := um.Common().Args[1].(*ssa.MakeInterface)
	if !ok {
		return
	}
	al, ok := mi.X.(*ssa.Alloc)
	if !ok {
		return
	}
	if sl, isSlice := deref(al.Type()).Underlying().(*types.Slice); isSlice {
		c18DecodedSliceEscapes(c, f, um, al, sl, mk)
		return
	}
	st, ok := deref(al.Type()).Underlying().(*types.Struct)
	if !ok {
		return
	}
	for i := 0; i < st.NumFields(); i++ {
		fld := st.Field(i)
		pt, isPtr := fld.Type().Underlying().(*types.Pointer)
		if !isPtr || !fld.Exported() {
			continue
		}
		if _, isStruct := pt.Elem().Underlying().(*types.Struct); !isStruct {
			continue
		}
		var escapes []ssa.Instruction
		if al.Referrers() != nil {
			for _, r := range *al.Referrers() {
				switch x := r.(type) {
				case ssa.CallInstruction:
					if x != um {
						escapes = append(escapes, r)
					}
				case *ssa.UnOp:
					if x.Referrers() != nil {
						for _, rr := range *x.Referrers() {
							if ci, isCall := rr.(ssa.CallInstruction); isCall {
								escapes = append(escapes, ci.(ssa.Instruction))
							}
						}
					}
				}
			}
		}
		if len(escapes) == 0 {
			continue
		}
		var edges []ssax.Edge
		for _, cd := range condsBoth(f) {
			if cd.Op != token.EQL && cd.Op != token.NEQ {
				continue
			}
			for _, pr := range [][2]ssa.Value{{cd.X, cd.Y}, {cd.Y, cd.X}} {
				if !ssax.IsNilConst(ssax.Resolve(pr[1])) {
					continue
				}
				if ld, isLd := pr[0].(*ssa.UnOp); isLd {
					if fa, isFA := ld.X.(*ssa.FieldAddr); isFA && fa.X == ssa.Value(al) && fa.Field == i {
						e, _ := cd.EdgeWhere(token.NEQ)
						edges = append(edges, e)
					}
				}
			}
		}
		for _, esc := range escapes {
			s := mk("decoded-escape", esc, trimPath(npath(al))+"."+fld.Name())
			if len(edges) > 0 && !ssax.ReachableAvoiding(f, esc, edges, nil) {
				s.Status, s.Why = "proved", "the decoded pointer field is tested against nil before the value is handed on"
			} else {
				s.Status, s.Why = "unproved", "the decoded value is handed on with its pointer field "+fld.Name()+" possibly nil (a JSON document without that member): the receiver dereferences it"
			}
		}
	}
}

// c18DecodedSliceEscapes: a decoded []*T handed to another function (which will dereference the elements and their
// pointer fields): every element — and every pointer-to-struct field of an element — must have been tested against nil
// in a loop over the slice that the hand-over lies behind.
func c18DecodedSliceEscapes(c *Ctx, f *ssa.Function, um ssa.CallInstruction, al *ssa.Alloc, sl *types.Slice, mk func(kind string, in ssa.Instruction, expr string) *panicSite) {
	ept, ok := sl.Elem().Underlying().(*types.Pointer)
	if !ok {
		return
	}
	est, ok := ept.Elem().Underlying().(*types.Struct)
	if !ok {
		return
	}
	// escapes of the loaded slice value to module/dependency calls (not builtins)
	var escapes []ssa.Instruction
	if al.Referrers() != nil {
		for _, r := range *al.Referrers() {
			ld, isLd := r.(*ssa.UnOp)
			if !isLd || ld.Referrers() == nil {
				continue
			}
			for _, rr := range *ld.Referrers() {
				if ci, isCall := rr.(ssa.CallInstruction); isCall {
					if _, isB := ci.Common().Value.(*ssa.Builtin); !isB {
						escapes = append(escapes, ci.(ssa.Instruction))
					}
				}
			}
		}
	}
	if len(escapes) == 0 {
		return
	}
	base := npath(al)
	want := []string{base + "[i]"}
	for i := 0; i < est.NumFields(); i++ {
		if pt, isPtr := est.Field(i).Type().Underlying().(*types.Pointer); isPtr && est.Field(i).Exported() {
			if _, isStruct := pt.Elem().Underlying().(*types.Struct); isStruct {
				want = append(want, base+"[i]."+est.Field(i).Name())
			}
		}
	}
	for _, esc := range escapes {
		s := mk("decoded-escape", esc, trimPath(base)+"[*]")
		missing := ""
		for _, w := range want {
			found := false
			for _, cd := range condsBoth(f) {
				if cd.Op != token.EQL && cd.Op != token.NEQ {
					continue
				}
				for _, pr := range [][2]ssa.Value{{cd.X, cd.Y}, {cd.Y, cd.X}} {
					if ssax.IsNilConst(ssax.Resolve(pr[1])) && npath(pr[0]) == w {
						// the nil edge must not lead to the hand-over
						ne, _ := cd.EdgeWhere(token.EQL)
						first := ne.From.Succs[ne.Succ].Instrs[0]
						if first != esc && !ssax.ReachableFrom(f, first, esc, nil, nil) {
							found = true
						}
					}
				}
			}
			if !found {
				missing = w
			}
		}
		if missing == "" {
			s.Status, s.Why = "proved", "every element (and its pointer fields) is tested against nil before the list is handed on"
		} else {
			s.Status, s.Why = "unproved", "the decoded list is handed on without a nil test of "+trimPath(missing)+" (a JSON null / missing member): the receiver dereferences it"
		}
	}
}

func trimPath(s string) string {
	s = reLoopIdx.ReplaceAllString(s, "i")
	if len(s) > 70 {
		s = "…" + s[len(s)-70:]
	}
	return s
}

func slicePart(v ssa.Value) string {
	if v == nil {
		return ""
	}
	return trimPath(npath(v))
}

// boundEdges: edges on which `idx < len(seq)` (upper) or `idx >= 0` (lower) is known.
func boundEdges(f *ssa.Function, seq, idx ssa.Value) (upper, lower []ssax.Edge) {
	idx = ssax.Resolve(idx)
	seqP := ssax.Path(seq)
	for _, cd := range condsBoth(f) {
		if cd.Op == token.ILLEGAL {
			continue
		}
		x, y := ssax.Resolve(cd.X), ssax.Resolve(cd.Y)
		op := cd.Op
		if y == idx {
			x, y = y, x
			op = flipOp(op)
		}
		if x != idx {
			continue
		}
		blk := cd.If.Block()
		if call, ok := y.(*ssa.Call); ok {
			if b, ok := call.Common().Value.(*ssa.Builtin); ok && b.Name() == "len" && ssax.Path(call.Common().Args[0]) == seqP {
				switch op {
				case token.LSS:
					upper = append(upper, ssax.Edge{From: blk, Succ: 0})
				case token.GEQ:
					upper = append(upper, ssax.Edge{From: blk, Succ: 1})
				}
			}
		}
		if k, ok := ssax.ConstInt(y); ok {
			switch {
			case op == token.GEQ && k == 0, op == token.GTR && k == -1:
				lower = append(lower, ssax.Edge{From: blk, Succ: 0})
			case op == token.LSS && k == 0, op == token.LEQ && k == -1:
				lower = append(lower, ssax.Edge{From: blk, Succ: 1})
			}
		}
	}
	return
}

func proveIndex(f *ssa.Function, seq, idx ssa.Value, at ssa.Instruction) (string, string) {
	// arrays / literals with constant index
	st := seq.Type()
	if p, ok := st.Underlying().(*types.Pointer); ok {
		st = p.Elem()
	}
	if arr, ok := st.Underlying().(*types.Array); ok {
		if k, ok := ssax.ConstInt(idx); ok && k >= 0 && k < arr.Len() {
			return "proved", "constant index into an array"
		}
	}
	// "index of the element found, or -1": idx merges negative constants with indexes that are in range where they are chosen,
	// and the use lies behind a test that excludes the negative ones (the result of an expanded indexOf helper)
	if phi, ok := idx.(*ssa.Phi); ok {
		var guards []ssax.Edge
		for _, cd := range condsBoth(f) {
			if ssax.Resolve(cd.X) != ssax.Resolve(idx) && cd.X != idx {
				continue
			}
			k, isK := ssax.ConstInt(cd.Y)
			if !isK {
				continue
			}
			b := cd.If.Block()
			switch {
			case cd.Op == token.GEQ && k == 0, cd.Op == token.GTR && k == -1, cd.Op == token.NEQ && k == -1:
				guards = append(guards, ssax.Edge{From: b, Succ: 0})
			case cd.Op == token.LSS && k == 0, cd.Op == token.LEQ && k == -1, cd.Op == token.EQL && k == -1:
				guards = append(guards, ssax.Edge{From: b, Succ: 1})
			}
		}
		behind := false
		for _, g := range guards {
			if !ssax.ReachableAvoiding(f, at, []ssax.Edge{g}, nil) {
				behind = true
			}
		}
		if behind && len(phi.Edges) == len(phi.Block().Preds) {
			all, some := true, false
			for i, e := range phi.Edges {
				if k, isK := ssax.ConstInt(e); isK && k < 0 {
					continue
				}
				pred := phi.Block().Preds[i]
				if len(pred.Instrs) == 0 {
					all = false
					break
				}
				if v, _ := proveIndex(f, seq, e, pred.Instrs[len(pred.Instrs)-1]); v != "proved" {
					all = false
					break
				}
				some = true
			}
			if all && some {
				return "proved", "index of a found element (negative 'not found' excluded by the dominating test)"
			}
		}
	}
	// range index: idx = phi+1 compared < len(seq) in the loop header
	ip := ssax.Path(idx)
	if strings.Contains(ip, "(phi((<cycle> + 1)|-1) + 1)") {
		for _, cd := range condsBoth(f) {
			if cd.Op == token.LSS && ssax.Resolve(cd.X) == ssax.Resolve(idx) {
				if call, ok := ssax.Resolve(cd.Y).(*ssa.Call); ok {
					if b, ok := call.Common().Value.(*ssa.Builtin); ok && b.Name() == "len" {
						if lenOfSame(call.Common().Args[0], seq) && !ssax.ReachableAvoiding(f, at, []ssax.Edge{{From: cd.If.Block(), Succ: 0}}, nil) {
							return "proved", "range loop index"
						}
					}
				}
			}
		}
	}
	// out := make([]T, len(X)); for i := range X { out[i] = … }
	if ms, ok := ssax.Resolve(seq).(*ssa.MakeSlice); ok {
		if lc, ok := ssax.Resolve(ms.Len).(*ssa.Call); ok {
			if b, ok := lc.Common().Value.(*ssa.Builtin); ok && b.Name() == "len" {
				for _, cd := range condsBoth(f) {
					if cd.Op == token.LSS && ssax.Resolve(cd.X) == ssax.Resolve(idx) {
						if call, ok := ssax.Resolve(cd.Y).(*ssa.Call); ok {
							if b2, ok := call.Common().Value.(*ssa.Builtin); ok && b2.Name() == "len" && lenOfSame(call.Common().Args[0], lc.Common().Args[0]) &&
								!ssax.ReachableAvoiding(f, at, []ssax.Edge{{From: cd.If.Block(), Succ: 0}}, nil) && strings.Contains(ip, "(phi((<cycle> + 1)|-1) + 1)") {
								return "proved", "slice made with the length of the ranged sequence"
							}
						}
					}
				}
			}
		}
	}
	// out := make([]T, len(A)); for i := 0; i < len(A); i++ { out[i] = … } (classic counter)
	if ms, ok := ssax.Resolve(seq).(*ssa.MakeSlice); ok {
		if la := lenArg(ms.Len); la != nil {
			if m, isInd := inductionMin(idx); isInd && m >= 0 {
				for _, cd := range condsBoth(f) {
					if cd.Op == token.LSS && ssax.Resolve(cd.X) == ssax.Resolve(idx) {
						if lb := lenArg(cd.Y); lb != nil && lenOfSame(lb, la) && !ssax.ReachableAvoiding(f, at, []ssax.Edge{{From: cd.If.Block(), Succ: 0}}, nil) {
							return "proved", "counter below the length the slice was made with"
						}
					}
				}
			}
		}
	}
	// for i := range A { … B[i] … } after a dominating len(A) == len(B) (also the classic `for i := 0; i < len(A); i++`)
	nonNeg := strings.Contains(ip, "(phi((<cycle> + 1)|-1) + 1)")
	if m, ok := inductionMin(idx); ok && m >= 0 {
		nonNeg = true
	}
	if nonNeg {
		for _, cd := range condsBoth(f) {
			if cd.Op != token.LSS || ssax.Resolve(cd.X) != ssax.Resolve(idx) {
				continue
			}
			la := lenArg(cd.Y)
			if la == nil || ssax.ReachableAvoiding(f, at, []ssax.Edge{{From: cd.If.Block(), Succ: 0}}, nil) {
				continue
			}
			for _, eq := range condsBoth(f) {
				if eq.Op != token.EQL && eq.Op != token.NEQ {
					continue
				}
				a, b := lenArg(eq.X), lenArg(eq.Y)
				if a == nil || b == nil {
					continue
				}
				if (lenOfSame(a, la) && lenOfSame(b, seq)) || (lenOfSame(b, la) && lenOfSame(a, seq)) {
					e, _ := eq.EdgeWhere(token.EQL)
					if !ssax.ReachableAvoiding(f, at, []ssax.Edge{e}, nil) {
						return "proved", "range index of a sequence whose length was checked equal to this one's"
					}
				}
			}
		}
	}
	// x[0] guarded by `v >= 0` where v starts negative and is assigned only inside a range loop over x: the loop ran, so len(x) >= 1
	if k, ok := ssax.ConstInt(idx); ok && k == 0 && provedNonEmptyByFlag(f, seq, at) {
		return "proved", "guarded by a flag that is set only inside a range loop over the same sequence"
	}
	up, lo := boundEdges(f, seq, idx)
	okUp := len(up) > 0 && !ssax.ReachableAvoiding(f, at, up, nil)
	okLo := len(lo) > 0 && !ssax.ReachableAvoiding(f, at, lo, nil)
	if k, ok := ssax.ConstInt(idx); ok && k >= 0 {
		okLo = true
		// len(seq) > k guard
		for _, cd := range condsBoth(f) {
			if call, ok := ssax.Resolve(cd.X).(*ssa.Call); ok {
				if b, ok := call.Common().Value.(*ssa.Builtin); ok && b.Name() == "len" && lenOfSame(call.Common().Args[0], seq) {
					if n, ok := ssax.ConstInt(cd.Y); ok {
						var e *ssax.Edge
						switch {
						case cd.Op == token.GTR && n >= k, cd.Op == token.GEQ && n > k, cd.Op == token.NEQ && n == 0 && k == 0, cd.Op == token.EQL && n > k:
							e = &ssax.Edge{From: cd.If.Block(), Succ: 0}
						case cd.Op == token.LEQ && n >= k, cd.Op == token.LSS && n > k, cd.Op == token.EQL && n == 0 && k == 0, cd.Op == token.NEQ && n > k:
							e = &ssax.Edge{From: cd.If.Block(), Succ: 1}
						}
						if e != nil && !ssax.ReachableAvoiding(f, at, []ssax.Edge{*e}, nil) {
							okUp = true
						}
					}
				}
			}
		}
	}
	// an induction variable that starts at a non-negative constant and only grows
	if m, ok := inductionMin(idx); ok && m >= 0 {
		okLo = true
	}
	// x[k] inside `for j := m; j < len(x); j++` with m >= k: len(x) > j >= k
	if k, ok := ssax.ConstInt(idx); ok && k >= 0 && !okUp {
		for _, cd := range condsBoth(f) {
			if cd.Op != token.LSS {
				continue
			}
			la := lenArg(cd.Y)
			if la == nil || !lenOfSame(la, seq) {
				continue
			}
			if m, isInd := inductionMin(cd.X); isInd && m >= k && !ssax.ReachableAvoiding(f, at, []ssax.Edge{{From: cd.If.Block(), Succ: 0}}, nil) {
				okUp = true
			}
		}
	}
	// unsigned index types cannot be negative
	if b, ok := idx.Type().Underlying().(*types.Basic); ok && b.Info()&types.IsUnsigned != 0 {
		okLo = true
	}
	if okUp && okLo {
		return "proved", "dominated by bounds checks"
	}
	why := "index not proved in range:"
	if !okUp {
		why += " no dominating `idx < len(x)`"
	}
	if !okLo {
		why += " no dominating `idx >= 0`"
	}
	return "unproved", why
}

// lenArg returns x when v is len(x).
func lenArg(v ssa.Value) ssa.Value {
	if v == nil {
		return nil
	}
	if call, ok := ssax.Resolve(v).(*ssa.Call); ok {
		if b, ok := call.Common().Value.(*ssa.Builtin); ok && b.Name() == "len" {
			return call.Common().Args[0]
		}
	}
	return nil
}

func provedNonEmptyByFlag(f *ssa.Function, seq ssa.Value, at ssa.Instruction) bool {
	// edges on which some range index over seq is < len(seq): the loop body edges
	var body []ssax.Edge
	for _, cd := range condsBoth(f) {
		if cd.Op == token.LSS {
			if la := lenArg(cd.Y); la != nil && lenOfSame(la, seq) && strings.Contains(ssax.Path(cd.X), "<cycle> + 1") {
				body = append(body, ssax.Edge{From: cd.If.Block(), Succ: 0})
			}
		}
	}
	if len(body) == 0 {
		return false
	}
	for _, cd := range condsBoth(f) {
		// v < 0 (reject edge = true edge) / v >= 0
		k, ok := ssax.ConstInt(cd.Y)
		if !ok || k != 0 || (cd.Op != token.LSS && cd.Op != token.GEQ) {
			continue
		}
		pass := ssax.Edge{From: cd.If.Block(), Succ: 1}
		if cd.Op == token.GEQ {
			pass.Succ = 0
		}
		if ssax.ReachableAvoiding(f, at, []ssax.Edge{pass}, nil) {
			continue
		}
		// every non-negative-capable input of the flag is produced inside the loop body
		okFlag := true
		seen := map[ssa.Value]bool{}
		var visit func(v ssa.Value, from *ssa.BasicBlock)
		visit = func(v ssa.Value, from *ssa.BasicBlock) {
			if phi, ok := v.(*ssa.Phi); ok {
				if seen[phi] {
					return
				}
				seen[phi] = true
				for i, e := range phi.Edges {
					visit(e, phi.Block().Preds[i])
				}
				return
			}
			if c, ok := ssax.ConstInt(v); ok && c < 0 {
				return
			}
			if from == nil || len(from.Instrs) == 0 || ssax.ReachableAvoiding(f, from.Instrs[0], body, nil) {
				okFlag = false
			}
		}
		fv := cd.X
		if _, isPhi := fv.(*ssa.Phi); !isPhi {
			fv = ssax.Resolve(fv)
		}
		if _, isPhi := fv.(*ssa.Phi); !isPhi {
			continue
		}
		visit(fv, nil)
		if okFlag {
			return true
		}
	}
	return false
}

// inductionMin: v is a loop counter phi(c0, v + d) with constants c0 and d > 0 (possibly several constant entries);
// returns the smallest start value.
func inductionMin(v ssa.Value) (int64, bool) {
	p, ok := ssax.Resolve(v).(*ssa.Phi)
	if !ok {
		return 0, false
	}
	min, have := int64(0), false
	for _, e := range p.Edges {
		if k, isC := ssax.ConstInt(e); isC {
			if !have || k < min {
				min, have = k, true
			}
			continue
		}
		b, isB := ssax.Resolve(e).(*ssa.BinOp)
		if !isB || b.Op != token.ADD {
			return 0, false
		}
		d, isC := ssax.ConstInt(b.Y)
		if !isC || d <= 0 || ssax.Resolve(b.X) != ssa.Value(p) {
			return 0, false
		}
	}
	return min, have
}

func lenOfSame(a, b ssa.Value) bool {
	pa, pb := ssax.Path(a), ssax.Path(b)
	return pa == pb || strings.TrimSuffix(pa, "[:]") == strings.TrimSuffix(pb, "[:]")
}

func proveSlice(f *ssa.Function, x *ssa.Slice, at ssa.Instruction) (string, string) {
	st := x.X.Type()
	if p, ok := st.Underlying().(*types.Pointer); ok {
		st = p.Elem()
	}
	if arr, ok := st.Underlying().(*types.Array); ok {
		lo, hi := int64(0), arr.Len()
		okc := true
		if x.Low != nil {
			if k, ok := ssax.ConstInt(x.Low); ok {
				lo = k
			} else {
				okc = false
			}
		}
		if x.High != nil {
			if k, ok := ssax.ConstInt(x.High); ok {
				hi = k
			} else {
				okc = false
			}
		}
		if okc && 0 <= lo && lo <= hi && hi <= arr.Len() {
			return "proved", "constant bounds within an array"
		}
	}
	// s[:0], s[0:]
	zero := func(v ssa.Value) bool {
		if v == nil {
			return true
		}
		k, ok := ssax.ConstInt(v)
		return ok && k == 0
	}
	if zero(x.Low) && (x.High == nil || zero(x.High)) {
		return "proved", "zero bounds"
	}
	// s[:k] / s[k:] with a dominating len(s) >= k style guard
	for _, b := range []ssa.Value{x.High, x.Low} {
		if b == nil {
			continue
		}
		if k, ok := ssax.ConstInt(b); ok && k > 0 {
			proved := false
			for _, cd := range condsBoth(f) {
				if call, ok := ssax.Resolve(cd.X).(*ssa.Call); ok {
					if bi, ok := call.Common().Value.(*ssa.Builtin); ok && bi.Name() == "len" && lenOfSame(call.Common().Args[0], x.X) {
						if n, ok := ssax.ConstInt(cd.Y); ok {
							var e *ssax.Edge
							switch {
							case cd.Op == token.GEQ && n >= k, cd.Op == token.GTR && n >= k-1:
								e = &ssax.Edge{From: cd.If.Block(), Succ: 0}
							case cd.Op == token.LSS && n >= k, cd.Op == token.LEQ && n >= k-1:
								e = &ssax.Edge{From: cd.If.Block(), Succ: 1}
							}
							if e != nil && !ssax.ReachableAvoiding(f, at, []ssax.Edge{*e}, nil) {
								proved = true
							}
						}
					}
				}
			}
			if !proved {
				return "unproved", sprintf("no dominating check that len(x) >= %d", k)
			}
			continue
		}
		// non-constant bound: nonceSize style — require a dominating len(x) < bound test returning
		bp := ssax.Path(b)
		proved := false
		for _, cd := range condsBoth(f) {
			if call, ok := ssax.Resolve(cd.X).(*ssa.Call); ok {
				if bi, ok := call.Common().Value.(*ssa.Builtin); ok && bi.Name() == "len" && lenOfSame(call.Common().Args[0], x.X) && cd.Y != nil && ssax.Path(cd.Y) == bp {
					var e *ssax.Edge
					switch cd.Op {
					case token.GEQ:
						e = &ssax.Edge{From: cd.If.Block(), Succ: 0}
					case token.LSS:
						e = &ssax.Edge{From: cd.If.Block(), Succ: 1}
					}
					if e != nil && !ssax.ReachableAvoiding(f, at, []ssax.Edge{*e}, nil) {
						proved = true
					}
				}
			}
		}
		if !proved {
			return "unproved", "non-constant bound " + trimPath(bp) + " without a dominating length check"
		}
	}
	return "proved", "dominated by length checks"
}

func proveAssert(f *ssa.Function, x *ssa.TypeAssert) (string, string) {
	// v.(T) where v was produced in this function by a MakeInterface of T, or T is an interface the operand's static type implements
	if mi, ok := x.X.(*ssa.MakeInterface); ok && types.Identical(mi.X.Type(), x.AssertedType) {
		return "proved", "asserts the dynamic type just boxed"
	}
	if it, ok := x.AssertedType.Underlying().(*types.Interface); ok {
		if types.Implements(x.X.Type(), it) {
			return "proved", "static type implements the interface"
		}
	}
	return "unproved", "unchecked type assertion panics on any other dynamic type"
}

func shortQ(p *types.Package) string { return p.Name() }

func C18(c *Ctx) { c18Main(c) }

var payloadPtrs = []string{".SignatureProposalPayload", ".DKGProposalPayload", ".SigningProposalPayload"}

func isPayloadPtr(p string) bool {
	for _, s := range payloadPtrs {
		if strings.HasSuffix(p, s) {
			return true
		}
	}
	return false
}

// proveNonNil: the site is reachable only through the `v != nil` edge of a test of the same access path.
func proveNonNil(f *ssa.Function, v ssa.Value, at ssa.Instruction) (string, string) {
	vp := ssax.Path(v)
	var edges []ssax.Edge
	for _, cd := range condsBoth(f) {
		if cd.Op != token.EQL && cd.Op != token.NEQ {
			continue
		}
		for _, pr := range [][2]ssa.Value{{cd.X, cd.Y}, {cd.Y, cd.X}} {
			if ssax.IsNilConst(ssax.Resolve(pr[1])) && ssax.Path(pr[0]) == vp {
				e, _ := cd.EdgeWhere(token.NEQ)
				edges = append(edges, e)
			}
		}
	}
	if len(edges) > 0 && !ssax.ReachableAvoiding(f, at, edges, nil) {
		return "proved", "dominated by a nil check of the same pointer"
	}
	return "unproved", "pointer is nil until its machine is entered; no dominating nil check"
}

// proveMapElem: m[k].f is safe when m[k] was just stored with a freshly allocated value, or k enumerates m itself.
func proveMapElem(f *ssa.Function, lk *ssa.Lookup, at ssa.Instruction) (string, string) {
	// the key is the one a range over the same map just produced: the entry exists, and it is the value the range itself
	// would have handed out (`for k := range m { m[k].f }` is `for _, v := range m { v.f }`)
	if ssax.RangeKeyOf(lk) != nil {
		return "proved", "the key enumerates the same map"
	}
	mp, kp := ssax.Path(lk.X), ssax.Path(lk.Index)
	var stores []ssa.Instruction
	ssax.Instrs(f, func(in ssa.Instruction) {
		if mu, ok := in.(*ssa.MapUpdate); ok && ssax.Path(mu.Map) == mp && ssax.Path(mu.Key) == kp {
			if _, fresh := ssax.Resolve(mu.Value).(*ssa.Alloc); fresh {
				stores = append(stores, in)
			}
		}
	})
	if len(stores) > 0 && !ssax.ReachableAvoiding(f, at, nil, stores) {
		return "proved", "the key was stored with a freshly allocated element on every path to the use"
	}
	return "unproved", "a missing key yields a nil pointer that is dereferenced"
}


// c18WireTypes: the module's named struct types that some input-reachable json.Unmarshal decodes into (directly or nested).
func c18WireTypes(c *Ctx) map[*types.TypeName]bool {
	if c.c18wire != nil {
		return c.c18wire
	}
	out := map[*types.TypeName]bool{}
	var add func(t types.Type, d int)
	add = func(t types.Type, d int) {
		if d > 8 {
			return
		}
		switch x := t.(type) {
		case *types.Pointer:
			add(x.Elem(), d+1)
		case *types.Slice:
			add(x.Elem(), d+1)
		case *types.Array:
			add(x.Elem(), d+1)
		case *types.Map:
			add(x.Elem(), d+1)
		case *types.Named:
			st, ok := x.Underlying().(*types.Struct)
			if !ok {
				add(x.Underlying(), d+1)
				return
			}
			if x.Obj().Pkg() == nil || !strings.HasPrefix(x.Obj().Pkg().Path(), load.Module) || out[x.Obj()] {
				return
			}
			out[x.Obj()] = true
			for i := 0; i < st.NumFields(); i++ {
				if st.Field(i).Exported() {
					add(st.Field(i).Type(), d+1)
				}
			}
		}
	}
	for _, f := range c18Scope(c) {
		for _, call := range ssax.CallsTo(f, "encoding/json.Unmarshal") {
			a := call.Common().Args
			if len(a) != 2 {
				continue
			}
			v := a[1]
			if mi, ok := v.(*ssa.MakeInterface); ok {
				v = mi.X
			}
			// only what is decoded from input: a board message's Data, an operation's Payload, a file or a broker record
			// (what the node reads back from its own store was written by the node)
			src := npath(a[0])
			if strings.Contains(src, ".Get(") || strings.Contains(src, ".GetOrError(") {
				continue
			}
			if !(strings.Contains(src, "message.Data") || strings.Contains(src, ".Payload") || strings.Contains(src, "ReadFile(") || strings.Contains(src, "ReadMessage(") || strings.HasPrefix(src, "json(")) {
				continue
			}
			if os.Getenv("DCVERIF_DEBUG_WIRE") != "" {
				println("WIRE", shortFn(f), npath(a[0]), v.Type().String())
			}
			add(v.Type(), 0)
		}
	}
	c.c18wire = out
	return out
}

// wireSource: the pointer v was loaded from field F of a wire type T (or from an element of the slice/map held in F);
// returns ("T", "F").
func wireSource(c *Ctx, f *ssa.Function, v ssa.Value) (string, string) {
	v = ssax.Resolve(v)
	var addr ssa.Value
	switch x := v.(type) {
	case *ssa.UnOp:
		if x.Op != token.MUL {
			return "", ""
		}
		addr = x.X
	case *ssa.Lookup:
		addr = nil
		if ld, ok := ssax.Resolve(x.X).(*ssa.UnOp); ok && ld.Op == token.MUL {
			addr = ld.X
		}
	case *ssa.Extract:
		if lk, ok := x.Tuple.(*ssa.Lookup); ok {
			if ld, ok := ssax.Resolve(lk.X).(*ssa.UnOp); ok && ld.Op == token.MUL {
				addr = ld.X
			}
		} else if nx, ok := x.Tuple.(*ssa.Next); ok && x.Index == 2 {
			// range over a map field: the value
			if rg, ok := nx.Iter.(*ssa.Range); ok {
				if ld, ok := ssax.Resolve(rg.X).(*ssa.UnOp); ok && ld.Op == token.MUL {
					addr = ld.X
				}
			}
		}
	default:
		return "", ""
	}
	if ia, ok := addr.(*ssa.IndexAddr); ok {
		// element of a slice: the slice itself was loaded from a field
		if ld, ok := ssax.Resolve(ia.X).(*ssa.UnOp); ok && ld.Op == token.MUL {
			addr = ld.X
		} else {
			return "", ""
		}
	}
	fa, ok := addr.(*ssa.FieldAddr)
	if !ok {
		return "", ""
	}
	pt, ok := fa.X.Type().Underlying().(*types.Pointer)
	if !ok {
		return "", ""
	}
	nt, ok := pt.Elem().(*types.Named)
	if !ok || !c18WireTypes(c)[nt.Obj()] {
		return "", ""
	}
	fld := ssax.FieldOf(fa)
	if fld == nil || !fld.Exported() {
		return "", ""
	}
	return nt.Obj().Name(), fld.Name()
}


// c18LenPreconds: library functions that panic on an argument of the wrong length (checked in their source).
var c18LenPreconds = []struct {
	callee   string
	arg      int
	want     int64
	ownStore string
}{
	{"crypto/ed25519.Verify", 0, 32, ""},           // panics "ed25519: bad public key length"
	{"crypto/ed25519.Sign", 0, 64, ".LoadKeys("}, // panics "ed25519: bad private key length"
}

// proveLenEq: the use lies behind the equal edge of a test len(v) == want.
func proveLenEq(f *ssa.Function, v ssa.Value, want int64, at ssa.Instruction) (string, string) {
	vp := npath(v)
	var edges []ssax.Edge
	for _, cd := range condsBoth(f) {
		if cd.Op != token.EQL && cd.Op != token.NEQ {
			continue
		}
		for _, pr := range [][2]ssa.Value{{cd.X, cd.Y}, {cd.Y, cd.X}} {
			la := lenArg(pr[0])
			if la == nil || npath(la) != vp {
				continue
			}
			if k, ok := ssax.ConstInt(pr[1]); ok && k == want {
				e, _ := cd.EdgeWhere(token.EQL)
				edges = append(edges, e)
			}
		}
	}
	if len(edges) > 0 && !ssax.ReachableAvoiding(f, at, edges, nil) {
		return "proved", sprintf("dominated by a test len(%s) == %d", trimPath(vp), want)
	}
	return "unproved", ""
}

// provedByValidate: v = R.F[i] for a request value R held in a local of f; the use lies behind the nil edge of a call
// R.Validate(), and Validate returns nil only past a loop over r.F that rejects a nil element.
func provedByValidate(c *Ctx, f *ssa.Function, v ssa.Value, at ssa.Instruction) bool {
	vp := npath(v)
	i := strings.LastIndex(vp, "[")
	if i < 0 || !strings.HasSuffix(vp, "]") {
		return false
	}
	list := vp[:i] // e.g. request.Participants
	j := strings.LastIndex(list, ".")
	if j < 0 {
		return false
	}
	recvPath, field := list[:j], list[j+1:]
	for _, call := range ssax.Calls(f, false, func(ci ssa.CallInstruction) bool {
		o := ssax.CalleeObj(ci)
		return o != nil && o.Name() == "Validate" && !ci.Common().IsInvoke() && len(ci.Common().Args) == 1
	}) {
		if strings.TrimPrefix(npath(call.Common().Args[0]), "&") != recvPath {
			continue
		}
		ne := ssax.NilErrEdgesOfCall(f, call)
		if len(ne) == 0 || ssax.ReachableAvoiding(f, at, ne, nil) {
			continue
		}
		vf := call.Common().StaticCallee()
		if vf == nil || len(vf.Params) == 0 {
			continue
		}
		rlist := ssax.Path(vf.Params[0]) + "." + field
		ok, n := true, 0
		for _, ret := range ssax.Returns(vf) {
			if ret.Block() == vf.Recover || len(ret.Results) != 1 {
				continue
			}
			for _, lf := range ssax.Leaves(ret.Results[0], ret) {
				if !ssax.IsNilConst(lf.V) {
					if _, isCall := ssax.Resolve(lf.V).(*ssa.Call); !isCall {
						ok = false // not a fresh error: could be nil
					}
					continue
				}
				n++
				if !nilRejectingLoopBefore(vf, rlist, lf.At) {
					ok = false
				}
			}
		}
		if ok && n > 0 {
			return true
		}
	}
	return false
}


// c18DepPanics: dependency entry points that are handed input-derived data by the input handlers and panic on some
// malformed values (established by reading kyber v1.6.0 and crypto/cipher):
var c18DepPanics = []struct {
	callee    string
	why       string
	minLenArg int    // argument whose minimum length is the precondition, or -1
	minLenOf  string // suffix of the access path of the bound it must be compared with
}{
	{"github.com/corestario/kyber/encrypt/ecies.Decrypt", "slices the ciphertext at group.PointLen() without checking its length", 2, ".PointLen()"},
	{"github.com/corestario/kyber/share/dkg/pedersen.(DistKeyGenerator).ProcessDeal", "passes the deal's nonce to cipher.AEAD.Open (panics unless it has 12 bytes) and dereferences the SecShare of the decrypted deal (nil when the encrypted message omits it)", -1, ""},
	{"github.com/corestario/kyber/share/vss/pedersen.(Verifier).DecryptDeal", "passes the deal's nonce to cipher.AEAD.Open (panics unless it has 12 bytes)", -1, ""},
}

// hasRecoverBarrier: f registers, before anything else can panic, a deferred function that calls recover().
func hasRecoverBarrier(f *ssa.Function) bool {
	if len(f.Blocks) == 0 {
		return false
	}
	for _, in := range f.Blocks[0].Instrs {
		d, ok := in.(*ssa.Defer)
		if !ok {
			// only address computations, allocations and plain stores may precede the defer
			switch in.(type) {
			case *ssa.Alloc, *ssa.FieldAddr, *ssa.Store, *ssa.UnOp, *ssa.MakeClosure, *ssa.DebugRef:
				continue
			}
			return false
		}
		var callee *ssa.Function
		switch v := d.Call.Value.(type) {
		case *ssa.MakeClosure:
			callee, _ = v.Fn.(*ssa.Function)
		case *ssa.Function:
			callee = v
		}
		if callee == nil {
			continue
		}
		found := false
		ssax.Instrs(callee, func(ci ssa.Instruction) {
			if call, ok := ci.(*ssa.Call); ok {
				if b, ok := call.Common().Value.(*ssa.Builtin); ok && b.Name() == "recover" {
					found = true
				}
			}
		})
		if found {
			return true
		}
	}
	return false
}

// c18UnderRecover: f has a recover barrier, or every caller of f inside the input-reachable code has one (recursively).
func c18UnderRecover(c *Ctx, f *ssa.Function, busy map[*ssa.Function]bool) bool {
	if hasRecoverBarrier(f) {
		return true
	}
	if busy[f] {
		return false
	}
	busy[f] = true
	defer delete(busy, f)
	inScope := map[*ssa.Function]bool{}
	for _, g := range c18Scope(c) {
		inScope[g] = true
	}
	n := c.P.CallGraph().Nodes[f]
	if n == nil {
		return false
	}
	callers := 0
	for _, e := range n.In {
		g := e.Caller.Func
		if !inScope[g] {
			continue
		}
		callers++
		if !c18UnderRecover(c, g, busy) {
			return false
		}
	}
	return callers > 0
}

// provedMinLen: the use lies behind the failing edge of a test `len(v) < <bound>` (or the holding edge of `>=`), where
// the bound's access path ends with boundSuffix.
func provedMinLen(f *ssa.Function, v ssa.Value, boundSuffix string, at ssa.Instruction) bool {
	vp := npath(v)
	var edges []ssax.Edge
	for _, cd := range condsBoth(f) {
		var small, big ssa.Value
		okSucc := -1
		switch cd.Op {
		case token.LSS: // small < big holds on the true edge
			small, big = cd.X, cd.Y
		case token.GTR:
			small, big = cd.Y, cd.X
		case token.GEQ: // X >= Y: len on the X side is fine on the true edge
			if la := lenArg(cd.X); la != nil && npath(la) == vp && strings.HasSuffix(ssax.Path(cd.Y), boundSuffix) {
				edges = append(edges, ssax.Edge{From: cd.If.Block(), Succ: 0})
			}
			continue
		case token.LEQ:
			if la := lenArg(cd.Y); la != nil && npath(la) == vp && strings.HasSuffix(ssax.Path(cd.X), boundSuffix) {
				edges = append(edges, ssax.Edge{From: cd.If.Block(), Succ: 0})
			}
			continue
		default:
			continue
		}
		_ = okSucc
		// len(v) < bound on the true edge: the false edge is the safe one
		if la := lenArg(small); la != nil && npath(la) == vp && strings.HasSuffix(ssax.Path(big), boundSuffix) {
			edges = append(edges, ssax.Edge{From: cd.If.Block(), Succ: 1})
		}
	}
	return len(edges) > 0 && !ssax.ReachableAvoiding(f, at, edges, nil)
}


// condsBoth lists the branch conditions of f and, for an ordering or equality test between two non-constant operands,
// also its mirror image (`n > len(x)` next to `len(x) < n`): the provers look for a guard in one orientation and must
// find it whichever way the programmer wrote it. Both entries describe the same branch and the same edges.
func condsBoth(f *ssa.Function) []ssax.Cond {
	cs := ssax.Conds(f)
	out := make([]ssax.Cond, 0, 2*len(cs))
	for _, cd := range cs {
		out = append(out, cd)
		if cd.Op == token.ILLEGAL || cd.Y == nil {
			continue
		}
		if _, isC := ssax.Resolve(cd.Y).(*ssa.Const); isC {
			continue
		}
		m := cd
		m.X, m.Y, m.Op = cd.Y, cd.X, ssax.MirrorOp(cd.Op)
		out = append(out, m)
	}
	return out
}

// provePanicByCallerCheck: an explicit panic that is reached only over the miss edge of `_, ok := recv.<m>[k]` with k a
// parameter is unreachable when every caller calls the function only after a membership test of the same map with the
// same key said yes: a call on the true edge of g(recv, k') where g returns exactly the comma-ok of recv.<m>[its
// parameter], k' being the argument the function is then called with. (The engine's `execCallback` behind
// `isCallbackExists`: the explicit panic replaces the call of a nil func value and is as unreachable.)
func provePanicByCallerCheck(c *Ctx, f *ssa.Function, at ssa.Instruction) bool {
	// the miss edge that dominates the panic
	var lk *ssa.Lookup
	var miss ssax.Edge
	for _, cd := range ssax.Conds(f) {
		if cd.Op != token.ILLEGAL {
			continue
		}
		ex, ok := ssax.Resolve(cd.X).(*ssa.Extract)
		if !ok || ex.Index != 1 {
			continue
		}
		l, ok := ex.Tuple.(*ssa.Lookup)
		if !ok || !l.CommaOk {
			continue
		}
		e, ok := cd.BoolEdge(false)
		if !ok {
			continue
		}
		hit, _ := cd.BoolEdge(true)
		// the panic lies behind the miss edge: cutting it makes the panic unreachable, cutting the hit edge does not
		if !ssax.ReachableAvoiding(f, at, []ssax.Edge{e}, nil) && ssax.ReachableAvoiding(f, at, []ssax.Edge{hit}, nil) {
			lk, miss = l, e
		}
	}
	_ = miss
	dbg := func(m string) { if os.Getenv("DCVERIF_DEBUG") != "" { println("callercheck", f.Name(), m) } }
	if lk == nil {
		dbg("no lookup")
		return false
	}
	keyParam := -1
	for i, p := range f.Params {
		if ssax.Resolve(lk.Index) == ssa.Value(p) {
			keyParam = i
		}
	}
	mapField := func(v ssa.Value) string { // "<field>" of recv.<field>
		if ld, ok := ssax.Resolve(v).(*ssa.UnOp); ok {
			if fa, ok := ld.X.(*ssa.FieldAddr); ok && ssax.FieldOf(fa) != nil {
				if _, isParam := ssax.Resolve(fa.X).(*ssa.Parameter); isParam {
					return ssax.FieldOf(fa).Name()
				}
			}
		}
		return ""
	}
	field := mapField(lk.X)
	if keyParam < 0 || field == "" || len(f.Params) == 0 {
		dbg(sprintf("keyParam=%d field=%q", keyParam, field))
		return false
	}
	// g: returns the comma-ok of recv.<field>[param]
	isMembership := func(g *ssa.Function) int {
		if g == nil || len(g.Blocks) == 0 || len(g.Params) < 2 {
			return -1
		}
		kp := -1
		for _, ret := range ssax.Returns(g) {
			if len(ret.Results) != 1 {
				return -1
			}
			ex, ok := ssax.Resolve(ret.Results[0]).(*ssa.Extract)
			if !ok || ex.Index != 1 {
				return -1
			}
			l, ok := ex.Tuple.(*ssa.Lookup)
			if !ok || !l.CommaOk || mapField(l.X) != field {
				return -1
			}
			for i, p := range g.Params {
				if ssax.Resolve(l.Index) == ssa.Value(p) {
					kp = i
				}
			}
		}
		return kp
	}
	nCallers := 0
	for caller := range c.P.AllFuncs() {
		if !load.InModule(caller) || c.isTestFunc(caller) || caller.Synthetic != "" {
			continue // (promoted-method wrappers of embedding structs are not callers: callersOf treats them the same way)
		}
		for _, site := range ssax.Calls(caller, false, func(ci ssa.CallInstruction) bool { return ci.Common().StaticCallee() == f }) {
			nCallers++
			args := site.Common().Args
			guarded := false
			for _, cd := range ssax.Conds(caller) {
				if cd.Op != token.ILLEGAL {
					continue
				}
				gc, ok := ssax.Resolve(cd.X).(*ssa.Call)
				if !ok {
					continue
				}
				kp := isMembership(gc.Common().StaticCallee())
				if kp < 0 {
					continue
				}
				ga := gc.Common().Args
				if kp >= len(ga) || keyParam >= len(args) || ssax.Path(ga[kp]) != ssax.Path(args[keyParam]) || ssax.Path(ga[0]) != ssax.Path(args[0]) {
					continue
				}
				if e, ok := cd.BoolEdge(true); ok && !ssax.ReachableAvoiding(caller, site.(ssa.Instruction), []ssax.Edge{e}, nil) {
					guarded = true
				}
			}
			if !guarded {
				dbg("unguarded caller " + caller.String() + " synthetic=" + caller.Synthetic)
				return false
			}
		}
	}
	// dynamic uses (method values) would escape the census
	if f.Referrers() != nil && len(*f.Referrers()) > 0 {
		for _, ref := range *f.Referrers() {
			if _, isCall := ref.(ssa.CallInstruction); !isCall {
				return false
			}
		}
	}
	return nCallers > 0
}
