package rules

import (
	"go/types"
	"sort"
	"strings"

	"dcverif/internal/load"
	"dcverif/internal/ssax"

	"golang.org/x/tools/go/ssa"
)

func init() { Registry["C14"] = C14 }

// guarded fields: struct -> field -> mutex field ("" = the embedded sync.Mutex). Inferred from the majority of accesses,
// confirmed by reading, frozen here.
var c14Guarded = []struct{ Rel, Struct, Field, Mutex, Why string }{
	{"client/modules/state", "LevelDBState", "stateDb", "Mutex", "Reset swaps the database handle under the mutex; Get/Set/Delete/GetOrError read it under the mutex"},
	{"client/modules/state", "LevelDBState", "stateDbPath", "Mutex", "Reset rewrites the path under the mutex"},
	{"client/services/node", "BaseNodeService", "SkipCommKeysVerification", "Mutex", "setter and getter lock the embedded mutex (poller and HTTP goroutines)"},
	{"client/services/node", "BaseNodeService", "state", "stateMu", "getState reads under stateMu.RLock"},
}

// C14 — API requests concurrent with polling behave as if executed one at a time.
func C14(c *Ctx) {
	r := c.R
	r.Explain = "Decided statically (lock discipline; the interleavings themselves are not enumerated): (R1) field lockset — every access to a mutex-guarded field (table in the rule) happens with that mutex held; " +
		"(R2) read-modify-write atomicity — every function that reads a durable key and later writes the same key (operation pool, tombstones, round map, signature store) holds one lock across the read and the write if it is reachable from two goroutine roots (the poller and the HTTP handlers, found from `go` statements and route registrations); " +
		"(R3) instance-level read-modify-write (load round, apply event, save round) from two roots on the same round needs a lock spanning the sequence; (R4) a state reset must exclude the poller's per-message critical section. " +
		"NOT decided: linearizability as such; the bounded pre-emption enumeration of the property."
	r.Trusted = []string{"sync.Mutex/RWMutex", "VTA call graph for goroutine-root reachability", "go/ssa"}
	r.Rule("C14/R1", "guarded fields are accessed only under their mutex", 8)
	r.Rule("C14/R2", "read-modify-write of a durable key is atomic w.r.t. every other goroutine root", 3)
	r.Rule("C14/R3", "load-round/apply/save-round sequences are serialised across roots", 1)
	r.Rule("C14/R4", "state reset excludes concurrent message handling", 1)
	r.Rule("C14/R5", "the poller takes its position from the durable state at every tick (an API reset or offset change takes effect)", 1)
	c14Lockset(c)
	roots := c14Roots(c)
	c14RMW(c, roots)
	c14Instance(c, roots)
	c14PollerStateless(c)
}

// c14PollerStateless — R5: what the API changes (state reset, saved offset) must take effect for the running poller:
// the offset handed to GetMessages is exactly the value LoadOffset returned in the same tick, not a copy carried over
// from an earlier iteration.
func c14PollerStateless(c *Ctx) {
	r := c.R
	fn := c.Fn("C14/R5", pkgNode, "BaseNodeService", "Poll")
	if fn == nil {
		return
	}
	byName := func(name string) []ssa.CallInstruction {
		return ssax.Calls(fn, false, func(ci ssa.CallInstruction) bool { o := ssax.CalleeObj(ci); return o != nil && o.Name() == name })
	}
	loads, gets := byName("LoadOffset"), byName("GetMessages")
	if len(loads) != 1 || len(gets) != 1 {
		r.Unknown("C14/R5", "node.Poll:position", "Poll loads the offset and fetches from it", c.Pos(fn.Pos()), sprintf("LoadOffset=%d GetMessages=%d", len(loads), len(gets)))
		return
	}
	arg := gets[0].Common().Args[len(gets[0].Common().Args)-1]
	ok := ssax.ResultOf(ssax.Resolve(arg), loads[0], 0) || ssax.ResultOf(arg, loads[0], 0)
	r.Check(ok, "C14/R5", "node.Poll:position", "GetMessages is given exactly the offset LoadOffset returned in this tick", c.PosOf(gets[0].(ssa.Instruction)),
		"the fetch position is "+npath(arg)+": a value carried across ticks (or adjusted) hides a state reset / saved offset made through the API from the running poller")
	// the state handle is fetched per use (getState under its lock), not cached in a local across ticks
	recv := ""
	if loads[0].Common().IsInvoke() {
		recv = npath(loads[0].Common().Value)
	} else if len(loads[0].Common().Args) > 0 {
		recv = npath(loads[0].Common().Args[0])
	}
	perTick := false
	if loads[0].Common().IsInvoke() {
		if hc, ok := ssax.Resolve(loads[0].Common().Value).(*ssa.Call); ok {
			// the call that yields the handle runs inside the loop: it is reachable from the select statement
			ssax.Instrs(fn, func(in ssa.Instruction) {
				if _, isSel := in.(*ssa.Select); isSel && ssax.ReachableFrom(fn, in, hc, nil, nil) {
					perTick = true
				}
			})
		}
	}
	r.Check(perTick && strings.Contains(recv, "getState()") && !strings.Contains(recv, "phi("), "C14/R5", "node.Poll:state-handle", "the state handle is re-read for every use", c.PosOf(loads[0].(ssa.Instruction)),
		"LoadOffset is called on "+recv+" instead of s.getState(): a handle cached across ticks survives a reset")
}

// lockCalls returns the Lock/RLock calls of fn on the mutex `mutex` of the receiver (embedded: mutex == "Mutex").
func lockCalls(fn *ssa.Function, mutex string) (locks []ssa.Instruction, unlocks []ssa.Instruction, deferred bool) {
	ssax.Instrs(fn, func(in ssa.Instruction) {
		call, ok := in.(ssa.CallInstruction)
		if !ok {
			return
		}
		id := ssax.FuncID(ssax.CalleeObj(call))
		isLock := id == "sync.(Mutex).Lock" || id == "sync.(RWMutex).Lock" || id == "sync.(RWMutex).RLock"
		isUnlock := id == "sync.(Mutex).Unlock" || id == "sync.(RWMutex).Unlock" || id == "sync.(RWMutex).RUnlock"
		if !isLock && !isUnlock {
			return
		}
		recv := ssax.Path(call.Common().Args[0])
		if !strings.HasSuffix(recv, "."+mutex) {
			return
		}
		if isLock {
			locks = append(locks, in)
		} else if _, isDefer := in.(*ssa.Defer); isDefer {
			deferred = true
		} else {
			unlocks = append(unlocks, in)
		}
	})
	return
}

func c14Lockset(c *Ctx) {
	r := c.R
	for _, g := range c14Guarded {
		sp := c.P.SSAPkg(g.Rel)
		if sp == nil {
			r.Unknown("C14/R1", "anchor:"+g.Rel, "package loaded", "", "missing")
			continue
		}
		t := c.lookupType("C14/R1", g.Rel, g.Struct)
		if t == nil {
			continue
		}
		if _, ok := structFields(t)[g.Field]; !ok {
			r.Unknown("C14/R1", "anchor:"+g.Struct+"."+g.Field, "guarded field exists", "", "field not found")
			continue
		}
		n := 0
		var fns []*ssa.Function
		for f := range c.P.AllFuncs() {
			if f.Pkg == sp && !c.isTestFunc(f) {
				fns = append(fns, f)
			}
		}
		sort.Slice(fns, func(i, j int) bool { return load.FuncName(fns[i]) < load.FuncName(fns[j]) })
		for _, f := range fns {
			var accesses []ssa.Instruction
			ssax.Instrs(f, func(in ssa.Instruction) {
				fa, ok := in.(*ssa.FieldAddr)
				if !ok || ssax.OwnerName(fa) != g.Struct || ssax.FieldOf(fa).Name() != g.Field {
					return
				}
				// accesses to an object allocated in this function (constructor, not yet shared) are exempt
				if _, isAlloc := ssax.Resolve(fa.X).(*ssa.Alloc); isAlloc {
					return
				}
				if call, isCall := ssax.Resolve(fa.X).(*ssa.Call); isCall && strings.HasPrefix(callName(call), g.Rel+".New") {
					return // a freshly constructed object (e.g. newstate in Reset)
				}
				if ex, isEx := ssax.Resolve(fa.X).(*ssa.Extract); isEx {
					if call, isCall := ex.Tuple.(*ssa.Call); isCall && strings.HasPrefix(callName(call), g.Rel+".New") {
						return
					}
				}
				accesses = append(accesses, in)
			})
			if len(accesses) == 0 {
				continue
			}
			locks, unlocks, deferred := lockCalls(f, g.Mutex)
			for i, a := range accesses {
				n++
				key := sprintf("%s.%s@%s#%d", g.Struct, g.Field, f.Name(), i+1)
				held := len(locks) > 0 && !ssax.ReachableAvoiding(f, a, nil, locks)
				// not released before the access: no explicit unlock between lock and access
				if held && !deferred {
					for _, u := range unlocks {
						if ssax.ReachableFrom(f, u, a, nil, locks) {
							held = false
						}
					}
				}
				if !held {
					held = c.callersHoldLock(f, g.Rel, g.Mutex)
				}
				r.Check(held, "C14/R1", key, g.Struct+"."+g.Field+" is accessed with "+g.Struct+"."+g.Mutex+" held", c.PosOf(a),
					"access without the mutex ("+g.Why+"): a data race with the writer — e.g. a /resetState request swapping the database while the poller saves or loads the offset on the old handle")
			}
		}
		if n == 0 {
			r.Unknown("C14/R1", g.Struct+"."+g.Field+":accesses", "field is accessed somewhere", "", "no accesses found")
		}
	}
}

// c14Roots finds goroutine roots: functions started by `go` statements in the daemon, and HTTP handlers registered on the router.
func c14Roots(c *Ctx) map[string][]*ssa.Function {
	roots := map[string][]*ssa.Function{}
	// poller: Poll is called from the daemon's main goroutine
	if p := c.P.Func(pkgNode, "BaseNodeService", "Poll"); p != nil {
		roots["poller"] = append(roots["poller"], p)
	}
	// HTTP handlers: method values passed to echo route registration in router.SetRouter
	if sr := c.P.Func("client/api/http_api/router", "", "SetRouter"); sr != nil {
		ssax.Instrs(sr, func(in ssa.Instruction) {
			call, ok := in.(ssa.CallInstruction)
			if !ok {
				return
			}
			o := ssax.CalleeObj(call)
			if o == nil || (o.Name() != "GET" && o.Name() != "POST" && o.Name() != "PUT" && o.Name() != "DELETE") {
				return
			}
			for _, a := range call.Common().Args {
				if mc, ok := ssax.Resolve(a).(*ssa.MakeClosure); ok {
					if bound, ok := mc.Fn.(*ssa.Function); ok {
						// $bound wrapper: find the method it calls
						for _, b := range bound.Blocks {
							for _, ins := range b.Instrs {
								if cc, ok := ins.(ssa.CallInstruction); ok {
									if sc := cc.Common().StaticCallee(); sc != nil {
										roots["http"] = append(roots["http"], sc)
									}
								}
							}
						}
					}
				}
			}
		})
	}
	c.R.Count("goroutine_roots_http_handlers", len(roots["http"]))
	c.R.Count("goroutine_roots_poller", len(roots["poller"]))
	if len(roots["http"]) < 15 || len(roots["poller"]) != 1 {
		c.R.Unknown("C14/R2", "roots", "goroutine roots are discoverable", "", sprintf("http handlers=%d poller=%d", len(roots["http"]), len(roots["poller"])))
	}
	return roots
}

// reachableFromRoots: which root kinds can reach fn through the call graph
func (c *Ctx) rootKindsReaching(fn *ssa.Function, roots map[string][]*ssa.Function) []string {
	var kinds []string
	for kind, rs := range roots {
		for _, rt := range rs {
			if _, ok := c.reaches(rt, func(f *ssa.Function) bool { return f == fn }); ok {
				kinds = append(kinds, kind+":"+rt.Name())
				break
			}
		}
	}
	sort.Strings(kinds)
	return kinds
}

type rmwSite struct {
	fn       *ssa.Function
	key      string
	get, set ssa.CallInstruction
}

func isStateGet(ci ssa.CallInstruction) bool {
	id := ssax.FuncID(ssax.CalleeObj(ci))
	if strings.HasSuffix(id, "client/modules/state.(State).Get") || strings.HasSuffix(id, "client/modules/state.(State).GetOrError") {
		return true
	}
	return stateLikeCall(ci, "Get", "GetOrError")
}
func isStateSet(ci ssa.CallInstruction) bool {
	id := ssax.FuncID(ssax.CalleeObj(ci))
	if strings.HasSuffix(id, "client/modules/state.(State).Set") {
		return true
	}
	return stateLikeCall(ci, "Set")
}

// stateLikeCall: a call of Get/Set through a NARROWER interface that a module package declares in front of the state
// store (`type stateStore interface{ Get(string) ([]byte, error); Set(string, []byte) error }`): every method of the
// interface is one of state.State's, with the store's key/value signature.
func stateLikeCall(ci ssa.CallInstruction, names ...string) bool {
	cc := ci.Common()
	if !cc.IsInvoke() || cc.Method == nil || cc.Method.Pkg() == nil || !strings.HasPrefix(cc.Method.Pkg().Path(), load.Module) {
		return false
	}
	okName := false
	for _, n := range names {
		if cc.Method.Name() == n {
			okName = true
		}
	}
	it, isIface := cc.Value.Type().Underlying().(*types.Interface)
	if !okName || !isIface || it.NumMethods() == 0 || it.NumMethods() > 8 {
		return false
	}
	stateMethods := map[string]bool{"Get": true, "GetOrError": true, "Set": true, "Delete": true, "Reset": true, "SaveOffset": true, "LoadOffset": true, "NewStateFromOld": true}
	for i := 0; i < it.NumMethods(); i++ {
		if !stateMethods[it.Method(i).Name()] {
			return false
		}
	}
	sig := cc.Method.Type().(*types.Signature)
	return sig.Params().Len() >= 1 && sig.Params().At(0).Type().String() == "string"
}

// keyOf renders the durable key argument canonically.
func keyOf(ci ssa.CallInstruction) string {
	args := ci.Common().Args
	return npath(args[0])
}

func c14RMW(c *Ctx, roots map[string][]*ssa.Function) { c14RMWAs(c, roots, "C14/R2", "") }

// c14RMWAs runs the read-modify-write rule under the given rule id; `only` restricts it to the durable key that the named function read-modify-writes (used by the
// properties that rest on the all-rounds blob being updated atomically: C07, C19).
func c14RMWAs(c *Ctx, roots map[string][]*ssa.Function, rule, only string) {
	r := c.R
	// functions that (transitively, inside their own package) read key k and write key k
	var sites []rmwSite
	for f := range c.P.AllFuncs() {
		if !load.InModule(f) || c.isTestFunc(f) || strings.Contains(load.FuncName(f), "mocks/") {
			continue
		}
		sets := ssax.Calls(f, false, isStateSet)
		if len(sets) == 0 {
			continue
		}
		for _, set := range sets {
			k := keyOf(set)
			// a read of the same key earlier in this function, directly or through a same-package helper
			var get ssa.CallInstruction
			for _, call := range ssax.Calls(f, false, func(ssa.CallInstruction) bool { return true }) {
				if !ssax.ReachableFrom(f, call, set, nil, nil) {
					continue
				}
				if isStateGet(call) && keyOf(call) == k {
					get = call
				}
				if sc := call.Common().StaticCallee(); sc != nil && sc.Pkg == f.Pkg {
					for _, g := range ssax.Calls(sc, false, isStateGet) {
						gk := keyOf(g)
						// same receiver field (r.xKey / fsm.getStateKey())
						if last(gk) == last(k) || (strings.Contains(gk, "SignaturesKeyPrefix") && strings.Contains(k, "SignaturesKeyPrefix")) {
							get = call
						}
					}
				}
			}
			if get != nil {
				sites = append(sites, rmwSite{f, k, get, set})
			}
		}
	}
	sort.Slice(sites, func(i, j int) bool {
		return load.FuncName(sites[i].fn)+sites[i].key < load.FuncName(sites[j].fn)+sites[j].key
	})
	if only == "" {
		r.Count("rmw_sites", len(sites))
	}
	// group by durable key: functions that read-modify-write the same key conflict with each other
	type grp struct {
		sites []rmwSite
		roots map[string]bool
	}
	groups := map[string]*grp{}
	for _, s := range sites {
		k := last(s.key)
		if groups[k] == nil {
			groups[k] = &grp{roots: map[string]bool{}}
		}
		dup := false
		for _, x := range groups[k].sites {
			if x.fn == s.fn {
				dup = true
			}
		}
		if !dup {
			groups[k].sites = append(groups[k].sites, s)
		}
		for _, kind := range c.rootKindsReaching(s.fn, roots) {
			groups[k].roots[strings.SplitN(kind, ":", 2)[0]] = true
		}
	}
	for _, k := range sortedKeys(groups) {
		g := groups[k]
		if only != "" {
			// (the group is chosen by the function that rewrites the blob, not by how the key expression is spelled)
			has := false
			for _, st := range g.sites {
				if st.fn.Name() == only {
					has = true
				}
			}
			if !has {
				continue
			}
		}
		var names []string
		for _, s := range g.sites {
			names = append(names, s.fn.Name())
		}
		sort.Strings(names)
		rootList := sortedKeys(g.roots)
		if len(rootList) < 2 {
			r.OKd(rule, "rmw:"+k, "read-modify-write of key "+k+" is confined to one goroutine root", "", "functions: "+strings.Join(names, ",")+"; roots: "+strings.Join(rootList, ","))
			continue
		}
		// every function of the group must hold the same receiver mutex from before the read until after the write
		mutexes := map[string]int{}
		var unprotected []string
		for _, s := range g.sites {
			m := rmwMutex(s)
			if m == "" {
				unprotected = append(unprotected, s.fn.Name()+" (read "+c.PosOf(s.get)+", write "+c.PosOf(s.set)+")")
			} else {
				mutexes[m]++
			}
		}
		sort.Strings(unprotected)
		ok := len(unprotected) == 0 && len(mutexes) == 1
		r.Check(ok, rule, "rmw:"+k, "every read-modify-write of key "+k+" holds one common lock across the read and the write", "",
			"key "+k+" is read-modified-written by "+strings.Join(names, ", ")+", reachable from the "+strings.Join(rootList, " and the ")+" goroutines; not protected by a common lock: "+strings.Join(unprotected, "; ")+sprintf(" (locks seen: %v)", sortedKeys(mutexes))+" — an update made by the other goroutine between a read and its write-back is lost")
	}
	if len(sites) < 3 {
		r.Unknown(rule, "rmw:census", "read-modify-write sites are visible", "", sprintf("%d sites", len(sites)))
	}
}

// rmwMutex returns the receiver mutex (access path suffix) that is locked before the site's read and released only by
// a deferred unlock or after the write; "" if none.
func rmwMutex(s rmwSite) string {
	found := ""
	ssax.Instrs(s.fn, func(in ssa.Instruction) {
		call, ok := in.(ssa.CallInstruction)
		if !ok {
			return
		}
		idc := ssax.FuncID(ssax.CalleeObj(call))
		if idc != "sync.(Mutex).Lock" && idc != "sync.(RWMutex).Lock" {
			return
		}
		if ssax.ReachableAvoiding(s.fn, s.get, nil, []ssa.Instruction{in}) {
			return // the read can happen without this lock
		}
		mp := ssax.Path(call.Common().Args[0])
		released := false
		ssax.Instrs(s.fn, func(in2 ssa.Instruction) {
			c2, ok := in2.(ssa.CallInstruction)
			if !ok {
				return
			}
			if _, isDefer := in2.(*ssa.Defer); isDefer {
				return
			}
			if strings.HasSuffix(ssax.FuncID(ssax.CalleeObj(c2)), ".Unlock") && ssax.Path(c2.Common().Args[0]) == mp {
				// released anywhere between taking it and the write-back: between the read and the write, or already before
				// the read (a registry mutex that only guards the lookup of a finer lock)
				if ssax.ReachableFrom(s.fn, in, in2, nil, nil) && ssax.ReachableFrom(s.fn, in2, s.set, nil, nil) {
					released = true
				}
			}
		})
		if !released {
			// the lock must be one fixed mutex of the receiver: a lock looked up per argument (a map of locks keyed by the
			// round, a lock returned by a helper) does not exclude a read-modify-write of the same blob under another key
			if strings.ContainsAny(mp, "([") {
				return
			}
			found = mp[strings.Index(mp, ".")+1:]
		}
	})
	return found
}

func last(s string) string {
	if i := strings.LastIndex(s, "."); i >= 0 {
		return s[i+1:]
	}
	return s
}

// c14Instance: processMessage (poller) and executeOperation (HTTP) both load a round, mutate it and save it.
func c14Instance(c *Ctx, roots map[string][]*ssa.Function) {
	r := c.R
	var seqs []string
	var fns []*ssa.Function
	for _, name := range []string{"processMessage", "executeOperation", "reinitDKG"} {
		fn := c.P.Func(pkgNode, "BaseNodeService", name)
		if fn == nil {
			continue
		}
		loads := ssax.Calls(fn, false, func(ci ssa.CallInstruction) bool {
			o := ssax.CalleeObj(ci)
			return o != nil && o.Name() == "GetFSMInstance"
		})
		saves := ssax.Calls(fn, false, func(ci ssa.CallInstruction) bool { o := ssax.CalleeObj(ci); return o != nil && o.Name() == "SaveFSM" })
		if len(loads) > 0 && len(saves) > 0 {
			kinds := c.rootKindsReaching(fn, roots)
			seqs = append(seqs, name+" ["+strings.Join(kinds, ",")+"]")
			fns = append(fns, fn)
		}
	}
	// is there a lock common to all these sequences, held from load to save?
	common := false
	if len(fns) > 0 {
		common = true
		for _, fn := range fns {
			locked := false
			ssax.Instrs(fn, func(in ssa.Instruction) {
				if call, ok := in.(ssa.CallInstruction); ok {
					idc := ssax.FuncID(ssax.CalleeObj(call))
					if (idc == "sync.(Mutex).Lock" || idc == "sync.(RWMutex).Lock") && !strings.HasSuffix(ssax.Path(call.Common().Args[0]), ".stateMu") {
						locked = true
					}
				}
			})
			if !locked {
				common = false
			}
		}
	}
	hasTwo := false
	all := strings.Join(seqs, " ; ")
	if strings.Contains(all, "poller:") && strings.Contains(all, "http:") {
		hasTwo = true
	}
	if !hasTwo {
		r.OKd("C14/R3", "node:round-rmw", "load/apply/save sequences on rounds come from one root only", "", all)
	} else {
		r.Check(common, "C14/R3", "node:round-rmw", "load-round / apply / save-round sequences of the poller and of the API are serialised by one lock", "",
			"sequences "+all+" load a round (GetFSMInstance), change it and save the whole round map (SaveFSM) without a common lock: the API's OperationProcessed write-back and the poller's message handling on the same round can overwrite each other")
	}
	// R4 reset
	reset := c.P.Func("client/services/fsmservice", "FSM", "ResetFSMState")
	poll := c.P.Func(pkgNode, "BaseNodeService", "Poll")
	if reset == nil || poll == nil {
		r.Unknown("C14/R4", "reset:anchors", "reset and poll resolvable", "", "missing")
		return
	}
	// a lock shared by Reset's caller and the poller's per-message section: none exists if Poll takes no lock around ProcessMessage
	pollLocks := false
	ssax.Instrs(poll, func(in ssa.Instruction) {
		if call, ok := in.(ssa.CallInstruction); ok {
			idc := ssax.FuncID(ssax.CalleeObj(call))
			if idc == "sync.(Mutex).Lock" || idc == "sync.(RWMutex).Lock" || idc == "sync.(RWMutex).RLock" {
				pollLocks = true
			}
		}
	})
	r.Check(pollLocks, "C14/R4", "state-reset:excludes-poller", "a state reset cannot interleave with the handling of a message", "",
		"Poll handles a message (several reads and writes of the state store and the offset) without any lock that ResetFSMState/State.Reset also takes: a reset in the middle of a message leaves writes of the old round in the new database or the old offset in the new state")
	_ = types.Typ
}

// callersHoldLock: f is a helper; every call site of f (at least one) either holds the receiver's mutex at the call
// (locked before, not released before the call) or passes a freshly constructed object (constructor, not yet shared).
func (c *Ctx) callersHoldLock(f *ssa.Function, rel, mutex string) bool {
	n := c.P.CallGraph().Nodes[f]
	if n == nil || len(n.In) == 0 {
		return false
	}
	for _, e := range n.In {
		if !c.P.AllFuncs()[e.Caller.Func] {
			continue // a helper that was expanded into all its callers (or a function outside the census)
		}
		caller := e.Caller.Func
		if e.Site == nil || c.isTestFunc(caller) {
			continue
		}
		// fresh object?
		if len(e.Site.Common().Args) > 0 {
			recv := ssax.Resolve(e.Site.Common().Args[0])
			if _, isAlloc := recv.(*ssa.Alloc); isAlloc {
				continue
			}
		}
		locks, unlocks, deferred := lockCalls(caller, mutex)
		held := len(locks) > 0 && !ssax.ReachableAvoiding(caller, e.Site, nil, locks)
		if held && !deferred {
			for _, u := range unlocks {
				if ssax.ReachableFrom(caller, u, e.Site, nil, locks) {
					held = false
				}
			}
		}
		if !held {
			return false
		}
	}
	return true
}
