package rules

import (
	"go/token"
	"go/types"
	"sort"
	"strings"

	"dcverif/internal/load"
	"dcverif/internal/ssax"

	"golang.org/x/tools/go/ssa"
)

// taint is a may-reach information-flow analysis over the SSA of the module packages:
//   - value taint on SSA values, flow-insensitive;
//   - field-based heap model for named struct types (a tainted store into T.F taints every load of T.F),
//     identity-based containers for allocas/slices/maps (a tainted store into a container taints loads from it);
//   - interprocedural through module functions with per-(function,parameter) summaries (context-insensitive);
//   - calls into dependencies: the result (and pointer arguments) are tainted when any argument is, unless the
//     callee is in the sanitizer table (result public by construction) or in the neutral table.
type taint struct {
	c          *Ctx
	vals       map[ssa.Value]string // tainted value -> provenance (source label + hop)
	fields     map[string]string    // "Type.Field" -> provenance
	containers map[ssa.Value]string // alloc/make/param pointers whose pointee is tainted
	sanitizers map[string]bool
	neutral    map[string]bool
	sourceFld  map[string]string // "Type.Field" that are sources
	sourceCall map[string]string // callee id suffix -> label
	work       []ssa.Value
	funcsDone  map[*ssa.Function]bool
	scope      func(*ssa.Function) bool
	retTaint   map[*ssa.Function]map[int]string
	changed    bool
}

func newTaint(c *Ctx, scope func(*ssa.Function) bool) *taint {
	return &taint{c: c, vals: map[ssa.Value]string{}, fields: map[string]string{}, containers: map[ssa.Value]string{},
		sanitizers: map[string]bool{}, neutral: map[string]bool{}, sourceFld: map[string]string{}, sourceCall: map[string]string{},
		funcsDone: map[*ssa.Function]bool{}, scope: scope, retTaint: map[*ssa.Function]map[int]string{}}
}

func fieldKey(v ssa.Value) string {
	f := ssax.FieldOf(v)
	if f == nil {
		return ""
	}
	return ssax.OwnerName(v) + "." + f.Name()
}

func (t *taint) mark(v ssa.Value, why string) {
	if v == nil {
		return
	}
	if _, ok := t.vals[v]; ok {
		return
	}
	if c, isConst := v.(*ssa.Const); isConst && c != nil {
		return
	}
	t.vals[v] = why
	t.work = append(t.work, v)
	t.changed = true
}

func (t *taint) markField(k, why string) {
	if k == "" || k == "." {
		return
	}
	if _, ok := t.fields[k]; ok {
		return
	}
	t.fields[k] = why
	t.changed = true
}

func (t *taint) markContainer(v ssa.Value, why string) {
	if v == nil {
		return
	}
	if _, ok := t.containers[v]; ok {
		return
	}
	t.containers[v] = why
	t.changed = true
}

// baseOf returns the container root of an address (alloc, make, call result, parameter) and the field key if the
// address is a field of a named struct.
func baseOf(addr ssa.Value) (root ssa.Value, fkey string) {
	for i := 0; i < 16; i++ {
		switch x := addr.(type) {
		case *ssa.FieldAddr:
			if k := fieldKey(x); !strings.HasPrefix(k, ".") {
				return nil, k
			}
			addr = x.X
		case *ssa.IndexAddr:
			addr = x.X
		case *ssa.UnOp:
			if x.Op == token.MUL {
				addr = x.X
				continue
			}
			return x, ""
		case *ssa.Slice:
			addr = x.X
		case *ssa.ChangeType:
			addr = x.X
		case *ssa.MakeInterface:
			addr = x.X
		default:
			return addr, ""
		}
	}
	return addr, ""
}

func (t *taint) run(fns []*ssa.Function) {
	// seeds + fixpoint
	for iter := 0; iter < 40; iter++ {
		t.changed = false
		for _, f := range fns {
			t.scan(f)
		}
		t.drain()
		if !t.changed {
			break
		}
	}
}

func (t *taint) drain() {
	for len(t.work) > 0 {
		v := t.work[len(t.work)-1]
		t.work = t.work[:len(t.work)-1]
		t.propagate(v)
	}
}

// scan handles the instructions whose taint depends on heap facts (loads, sources) and call summaries.
func (t *taint) scan(f *ssa.Function) {
	ssax.Instrs(f, func(in ssa.Instruction) {
		switch x := in.(type) {
		case *ssa.UnOp:
			if x.Op != token.MUL {
				return
			}
			root, fk := baseOf(x.X)
			if fk != "" {
				if lbl, ok := t.sourceFld[fk]; ok {
					t.mark(x, "source "+lbl)
				} else if why, ok := t.fields[fk]; ok {
					t.mark(x, why+" -> field "+fk)
				}
			} else if root != nil {
				if why, ok := t.containers[root]; ok {
					t.mark(x, why)
				}
			}
			// loading a whole struct value one of whose fields is tainted
			if n, ok := x.Type().(*types.Named); ok {
				if _, isStruct := n.Underlying().(*types.Struct); isStruct {
					prefix := n.Obj().Name() + "."
					for fk, why := range t.fields {
						if strings.HasPrefix(fk, prefix) {
							if _, isSrc := t.sourceFld[fk]; !isSrc {
								t.mark(x, why+" -> struct "+n.Obj().Name())
								break
							}
						}
					}
				}
			}
		case *ssa.Field:
			if fk := fieldKey(x); fk != "" {
				if lbl, ok := t.sourceFld[fk]; ok {
					t.mark(x, "source "+lbl)
				} else if why, ok := t.fields[fk]; ok {
					t.mark(x, why+" -> field "+fk)
				}
			}
		case *ssa.Lookup:
			if why, ok := t.containers[rootVal(x.X)]; ok {
				t.mark(x, why)
			}
		case *ssa.Next:
			if rg, ok := x.Iter.(*ssa.Range); ok {
				if why, ok := t.containers[rootVal(rg.X)]; ok {
					t.mark(x, why)
				}
				if why, ok := t.vals[rg.X]; ok {
					t.mark(x, why)
				}
			}
		case ssa.CallInstruction:
			t.call(x)
		}
	})
}

func rootVal(v ssa.Value) ssa.Value {
	r, _ := baseOf(v)
	if r == nil {
		return v
	}
	return r
}

func (t *taint) call(call ssa.CallInstruction) {
	cc := call.Common()
	id := ssax.FuncID(ssax.CalleeObj(call))
	val, isVal := call.(ssa.Value)
	for suffix, lbl := range t.sourceCall {
		if strings.HasSuffix(id, suffix) && isVal {
			if _, isTup := val.Type().(*types.Tuple); isTup {
				if refs := val.Referrers(); refs != nil {
					for _, ref := range *refs {
						if ex, ok := ref.(*ssa.Extract); ok && !isErrorType(ex.Type()) {
							t.mark(ex, "source "+lbl)
						}
					}
				}
			} else {
				t.mark(val, "source "+lbl)
			}
		}
	}
	if t.sanitizers[id] || t.neutral[id] {
		return
	}
	// any tainted argument?
	why := ""
	for _, a := range cc.Args {
		if w, ok := t.vals[a]; ok {
			why = w
			break
		}
		if w, ok := t.containers[rootVal(a)]; ok && isPointerLike(a.Type()) {
			why = w
			break
		}
	}
	if cc.IsInvoke() {
		if w, ok := t.vals[cc.Value]; ok {
			why = w
		}
	}
	callees := t.c.calleesAt(call)
	entered := false
	for _, cf := range callees {
		if cf == nil || len(cf.Blocks) == 0 || !t.scope(cf) {
			continue
		}
		entered = true
		// bind tainted args to params
		params := cf.Params
		args := cc.Args
		if cc.IsInvoke() {
			args = append([]ssa.Value{cc.Value}, cc.Args...)
		}
		for i, a := range args {
			if i >= len(params) {
				break
			}
			if w, ok := t.vals[a]; ok {
				t.mark(params[i], w+" -> arg of "+cf.Name())
			}
			if w, ok := t.containers[rootVal(a)]; ok {
				t.markContainer(params[i], w)
			}
		}
		// free variables of closures
		if mc, ok := cc.Value.(*ssa.MakeClosure); ok {
			for i, b := range mc.Bindings {
				if w, ok := t.vals[b]; ok && i < len(cf.FreeVars) {
					t.mark(cf.FreeVars[i], w)
				}
			}
		}
		if rt, ok := t.retTaint[cf]; ok && isVal {
			if tup, isTup := val.Type().(*types.Tuple); isTup && tup.Len() > 1 {
				// mark the individual extracts
				if refs := val.Referrers(); refs != nil {
					for _, ref := range *refs {
						if ex, isEx := ref.(*ssa.Extract); isEx {
							if rw, ok := rt[ex.Index]; ok {
								t.mark(ex, rw+" -> result of "+cf.Name())
							}
						}
					}
				}
			} else if rw, ok := rt[0]; ok {
				t.mark(val, rw+" -> result of "+cf.Name())
			}
		}
		// pointer params written by the callee: if the callee tainted a param container, taint the argument's container
		for i, a := range args {
			if i < len(params) {
				if w, ok := t.containers[params[i]]; ok {
					t.markContainer(rootVal(a), w)
				}
			}
		}
	}
	if !entered && why != "" {
		// dependency call: result and pointer arguments become tainted
		if isVal && val.Type() != nil && !isUnit(val.Type()) && (!isErrorType(val.Type()) || isFormatter(id)) {
			t.mark(val, why+" -> "+shortID(id))
		}
		for _, a := range cc.Args {
			if isPointerLike(a.Type()) {
				if _, isConst := a.(*ssa.Const); !isConst {
					t.markContainer(rootVal(a), why+" -> written by "+shortID(id))
				}
			}
		}
	}
}

func shortID(id string) string { return strings.ReplaceAll(id, load.Module+"/", "") }

// errors are not carriers of secret data by the conventions of this code base and its dependencies (messages are
// fixed strings / wrapped causes); this keeps error plumbing from flooding the analysis.
func isErrorType(t types.Type) bool {
	return t != nil && types.Identical(t, types.Universe.Lookup("error").Type())
}

func isFormatter(id string) bool {
	switch id {
	case "fmt.Errorf", "fmt.Sprintf", "fmt.Sprint", "fmt.Sprintln", "errors.New":
		return true
	}
	return false
}

// errCarrier: the tuple comes from a module function (whose error results are tainted only if built from secrets).
func (t *taint) errCarrier(tuple ssa.Value) bool {
	call, ok := tuple.(*ssa.Call)
	if !ok {
		return false
	}
	for _, cf := range t.c.calleesAt(call) {
		if cf != nil && len(cf.Blocks) > 0 && t.scope(cf) {
			return true
		}
	}
	return false
}

func isUnit(t types.Type) bool {
	if tup, ok := t.(*types.Tuple); ok && tup.Len() == 0 {
		return true
	}
	return false
}

func isPointerLike(t types.Type) bool {
	switch t.Underlying().(type) {
	case *types.Pointer, *types.Slice, *types.Map, *types.Interface:
		return true
	}
	return false
}

// propagate pushes the taint of v to its users.
func (t *taint) propagate(v ssa.Value) {
	why := t.vals[v]
	refs := v.Referrers()
	if refs == nil {
		return
	}
	for _, ref := range *refs {
		switch x := ref.(type) {
		case *ssa.Phi, *ssa.ChangeType, *ssa.Convert, *ssa.MakeInterface, *ssa.ChangeInterface, *ssa.TypeAssert, *ssa.Slice, *ssa.BinOp, *ssa.SliceToArrayPointer:
			t.mark(x.(ssa.Value), why)
		case *ssa.UnOp:
			if x.Op != token.MUL {
				t.mark(x, why)
			} else if x.X == v {
				// dereference of a tainted pointer: the pointee is the secret
				t.mark(x, why)
			}
		case *ssa.Extract:
			// the error component of a dependency call's result is not a carrier (see isErrorType); errors built by
			// formatting functions from tainted arguments are tainted at their creation and propagate normally
			if !isErrorType(x.Type()) || t.errCarrier(x.Tuple) {
				t.mark(x, why)
			}
		case *ssa.Index:
			if x.X == v {
				t.mark(x, why)
			}
		case *ssa.IndexAddr:
			if x.X == v {
				t.mark(x, why)
			}
		case *ssa.Field:
			if x.X == v {
				t.mark(x, why)
			}
		case *ssa.FieldAddr:
			if x.X == v {
				t.mark(x, why)
			}
		case *ssa.Lookup:
			if x.X == v {
				t.mark(x, why)
			}
		case *ssa.Range:
			t.mark(x, why)
		case *ssa.Store:
			if x.Val == v {
				root, fk := baseOf(x.Addr)
				if fk != "" {
					t.markField(fk, why)
				} else if root != nil {
					t.markContainer(root, why)
				}
			}
		case *ssa.MapUpdate:
			if x.Value == v || x.Key == v {
				t.markContainer(rootVal(x.Map), why)
			}
		case *ssa.Return:
			fn := x.Parent()
			for i, res := range x.Results {
				if res != v {
					continue
				}
				if t.retTaint[fn] == nil {
					t.retTaint[fn] = map[int]string{}
				}
				if _, ok := t.retTaint[fn][i]; !ok {
					t.retTaint[fn][i] = why
					t.changed = true
				}
			}
		case *ssa.MakeClosure:
			// captured: handled at call
		case *ssa.Send:
		}
	}
}

// tainted reports whether v (or the memory it points to / contains) is tainted.
func (t *taint) tainted(v ssa.Value) (string, bool) {
	if w, ok := t.vals[v]; ok {
		return w, true
	}
	if isPointerLike(v.Type()) {
		if w, ok := t.containers[rootVal(v)]; ok {
			return w, true
		}
	}
	// a struct value loaded from an alloca whose fields were tainted individually
	if u, ok := v.(*ssa.UnOp); ok && u.Op == token.MUL {
		if w, ok := t.containers[rootVal(u.X)]; ok {
			return w, true
		}
	}
	return "", false
}

func sortedFuncs(m map[*ssa.Function]bool) []*ssa.Function {
	var out []*ssa.Function
	for f := range m {
		out = append(out, f)
	}
	sort.Slice(out, func(i, j int) bool { return load.FuncName(out[i]) < load.FuncName(out[j]) })
	return out
}
