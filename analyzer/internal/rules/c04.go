package rules

import (
	"sort"
	"strings"

	"dcverif/internal/load"
	"dcverif/internal/ssax"

	"golang.org/x/tools/go/ssa"
)

func init() { Registry["C04"] = C04 }

const kyb = "github.com/corestario/kyber"

var c04Sanitizers = []string{
	// public by construction
	kyb + ".(Point).Mul",                                       // public key = secret * G
	kyb + "/sign/tbls.Sign",                                    // partial signature
	kyb + "/sign/bls.Sign",                                     // signature
	kyb + "/encrypt/ecies.Encrypt",                             // ciphertext
	kyb + "/share/vss/pedersen.(Dealer).Commits",               // public commitments of the dealer polynomial
	kyb + "/share/dkg/pedersen.(DistKeyGenerator).Deals",       // deals are encrypted by kyber to each addressee's long-term key
	kyb + "/share/dkg/pedersen.(DistKeyGenerator).ProcessDeal", // response (public)
	kyb + "/share/dkg/pedersen.(DistKeyGenerator).ProcessResponse",
	kyb + "/share/dkg/pedersen.(DistKeyGenerator).Certified",
	kyb + "/share/dkg/pedersen.(DistKeyShare).Public",
	kyb + "/share/dkg/pedersen.(DistKeyShare).Commitments",
	kyb + "/share.(PubPoly).Info",
	kyb + "/share.(PubPoly).Commit",
	kyb + "/share.NewPubPoly",
	load.Module + "/dkg.(BLSKeyring).PubPolyBytes",
	load.Module + "/airgapped.encrypt", // AES-256-GCM under the scrypt-derived password key (at rest)
	kyb + ".(Point).Equal", kyb + ".(Scalar).Equal",
}

// C04 — secrets stay inside the airgapped machine; never reused across rounds.
func C04(c *Ctx) {
	r := c.R
	r.Explain = "Decided statically with a may-reach information-flow (taint) analysis over packages airgapped and dkg (field-based heap for struct types, interprocedural through module functions, dependencies summarised by a sanitizer table): (R1) no value derived from the long-term private key, the seed, the password key, the private share, the private keyring encoding or the kyber generator object reaches an output — the fields of the result Operation, the payload of a board-bound message, or a log/print call — except through a construct that is public by construction (public key, partial signature, ciphertext, commitments, PubPolyBytes, at-rest encryption); " +
		"(R2) at rest: every database write of key/share-derived data goes through encrypt(), and the three loaders go through decrypt() and stop on its error (AES-GCM authentication failure = wrong password); (R3) addressee binding: the deal for index i is encrypted with GetParticipantByIndex(i)'s key and addressed to that same participant, and the keys registered in a round's instance are freshly decoded from that round's own participant list, entry by entry (no key remembered from another round); " +
		"(R4) round separation: every entropy input of a round (suite seed, dealer polynomial reader) must derive from the round identifier and the base seed. " +
		"NOT decided: absence of secrets under every encoding in real outputs (needs the outputs), IND-CCA of ECIES/AES-GCM, that different seeds give unrelated keys."
	r.Trusted = []string{"the sanitizer table (constructs public by construction in kyber)", "AES-GCM/scrypt/ECIES", "VTA call graph", "errors do not carry secret bytes"}
	r.Rule("C04/R1", "no secret reaches a result operation, a board-bound message or a log line", 8)
	r.Rule("C04/R2", "at-rest: encrypt before Put; loaders decrypt and stop on error", 6)
	r.Rule("C04/R3", "a deal is encrypted for, and addressed to, the same participant", 5)
	r.Rule("C04/R4", "round entropy derives from the round id and the base seed", 2)
	// the password that keys the at-rest encryption is the WHOLE password the operator typed: every writer of
	// Machine.encryptionKey stores nil or the value it was given, unchanged (a copy into a fixed-size buffer truncates,
	// and every password that agrees on the prefix then opens the keys)
	{
		var bad []string
		n := 0
		for fn := range c.P.AllFuncs() {
			if !load.InModule(fn) || c.isTestFunc(fn) || fn.Pkg == nil || !strings.HasSuffix(fn.Pkg.Pkg.Path(), "/airgapped") {
				continue
			}
			ssax.Instrs(fn, func(in ssa.Instruction) {
				st, ok := in.(*ssa.Store)
				if !ok {
					return
				}
				fa, ok := st.Addr.(*ssa.FieldAddr)
				if !ok || ssax.FieldOf(fa) == nil || ssax.FieldOf(fa).Name() != "encryptionKey" || ssax.OwnerName(fa) != "Machine" {
					return
				}
				n++
				v := ssax.Resolve(st.Val)
				if ssax.IsNilConst(v) {
					return
				}
				if _, isParam := v.(*ssa.Parameter); isParam {
					return
				}
				// a defensive copy of the whole value: append(<nil or empty>, param...)
				if call, isCall := v.(*ssa.Call); isCall {
					if b, isB := call.Common().Value.(*ssa.Builtin); isB && b.Name() == "append" && len(call.Common().Args) == 2 {
						if _, isP := ssax.Resolve(call.Common().Args[1]).(*ssa.Parameter); isP {
							return
						}
					}
				}
				bad = append(bad, fn.Name()+" stores "+ssax.Path(v)+" at "+c.PosOf(in))
			})
		}
		sort.Strings(bad)
		r.Check(len(bad) == 0 && n >= 2, "C04/R2", "airgapped.Machine.encryptionKey:whole-password", "the stored password is nil or the caller's value unchanged", "", "writers that store something else: "+strings.Join(bad, "; "))
	}
	r.Rule("C04/R5", "nonces are not reused across a restart: the replayed log repeats every processed operation (= C12/R4 log completeness)", 1)
	logComplete(c, "C04/R5")
	c04Flow(c)
	c04AtRest(c)
	c04Addressee(c)
	c04RoundSeparation(c)
}

func c04Scope(c *Ctx) (func(*ssa.Function) bool, []*ssa.Function) {
	inScope := func(f *ssa.Function) bool {
		if f == nil {
			return false
		}
		n := load.FuncName(f)
		if c.isTestFunc(f) {
			return false
		}
		if f.Pkg != nil {
			p := f.Pkg.Pkg.Path()
			return p == load.Module+"/airgapped" || p == load.Module+"/dkg"
		}
		return strings.Contains(n, "airgapped.") || strings.Contains(n, "/dkg.")
	}
	m := map[*ssa.Function]bool{}
	for f := range c.P.AllFuncs() {
		if inScope(f) && len(f.Blocks) > 0 {
			m[f] = true
		}
	}
	return inScope, sortedFuncs(m)
}

func c04NewTaint(c *Ctx, secretsOnly bool) (*taint, []*ssa.Function) {
	scope, fns := c04Scope(c)
	t := newTaint(c, scope)
	for _, s := range c04Sanitizers {
		t.sanitizers[s] = true
	}
	t.sourceFld["Machine.secKey"] = "long-term private key (Machine.secKey)"
	t.sourceFld["DKG.secKey"] = "long-term private key (DKG.secKey)"
	t.sourceFld["BLSKeyring.Share"] = "BLS private share (BLSKeyring.Share)"
	t.sourceCall["/dkg.(BLSKeyring).Bytes"] = "private keyring encoding (BLSKeyring.Bytes())"
	t.sourceCall["/dkg.(DKG).GetSecKey"] = "long-term private key (GetSecKey())"
	t.sourceCall["share/dkg/pedersen.(DistKeyShare).PriShare"] = "private share (PriShare())"
	if !secretsOnly {
		t.sourceFld["Machine.baseSeed"] = "seed (Machine.baseSeed)"
		t.sourceFld["Machine.encryptionKey"] = "password key (Machine.encryptionKey)"
		t.sourceFld["DKG.instance"] = "kyber generator with the secret polynomial (DKG.instance)"
		t.sourceCall["share/dkg/pedersen.(DistKeyGenerator).DistKeyShare"] = "DistKeyShare (contains the private share)"
	}
	t.run(fns)
	return t, fns
}

func c04Flow(c *Ctx) {
	r := c.R
	t, fns := c04NewTaint(c, false)
	r.Count("taint_functions", len(fns))
	r.Count("taint_values", len(t.vals))
	r.Count("taint_fields", len(t.fields))
	if len(t.vals) < 30 {
		r.Unknown("C04/R1", "taint:vacuous", "the analysis sees the secret sources", "", sprintf("only %d tainted values", len(t.vals)))
	}
	// sink 1: fields of the result operation
	for _, f := range []string{"Operation.ResultMsgs", "Operation.ExtraData", "Operation.Payload", "Operation.Event", "Operation.To", "Message.Data", "Message.Event", "Message.RecipientAddr", "Message.DkgRoundID"} {
		why, bad := t.fields[f]
		r.Check(!bad, "C04/R1", "sink:"+f, "nothing secret-derived is stored into "+f+" (result file / board-bound message)", "", "flow: "+why)
	}
	// sink 2: createMessage data, log and print calls
	nLog, nMsg := 0, 0
	for _, f := range fns {
		ssax.Instrs(f, func(in ssa.Instruction) {
			call, ok := in.(ssa.CallInstruction)
			if !ok {
				return
			}
			id := ssax.FuncID(ssax.CalleeObj(call))
			isLog := strings.HasPrefix(id, "log.") || id == "fmt.Println" || id == "fmt.Printf" || id == "fmt.Print"
			isMsg := id == load.Module+"/airgapped.createMessage"
			if !isLog && !isMsg {
				return
			}
			args := call.Common().Args
			if isMsg {
				nMsg++
				args = args[1:2]
			} else {
				nLog++
			}
			for _, a := range args {
				vals := []ssa.Value{a}
				if sl, ok := a.(*ssa.Slice); ok {
					if al, ok := sl.X.(*ssa.Alloc); ok {
						vals = append(vals, ssax.ArrayElems(al)...)
					}
				}
				for _, v := range vals {
					if why, bad := t.tainted(v); bad {
						kind := "log/print"
						if isMsg {
							kind = "board-bound message payload"
						}
						r.Fail("C04/R1", sprintf("sink:%s:%s", f.Name(), lastSeg(shortID(id))), "no secret-derived value in a "+kind, c.PosOf(in), "flow: "+why+" -> "+ssax.Path(v))
					}
				}
			}
		})
	}
	r.Count("log_sinks", nLog)
	r.Count("message_sinks", nMsg)
	r.Check(nMsg >= 6 && nLog >= 5, "C04/R1", "sink:census", "the output sites of the airgapped machine are in scope", "", sprintf("createMessage sites=%d log/print sites=%d", nMsg, nLog))
	// what the exported polynomial is
	checkStores(c, []storeSpec{
		{"C04/R1", "airgapped.master-key-handler:exported-polynomial", [3]string{"airgapped", "Machine", "handleStateDkgMasterKeyAwaitConfirmations"}, "DKGProposalMasterKeyConfirmationRequest", "PubPolyBz", `\.PubPolyBytes\(\)#0$`, "the polynomial exported is the public part only", "Bytes() (commitments + private share) exported"},
	})
	if fn := c.Fn("C04/R1", "dkg", "BLSKeyring", "PubPolyBytes"); fn != nil {
		bad := false
		ssax.Instrs(fn, func(in ssa.Instruction) {
			if fa, ok := in.(*ssa.FieldAddr); ok && fieldKey(fa) == "BLSKeyring.Share" {
				bad = true
			}
			if st, ok := in.(*ssa.Store); ok {
				if fa, ok := st.Addr.(*ssa.FieldAddr); ok && fieldKey(fa) == "blsKeyringJSON.Share" {
					bad = true
				}
			}
		})
		r.Check(!bad, "C04/R1", "dkg.(*BLSKeyring).PubPolyBytes:public-only", "PubPolyBytes touches only the public polynomial", c.Pos(fn.Pos()), "PubPolyBytes reads or encodes the private Share")
	}
	r.Note("C04 observation: the base seed is stored in plaintext under base_seed_key (storeBaseSeed); the property's at-rest sentence names the private key and the shares only.")
}

func c04AtRest(c *Ctx) {
	r := c.R
	t, fns := c04NewTaint(c, true)
	n := 0
	for _, f := range fns {
		ssax.Instrs(f, func(in ssa.Instruction) {
			call, ok := in.(ssa.CallInstruction)
			if !ok {
				return
			}
			dbArgs, isPut := c.levelDBCall(call, "Put")
			if !isPut || len(dbArgs) < 2 {
				return
			}
			n++
			val := dbArgs[1]
			why, bad := t.tainted(val)
			key := sprintf("db-put:%s:%s", f.Name(), shortKey(ssax.Path(dbArgs[0])))
			r.Check(!bad, "C04/R2", key, "what is written to the database is not derived from the private key or a share unless encrypted", c.PosOf(in), "plaintext flow into the database: "+why)
		})
	}
	r.Check(n >= 6, "C04/R2", "db-put:census", "the database writes of the airgapped machine are in scope", "", sprintf("%d Put calls", n))
	// loaders
	for _, ld := range []struct{ fn, use string }{{"LoadKeysFromDB", "UnmarshalBinary"}, {"loadBLSKeyring", "LoadBLSKeyringFromBytes"}, {"GetBLSKeyrings", "LoadBLSKeyringFromBytes"}} {
		fn := c.Fn("C04/R2", "airgapped", "Machine", ld.fn)
		if fn == nil {
			continue
		}
		decs := callsIn(fn, "airgapped.decrypt")
		uses := ssax.Calls(fn, false, func(ci ssa.CallInstruction) bool { o := ssax.CalleeObj(ci); return o != nil && o.Name() == ld.use })
		ok := len(decs) >= 1 && len(uses) >= 1
		for _, d := range decs {
			ne := ssax.NilErrEdgesOfCall(fn, d)
			if len(ne) == 0 {
				ok = false
			}
			for _, u := range uses {
				// a use fed by this decrypt must lie behind its nil-error edge
				fed := false
				for _, a := range u.Common().Args {
					if valueFlowsFrom(a, d, 0) {
						fed = true
					}
				}
				if u.Common().IsInvoke() {
					fed = fed || false
				}
				if fed && ssax.ReachableAvoiding(fn, u, ne, nil) {
					ok = false
				}
			}
			kp := ssax.Path(d.Common().Args[0])
			if !strings.HasSuffix(kp, "am.encryptionKey") {
				ok = false
			}
		}
		r.Check(ok, "C04/R2", "loader:"+ld.fn, ld.fn+" decrypts with the operator's password key and does not use the data when decryption fails", c.Pos(fn.Pos()), "decrypt error not checked before use, or another key used")
		// a loader of one secret succeeds only past a successful decryption with the current password key: no success
		// return may bypass it (a decoded copy kept in memory would outlive the password)
		if ld.fn != "GetBLSKeyrings" {
			var okEdges []ssax.Edge
			for _, d := range decs {
				okEdges = append(okEdges, ssax.NilErrEdgesOfCall(fn, d)...)
			}
			bypass := ""
			for _, ret := range ssax.Returns(fn) {
				if len(ret.Results) == 0 || ret.Block() == fn.Recover {
					continue
				}
				ev := ret.Results[len(ret.Results)-1]
				for _, lf := range ssax.Leaves(ev, ret) {
					if ssax.IsNilConst(ssax.Resolve(lf.V)) && (len(okEdges) == 0 || ssax.ReachableAvoiding(fn, lf.At, okEdges, nil)) {
						bypass = c.PosOf(ret)
					}
				}
			}
			r.Check(bypass == "", "C04/R2", "loader:"+ld.fn+":always-decrypts", ld.fn+" succeeds only past a successful decryption under the current password key", c.Pos(fn.Pos()),
				"a success return at "+bypass+" is reachable without decrypt(am.encryptionKey, …) succeeding: the secret is available without (or after expiry of) the operator's password")
		}
	}
	if fn := c.Fn("C04/R2", "airgapped", "", "decrypt"); fn != nil {
		opens := ssax.Calls(fn, false, func(ci ssa.CallInstruction) bool { o := ssax.CalleeObj(ci); return o != nil && o.Name() == "Open" })
		ok := len(opens) == 1
		if ok {
			ne := ssax.NilErrEdgesOfCall(fn, opens[0])
			for _, ret := range ssax.Returns(fn) {
				if len(ret.Results) == 2 && ssax.IsNilConst(ssax.Resolve(ret.Results[1])) && (len(ne) == 0 || ssax.ReachableAvoiding(fn, ret, ne, nil)) {
					ok = false
				}
			}
		}
		r.Check(ok, "C04/R2", "airgapped.decrypt:authenticated", "decrypt succeeds only if AES-GCM authentication succeeded (a wrong password cannot yield a key)", c.Pos(fn.Pos()), "success return reachable without gcm.Open succeeding")
	}
	for _, name := range []string{"encrypt", "decrypt"} {
		if fn := c.Fn("C04/R2", "airgapped", "", name); fn != nil {
			ks := callsIn(fn, "golang.org/x/crypto/scrypt.Key")
			ok := len(ks) == 1 && ssax.Path(ks[0].Common().Args[0]) == "key" && ssax.Path(ks[0].Common().Args[1]) == "salt"
			r.Check(ok, "C04/R2", "airgapped."+name+":kdf", name+" derives the AES key from (password key, salt) with scrypt", c.Pos(fn.Pos()), "scrypt.Key(key, salt, …) not found")
			// the cipher key is exactly this call's derivation (no cached / alternative key)
			nc := callsIn(fn, "crypto/aes.NewCipher")
			okc := len(nc) == 1 && len(ks) == 1 && ssax.ResultOf(nc[0].Common().Args[0], ks[0], 0)
			r.Check(okc, "C04/R2", "airgapped."+name+":cipher-key", "the AES key is the scrypt derivation of this call's password key and salt", c.Pos(fn.Pos()), "aes.NewCipher is keyed by something else than scrypt.Key(key, salt, …) of this call (e.g. a cached key): a wrong password could decrypt")
		}
	}
}

func shortKey(s string) string {
	s = strings.TrimPrefix(s, "conv<[]byte>(")
	s = strings.TrimSuffix(s, ")")
	if len(s) > 50 {
		s = s[:50]
	}
	return s
}

func c04Addressee(c *Ctx) {
	r := c.R
	dh := [3]string{"airgapped", "Machine", "handleStateDkgDealsAwaitConfirmations"}
	part := `^am\.dkgInstances\[o\.DKGIdentifier\]#0\.GetParticipantByIndex\(next\(range\(am\.dkgInstances\[o\.DKGIdentifier\]#0\.GetDeals\(\)#0\)\)#1\)$`
	checkArgs(c, []argSpec{
		// (encryptDataForParticipant is expanded into the handler — load.flatten —: the ECIES call is judged in place)
		{"C04/R3", "airgapped.deals-handler:encrypt-for", dh, "github.com/corestario/kyber/encrypt/ecies.Encrypt", 1, `^am\.dkgInstances\[o\.DKGIdentifier\]#0\.GetPubKeyByParticipant\(` + part[1:len(part)-1] + `\)#0$`, "the deal for index i is encrypted with the registered DKG public key of participant i", "deal encrypted to another participant's (e.g. the sender's own) key"},
		{"C04/R3", "airgapped.deals-handler:encrypt-what", dh, "github.com/corestario/kyber/encrypt/ecies.Encrypt", 2, `^json\.Marshal\(next\(range\(.*GetDeals\(\)#0\)\)#2\)#0$`, "what is encrypted is that index's deal", "another deal encrypted"},
	})
	// o.To for the deal messages is the same participant
	if fn := c.Fn("C04/R3", dh[0], dh[1], dh[2]); fn != nil {
		ok := false
		ssax.Instrs(fn, func(in ssa.Instruction) {
			if st, isSt := in.(*ssa.Store); isSt && strings.HasSuffix(ssax.Path(st.Addr), "o.To") {
				if m, _ := regexpMatch(part, npath(st.Val)); m {
					ok = true
				}
			}
		})
		r.Check(ok, "C04/R3", "airgapped.deals-handler:addressed-to", "the message carrying the deal is addressed to the participant it was encrypted for", c.Pos(fn.Pos()), "o.To is not GetParticipantByIndex(index) of the same index")
	}
	// the two lookups the binding rests on answer for the entry asked for: the key of participant NAME is the PK of the
	// stored entry whose Participant equals NAME; the participant at position i is the entry at i (a remembered position
	// or a cache keyed otherwise hands out another participant's key: the deal would be readable by the wrong party)
	if fn := c.Fn("C04/R3", "dkg", "DKG", "GetPubKeyByParticipant"); fn != nil {
		why := keyedLookup(c, fn, 1, "Participant", "PK", 0)
		r.Check(why == "", "C04/R3", "dkg.GetPubKeyByParticipant:key-of-that-participant", "the key returned for a participant name is the PK of the stored entry with that name", c.Pos(fn.Pos()), why)
	}
	if fn := c.Fn("C04/R3", "dkg", "DKG", "GetParticipantByIndex"); fn != nil {
		why := keyedLookup(c, fn, 1, "", "Participant", 0)
		r.Check(why == "", "C04/R3", "dkg.GetParticipantByIndex:entry-at-that-position", "the participant returned for a position is the stored entry at that position", c.Pos(fn.Pos()), why)
	}
	// the keys the deals are encrypted to are the ones announced for THIS round: every key registered in the round's
	// instance is a fresh point decoded from the DkgPubKey of the same entry of this operation's participant list
	if fn := c.Fn("C04/R3", "airgapped", "Machine", "handleStateDkgCommitsAwaitConfirmations"); fn != nil {
		stores := callsIn(fn, "dkg.(DKG).StorePubKey")
		okAll := len(stores) >= 1
		detail := sprintf("%d StorePubKey calls", len(stores))
		for _, sp := range stores {
			a := sp.Common().Args
			pk := ssax.Resolve(a[len(a)-1])
			pcall, isCall := pk.(*ssa.Call)
			if !isCall || !pcall.Common().IsInvoke() || pcall.Common().Method.Name() != "Point" || !strings.HasSuffix(npath(pcall.Common().Value), ".baseSuite") {
				okAll, detail = false, "the key registered is "+npath(a[len(a)-1])+", not a point freshly created from the base suite for this entry (a key remembered from another round would be used)"
				continue
			}
			// decoded from the same entry, successfully, before it is stored
			var dec ssa.CallInstruction
			for _, u := range ssax.Calls(fn, false, func(ci ssa.CallInstruction) bool {
				return ci.Common().IsInvoke() && ci.Common().Method.Name() == "UnmarshalBinary" && ssax.Resolve(ci.Common().Value) == pk
			}) {
				dec = u
			}
			entry := strings.TrimSuffix(npath(a[1]), ".Username")
			if dec == nil || npath(dec.Common().Args[0]) != entry+".DkgPubKey" || !strings.HasPrefix(entry, "json(o.Payload)[") {
				okAll, detail = false, "the registered key is not decoded from the DkgPubKey of the entry whose Username/ParticipantId it is stored under"
				continue
			}
			ne := ssax.NilErrEdgesOfCall(fn, dec)
			if len(ne) == 0 || ssax.ReachableAvoiding(fn, sp.(ssa.Instruction), ne, nil) {
				okAll, detail = false, "StorePubKey is reachable although decoding the key failed"
			}
			if npath(a[2]) != entry+".ParticipantId" {
				okAll, detail = false, "the key is stored under "+npath(a[2])+", not under the id of the same entry"
			}
		}
		r.Check(okAll, "C04/R3", "airgapped.commits-handler:round-keys", "the public keys of a round's instance are decoded from this round's participant list, entry by entry", c.Pos(fn.Pos()), detail)
	}
}

func c04RoundSeparation(c *Ctx) {
	r := c.R
	ch := [3]string{"airgapped", "Machine", "handleStateDkgCommitsAwaitConfirmations"}
	checkArgs(c, []argSpec{
		{"C04/R4", "airgapped.commits-handler:suite-seed", ch, "github.com/corestario/kyber/pairing/bls12381.NewBLS12381Suite", 0, `o\.DKGIdentifier.*am\.baseSeed|am\.baseSeed.*o\.DKGIdentifier`, "the round's suite seed depends on the round identifier and the base seed", "suite seed lacks the round id or the base seed"},
	})
	fn := c.Fn("C04/R4", ch[0], ch[1], ch[2])
	if fn == nil {
		return
	}
	calls := callsIn(fn, "dkg.(DKG).InitDKGInstance")
	if len(calls) != 1 {
		r.Unknown("C04/R4", "airgapped.commits-handler:dealer-seed", "one InitDKGInstance call", c.Pos(fn.Pos()), sprintf("%d", len(calls)))
		return
	}
	p := npath(calls[0].Common().Args[1])
	ok := strings.Contains(p, "o.DKGIdentifier") && strings.Contains(p, "am.baseSeed")
	r.Check(ok, "C04/R4", "airgapped.commits-handler:dealer-seed", "the seed of the dealer-polynomial reader depends on the round identifier and the base seed", c.PosOf(calls[0]),
		"InitDKGInstance receives `"+p+"`: the reader kyber draws the secret polynomial from (frand.NewCustom(seed), UserReaderOnly) is seeded with the base seed alone — the same machine deals the same secret polynomial in every round of equal threshold, so rounds with the same participants share the group key and the shares")
	// and InitDKGInstance hands exactly that seed to the reader
	checkArgs(c, []argSpec{
		{"C04/R4", "dkg.InitDKGInstance:reader-seed", [3]string{"dkg", "DKG", "InitDKGInstance"}, "lukechampine.com/frand.NewCustom", 0, `^seed$`, "the reader is seeded with the caller's seed", "another seed"},
	})
}

func regexpMatch(pat, s string) (bool, error) {
	return regexpMatchString(pat, s)
}

var _ = sort.Strings
