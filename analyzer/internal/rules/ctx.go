// Package rules holds the per-property rule instances.
package rules

import (
	"fmt"
	"go/token"
	"go/types"
	"sort"
	"strings"

	"dcverif/internal/ssax"

	"dcverif/internal/fsmx"
	"dcverif/internal/load"
	"dcverif/internal/report"

	"golang.org/x/tools/go/ssa"
)

type Ctx struct {
	P        *load.Prog
	R        *report.Report
	Tier     string
	Variant  string
	mach     map[string]*fsmx.Machine
	siteIdx  map[ssa.CallInstruction][]*ssa.Function
	derives  []string
	c18info  map[string]*payloadInfo
	c18scope []*ssa.Function
	c18wire  map[*types.TypeName]bool
}

type RuleFunc func(c *Ctx)

var Registry = map[string]RuleFunc{}

func NewCtx(p *load.Prog, r *report.Report, tier string) *Ctx {
	c := &Ctx{P: p, R: r, Tier: tier}
	CustomJSONVerifier = c.verifyCustomJSON
	return c
}

// verifyCustomJSON accepts exactly the delegating idiom
//
//	func (x T) MarshalJSON() ([]byte, error)   { return json.Marshal(x.F) }
//	func (x *T) UnmarshalJSON(b []byte) error  { return json.Unmarshal(b, &x.F) }
//
// on the same field F (the shape of requests.FSMError). Anything else is not verified.
func (c *Ctx) verifyCustomJSON(t types.Type) string {
	n, ok := t.(*types.Named)
	if !ok || n.Obj().Pkg() == nil {
		return "not a named type"
	}
	rel := strings.TrimPrefix(strings.TrimPrefix(n.Obj().Pkg().Path(), load.Module), "/")
	mf := c.P.Func(rel, n.Obj().Name(), "MarshalJSON")
	uf := c.P.Func(rel, n.Obj().Name(), "UnmarshalJSON")
	if mf == nil || uf == nil {
		return "methods not found in SSA"
	}
	field := func(fn *ssa.Function, callee string, arg int) string {
		calls := ssax.CallsTo(fn, callee)
		if len(calls) != 1 || len(fn.Blocks) != 1 {
			return ""
		}
		p := ssax.Path(calls[0].Common().Args[arg])
		recv := fn.Params[0].Name()
		if strings.HasPrefix(p, recv+".") && !strings.Contains(p[len(recv)+1:], ".") && !strings.Contains(p, "(") {
			return p[len(recv)+1:]
		}
		return ""
	}
	mfld := field(mf, "encoding/json.Marshal", 0)
	ufld := field(uf, "encoding/json.Unmarshal", 1)
	if mfld == "" || ufld == "" {
		return "bodies are not single json.Marshal(x.F) / json.Unmarshal(b, &x.F) delegations"
	}
	if mfld != ufld {
		return "MarshalJSON encodes field " + mfld + " but UnmarshalJSON decodes into " + ufld
	}
	if st, ok := n.Underlying().(*types.Struct); ok && st.NumFields() != 1 {
		return "the pair carries only field " + mfld + " of a struct with more fields"
	}
	return ""
}

// Fn resolves an anchor function; an unresolved anchor is a failed obligation, not a skip.
func (c *Ctx) Fn(rule, rel, recv, name string) *ssa.Function {
	f := c.P.Func(rel, recv, name)
	if f == nil || len(f.Blocks) == 0 {
		id := rel + "." + name
		if recv != "" {
			id = rel + ".(" + recv + ")." + name
		}
		c.R.Unknown(rule, "anchor:"+id, "anchor function must resolve", "", "function "+id+" not found in the loaded program (renamed or removed): the rule cannot be evaluated")
		return nil
	}
	return f
}

func (c *Ctx) Pos(p token.Pos) string { return c.P.Pos(p) }

func (c *Ctx) PosOf(in ssa.Instruction) string {
	if in == nil {
		return "-"
	}
	if in.Pos().IsValid() {
		return c.P.Pos(in.Pos())
	}
	// fall back to the nearest positioned instruction in the block
	if b := in.Block(); b != nil {
		for _, x := range b.Instrs {
			if x.Pos().IsValid() {
				return c.P.Pos(x.Pos())
			}
		}
		return c.P.Pos(b.Parent().Pos())
	}
	return "-"
}

// Machines extracts (once) the three FSM tables.
func (c *Ctx) Machines(rule string) map[string]*fsmx.Machine {
	if c.mach != nil {
		return c.mach
	}
	c.mach = map[string]*fsmx.Machine{}
	for _, rel := range fsmx.MachinePkgs {
		m, err := fsmx.Extract(c.P, rel)
		if err != nil {
			c.R.Unknown(rule, "fsm-table:"+rel, "FSM table must be extractable", "", err.Error())
			continue
		}
		for _, u := range m.Undecided {
			c.R.Unknown(rule, "fsm-table:"+rel+":"+u, "FSM table entry must be a constant expression", "", u)
		}
		c.mach[rel] = m
	}
	return c.mach
}

func sortedKeys[V any](m map[string]V) []string {
	var out []string
	for k := range m {
		out = append(out, k)
	}
	sort.Strings(out)
	return out
}

func sprintf(f string, a ...interface{}) string { return fmt.Sprintf(f, a...) }
