// Package rules holds the per-property rule instances.
package rules

import (
	"fmt"
	"go/token"
	"sort"

	"dcverif/internal/fsmx"
	"dcverif/internal/load"
	"dcverif/internal/report"

	"golang.org/x/tools/go/ssa"
)

type Ctx struct {
	P       *load.Prog
	R       *report.Report
	Tier    string
	Variant string
	mach    map[string]*fsmx.Machine
	siteIdx map[ssa.CallInstruction][]*ssa.Function
}

type RuleFunc func(c *Ctx)

var Registry = map[string]RuleFunc{}

func NewCtx(p *load.Prog, r *report.Report, tier string) *Ctx {
	return &Ctx{P: p, R: r, Tier: tier}
}

// Fn resolves an anchor function; an unresolved anchor is a failed obligation, not a skip.
func (c *Ctx) Fn(rule, rel, recv, name string) *ssa.Function {
	f := c.P.Func(rel, recv, name)
	if f == nil || len(f.Blocks) == 0 {
		id := rel + "." + name
		if recv != "" {
			id = rel + ".(" + recv + ")." + name
		}
		c.R.Unknown(rule, "anchor:"+id, "anchor function must resolve", "", "function "+id+" not found in the loaded program (renamed or removed): the rule cannot be evaluated")
		return nil
	}
	return f
}

func (c *Ctx) Pos(p token.Pos) string { return c.P.Pos(p) }

func (c *Ctx) PosOf(in ssa.Instruction) string {
	if in == nil {
		return "-"
	}
	if in.Pos().IsValid() {
		return c.P.Pos(in.Pos())
	}
	// fall back to the nearest positioned instruction in the block
	if b := in.Block(); b != nil {
		for _, x := range b.Instrs {
			if x.Pos().IsValid() {
				return c.P.Pos(x.Pos())
			}
		}
		return c.P.Pos(b.Parent().Pos())
	}
	return "-"
}

// Machines extracts (once) the three FSM tables.
func (c *Ctx) Machines(rule string) map[string]*fsmx.Machine {
	if c.mach != nil {
		return c.mach
	}
	c.mach = map[string]*fsmx.Machine{}
	for _, rel := range fsmx.MachinePkgs {
		m, err := fsmx.Extract(c.P, rel)
		if err != nil {
			c.R.Unknown(rule, "fsm-table:"+rel, "FSM table must be extractable", "", err.Error())
			continue
		}
		for _, u := range m.Undecided {
			c.R.Unknown(rule, "fsm-table:"+rel+":"+u, "FSM table entry must be a constant expression", "", u)
		}
		c.mach[rel] = m
	}
	return c.mach
}

func sortedKeys[V any](m map[string]V) []string {
	var out []string
	for k := range m {
		out = append(out, k)
	}
	sort.Strings(out)
	return out
}

func sprintf(f string, a ...interface{}) string { return fmt.Sprintf(f, a...) }
