package rules

import (
	"go/token"
	"go/types"
	"sort"
	"strings"

	"dcverif/internal/load"
	"dcverif/internal/ssax"

	"golang.org/x/tools/go/ssa"
)

func init() { Registry["C10"] = C10 }

// C10 — a participant's contribution can only come from that participant, round and step.
func C10(c *Ctx) {
	r := c.R
	r.Explain = "Decided statically: (R1) sender binding — on every path of node.processMessage to Do(message.Event, request) there is an equality test between the participant id carried by the request and the id registered for message.SenderAddr whose failure edge returns an error, and the extraction covers every request type that carries a ParticipantId; " +
		"(R2) envelope binding — the bytes covered by the signature (storage.Message.Bytes) include the event name and the round identifier, so a signed message is effective only for the step and round its author produced it for; (R3) inside the FSM the record mutated and written back is the one addressed by request.ParticipantId, under the phase's status gate; " +
		"(R4) every request the airgapped machine builds names the machine's own participant id; (R5) verification cannot be left switched off (skip switch pairing, C09/R3); (R7) the sender is authenticated at all: C09/R1 and C09/R2 re-evaluated under this property. " +
		"NOT decided: ed25519; the (S,P)/replay quantifier as executed cases."
	r.Trusted = []string{"crypto/ed25519", "go/ssa"}
	r.Rule("C10/R1", "sender binding: request.ParticipantId == IDs[message.SenderAddr] before the FSM event; all request types covered", 3)
	r.Rule("C10/R2", "envelope binding: signed bytes cover event and round id", 2)
	r.Rule("C10/R3", "participant addressing inside the FSM (status gates and write-back under request.ParticipantId)", 30)
	r.Rule("C10/R4", "airgapped requests carry the machine's own participant id", 6)
	r.Rule("C10/R5", "verification cannot stay switched off after reinit", 2)
	r.Rule("C10/R6", "step binding by payload: each DKG contribution request is valid only with its own step's non-empty field (the event name is not signed, F-C10-2, so this is what keeps a message of another step from being accepted as this step's)", 4)
	r.Rule("C10/R7", "the sender named in a message is authenticated: effects only behind verifyMessage, which accepts only a valid ed25519 signature under the key registered for message.SenderAddr (= C09/R1, C09/R2)", 12)
	r.Rule("C10/R8", "the unsigned reinit path is confined to the round it is posted for: reinitDKG acts only if the body's dkg_id is non-empty and equals the envelope's round id, and replays (without signature checks) only embedded messages of that round", 3)
	nonEmptyContributionAs(c, "C10/R6")
	c10SenderBinding(c)
	c10Envelope(c)
	ms := c.Machines("C10/A1")
	if len(ms) == 3 {
		for _, gs := range c05Gates {
			checkGate(c, "C10/R3", ms, gs)
		}
		checkGate(c, "C10/R3", ms, gateSpec{pkgSIF, evPartialSign, "SigningParticipantStatus", "SigningAwaitPartialSigns", []string{"SigningPartialSignsConfirmed"}, "SigningQuorumExists"})
		checkGate(c, "C10/R3", ms, gateSpec{pkgSIF, evPartialSignError, "SigningParticipantStatus", "SigningAwaitPartialSigns", []string{"SigningError"}, "SigningQuorumExists"})
	}
	own := `^(am\.dkgInstances\[o\.DKGIdentifier\]#0\.ParticipantID|am\.getParticipantID\(o\.DKGIdentifier\)#0|dkg\.Init\(.*\)\.ParticipantID)$`
	checkStores(c, []storeSpec{
		{"C10/R4", "airgapped.commits-handler:ParticipantId", [3]string{"airgapped", "Machine", "handleStateDkgCommitsAwaitConfirmations"}, "DKGProposalCommitConfirmationRequest", "ParticipantId", own, "the commit request names this machine's participant", "foreign id"},
		{"C10/R4", "airgapped.deals-handler:ParticipantId", [3]string{"airgapped", "Machine", "handleStateDkgDealsAwaitConfirmations"}, "DKGProposalDealConfirmationRequest", "ParticipantId", own, "deal requests name this machine's participant", "foreign id"},
		{"C10/R4", "airgapped.responses-handler:ParticipantId", [3]string{"airgapped", "Machine", "handleStateDkgResponsesAwaitConfirmations"}, "DKGProposalResponseConfirmationRequest", "ParticipantId", own, "the response request names this machine's participant", "foreign id"},
		{"C10/R4", "airgapped.master-key-handler:ParticipantId", [3]string{"airgapped", "Machine", "handleStateDkgMasterKeyAwaitConfirmations"}, "DKGProposalMasterKeyConfirmationRequest", "ParticipantId", own, "the key announcement names this machine's participant", "foreign id"},
		{"C10/R4", "airgapped.signing-handler:ParticipantId", [3]string{"airgapped", "Machine", "handleStateSigningAwaitPartialSigns"}, "SigningProposalBatchPartialSignRequests", "ParticipantId", own, "partial signatures name this machine's participant", "foreign id"},
		{"C10/R4", "airgapped.error-request:ParticipantId", [3]string{"airgapped", "Machine", "writeErrorRequestToOperation"}, "DKGProposalConfirmationErrorRequest", "ParticipantId", own, "error reports name this machine's participant", "foreign id"},
	})
	// R5: reuse the skip-switch rules under this property's id
	before := len(r.Obs)
	c09Skip(c)
	for _, o := range r.Obs[before:] {
		o.Rule = "C10/R5"
	}
	c10ReinitConfined(c)
	// R7: the binding to the sender means something only if the sender's signature is checked: reuse C09/R1 (no effect
	// before verification) and C09/R2 (verifyMessage accepts only a valid signature by the sender's registered key)
	before = len(r.Obs)
	c09Effects(c)
	c09Verify(c)
	for _, o := range r.Obs[before:] {
		o.Rule = "C10/R7"
	}
}

func c10SenderBinding(c *Ctx) {
	r := c.R
	fn := c.Fn("C10/R1", pkgNode, "BaseNodeService", "processMessage")
	if fn == nil {
		return
	}
	var mainDo ssa.CallInstruction
	for _, call := range ssax.CallsTo(fn, load.Module+"/fsm/state_machines.(FSMInstance).Do") {
		if strings.HasSuffix(ssax.Path(call.Common().Args[1]), "message.Event") {
			mainDo = call
		}
	}
	if mainDo == nil {
		r.Unknown("C10/R1", "node.processMessage:main-do", "the handler dispatches message.Event to the FSM", c.Pos(fn.Pos()), "Do(message.Event, …) not found")
		return
	}
	// id comparison: X = result#0 of GetIDByUsername(message.SenderAddr), Y = an int derived from the request
	var eq []ssax.Edge
	var helper *ssa.Function
	var helperCall ssa.CallInstruction
	for _, cd := range ssax.Conds(fn) {
		if cd.Op != token.EQL && cd.Op != token.NEQ {
			continue
		}
		for _, pr := range [][2]ssa.Value{{cd.X, cd.Y}, {cd.Y, cd.X}} {
			a, b := ssax.Path(pr[0]), ssax.Path(pr[1])
			if strings.HasSuffix(a, ".GetIDByUsername(message.SenderAddr)#0") && strings.Contains(b, "FSMRequestFromMessage(message)#0") {
				e, _ := cd.EdgeWhere(token.EQL)
				eq = append(eq, e)
				if ex, ok := ssax.Resolve(pr[1]).(*ssa.Extract); ok {
					if call, ok := ex.Tuple.(*ssa.Call); ok {
						helper = call.Common().StaticCallee()
						helperCall = call
					}
				}
			}
		}
	}
	if len(eq) == 0 {
		r.Fail("C10/R1", "node.processMessage:sender-binding", "the request's participant id is compared with the id registered for message.SenderAddr", c.PosOf(mainDo),
			"no comparison between GetIDByUsername(message.SenderAddr) and the request's ParticipantId exists before Do(message.Event, request): the sender name is used for the key lookup only, so participant S can sign {ParticipantId: P} and act in P's name")
		return
	}
	cut := append([]ssax.Edge{}, eq...)
	if helperCall != nil {
		cut = append(cut, ssax.BoolEdgesOfCall(fn, helperCall, 1, false)...) // request types without a participant id
	}
	r.Check(!ssax.ReachableAvoiding(fn, mainDo, cut, nil), "C10/R1", "node.processMessage:sender-binding", "the FSM event is reached only when the request's participant id equals the sender's registered id (or the request type has no participant id)", c.PosOf(mainDo),
		"Do(message.Event, request) is reachable without passing the id comparison")
	// the lookup's error edge returns
	for _, lk := range ssax.Calls(fn, false, func(ci ssa.CallInstruction) bool {
		o := ssax.CalleeObj(ci)
		return o != nil && o.Name() == "GetIDByUsername"
	}) {
		ne := ssax.NilErrEdgesOfCall(fn, lk)
		r.Check(len(ne) > 0 && !ssax.ReachableFrom(fn, lk, mainDo, ne, nil), "C10/R1", "node.processMessage:unknown-sender-id", "a sender without a registered id is rejected", c.PosOf(lk), "Do reachable after a failed id lookup")
	}
	// coverage of the helper
	if helper == nil {
		r.Unknown("C10/R1", "node.processMessage:id-extraction", "the participant id is extracted by a resolvable helper", c.PosOf(mainDo), "extraction not recognised")
		return
	}
	conv := c.Fn("C10/R1", pkgTypes, "", "FSMRequestFromMessage")
	if conv == nil {
		return
	}
	need := map[string]bool{}
	for _, cf := range c.moduleClosure(conv) {
		ssax.Instrs(cf, func(in ssa.Instruction) {
			if mi, ok := in.(*ssa.MakeInterface); ok {
				if st, ok := mi.X.Type().Underlying().(*types.Struct); ok {
					for i := 0; i < st.NumFields(); i++ {
						if st.Field(i).Name() == "ParticipantId" {
							need[types.TypeString(mi.X.Type(), nil)] = true
						}
					}
				}
			}
		})
	}
	have := map[string]bool{}
	ssax.Instrs(helper, func(in ssa.Instruction) {
		if ta, ok := in.(*ssa.TypeAssert); ok {
			have[types.TypeString(ta.AssertedType, nil)] = true
		}
	})
	var missing []string
	for t := range need {
		if !have[t] {
			missing = append(missing, strings.ReplaceAll(t, load.Module+"/", ""))
		}
	}
	sort.Strings(missing)
	r.Check(len(need) >= 8 && len(missing) == 0, "C10/R1", "node."+helper.Name()+":covers-all-request-types", "every request type that carries a ParticipantId is bound to the sender", c.Pos(helper.Pos()),
		"request types produced by FSMRequestFromMessage with a ParticipantId but not handled by the extraction: "+strings.Join(missing, ", ")+" — messages of these types could still be sent in another participant's name")
	// each case returns that request's own ParticipantId
	bad := false
	for _, ret := range ssax.Returns(helper) {
		if len(ret.Results) != 2 {
			continue
		}
		if k, ok := ssax.ConstOf(ret.Results[1]); ok && k.String() == "true" {
			if !strings.HasSuffix(ssax.Path(ret.Results[0]), ".ParticipantId") {
				bad = true
			}
		}
	}
	r.Check(!bad, "C10/R1", "node."+helper.Name()+":returns-participant-id", "the value compared is the request's ParticipantId field", c.Pos(helper.Pos()), "a case returns something else than req.ParticipantId")
}

func c10Envelope(c *Ctx) {
	r := c.R
	fn := c.Fn("C10/R2", "storage", "Message", "Bytes")
	if fn == nil {
		return
	}
	covered := map[string]bool{}
	ssax.Instrs(fn, func(in ssa.Instruction) {
		if call, ok := in.(ssa.CallInstruction); ok {
			for _, a := range call.Common().Args {
				p := ssax.Path(a)
				for _, f := range []string{"Data", "Event", "DkgRoundID", "SenderAddr", "RecipientAddr"} {
					if strings.Contains(p, "m."+f) {
						covered[f] = true
					}
				}
			}
		}
	})
	r.Check(covered["Data"], "C10/R2", "storage.(*Message).Bytes:covers:Data", "the signature covers the payload", c.Pos(fn.Pos()), "Data not covered")
	r.Check(covered["Event"] && covered["DkgRoundID"], "C10/R2", "storage.(*Message).Bytes:covers:Event+DkgRoundID", "the signature covers the event name and the round identifier", c.Pos(fn.Pos()),
		sprintf("signed bytes = Data only (Event covered=%v, DkgRoundID covered=%v): confirm/decline share one request type, the four DKG error events share one, and any round with the same keys accepts the same bytes — a genuine message copied into another round or re-posted under another event name verifies", covered["Event"], covered["DkgRoundID"]))
}

// c10ReinitConfined: reinitDKG is reached without any signature check (C09 exempts the reinit message, which is confirmed
// out of band for ITS round). It must not be able to touch another round: the body's dkg_id is tested non-empty and equal
// to the envelope's DkgRoundID before any effect, and an embedded message is replayed only if it belongs to that round.
func c10ReinitConfined(c *Ctx) {
	r := c.R
	fn := c.Fn("C10/R8", pkgNode, "BaseNodeService", "reinitDKG")
	if fn == nil {
		return
	}
	isEffect := func(f *ssa.Function) bool { return isDurableSink(f) || isFSMDo(f) }
	var effects []ssa.CallInstruction
	var replays []ssa.CallInstruction
	for _, call := range ssax.Calls(fn, false, func(ssa.CallInstruction) bool { return true }) {
		if _, isDefer := call.(*ssa.Defer); isDefer {
			continue
		}
		if o := ssax.CalleeObj(call); o != nil && o.Name() == "processMessage" {
			replays = append(replays, call)
		}
		if _, ok := c.siteReaches(call, isEffect); ok {
			// reading whether the round exists is not an effect
			if o := ssax.CalleeObj(call); o != nil && (o.Name() == "IsExist") {
				continue
			}
			effects = append(effects, call)
		}
	}
	isBodyID := func(p string) bool { return p == "json(message.Data).DKGID" }
	var same, sameMsg []ssax.Edge
	for _, cd := range ssax.Conds(fn) {
		if cd.Op != token.EQL && cd.Op != token.NEQ {
			continue
		}
		a, b := npath(cd.X), npath(cd.Y)
		e, _ := cd.EdgeWhere(token.EQL)
		if (isBodyID(a) && b == "message.DkgRoundID") || (isBodyID(b) && a == "message.DkgRoundID") {
			same = append(same, e)
		}
		isEmb := func(p string) bool {
			return strings.HasPrefix(p, "json(message.Data).Messages[") && strings.HasSuffix(p, ".DkgRoundID")
		}
		if (isEmb(a) && (isBodyID(b) || b == "message.DkgRoundID")) || (isEmb(b) && (isBodyID(a) || a == "message.DkgRoundID")) {
			sameMsg = append(sameMsg, e)
		}
	}
	okSame := len(same) > 0 && len(effects) >= 3
	where := ""
	for _, e := range effects {
		if ssax.ReachableAvoiding(fn, e.(ssa.Instruction), same, nil) {
			okSame, where = false, callName(e)+" at "+c.PosOf(e.(ssa.Instruction))
		}
	}
	r.Check(okSame, "C10/R8", "node.reinitDKG:own-round-only", "reinitDKG acts only when the body's dkg_id equals the envelope's round id", c.Pos(fn.Pos()),
		sprintf("%d equality tests between json(message.Data).DKGID and message.DkgRoundID, %d effect calls; %s is reachable without passing one: an unsigned reinit message posted for one round replaces the stored state of another, existing round", len(same), len(effects), where))
	// a round this node already holds is left exactly as it is: the (unsigned, unconfirmed on this path) reinit message has
	// no effect at all when the round exists — in particular it cannot re-register anybody's communication key
	var existEdges []ssax.Edge
	for _, call := range ssax.Calls(fn, false, func(ci ssa.CallInstruction) bool { o := ssax.CalleeObj(ci); return o != nil && o.Name() == "IsExist" }) {
		existEdges = append(existEdges, ssax.BoolEdgesOfCall(fn, call, 0, true)...)
	}
	okExist, whereExist := len(existEdges) > 0, ""
	for _, ee := range existEdges {
		dest := ee.From.Succs[ee.Succ]
		if len(dest.Instrs) == 0 {
			continue
		}
		for _, e := range effects {
			if dest.Instrs[0] == e.(ssa.Instruction) || ssax.ReachableFrom(fn, dest.Instrs[0], e.(ssa.Instruction), nil, nil) {
				okExist, whereExist = false, callName(e)+" at "+c.PosOf(e.(ssa.Instruction))
			}
		}
	}
	r.Check(okExist, "C10/R8", "node.reinitDKG:existing-round-untouched", "a reinit message for a round the node already holds has no effect", c.Pos(fn.Pos()),
		sprintf("%d tests of IsExist's answer; on the round-exists side %s is reachable: an unsigned reinit message posted by any participant rewrites a live round (e.g. registers the poster's key under another participant's name, after which the poster speaks for that participant)", len(existEdges), whereExist))
	empty := emptyEdges(fn, isBodyID)
	okEmpty := len(empty) > 0
	for _, ee := range empty {
		dest := ee.From.Succs[ee.Succ]
		for _, e := range effects {
			if len(dest.Instrs) > 0 && (dest.Instrs[0] == e.(ssa.Instruction) || ssax.ReachableFrom(fn, dest.Instrs[0], e.(ssa.Instruction), nil, nil)) {
				okEmpty = false
			}
		}
	}
	r.Check(okEmpty, "C10/R8", "node.reinitDKG:round-id-not-empty", "a reinit message without a round id is refused before any effect", c.Pos(fn.Pos()),
		"no test of json(message.Data).DKGID against the empty string that keeps the effects from running: the embedded messages are replayed with verification off and saved although the message is finally refused")
	okReplay := len(replays) == 1 && len(sameMsg) > 0
	for _, rp := range replays {
		if ssax.ReachableAvoiding(fn, rp.(ssa.Instruction), sameMsg, nil) {
			okReplay = false
		}
	}
	r.Check(okReplay, "C10/R8", "node.reinitDKG:replay-own-round-only", "an embedded message is replayed (signature checks off) only if it belongs to the round being reinitialized", c.Pos(fn.Pos()),
		sprintf("%d replay calls, %d tests of the embedded message's DkgRoundID against the reinitialized round; the replay is reachable without one: forged messages for other, live rounds are applied without any signature check", len(replays), len(sameMsg)))
}
