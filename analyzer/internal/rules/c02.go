package rules

import (
	"strings"

	"dcverif/internal/ssax"

	"golang.org/x/tools/go/ssa"
)

func init() { Registry["C02"] = C02 }

// C02 — key generation ends with one group key and mutually consistent shares.
func C02(c *Ctx) {
	r := c.R
	r.Explain = "Decided statically: (R1) agreement of what nodes retain: every per-participant announcement the round depends on is compared across participants before the round becomes signing-ready — the master keys are compared all-vs-first to completion with a mismatch cancelling (shared with C05/R7); a round-global slot written from a request (the public polynomial) must be guarded by equality with its previous value or be compared by the validator; " +
		"(R2) one keyring: the share saved, the polynomial announced and the group key announced derive from the same certified DKG instance (GetBLSKeyring: PubPoly from DistKeyShare().Commitments(), Share from the same DistKeyShare().PriShare(); MasterKey from DistKeyShare().Public()); " +
		"(R3) the share is saved only when certified (ProcessResponses/GetBLSKeyring succeeded) and the handler yields the announcement or an error, never both; (R4) the same threshold is used for generation and for the hot nodes (C01/R4). " +
		"NOT decided: Pedersen DKG mathematics (shares lie on the polynomial, t-1 insufficiency), schedules."
	r.Trusted = []string{"corestario/kyber share/dkg/pedersen, share.PubPoly", "go/ssa value provenance"}
	r.Rule("C02/R1", "announcements the round depends on are compared across participants; no unguarded last-writer-wins slot", 3)
	r.Rule("C02/R2", "saved share, announced polynomial and announced key come from one certified instance", 6)
	r.Rule("C02/R3", "share saved only when certified; announcement xor error", 6)
	r.Rule("C02/R4", "key generation threshold is the proposal's", 3)
	ms := c.Machines("C02/A1")
	if len(ms) != 3 {
		return
	}
	m := ms[pkgDPF]
	// ---- R1
	if fn := m.Callbacks["event_dkg_master_key_validate_internal"]; fn != nil {
		// reuse C05/R7 under this property's rule id
		save := r.Obs
		c05Mismatch(c, m, fn)
		for _, o := range r.Obs[len(save):] {
			o.Rule = "C02/R1"
		}
	}
	if cb := m.Callbacks["event_dkg_master_key_confirm_received"]; cb != nil {
		// stores of request-derived bytes into round-global slots (fields of DKGConfirmation, not of the participant record)
		n := 0
		ssax.Instrs(cb, func(in ssa.Instruction) {
			st, ok := in.(*ssa.Store)
			if !ok {
				return
			}
			fa, ok := st.Addr.(*ssa.FieldAddr)
			if !ok || ssax.OwnerName(fa) != "DKGConfirmation" {
				return
			}
			vp := ssax.Path(st.Val)
			if !strings.Contains(vp, "args[0]") || strings.HasSuffix(vp, ".CreatedAt") {
				return // timestamps are projected away by the property
			}
			n++
			field := ssax.FieldOf(fa).Name()
			// guarded by equality with the previous value (or slot empty)?
			guarded := false
			for _, cd := range ssax.Conds(cb) {
				var a, b string
				switch {
				case cd.Y != nil:
					a, b = ssax.Path(cd.X), ssax.Path(cd.Y)
				default:
					if call, isCall := ssax.Resolve(cd.X).(*ssa.Call); isCall && len(call.Common().Args) == 2 {
						a, b = ssax.Path(call.Common().Args[0]), ssax.Path(call.Common().Args[1])
					}
				}
				if (strings.HasSuffix(a, ".DKGProposalPayload."+field) && strings.Contains(b, "args[0]")) || (strings.HasSuffix(b, ".DKGProposalPayload."+field) && strings.Contains(a, "args[0]")) {
					guarded = true
				}
			}
			// or compared by the validator across participants
			compared := false
			if v := m.Callbacks["event_dkg_master_key_validate_internal"]; v != nil {
				ssax.Instrs(v, func(in2 ssa.Instruction) {
					if call, ok := in2.(ssa.CallInstruction); ok {
						id := ssax.FuncID(ssax.CalleeObj(call))
						if id == "reflect.DeepEqual" || id == "bytes.Equal" {
							for _, a := range call.Common().Args {
								if strings.Contains(ssax.Path(a), field) {
									compared = true
								}
							}
						}
					}
				})
			}
			// a slot that is filled only while it is empty (or only under some other test of its own content) keeps one
			// participant's value and ignores the others' — a different defect from overwriting, reported as such
			if !guarded && !compared {
				for _, cd := range ssax.Conds(cb) {
					px, py := ssax.Path(cd.X), ""
					if cd.Y != nil {
						py = ssax.Path(cd.Y)
					}
					if !(strings.Contains(px, ".DKGProposalPayload."+field) || strings.Contains(py, ".DKGProposalPayload."+field)) {
						continue
					}
					for _, succ := range []int{0, 1} {
						if !ssax.ReachableAvoiding(cb, st, []ssax.Edge{{From: cd.If.Block(), Succ: succ}}, nil) {
							r.Fail("C02/R1", "dkg_proposal_fsm.actionMasterKeyConfirmationReceived:DKGProposalPayload."+field+":kept-from-one-announcement", "a round-global value taken from one participant's announcement is checked against the others'", c.PosOf(st),
								"DKGProposalPayload."+field+" is assigned only under a test of its own content at "+c.PosOf(cd.If)+" (filled while empty): the node retains the FIRST value announced and never compares it with the others — a deviating announcement that arrives first is retained by every node")
							return
						}
					}
				}
			}
			r.Check(guarded || compared, "C02/R1", "dkg_proposal_fsm.actionMasterKeyConfirmationReceived:DKGProposalPayload."+field, "a round-global value taken from one participant's announcement is checked against the others'", c.PosOf(st),
				"DKGProposalPayload."+field+" = request."+field+" is last-writer-wins: it is neither guarded by equality with the previously announced value nor compared by the validator, so nodes retain whatever arrived last and a deviating announcement (same group key, different polynomial) is accepted")
		})
		if n == 0 {
			r.Unknown("C02/R1", "dkg_proposal_fsm.actionMasterKeyConfirmationReceived:global-slots", "the announcement's round-global data is recorded", c.Pos(cb.Pos()), "no store of request data into DKGConfirmation found")
		}
	}
	// ---- R2
	mk := [3]string{"airgapped", "Machine", "handleStateDkgMasterKeyAwaitConfirmations"}
	inst := `am\.dkgInstances\[o\.DKGIdentifier\]#0`
	checkStores(c, []storeSpec{
		{"C02/R2", "airgapped.master-key-handler:announced-key", mk, "DKGProposalMasterKeyConfirmationRequest", "MasterKey", `^` + inst + `\.GetDistributedPublicKey\(\)#0\.MarshalBinary\(\)#0$`, "the announced group key is this round's instance's distributed public key", "key from another object"},
		{"C02/R2", "airgapped.master-key-handler:announced-polynomial", mk, "DKGProposalMasterKeyConfirmationRequest", "PubPolyBz", `^` + inst + `\.GetBLSKeyring\(\)#0\.PubPolyBytes\(\)#0$`, "the announced polynomial is the public part of the keyring that was saved", "polynomial from another object (or the private encoding)"},
		{"C02/R2", "dkg.GetBLSKeyring:PubPoly", [3]string{"dkg", "DKG", "GetBLSKeyring"}, "BLSKeyring", "PubPoly", `^share\.NewPubPoly\(d\.suite, nil, d\.instance\.DistKeyShare\(\)#0\.Commitments\(\)\)$`, "the public polynomial is built from the certified share's commitments", "polynomial from another source"},
		{"C02/R2", "dkg.GetBLSKeyring:Share", [3]string{"dkg", "DKG", "GetBLSKeyring"}, "BLSKeyring", "Share", `^d\.instance\.DistKeyShare\(\)#0\.PriShare\(\)$`, "the private share is the certified share of the same DistKeyShare", "share from another source"},
	})
	checkArgs(c, []argSpec{
		{"C02/R2", "airgapped.master-key-handler:saved-keyring", mk, "airgapped.(Machine).saveBLSKeyring", 2, `^` + inst + `\.GetBLSKeyring\(\)#0$`, "the keyring saved is the one whose public part is announced", "different keyring saved"},
		{"C02/R2", "airgapped.master-key-handler:saved-round", mk, "airgapped.(Machine).saveBLSKeyring", 1, `^o\.DKGIdentifier$`, "saved under this round's id", "saved under another id"},
	})
	if fn := c.Fn("C02/R2", "dkg", "DKG", "GetDistributedPublicKey"); fn != nil {
		ok := false
		for _, ret := range ssax.Returns(fn) {
			if len(ret.Results) == 2 && npath(ret.Results[0]) == "d.instance.DistKeyShare()#0.Public()" {
				ok = true
			}
		}
		r.Check(ok, "C02/R2", "dkg.GetDistributedPublicKey:source", "the group key is DistKeyShare().Public() of the same instance", c.Pos(fn.Pos()), "return value not DistKeyShare().Public()")
	}
	// ---- R3
	c11SaveShare(c, "C02/R3")
	if hf := c.Fn("C02/R3", "airgapped", "Machine", "handleStateDkgMasterKeyAwaitConfirmations"); hf != nil {
		var appends []ssa.Instruction
		ssax.Instrs(hf, func(in ssa.Instruction) {
			if st, ok := in.(*ssa.Store); ok && strings.HasSuffix(ssax.Path(st.Addr), ".ResultMsgs") {
				appends = append(appends, in)
			}
		})
		bad := ""
		for _, a := range appends {
			for _, ret := range ssax.Returns(hf) {
				if len(ret.Results) != 1 {
					continue
				}
				// (`return helper(…)` with the helper expanded returns a merge: every alternative is judged where it is chosen)
				for _, lf := range ssax.Leaves(ret.Results[0], ret) {
					if !ssax.IsNilConst(ssax.Resolve(lf.V)) && (lf.At == a || ssax.ReachableFrom(hf, a, lf.At, nil, nil)) {
						bad = c.PosOf(ret)
					}
				}
			}
		}
		r.Check(len(appends) == 1 && bad == "", "C02/R3", "airgapped.master-key-handler:announcement-xor-error", "the key announcement is produced only when nothing can fail afterwards (so a machine that could not store its share never confirms)", c.Pos(hf.Pos()),
			"an error return at "+bad+" is reachable after the announcement was appended: the node would post both, every FSM accepts the confirmation and rejects the error, and the round becomes signing-ready while this machine holds no share")
	}
	// ---- R5: the polynomial a reinitialised round retains is the airgapped machine's answer
	r.Rule("C02/R5", "the polynomial written back for a reinitialised round is the submitted answer's ExtraData", 1)
	if ex := c.Fn("C02/R5", pkgNode, "BaseNodeService", "executeOperation"); ex != nil {
		var stores []*ssa.Store
		ssax.Instrs(ex, func(in ssa.Instruction) {
			if st, ok := in.(*ssa.Store); ok && strings.HasSuffix(ssax.Path(st.Addr), ".DKGProposalPayload.PubPolyBz") {
				stores = append(stores, st)
			}
		})
		ok := len(stores) == 1 && ssax.Path(stores[0].Val) == "operation.ExtraData"
		detail := sprintf("%d stores", len(stores))
		if len(stores) == 1 {
			detail = "PubPolyBz := " + ssax.Path(stores[0].Val)
		}
		r.Check(ok, "C02/R5", "node.executeOperation:retained-polynomial", "the round's polynomial is set from the ExtraData of the operation as submitted (the airgapped machine's public polynomial)", c.Pos(ex.Pos()),
			detail+" — the stored operation's ExtraData holds the reinit message hash, not a polynomial: every hot node would retain garbage and no signature could be reconstructed")
	}
	// ---- R4
	thresholdWriters(c, "C02/R4")
	checkArgs(c, []argSpec{
		{"C02/R4", "dkg.InitDKGInstance:threshold", [3]string{"dkg", "DKG", "InitDKGInstance"}, "github.com/corestario/kyber/share/dkg/pedersen.NewDistKeyGenerator", 3, `^d\.Threshold$`, "the polynomial degree is the configured threshold - 1", "threshold rewritten"},
		{"C02/R4", "dkg.InitDKGInstance:participants", [3]string{"dkg", "DKG", "InitDKGInstance"}, "github.com/corestario/kyber/share/dkg/pedersen.NewDistKeyGenerator", 2, `^d\.pubKeys\.GetPKs\(\)$`, "all registered participants take part, in participant-id order", "participant list changed"},
	})
}
