package rules

import (
	"go/constant"
	"go/token"
	"go/types"
	"sort"
	"strings"

	"dcverif/internal/load"
	"dcverif/internal/ssax"

	"golang.org/x/tools/go/ssa"
)

func init() { Registry["C16"] = C16 }

const pkgFS = "storage/file_storage"

// C16 — the file bulletin board is an append-only, gap-free, totally ordered log.
func C16(c *Ctx) {
	r := c.R
	r.Explain = "Decided statically on package storage/file_storage: (R1) in send(), the success edge of fslock.(*Lock).Lock dominates seek, line count, marshal and the single write; Unlock is deferred before any of them; the stored Offset is exactly countLines(fs.dataFile) taken after Seek(0,0) and before Marshal; " +
		"(R2) the data file is opened once with O_APPEND|O_CREATE and nothing in the package truncates, rewrites, renames or removes it (who-may-call census of os/*os.File mutators); a message line cannot contain a raw newline (storage.Message has only json-escaped kinds, no custom marshaler); " +
		"(R3) every bufio.Scanner over the data file uses the same maximum token size, so writer (offset counter) and reader agree on what a line is; " +
		"(R4) GetMessages skips exactly `offset` lines before any filtering, appends in file order, filters only by the two ignore sets; Send stops at the first error and keeps order. " +
		"NOT decided: flock semantics across processes, kernel O_APPEND atomicity, scheduler interleavings (the lock discipline is the necessary condition checked)."
	r.Trusted = []string{"juju/fslock = flock(2) exclusive lock per open file description", "O_APPEND semantics", "encoding/json escapes control characters", "bufio.Scanner semantics"}
	r.Rule("C16/R1", "send(): lock success dominates seek/count/marshal/write; deferred unlock; Offset := countLines(dataFile) after Seek(0,0), before Marshal; one write", 8)
	r.Rule("C16/R2", "append-only: single OpenFile with O_APPEND|O_CREATE; no truncating/rewriting call in the package; one JSON line per message", 4)
	r.Rule("C16/R3", "all scanners over the data file share one maximum line size", 2)
	r.Rule("C16/R4", "GetMessages skips exactly offset lines first, filters only by the ignore sets; Send is ordered and stops at the first error", 5)

	send := c.Fn("C16/R1", pkgFS, "FileStorage", "send")
	if send != nil {
		c16Send(c, send)
	}
	c16AppendOnly(c)
	c16Scanners(c)
	c16LockPath(c)
	c16Read(c)
}

func c16Send(c *Ctx, fn *ssa.Function) {
	r := c.R
	locks := ssax.CallsTo(fn, "github.com/juju/fslock.(Lock).Lock")
	if len(locks) != 1 {
		r.Fail("C16/R1", "file_storage.send:lock", "send takes the inter-process file lock (fslock.Lock) exactly once", c.Pos(fn.Pos()),
			sprintf("%d calls to fslock.(*Lock).Lock found: the count-then-append critical section is not protected by the flock-based lock shared by all handles and processes", len(locks)))
		return
	}
	lock := locks[0]
	r.Check(strings.HasSuffix(ssax.Path(lock.Common().Args[0]), "fs.lockFile"), "C16/R1", "file_storage.send:lock-object", "the lock taken is the storage's lockFile", c.PosOf(lock), "lock receiver is "+ssax.Path(lock.Common().Args[0]))
	okEdges := ssax.NilErrEdgesOfCall(fn, lock)
	// deferred unlock
	var unlocks []ssa.Instruction
	ssax.Instrs(fn, func(in ssa.Instruction) {
		if d, ok := in.(*ssa.Defer); ok && ssax.FuncID(ssax.CalleeObj(d)) == "github.com/juju/fslock.(Lock).Unlock" {
			unlocks = append(unlocks, in)
		}
	})
	type site struct {
		name string
		in   ssa.Instruction
	}
	var sites []site
	for _, call := range ssax.Calls(fn, false, func(ssa.CallInstruction) bool { return true }) {
		id := ssax.FuncID(ssax.CalleeObj(call))
		switch {
		case id == "os.(File).Seek":
			sites = append(sites, site{"seek", call})
		case id == load.Module+"/"+pkgFS+".countLines":
			sites = append(sites, site{"count", call})
		case id == "encoding/json.Marshal":
			sites = append(sites, site{"marshal", call})
		case isFileWrite(call):
			sites = append(sites, site{"write", call})
		}
	}
	byName := map[string][]ssa.Instruction{}
	for _, s := range sites {
		byName[s.name] = append(byName[s.name], s.in)
	}
	for _, n := range []string{"seek", "count", "marshal", "write"} {
		if len(byName[n]) != 1 {
			r.Fail("C16/R1", "file_storage.send:"+n, "send performs exactly one "+n+" step", c.Pos(fn.Pos()), sprintf("found %d", len(byName[n])))
			continue
		}
		in := byName[n][0]
		r.Check(len(okEdges) > 0 && !ssax.ReachableAvoiding(fn, in, okEdges, nil), "C16/R1", "file_storage.send:"+n+":under-lock", n+" happens only after the lock was acquired", c.PosOf(in),
			n+" is reachable without passing the success edge of lockFile.Lock(): two writers can count the same number of lines and assign the same offset")
		r.Check(len(unlocks) > 0 && !ssax.ReachableAvoiding(fn, in, nil, unlocks), "C16/R1", "file_storage.send:"+n+":unlock-deferred", "unlock is deferred before "+n, c.PosOf(in),
			"no `defer lockFile.Unlock()` precedes this step on every path: an early return would leave the board locked or the lock is released before the append")
	}
	// no explicit (non-deferred) unlock inside the section
	early := ssax.Calls(fn, false, func(ci ssa.CallInstruction) bool {
		_, isDefer := ci.(*ssa.Defer)
		return !isDefer && ssax.FuncID(ssax.CalleeObj(ci)) == "github.com/juju/fslock.(Lock).Unlock"
	})
	r.Check(len(early) == 0, "C16/R1", "file_storage.send:no-early-unlock", "the lock is released only by the deferred call (after the write)", c.Pos(fn.Pos()), "an explicit Unlock inside send can release the lock before the append")
	if len(byName["seek"]) == 1 && len(byName["count"]) == 1 && len(byName["marshal"]) == 1 && len(byName["write"]) == 1 {
		seek, count, marshal, write := byName["seek"][0].(ssa.CallInstruction), byName["count"][0].(ssa.CallInstruction), byName["marshal"][0].(ssa.CallInstruction), byName["write"][0].(ssa.CallInstruction)
		a := seek.Common().Args
		z1, ok1 := ssax.ConstInt(a[1])
		z2, ok2 := ssax.ConstInt(a[2])
		r.Check(ok1 && ok2 && z1 == 0 && z2 == 0 && strings.HasSuffix(ssax.Path(a[0]), "fs.dataFile"), "C16/R1", "file_storage.send:seek-start", "the count starts from the beginning of the data file: Seek(0,0)", c.PosOf(seek), "Seek arguments are not (0, io.SeekStart) on fs.dataFile")
		seekOK := ssax.NilErrEdgesOfCall(fn, seek)
		r.Check(len(seekOK) > 0 && !ssax.ReachableAvoiding(fn, count, seekOK, nil), "C16/R1", "file_storage.send:order:seek<count", "lines are counted only after a successful seek to the start", c.PosOf(count), "countLines reachable without a successful Seek(0,0)")
		r.Check(strings.HasSuffix(ssax.Path(count.Common().Args[0]), "fs.dataFile"), "C16/R1", "file_storage.send:count-source", "lines are counted on the data file", c.PosOf(count), "countLines argument is "+ssax.Path(count.Common().Args[0]))
		// Offset store
		var offStores []ssa.Instruction
		good := false
		ssax.Instrs(fn, func(in ssa.Instruction) {
			st, ok := in.(*ssa.Store)
			if !ok {
				return
			}
			fa, ok := st.Addr.(*ssa.FieldAddr)
			if !ok || ssax.FieldOf(fa) == nil || ssax.FieldOf(fa).Name() != "Offset" {
				return
			}
			offStores = append(offStores, in)
			if ssax.Resolve(st.Val) == ssa.Value(count.(*ssa.Call)) {
				good = true
			}
		})
		r.Check(len(offStores) == 1 && good, "C16/R1", "file_storage.send:offset=count", "the assigned offset is exactly the number of lines counted under the lock", c.PosOf(count),
			sprintf("%d stores to Offset; identity flow from countLines(fs.dataFile): %v", len(offStores), good))
		r.Check(len(offStores) > 0 && !ssax.ReachableAvoiding(fn, marshal, nil, offStores), "C16/R1", "file_storage.send:order:offset<marshal", "the line written carries the assigned offset (store precedes Marshal)", c.PosOf(marshal), "json.Marshal reachable before the Offset store")
		mOK := ssax.NilErrEdgesOfCall(fn, marshal)
		r.Check(len(mOK) > 0 && !ssax.ReachableAvoiding(fn, write, mOK, nil), "C16/R1", "file_storage.send:order:marshal<write", "only a successfully marshalled message is written", c.PosOf(write), "write reachable without successful Marshal")
		// what is written: Fprintln(dataFile, string(marshalled))
		wid := ssax.FuncID(ssax.CalleeObj(write))
		wargs := write.Common().Args
		wOK := wid == "fmt.Fprintln" && strings.HasSuffix(ssax.Path(wargs[0]), "fs.dataFile") && strings.Contains(ssax.Path(wargs[1]), "json.Marshal(") && strings.Count(ssax.Path(wargs[1]), ",") == 0
		if !wOK && (wid == "os.(File).Write" || wid == "os.(File).WriteString") && strings.HasSuffix(ssax.Path(wargs[0]), "fs.dataFile") {
			// the same line written by hand: ONE Write of the marshalled bytes with exactly one newline appended
			if app, isCall := ssax.Resolve(wargs[1]).(*ssa.Call); isCall {
				if b, isB := app.Common().Value.(*ssa.Builtin); isB && b.Name() == "append" && len(app.Common().Args) == 2 {
					first := ssax.Path(app.Common().Args[0])
					nl := false
					for _, e := range sliceLiteralElems(app.Common().Args[1]) {
						if k, ok := ssax.ConstInt(e); ok && k == 10 {
							nl = true
						} else {
							nl = false
							break
						}
					}
					if strings.Contains(first, "json.Marshal(") && strings.Count(first, ",") == 0 && nl && len(sliceLiteralElems(app.Common().Args[1])) == 1 {
						wOK = true
					}
				}
			}
		}
		r.Check(wOK, "C16/R1", "file_storage.send:single-line-write", "the write is one Fprintln of the marshalled message to the data file", c.PosOf(write), "write is "+wid+"("+ssax.Path(wargs[0])+", "+ssax.Path(wargs[len(wargs)-1])+")")
	}
}

func isFileWrite(call ssa.CallInstruction) bool {
	id := ssax.FuncID(ssax.CalleeObj(call))
	switch id {
	case "fmt.Fprintln", "fmt.Fprintf", "fmt.Fprint", "io.WriteString", "io.Copy":
		return true
	case "os.(File).Write", "os.(File).WriteString", "os.(File).WriteAt", "os.(File).ReadFrom":
		return true
	case "bufio.(Writer).Write", "bufio.(Writer).WriteString", "bufio.(Writer).Flush":
		return true
	}
	return false
}

func c16AppendOnly(c *Ctx) {
	r := c.R
	sp := c.P.SSAPkg(pkgFS)
	if sp == nil {
		r.Unknown("C16/R2", "anchor:"+pkgFS, "package loaded", "", "package not found")
		return
	}
	forbidden := map[string]bool{"os.Create": true, "os.Truncate": true, "os.Remove": true, "os.RemoveAll": true, "os.Rename": true, "os.WriteFile": true, "io/ioutil.WriteFile": true,
		"os.(File).Truncate": true, "os.(File).WriteAt": true}
	var opens []ssa.CallInstruction
	var bad []string
	var writes []string
	nfn := 0
	for fn := range c.P.AllFuncs() {
		if fn.Pkg != sp || c.isTestFunc(fn) {
			continue
		}
		nfn++
		for _, call := range ssax.Calls(fn, false, func(ssa.CallInstruction) bool { return true }) {
			id := ssax.FuncID(ssax.CalleeObj(call))
			if forbidden[id] {
				bad = append(bad, fn.Name()+": "+id+" at "+c.PosOf(call))
			}
			if id == "os.OpenFile" {
				opens = append(opens, call)
			}
			if isFileWrite(call) {
				writes = append(writes, fn.Name())
			}
			if id == "os.(File).Seek" {
				a := call.Common().Args
				z1, ok1 := ssax.ConstInt(a[1])
				z2, ok2 := ssax.ConstInt(a[2])
				if !(ok1 && ok2 && z1 == 0 && z2 == 0) {
					bad = append(bad, fn.Name()+": Seek to a position other than the start at "+c.PosOf(call))
				}
			}
		}
	}
	r.Count("file_storage_functions", nfn)
	sort.Strings(bad)
	r.Check(len(bad) == 0, "C16/R2", "file_storage:no-rewrite", "no call in the package truncates, rewrites, renames or removes a file", "", strings.Join(bad, "; "))
	sort.Strings(writes)
	r.Check(len(writes) == 1 && writes[0] == "send", "C16/R2", "file_storage:single-writer", "send() is the only function that writes to a file", "", "file writes found in: "+strings.Join(writes, ","))
	if len(opens) != 1 {
		r.Fail("C16/R2", "file_storage:open", "the data file is opened at exactly one site", "", sprintf("%d os.OpenFile calls", len(opens)))
	} else {
		flag, ok := ssax.ConstInt(opens[0].Common().Args[1])
		app, cre, trunc := osConst(c, "O_APPEND"), osConst(c, "O_CREATE"), osConst(c, "O_TRUNC")
		good := ok && app != 0 && flag&app != 0 && flag&cre != 0 && flag&trunc == 0
		r.Check(good, "C16/R2", "file_storage.NewFileStorage:open-flags", "data file opened with O_APPEND|O_CREATE and without O_TRUNC", c.PosOf(opens[0]),
			sprintf("flags constant = %#x (O_APPEND=%#x O_CREATE=%#x O_TRUNC=%#x): without O_APPEND a handle's own file position decides where a line lands", flag, app, cre, trunc))
	}
	// message line shape
	if t := c.lookupType("C16/R2", "storage", "Message"); t != nil {
		okKinds := true
		var why []string
		if hasMethod(t, "MarshalJSON") || hasMethod(types.NewPointer(t), "MarshalJSON") {
			okKinds = false
			why = append(why, "storage.Message has a custom MarshalJSON")
		}
		st := t.Underlying().(*types.Struct)
		for i := 0; i < st.NumFields(); i++ {
			ft := st.Field(i).Type()
			switch u := ft.Underlying().(type) {
			case *types.Basic:
			case *types.Slice:
				if b, ok := u.Elem().Underlying().(*types.Basic); !ok || b.Kind() != types.Byte || ft.String() == "encoding/json.RawMessage" {
					okKinds = false
					why = append(why, st.Field(i).Name()+" "+ft.String())
				}
			default:
				okKinds = false
				why = append(why, st.Field(i).Name()+" "+ft.String())
			}
		}
		r.Check(okKinds, "C16/R2", "storage.Message:one-line-json", "a marshalled message cannot contain a raw newline (strings/bytes/ints only, standard marshaler)", "", strings.Join(why, "; "))
	}
}

func (c *Ctx) isTestFunc(fn *ssa.Function) bool {
	if fn.Pkg != nil && c.P.DeadNewPkgs[fn.Pkg.Pkg] {
		return true // a new package nothing but tests import (load.newUnimportedPackages)
	}
	return strings.HasSuffix(c.P.Fset.Position(fn.Pos()).Filename, "_test.go")
}

func osConst(c *Ctx, name string) int64 {
	pk := c.P.ByPath["os"]
	if pk == nil || pk.Types == nil {
		return 0
	}
	o, ok := pk.Types.Scope().Lookup(name).(*types.Const)
	if !ok {
		return 0
	}
	v, _ := constant.Int64Val(o.Val())
	return v
}

func c16Scanners(c *Ctx) {
	r := c.R
	sp := c.P.SSAPkg(pkgFS)
	if sp == nil {
		return
	}
	type sc struct {
		fn  *ssa.Function
		new ssa.CallInstruction
		max int64
		err bool
	}
	var scs []sc
	for fn := range c.P.AllFuncs() {
		if fn.Pkg != sp || c.isTestFunc(fn) {
			continue
		}
		for _, call := range ssax.CallsTo(fn, "bufio.NewScanner") {
			s := sc{fn: fn, new: call, max: 64 * 1024} // bufio.MaxScanTokenSize
			for _, b := range ssax.CallsTo(fn, "bufio.(Scanner).Buffer") {
				if ssax.Resolve(b.Common().Args[0]) == call.(ssa.Value) {
					if m, ok := ssax.ConstInt(b.Common().Args[2]); ok {
						s.max = m
					} else {
						s.max = -1
					}
				}
			}
			for _, e := range ssax.CallsTo(fn, "bufio.(Scanner).Err") {
				if ssax.Resolve(e.Common().Args[0]) == call.(ssa.Value) {
					s.err = true
				}
			}
			scs = append(scs, s)
		}
	}
	sort.Slice(scs, func(i, j int) bool { return scs[i].fn.Name() < scs[j].fn.Name() })
	if len(scs) < 2 {
		r.Unknown("C16/R3", "file_storage:scanners", "writer-side counter and reader both scan the data file", "", sprintf("%d scanners found", len(scs)))
		return
	}
	ref := scs[0].max
	for _, s := range scs {
		if s.max > ref {
			ref = s.max
		}
	}
	// the writer never appends a line the readers cannot scan: send refuses an encoded message of more than ref-1 bytes
	// (bufio.Scanner needs the line and its newline inside a buffer of at most ref bytes)
	if sf := c.Fn("C16/R3", pkgFS, "FileStorage", "send"); sf != nil {
		var writes []ssa.Instruction
		for _, call := range ssax.Calls(sf, false, func(ci ssa.CallInstruction) bool {
			id := ssax.FuncID(ssax.CalleeObj(ci))
			return id == "fmt.Fprintln" || id == "fmt.Fprintf" || id == "fmt.Fprint" || strings.HasSuffix(id, "os.(File).Write") || strings.HasSuffix(id, "os.(File).WriteString")
		}) {
			writes = append(writes, call.(ssa.Instruction))
		}
		okBound, detail := false, "no test of the encoded message's length against the line limit"
		for _, cd := range ssax.Conds(sf) {
			// len(data) [+ c] OP K
			x := ssax.Resolve(cd.X)
			add := int64(0)
			if bo, isBo := x.(*ssa.BinOp); isBo && bo.Op == token.ADD {
				if k, isK := ssax.ConstInt(bo.Y); isK {
					add, x = k, ssax.Resolve(bo.X)
				} else if k, isK := ssax.ConstInt(bo.X); isK {
					add, x = k, ssax.Resolve(bo.Y)
				}
			}
			la := lenArg(x)
			if la == nil || !strings.Contains(npath(la), "json.Marshal(") {
				continue
			}
			k, isK := ssax.ConstInt(cd.Y)
			if !isK {
				continue
			}
			// the largest length that passes, and the edge on which it passes
			var maxOK int64
			var pass ssax.Edge
			switch cd.Op {
			case token.GTR: // len+add > k refuses
				maxOK, pass = k-add, ssax.Edge{From: cd.If.Block(), Succ: 1}
			case token.GEQ:
				maxOK, pass = k-add-1, ssax.Edge{From: cd.If.Block(), Succ: 1}
			case token.LEQ: // len+add <= k passes
				maxOK, pass = k-add, ssax.Edge{From: cd.If.Block(), Succ: 0}
			case token.LSS:
				maxOK, pass = k-add-1, ssax.Edge{From: cd.If.Block(), Succ: 0}
			default:
				continue
			}
			guarded := len(writes) > 0
			for _, w := range writes {
				if ssax.ReachableAvoiding(sf, w, []ssax.Edge{pass}, nil) {
					guarded = false
				}
			}
			if guarded && maxOK+1 <= ref {
				okBound = true
			} else {
				detail = sprintf("the test lets lines of up to %d bytes (plus newline) through while the scanners stop at %d, or does not guard the write", maxOK, ref)
			}
		}
		r.Check(okBound, "C16/R3", "file_storage.send:refuses-oversize", "send refuses a message whose encoded line the readers could not scan", c.Pos(sf.Pos()),
			detail+": one accepted oversize message makes GetMessages fail for every reader forever and every later message gets a repeated offset")
	}
	for _, s := range scs {
		r.Check(s.max == ref && s.max > 0, "C16/R3", "file_storage."+s.fn.Name()+":scanner-limit", "scanner line limit equals the largest limit used on the data file", c.PosOf(s.new),
			sprintf("this scanner stops at lines longer than %d bytes while another accepts %d: after a longer line the counter returns a stale count and every later message gets a repeated offset", s.max, ref))
	}
}

// c16LockPath: all writers of one board exclude each other only if they lock the SAME file. The lock path handed to
// fslock.New is therefore the caller's argument or a constant — never something read from the process environment
// (os.TempDir follows $TMPDIR, os.Getenv, the working directory, the user's home): two writers started with different
// environments would take different locks and the count-then-append section would no longer be exclusive.
func c16LockPath(c *Ctx) {
	r := c.R
	sp := c.P.SSAPkg(pkgFS)
	if sp == nil {
		return
	}
	n := 0
	var bad []string
	env := func(v ssa.Value) bool {
		if call, ok := v.(*ssa.Call); ok {
			switch ssax.FuncID(ssax.CalleeObj(call)) {
			case "os.TempDir", "os.Getenv", "os.LookupEnv", "os.Getwd", "os.UserHomeDir", "os.UserCacheDir", "os.UserConfigDir", "os.Getpid", "os.Hostname", "os.Executable", "os.MkdirTemp", "os.CreateTemp", "io/ioutil.TempDir", "io/ioutil.TempFile":
				return true
			}
		}
		return false
	}
	for fn := range c.P.AllFuncs() {
		if fn.Pkg != sp || c.isTestFunc(fn) {
			continue
		}
		// nor from the spelling of the data file's path: the same board opened through another path (a symlinked directory,
		// a bind mount, a relative name) must still be locked by the same file
		dataPath := map[ssa.Value]bool{}
		for _, open := range ssax.CallsTo(fn, "os.OpenFile", "os.Open", "os.Create") {
			dataPath[open.Common().Args[0]] = true
			dataPath[ssax.Resolve(open.Common().Args[0])] = true
		}
		isData := func(v ssa.Value) bool { return dataPath[v] }
		for _, call := range ssax.CallsTo(fn, "github.com/juju/fslock.New") {
			n++
			if derivesFrom(call.Common().Args[0], env, 0, map[ssa.Value]bool{}) {
				bad = append(bad, fn.Name()+" at "+c.PosOf(call)+": "+ssax.Path(call.Common().Args[0]))
			} else if derivesFrom(call.Common().Args[0], isData, 0, map[ssa.Value]bool{}) {
				bad = append(bad, fn.Name()+" at "+c.PosOf(call)+": "+ssax.Path(call.Common().Args[0])+" (computed from the data file's path: writers that open the same board under different path spellings take different locks)")
			}
		}
	}
	sort.Strings(bad)
	r.Check(n >= 1 && len(bad) == 0, "C16/R1", "file_storage:lock-path-fixed", "the lock file path is the caller's argument or a constant, not derived from the process environment or from the data file's path", "",
		sprintf("%d fslock.New calls; environment-dependent: %s", n, strings.Join(bad, "; ")))
}

func c16Read(c *Ctx) {
	r := c.R
	fn := c.Fn("C16/R4", pkgFS, "FileStorage", "GetMessages")
	if fn != nil {
		scans := ssax.CallsTo(fn, "bufio.(Scanner).Scan")
		// the decrement of the offset parameter
		var dec ssa.Instruction
		ssax.Instrs(fn, func(in ssa.Instruction) {
			if b, ok := in.(*ssa.BinOp); ok && b.Op == token.SUB {
				if k, ok := ssax.ConstInt(b.Y); ok && k == 1 && strings.Contains(ssax.Path(b.X), "offset") {
					dec = in
				}
			}
		})
		if dec == nil {
			dec = c16UpCounterSkip(fn)
		}
		if len(scans) != 1 || dec == nil {
			r.Unknown("C16/R4", "file_storage.GetMessages:skip", "reader skips `offset` lines with a counter", c.Pos(fn.Pos()), "scan loop / offset decrement not recognised")
		} else {
			var extra []string
			for _, cd := range ssax.CondsBetween(fn, scans[0], dec) {
				p := ssax.Path(cd.X)
				if cd.Op == token.ILLEGAL && strings.Contains(p, ".Scan()") {
					continue
				}
				if cd.Op != token.ILLEGAL && strings.Contains(p, "offset") {
					if k, ok := ssax.ConstInt(cd.Y); ok && k == 0 {
						continue
					}
				}
				if cd.Op != token.ILLEGAL && c16IsSkipTest(cd) {
					continue
				}
				extra = append(extra, p+" at "+c.PosOf(cd.If))
			}
			// a skipped position is one line AS THE SCANNER DELIMITS IT: every skip step consumes exactly one Scan() of the
			// (shared-limit) scanner. A skip loop that steps over "lines" by other means (Reader.ReadLine with a smaller
			// buffer, byte counting) disagrees with the writer's count as soon as one line exceeds that other bound.
			sc := scans[0].(ssa.Instruction)
			perScan := !ssax.ReachableAvoiding(fn, dec, nil, []ssa.Instruction{sc}) && !ssax.ReachableFrom(fn, dec, dec, nil, []ssa.Instruction{sc})
			r.Check(perScan, "C16/R4", "file_storage.GetMessages:skip-by-scanned-line", "each skipped position is one line taken by the scanner (the same delimiting as the writer's count)", c.PosOf(dec),
				"the skip step is not preceded by its own Scanner.Scan(): skipped lines are delimited by other means than the lines that are counted and returned, so position k no longer means the k-th entry once the two delimitings differ (long lines)")
			r.Check(len(extra) == 0, "C16/R4", "file_storage.GetMessages:skip-first", "the first `offset` lines are skipped by position, before any decoding or filtering", c.PosOf(dec),
				"another condition decides before the positional skip: "+strings.Join(extra, "; ")+" — reading from offset k would no longer return exactly the entries from position k onward")
		}
		// appends are guarded only by the two ignore lookups
		var apps []ssa.Instruction
		ssax.Instrs(fn, func(in ssa.Instruction) {
			if call, ok := in.(*ssa.Call); ok {
				// (the append that builds the result list; a byte-slice append that copies the scanned line is not it)
				if b, ok := call.Common().Value.(*ssa.Builtin); ok && b.Name() == "append" && strings.HasSuffix(call.Type().String(), "storage.Message") {
					apps = append(apps, in)
				}
			}
		})
		if len(scans) == 1 && len(apps) == 1 {
			var extra []string
			seenIgnore := map[string]bool{}
			for _, cd := range ssax.CondsBetween(fn, scans[0], apps[0]) {
				p := ssax.Path(cd.X)
				switch {
				case cd.Op == token.ILLEGAL && strings.Contains(p, ".Scan()"):
				case cd.Op != token.ILLEGAL && strings.Contains(p, "offset") && !strings.Contains(p, "IgnoreList"):
				case cd.Op != token.ILLEGAL && c16IsSkipTest(cd):
				case c16IgnoreLookup(cd.X, seenIgnore):
				case strings.Contains(p, "json.Unmarshal("):
				default:
					extra = append(extra, p+" at "+c.PosOf(cd.If))
				}
			}
			nIgnore := len(seenIgnore)
			r.Check(len(extra) == 0 && nIgnore == 2, "C16/R4", "file_storage.GetMessages:filter", "an entry at or after the offset is dropped only if its id or offset is in an ignore list", c.PosOf(apps[0]),
				sprintf("ignore tests=%d, other conditions: %s", nIgnore, strings.Join(extra, "; ")))
		} else {
			r.Unknown("C16/R4", "file_storage.GetMessages:filter", "single append in the scan loop", c.Pos(fn.Pos()), sprintf("%d appends", len(apps)))
		}
		freshDecodeTarget(c, "C16/R4", "file_storage.GetMessages:fresh-decode-target", fn)
		// scanner error is reported
		errs := ssax.CallsTo(fn, "bufio.(Scanner).Err")
		r.Check(len(errs) > 0, "C16/R4", "file_storage.GetMessages:scan-error", "a read/oversize error is reported, not turned into a short result", c.Pos(fn.Pos()), "Scanner.Err() is not consulted")
	}
	if fn := c.Fn("C16/R4", pkgFS, "FileStorage", "Send"); fn != nil {
		calls := ssax.CallsTo(fn, load.Module+"/"+pkgFS+".(FileStorage).send")
		if len(calls) != 1 {
			r.Unknown("C16/R4", "file_storage.Send:loop", "Send calls send once per message", c.Pos(fn.Pos()), sprintf("%d calls", len(calls)))
			return
		}
		call := calls[0]
		inLoop := strings.Contains(ssax.Path(call.Common().Args[1]), "msgs[")
		// from the non-nil error edge the next send must be unreachable
		stop := true
		for _, e := range ssax.NilErrEdgesOfCall(fn, call) {
			other := e.From.Succs[1-e.Succ]
			if ssax.ReachableFrom(fn, other.Instrs[0], call, nil, nil) || other.Instrs[0] == ssa.Instruction(call.(*ssa.Call)) {
				stop = false
			}
		}
		r.Check(inLoop && stop && len(ssax.NilErrEdgesOfCall(fn, call)) > 0, "C16/R4", "file_storage.Send:ordered-stop-on-error", "messages are appended in argument order and Send stops at the first failure", c.PosOf(call),
			sprintf("ranges over msgs=%v, stops on error=%v", inLoop, stop))
	}
}


// c16IsSkipTest: `counter < offset` (either orientation) where counter is a phi that starts at 0 and offset is the parameter.
func c16IsSkipTest(cd ssax.Cond) bool {
	_, ok := c16SkipCounter(cd)
	return ok
}

func c16SkipCounter(cd ssax.Cond) (*ssa.Phi, bool) {
	var lesser, greater ssa.Value
	switch cd.Op {
	case token.LSS:
		lesser, greater = cd.X, cd.Y
	case token.GTR:
		lesser, greater = cd.Y, cd.X
	default:
		return nil, false
	}
	if ssax.Path(greater) != "offset" {
		return nil, false
	}
	ph, ok := ssax.Resolve(lesser).(*ssa.Phi)
	return ph, ok
}

// c16UpCounterSkip recognises the counting-up form of the positional skip: `if skipped < offset { skipped++; continue }`
// with skipped starting at 0 and incremented nowhere else; returns the increment.
func c16UpCounterSkip(fn *ssa.Function) ssa.Instruction {
	for _, cd := range ssax.Conds(fn) {
		ph, ok := c16SkipCounter(cd)
		if !ok {
			continue
		}
		// (a Cond's relation is the one that holds on the true edge)
		lt := ssax.Edge{From: cd.If.Block(), Succ: 0}
		var inc ssa.Instruction
		good := true
		for _, e := range ph.Edges {
			switch x := ssax.Resolve(e).(type) {
			case *ssa.Const:
				if k, isInt := ssax.ConstInt(x); !isInt || k != 0 {
					good = false
				}
			case *ssa.Phi:
				if x != ph {
					good = false
				}
			case *ssa.BinOp:
				k, isInt := ssax.ConstInt(x.Y)
				if x.Op != token.ADD || !isInt || k != 1 || ssax.Resolve(x.X) != ssa.Value(ph) || ssax.ReachableAvoiding(fn, x, []ssax.Edge{lt}, nil) {
					good = false
				} else {
					inc = x
				}
			default:
				good = false
			}
		}
		if good && inc != nil {
			return inc
		}
	}
	return nil
}


// freshDecodeTarget: every json.Unmarshal in the read loop of a board reader decodes into a value allocated inside that
// loop. One variable shared by all lines keeps the fields a line omits from the previous line — what a reader returns
// would then depend on where the poll batch starts, not only on the log.
func freshDecodeTarget(c *Ctx, rule, key string, fn *ssa.Function) {
	r := c.R
	ums := ssax.CallsTo(fn, "encoding/json.Unmarshal")
	ok := len(ums) > 0
	detail := sprintf("%d json.Unmarshal calls", len(ums))
	for _, u := range ums {
		tgt := u.Common().Args[1]
		if mi, isMI := tgt.(*ssa.MakeInterface); isMI {
			tgt = mi.X
		}
		al, isAlloc := tgt.(*ssa.Alloc)
		if !isAlloc {
			ok, detail = false, "decode target is "+ssax.Path(tgt)
			continue
		}
		inLoop := ssax.ReachableFrom(fn, u.(ssa.Instruction), u.(ssa.Instruction), nil, nil)
		allocInLoop := ssax.ReachableFrom(fn, al, al, nil, nil)
		if inLoop && !allocInLoop {
			ok, detail = false, "the decode target "+al.Comment+" is allocated once, outside the read loop (at "+c.PosOf(al)+")"
		}
	}
	r.Check(ok, rule, key, "every line is decoded into a fresh value", c.Pos(fn.Pos()),
		detail+": a field that a line omits keeps the value of the previous line of the same poll, so the entries returned depend on the batch boundaries")
}


// c16IgnoreLookup: the condition is a membership test of the decoded entry's ID or Offset in a set (`_, ok := m[x.ID]`),
// or a boolean merge (a || b evaluated in a helper) all of whose non-constant alternatives are such tests. Records which
// of the two fields were looked up. The maps are recognised by what they are asked, not by their names.
func c16IgnoreLookup(v ssa.Value, seen map[string]bool) bool {
	v = ssax.Resolve(v)
	if ph, ok := v.(*ssa.Phi); ok {
		n := 0
		for _, e := range ph.Edges {
			e = ssax.Resolve(e)
			if _, isC := e.(*ssa.Const); isC {
				continue
			}
			if !c16IgnoreLookup(e, seen) {
				return false
			}
			n++
		}
		return n > 0
	}
	ex, ok := v.(*ssa.Extract)
	if !ok || ex.Index != 1 {
		return false
	}
	lk, ok := ex.Tuple.(*ssa.Lookup)
	if !ok || !lk.CommaOk {
		return false
	}
	p := ssax.Path(lk.Index)
	if !strings.Contains(p, "json(") {
		return false
	}
	switch {
	case strings.HasSuffix(p, ".ID"):
		seen["ID"] = true
	case strings.HasSuffix(p, ".Offset"):
		seen["Offset"] = true
	default:
		return false
	}
	return true
}


// sliceLiteralElems: the elements of a slice built from a local array literal (the variadic part of append(x, a, b)).
func sliceLiteralElems(v ssa.Value) []ssa.Value {
	sl, ok := ssax.Resolve(v).(*ssa.Slice)
	if !ok {
		return nil
	}
	al, ok := sl.X.(*ssa.Alloc)
	if !ok {
		return nil
	}
	return ssax.ArrayElems(al)
}
