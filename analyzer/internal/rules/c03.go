package rules

import (
	"go/token"
	"go/types"
	"reflect"
	"sort"
	"strings"

	"dcverif/internal/load"
	"dcverif/internal/ssax"

	"golang.org/x/tools/go/ssa"
)

func init() { Registry["C03"] = C03 }

// C03 — what gets signed is exactly what was proposed.
func C03(c *Ctx) {
	r := c.R
	r.Explain = "Decided statically: (R1) requests.MessageToSign values are constructed only by TasksToMessages/ReconstructBakedMessage, ReconstructBakedMessage is called only by TasksToMessages, the three consumers (airgapped signer, node store, node reconstruction) obtain their message list from it, and no other function reads SigningTask.Payload/RangeStart/RangeEnd; " +
		"(R2) the bytes at each consumer are identity flows of MessageToSign.Payload of the same element whose id/file they carry; in the expansion Payload is the task's payload unchanged or the whole message built for position i; the proposal's tasks are stored as json.Marshal(request.SigningTasks) and handed on unmodified; the export takes the stored payload; " +
		"(R3) the expansion is deterministic: no map iteration, clock, randomness or uuid in TasksToMessages/ReconstructBakedMessage and their module callees, and the baked loop runs i = RangeStart; i < RangeEnd; (R4) the hot node cannot alter the request (C15/R2: Operation.Equal binds Payload); (R5) the task types re-encode exactly (no omitempty, dropped field or one-sided marshaler), so the list the node stores from the board and the list signer and reconstruction decode from the FSM's re-encoding are the same, and the signer returns the tbls.Sign result of this call, never a remembered signature. " +
		"NOT decided: byte equality as an executed fact for all inputs, JSON fidelity of arbitrary file names (encoding/json), the baked roots themselves (C17)."
	r.Trusted = []string{"encoding/json", "go/ssa value provenance"}
	r.Rule("C03/R1", "single expansion: constructors, callers and raw-task readers", 4)
	r.Rule("C03/R2", "identity of bytes at signer, reconstruction, store and export", 10)
	r.Rule("C03/R3", "deterministic expansion", 2)
	r.Rule("C03/R4", "the submitted result must carry the unchanged request payload", 3)
	r.Rule("C03/R5", "the proposal's tasks re-encode exactly: store, signer and reconstruction decode the same list (no omitempty/dropped field, no one-sided marshaler)", 3)
	r.Rule("C03/R6", "the record stored next to a proposal's payload can be replaced only by its author: received signature entries are attributed to the verified sender and the envelope's round, unconditionally (= C08/R3 attribution)", 3)
	r.Rule("C03/R7", "the signature store keeps every entry as it was handed in: the repository writes whole entries and never a single field of one (payload, file, validator index, identifiers, signature)", 1)
	c03StoreKeepsEntries(c)
	c08SignatureAttribution(c, "C03/R6")
	c03Reencode(c)

	// R1 constructors of MessageToSign (any store into its fields)
	ctor := map[string]bool{}
	readers := map[string]bool{}
	for f := range c.P.AllFuncs() {
		if !load.InModule(f) || c.isTestFunc(f) {
			continue
		}
		ssax.Instrs(f, func(in ssa.Instruction) {
			switch x := in.(type) {
			case *ssa.Store:
				if fa, ok := x.Addr.(*ssa.FieldAddr); ok && ssax.OwnerName(fa) == "MessageToSign" {
					ctor[load.FuncName(f)] = true
				}
			case *ssa.FieldAddr:
				if ssax.OwnerName(x) == "SigningTask" {
					n := ssax.FieldOf(x).Name()
					if n == "Payload" || n == "RangeStart" || n == "RangeEnd" {
						// a read unless only used as store target
						isStoreTarget := true
						for _, ref := range *x.Referrers() {
							if st, ok := ref.(*ssa.Store); !ok || st.Addr != ssa.Value(x) {
								isStoreTarget = false
							}
						}
						if !isStoreTarget {
							readers[load.FuncName(f)] = true
						}
					}
				}
			case *ssa.Field:
				if ssax.OwnerName(x) == "SigningTask" {
					n := ssax.FieldOf(x).Name()
					if n == "Payload" || n == "RangeStart" || n == "RangeEnd" {
						readers[load.FuncName(f)] = true
					}
				}
			}
		})
	}
	cs := sortedKeys(ctor)
	okC := true
	for _, f := range cs {
		if !(strings.HasSuffix(f, "requests.TasksToMessages") || strings.HasSuffix(f, "requests.ReconstructBakedMessage")) {
			okC = false
		}
	}
	r.Check(okC && len(cs) == 2, "C03/R1", "requests.MessageToSign:constructors", "messages to sign are built only by the shared expansion", "", "constructed in: "+strings.Join(cs, ", "))
	rs := sortedKeys(readers)
	okR := true
	for _, f := range rs {
		if !(strings.HasSuffix(f, "requests.TasksToMessages") || strings.HasSuffix(f, "requests.SigningTask).Validate")) {
			okR = false
		}
	}
	r.Check(okR && len(rs) >= 1, "C03/R1", "requests.SigningTask:raw-readers", "only the expansion (and validation) reads a task's payload/range", "", "readers: "+strings.Join(rs, ", ")+" — a second, ad-hoc expansion can diverge from the one the other participants use")
	bc := c.callersOf("fsm/types/requests.ReconstructBakedMessage")
	r.Check(len(bc) == 1 && strings.HasSuffix(bc[0], "requests.TasksToMessages"), "C03/R1", "requests.ReconstructBakedMessage:callers", "baked messages are produced only inside the shared expansion", "", "callers: "+strings.Join(bc, ", "))
	tc := c.callersOf("fsm/types/requests.TasksToMessages")
	wantC := []string{"(*airgapped.Machine).handleStateSigningAwaitPartialSigns", "(*client/services/node.BaseNodeService).processSignatureProposal", "client/services/node.reconstructThresholdSignature"}
	r.Check(strings.Join(tc, "|") == strings.Join(wantC, "|"), "C03/R1", "requests.TasksToMessages:callers", "signer, store and reconstruction all use the one expansion", "", "callers: "+strings.Join(tc, ", "))

	exp := [3]string{pkgRequests, "", "TasksToMessages"}
	checkStores(c, []storeSpec{
		{"C03/R2", "requests.TasksToMessages:explicit.Payload", exp, "MessageToSign", "Payload", `^msgs\[i\]\.Payload$`, "an explicit payload is passed through unchanged", "payload transformed in the expansion"},
		{"C03/R2", "requests.TasksToMessages:explicit.MessageID", exp, "MessageToSign", "MessageID", `^msgs\[i\]\.MessageID$`, "the id is the task's", "id changed"},
		{"C03/R2", "requests.TasksToMessages:explicit.File", exp, "MessageToSign", "File", `^msgs\[i\]\.File$`, "the file name is the task's", "file changed"},
		{"C03/R2", "node.processSignatureProposal:SrcPayload", [3]string{pkgNode, "BaseNodeService", "processSignatureProposal"}, "ReconstructedSignature", "SrcPayload", `^requests\.TasksToMessages\(json\(message\.Data\)\.SigningTasks\)#0\[i\]\.Payload$`, "the payload stored next to the batch is the expanded message's", "stored payload differs from the signed one"},
		{"C03/R2", "node.processSignatureProposal:MessageID", [3]string{pkgNode, "BaseNodeService", "processSignatureProposal"}, "ReconstructedSignature", "MessageID", `^requests\.TasksToMessages\(json\(message\.Data\)\.SigningTasks\)#0\[i\]\.MessageID$`, "stored under the same element's id", "id of another element"},
		{"C03/R2", "node.reconstructThresholdSignature:SrcPayload", [3]string{pkgNode, "", "reconstructThresholdSignature"}, "ReconstructedSignature", "SrcPayload", `^` + mMsgs + `\[next\(range\(` + mBatch + `\)\)#1\]\.Payload$`, "the payload stored next to the signature is the one that was verified", "stored payload differs"},
		{"C03/R2", "signing_proposal_fsm.actionStartSigningProposal:SrcPayload", [3]string{pkgSIF, "SigningProposalFSM", "actionStartSigningProposal"}, "SigningConfirmation", "SrcPayload", `^json\.Marshal\(args\[0\]\.\(requests\.SigningBatchProposalStartRequest\)#0\.SigningTasks\)#0$`, "the round keeps the proposal's tasks as proposed", "tasks rewritten before being stored"},
		{"C03/R2", "signing_proposal_fsm.actionStartSigningProposal:response.SrcPayload", [3]string{pkgSIF, "SigningProposalFSM", "actionStartSigningProposal"}, "SigningPartialSignsParticipantInvitationsResponse", "SrcPayload", `^m\.payload\.SigningProposalPayload\.SrcPayload$`, "the operation sent to the signer carries the stored tasks", "response payload differs"},
		{"C03/R2", "signing_proposal_fsm.validate:response.SrcPayload", [3]string{pkgSIF, "SigningProposalFSM", "actionValidateSigningPartialSignsAwaitConfirmations"}, "SigningProcessParticipantResponse", "SrcPayload", `^m\.payload\.SigningProposalPayload\.SrcPayload$`, "reconstruction receives the stored tasks", "response payload differs"},
		{"C03/R2", "utils.PrepareSignaturesToDump:Payload", [3]string{"pkg/utils", "", "PrepareSignaturesToDump"}, "ExportedSignatureEntity", "Payload", `\.SrcPayload$`, "the exported payload is the stored one", "export takes other bytes"},
	})
	checkArgs(c, []argSpec{
		{"C03/R2", "airgapped.signing-handler:tasks-source", [3]string{"airgapped", "Machine", "handleStateSigningAwaitPartialSigns"}, "fsm/types/requests.TasksToMessages", 0, `^json\(json\(o\.Payload\)\.SrcPayload\)$`, "the signer expands the tasks carried by the operation", "other tasks"},
		{"C03/R2", "node.processSignatureProposal:tasks-source", [3]string{pkgNode, "BaseNodeService", "processSignatureProposal"}, "fsm/types/requests.TasksToMessages", 0, `^json\(message\.Data\)\.SigningTasks$`, "the node expands the tasks of the board proposal", "other tasks"},
	})
	// the signer stores what it computed for these bytes, nothing remembered from elsewhere (createPartialSign is
	// expanded into the handler — load.flatten —, so its success returns are the alternatives of the stored value)
	if fn := c.Fn("C03/R2", "airgapped", "Machine", "handleStateSigningAwaitPartialSigns"); fn != nil {
		bad := ""
		n := 0
		ssax.Instrs(fn, func(in ssa.Instruction) {
			st, ok := in.(*ssa.Store)
			if !ok {
				return
			}
			fa, ok := st.Addr.(*ssa.FieldAddr)
			if !ok || ssax.FieldOf(fa) == nil || ssax.FieldOf(fa).Name() != "Sign" || ssax.OwnerName(fa) != "PartialSign" {
				return
			}
			for _, lf := range ssax.Leaves(st.Val, st) {
				if ssax.IsNilConst(lf.V) {
					continue // error return of the expanded wrapper (the store lies behind its nil-error edge)
				}
				n++
				if ex, ok := lf.V.(*ssa.Extract); ok {
					if call, isCall := ex.Tuple.(*ssa.Call); isCall && ex.Index == 0 && ssax.FuncID(ssax.CalleeObj(call)) == "github.com/corestario/kyber/sign/tbls.Sign" {
						continue
					}
				}
				if call, isCall := lf.V.(*ssa.Call); isCall && ssax.FuncID(ssax.CalleeObj(call)) == "github.com/corestario/kyber/sign/tbls.Sign" {
					continue
				}
				bad = npath(lf.V)
			}
		})
		r.Check(bad == "" && n > 0, "C03/R2", "airgapped.createPartialSign:result", "the partial signature recorded is the one just computed by tbls.Sign over the given bytes", c.Pos(fn.Pos()),
			"a success path records "+bad+" instead of the result of tbls.Sign: a signature made for other bytes could be returned for this message")
	}
	// signer's unmarshal source
	if fn := c.Fn("C03/R2", "airgapped", "Machine", "handleStateSigningAwaitPartialSigns"); fn != nil {
		ok := false
		for _, u := range callsIn(fn, "encoding/json.Unmarshal") {
			if npath(u.Common().Args[0]) == "json(o.Payload).SrcPayload" {
				ok = true
			}
		}
		r.Check(ok, "C03/R2", "airgapped.signing-handler:unmarshal", "the signer's tasks are decoded from the operation's SrcPayload", c.Pos(fn.Pos()), "json.Unmarshal(payload.SrcPayload, &signingTasks) not found")
	}
	// baked branch: append(ReconstructBakedMessage(i)#0) with i from RangeStart below RangeEnd
	if fn := c.Fn("C03/R2", pkgRequests, "", "TasksToMessages"); fn != nil {
		bakes := callsIn(fn, "fsm/types/requests.ReconstructBakedMessage")
		okB := len(bakes) == 1
		if okB {
			ap := ssax.Path(bakes[0].Common().Args[0])
			okB = strings.Contains(ap, ".RangeStart") && strings.HasPrefix(ap, "phi(")
			// appended unchanged
			appended := false
			ssax.Instrs(fn, func(in ssa.Instruction) {
				if call, ok := in.(*ssa.Call); ok {
					if b, isB := call.Common().Value.(*ssa.Builtin); isB && b.Name() == "append" {
						if el := sliceElems(call.Common().Args[1]); len(el) == 1 && ssax.ResultOf(el[0], bakes[0], 0) {
							appended = true
						}
					}
				}
			})
			if !appended {
				okB = false
			}
			// loop bound: i < RangeEnd
			bound := false
			for _, cd := range ssax.Conds(fn) {
				if cd.Op == token.LSS && strings.HasSuffix(ssax.Path(cd.Y), ".RangeEnd") && ssax.Resolve(cd.X) == ssax.Resolve(bakes[0].Common().Args[0]) {
					bound = true
				}
			}
			if !bound {
				okB = false
			}
		}
		r.Check(okB, "C03/R2", "requests.TasksToMessages:baked-branch", "for a range task the messages for positions RangeStart..RangeEnd-1 are appended exactly as built", c.Pos(fn.Pos()), "baked branch is not `for i := RangeStart; i < RangeEnd; i++ { append(ReconstructBakedMessage(i)) }`")
	}
	checkStores(c, []storeSpec{
		{"C03/R2", "requests.ReconstructBakedMessage:Payload", [3]string{pkgRequests, "", "ReconstructBakedMessage"}, "MessageToSign", "Payload", `GetSigningRoot\(.*\)#0\[:\]$`, "a baked message's payload is the whole signing root computed for it (a fresh array per message)", "payload buffer shared or truncated"},
		{"C03/R2", "requests.ReconstructBakedMessage:MessageID", [3]string{pkgRequests, "", "ReconstructBakedMessage"}, "MessageToSign", "MessageID", `\[id\]$`, "the id is the list entry at that position", "id from elsewhere"},
	})
	// R3 determinism
	for _, name := range []string{"TasksToMessages", "ReconstructBakedMessage"} {
		fn := c.Fn("C03/R3", pkgRequests, "", name)
		if fn == nil {
			continue
		}
		bad := nondeterminism(c, fn)
		r.Check(len(bad) == 0, "C03/R3", "requests."+name+":deterministic", "every participant expands the same proposal into the same ordered list (no map order, clock, randomness)", c.Pos(fn.Pos()), strings.Join(bad, "; "))
	}
	// R4: the operation compared with the pool entry is built from what was submitted
	checkStores(c, []storeSpec{
		{"C03/R4", "node.ProcessOperation:Payload", [3]string{pkgNode, "BaseNodeService", "ProcessOperation"}, "Operation", "Payload", `^dto\.Payload$`, "the payload checked against the issued request is the one that came back from the airgapped machine", "the comparison would be vacuous (stored operation compared with a copy of itself): partial signatures over bytes nobody proposed get posted"},
		{"C03/R4", "node.ProcessOperation:ID", [3]string{pkgNode, "BaseNodeService", "ProcessOperation"}, "Operation", "ID", `^dto\.ID$`, "the id looked up is the submitted one", "id not from the submission"},
	})
	if eq := c.Fn("C03/R4", pkgTypes, "Operation", "Equal"); eq != nil {
		found := false
		for _, cd := range ssax.Conds(eq) {
			if call, ok := ssax.Resolve(cd.X).(*ssa.Call); ok && ssax.FuncID(ssax.CalleeObj(call)) == "bytes.Equal" {
				if strings.HasSuffix(ssax.Path(call.Common().Args[0]), ".Payload") && strings.HasSuffix(ssax.Path(call.Common().Args[1]), ".Payload") {
					found = true
				}
			}
		}
		r.Check(found, "C03/R4", "types.(*Operation).Equal:payload", "a result is accepted only if it carries the request payload unchanged (full rule: C15/R1-R2)", c.Pos(eq.Pos()), "Operation.Equal does not compare Payload")
	}
}

// nondeterminism lists sources of non-determinism reachable from fn through module functions.
func nondeterminism(c *Ctx, root *ssa.Function) []string {
	var out []string
	seen := map[*ssa.Function]bool{}
	cg := c.P.CallGraph()
	var walk func(f *ssa.Function)
	walk = func(f *ssa.Function) {
		if seen[f] {
			return
		}
		seen[f] = true
		if !load.InModule(f) {
			id := ""
			if f.Object() != nil {
				id = f.Object().Pkg().Path() + "." + f.Name()
			}
			switch {
			case id == "time.Now", strings.HasPrefix(id, "math/rand."), strings.HasPrefix(id, "crypto/rand."), strings.HasPrefix(id, "github.com/google/uuid."):
				out = append(out, "calls "+id)
			}
			return
		}
		ssax.Instrs(f, func(in ssa.Instruction) {
			if rg, ok := in.(*ssa.Range); ok {
				if _, isMap := rg.X.Type().Underlying().(interface{ Key() interface{} }); isMap {
					_ = isMap
				}
				if strings.HasPrefix(rg.X.Type().Underlying().String(), "map[") {
					out = append(out, "ranges over a map in "+load.FuncName(f)+" at "+c.PosOf(in))
				}
			}
		})
		if n := cg.Nodes[f]; n != nil {
			for _, e := range n.Out {
				walk(e.Callee.Func)
			}
		}
	}
	walk(root)
	sort.Strings(out)
	return out
}

// c03Reencode — R5. The node stores what it decodes from the board message, while the signer and the reconstruction decode
// the FSM's re-encoding of the same tasks (SrcPayload = json.Marshal(request.SigningTasks)). Both decodings are the same
// list only if encoding the task type loses nothing: in particular `omitempty` would turn an explicit empty payload into
// an absent one, and TasksToMessages expands a task without payload as a baked range.
func c03Reencode(c *Ctx) {
	r := c.R
	for _, name := range []string{"SigningTask", "MessageToSign", "SigningBatchProposalStartRequest"} {
		t := c.lookupType("C03/R5", pkgRequests, name)
		if t == nil {
			continue
		}
		var issues []jsonIssue
		var visited []string
		jsonWalk(t, name, map[string]bool{}, &issues, &visited)
		// strict: omitempty anywhere in these types
		var walk func(t types.Type, path string, seen map[string]bool)
		walk = func(t types.Type, path string, seen map[string]bool) {
			if seen[t.String()] {
				return
			}
			seen[t.String()] = true
			switch u := t.Underlying().(type) {
			case *types.Pointer:
				walk(u.Elem(), path, seen)
			case *types.Slice:
				walk(u.Elem(), path+"[]", seen)
			case *types.Struct:
				if n, ok := t.(*types.Named); ok && n.Obj().Pkg() != nil && !strings.HasPrefix(n.Obj().Pkg().Path(), load.Module) {
					return // time.Time etc.
				}
				for i := 0; i < u.NumFields(); i++ {
					tag := reflect.StructTag(u.Tag(i)).Get("json")
					if strings.Contains(tag, "omitempty") {
						issues = append(issues, jsonIssue{path + "." + u.Field(i).Name(), "omitempty drops an empty value on re-encoding: an explicit empty " + u.Field(i).Name() + " comes back as absent"})
					}
					walk(u.Field(i).Type(), path+"."+u.Field(i).Name(), seen)
				}
			}
		}
		walk(t, name, map[string]bool{})
		var ds []string
		for _, is := range issues {
			ds = append(ds, is.Path+": "+is.Why)
		}
		sort.Strings(ds)
		r.Check(len(issues) == 0, "C03/R5", "requests."+name+":re-encodes-exactly", "encoding then decoding a "+name+" yields the same value", "", strings.Join(ds, "; "))
	}
}


// c03StoreKeepsEntries (R7): what a node stores next to a signature is the payload that was proposed/announced for THAT
// entry. The repository (client/repositories/signature) only files whole entries; a store into one field of a
// ReconstructedSignature there (payload "normalised" from another entry of the slot, file name taken from the first
// record) detaches the stored payload from the bytes that were signed.
func c03StoreKeepsEntries(c *Ctx) {
	r := c.R
	sp := c.P.SSAPkg("client/repositories/signature")
	if sp == nil {
		r.Unknown("C03/R7", "signature-repo:package", "the signature repository is loaded", "", "package not found")
		return
	}
	n := 0
	var bad []string
	for fn := range c.P.AllFuncs() {
		if fn.Pkg != sp || c.isTestFunc(fn) {
			continue
		}
		n++
		ssax.Instrs(fn, func(in ssa.Instruction) {
			st, ok := in.(*ssa.Store)
			if !ok {
				return
			}
			fa, ok := st.Addr.(*ssa.FieldAddr)
			if !ok || ssax.OwnerName(fa) != "ReconstructedSignature" {
				return
			}
			// (initialising a local composite literal is not a rewrite of an entry)
			if al, isAlloc := fa.X.(*ssa.Alloc); isAlloc && strings.Contains(al.Comment, "complit") {
				return
			}
			bad = append(bad, fn.Name()+": ."+ssax.FieldOf(fa).Name()+" := "+ssax.Path(st.Val)+" at "+c.PosOf(in))
		})
	}
	sort.Strings(bad)
	r.Check(len(bad) == 0 && n >= 5, "C03/R7", "signature-repo:entries-kept-whole", "no field of a stored signature entry is rewritten by the repository", "", sprintf("%d functions scanned; field writes: %s", n, strings.Join(bad, "; ")))
}
