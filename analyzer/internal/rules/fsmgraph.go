package rules

import (
	"sort"
	"strings"

	"dcverif/internal/fsmx"
	"dcverif/internal/ssax"

	"golang.org/x/tools/go/ssa"
)

// State / event wire names used as anchors. They are protocol constants (persisted in
// dumps and posted on the board), so they are more stable than Go identifiers.
const (
	stIdle             = "__idle"
	stSigAwait         = "state_sig_proposal_await_participants_confirmations"
	stSigCollected     = "state_sig_proposal_collected"
	stCommitsAwait     = "state_dkg_commits_await_confirmations"
	stDealsAwait       = "state_dkg_deals_await_confirmations"
	stResponsesAwait   = "state_dkg_responses_await_confirmations"
	stMasterKeyAwait   = "state_dkg_master_key_await_confirmations"
	stMasterKeyCollect = "state_dkg_master_key_collected"
	stSigningIdle      = "stage_signing_idle"
	stSigningAwait     = "state_signing_await_partial_signs"
	stSigningCollected = "state_signing_partial_signs_collected"
	evSigInit          = "event_sig_proposal_init"
	evDKGInit          = "event_dkg_init_process"
	evSigningInit      = "event_signing_init"
	evSigningStart     = "event_signing_start"
	evSigningRestart   = "event_signing_restart"
	evPartialSign      = "event_signing_partial_sign_received"
	evPartialSignError = "event_signing_partial_sign_error_received"
	pkgSPF             = "fsm/state_machines/signature_proposal_fsm"
	pkgDPF             = "fsm/state_machines/dkg_proposal_fsm"
	pkgSIF             = "fsm/state_machines/signing_proposal_fsm"
	pkgInternal        = "fsm/state_machines/internal"
	pkgNode            = "client/services/node"
	pkgRequests        = "fsm/types/requests"
)

var phaseChain = []string{stIdle, stSigAwait, stSigCollected, stCommitsAwait, stDealsAwait, stResponsesAwait, stMasterKeyAwait, stMasterKeyCollect, stSigningIdle}

// fsmGraph is the union transition graph of the three machines. Because the machines share
// state names at the hand-over points, the union is the abstract transition relation of a round.
type fsmGraph struct {
	succ   map[string]map[string]bool
	states map[string]bool
	label  map[[2]string][]string
}

func buildGraph(ms map[string]*fsmx.Machine) *fsmGraph {
	g := &fsmGraph{succ: map[string]map[string]bool{}, states: map[string]bool{}, label: map[[2]string][]string{}}
	for _, m := range ms {
		for _, e := range m.Events {
			g.states[e.Dst] = true
			for _, s := range e.Src {
				g.states[s] = true
				if g.succ[s] == nil {
					g.succ[s] = map[string]bool{}
				}
				g.succ[s][e.Dst] = true
				g.label[[2]string{s, e.Dst}] = append(g.label[[2]string{s, e.Dst}], e.Name)
			}
		}
	}
	return g
}

// reach returns the states reachable from `from` (excluding from itself unless on a cycle),
// never passing through a state in `avoid`.
func (g *fsmGraph) reach(from string, avoid map[string]bool) map[string]bool {
	seen := map[string]bool{}
	stack := []string{from}
	for len(stack) > 0 {
		s := stack[len(stack)-1]
		stack = stack[:len(stack)-1]
		for d := range g.succ[s] {
			if avoid[d] || seen[d] {
				continue
			}
			seen[d] = true
			stack = append(stack, d)
		}
	}
	return seen
}

func (g *fsmGraph) sortedStates() []string {
	var out []string
	for s := range g.states {
		out = append(out, s)
	}
	sort.Strings(out)
	return out
}

func isCancelState(s string) bool {
	return strings.Contains(s, "cancel") // "canceled" and "cancelled" spellings both occur
}

// statusStores lists, for a named status type (e.g. DKGParticipantStatus) in the internal package,
// every store of a constant into a field of that type, across the given functions.
type statusStore struct {
	Fn    *ssa.Function
	Store *ssa.Store
	K     int64
	Field string
}

func statusStores(fns []*ssa.Function, typeName string) []statusStore {
	var out []statusStore
	for _, fn := range fns {
		ssax.Instrs(fn, func(in ssa.Instruction) {
			st, ok := in.(*ssa.Store)
			if !ok {
				return
			}
			fa, ok := st.Addr.(*ssa.FieldAddr)
			if !ok {
				return
			}
			fv := ssax.FieldOf(fa)
			if fv == nil || !strings.HasSuffix(fv.Type().String(), "."+typeName) {
				return
			}
			k, ok := ssax.ConstInt(st.Val)
			if !ok {
				out = append(out, statusStore{Fn: fn, Store: st, K: -1, Field: fv.Name()})
				return
			}
			out = append(out, statusStore{Fn: fn, Store: st, K: k, Field: fv.Name()})
		})
	}
	return out
}
