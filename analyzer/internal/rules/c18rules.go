package rules

import (
	"go/token"
	"go/types"
	"os"
	"regexp"
	"sort"
	"strings"

	"dcverif/internal/fsmx"
	"dcverif/internal/load"
	"dcverif/internal/ssax"

	"golang.org/x/tools/go/ssa"
)

// ---------------------------------------------------------------- R2: no durable write before a rejection

// isAirgappedSink: durable effects of the airgapped machine (its LevelDB and the result files).
func isAirgappedSink(fn *ssa.Function) bool {
	name := fn.String()
	switch {
	case strings.HasSuffix(name, "leveldb.DB).Put"), strings.HasSuffix(name, "leveldb.DB).Delete"), strings.HasSuffix(name, "leveldb.DB).Write"):
		return true
	case name == "os.OpenFile", name == "os.WriteFile", name == "io/ioutil.WriteFile", name == "(*os.File).Write", name == "os.Create":
		return true
	}
	return false
}

type r2Target struct {
	rel, recv, name string
	sink            func(*ssa.Function) bool
}

// steps after a write that cannot reject the input, by callee (suffix match on the resolved callee id)
var r2Benign = []struct{ callee, why string }{
	{"encoding/json.Marshal", "marshals a value the handler built itself"},
	{"fsm/state_machines.(FSMInstance).Dump", "marshals the round's own dump"},
	{"airgapped.createMessage", "only copies fields of the operation"},
	{"dkg.(BLSKeyring).PubPolyBytes", "marshals the keyring that was just stored"},
	{"client/modules/logger.(Logger).Log", "logging"},
	{"operation.(OperationService).PutOperation", "storage write; its only rejection is a duplicate id, and the ids are fresh UUIDs"},
	{"fsmservice.(FSMService).GetFSMInstance", "storage read of the round just handled (fails only on storage I/O)"},
	{"fsmservice.(FSM).GetFSMInstance", "storage read of the round just handled (fails only on storage I/O)"},
}

// reviewed (write -> later step) pairs, by key regexp
var r2Reviewed = []struct {
	pat *regexp.Regexp
	why string
}{
	{regexp.MustCompile(`^node\.processMessage:\(BaseNodeService\)\.broadcastReconstructedSignatures->(state_machines\.FromDump|\(FSMInstance\)\.Do\["event_signing_restart"\])$`),
		"after the signatures were posted the node restarts the signing machine itself: FromDump of the dump just produced (C19/R1) and the constant event_signing_restart, which the collected state accepts (C06/C07); neither depends on the message"},
	{regexp.MustCompile(`^node\.processMessage:\(BaseNodeService\)\.broadcastReconstructedSignatures->\(BaseNodeService\)\.processSignatureProposal$`),
		"different events: signatures are broadcast for a partial-sign message, the proposal is stored for event_signing_start (path-insensitive pairing only)"},
	{regexp.MustCompile(`^node\.reinitDKG:.*->types\.CalcStartReInitDKGMessageHash$`), "re-parses the message.Data that json.Unmarshal accepted at the top of reinitDKG into the same type"},
}

func c18NoWriteBeforeReject(c *Ctx) {
	r := c.R
	targets := []r2Target{
		{pkgNode, "BaseNodeService", "processMessage", isDurableSink},
		{pkgNode, "BaseNodeService", "reinitDKG", isDurableSink},
		{"airgapped", "Machine", "ProcessOperation", isAirgappedSink},
		{"airgapped", "Machine", "handleStateDkgMasterKeyAwaitConfirmations", isAirgappedSink},
	}
	nW := 0
	for _, t := range targets {
		memo := map[*ssa.Function]int{}
		fn := c.Fn("C18/R2", t.rel, t.recv, t.name)
		if fn == nil {
			continue
		}
		short := lastSeg(t.rel) + "." + t.name
		calls := ssax.Calls(fn, false, func(ssa.CallInstruction) bool { return true })
		isWrite := map[ssa.CallInstruction]string{}
		for _, call := range calls {
			if _, isDefer := call.(*ssa.Defer); isDefer {
				continue
			}
			if p, ok := c.siteReaches(call, t.sink); ok {
				isWrite[call] = strings.Join(p, " -> ")
			}
		}
		cnt := map[string]int{}
		for _, w := range calls {
			via, ok := isWrite[w]
			if !ok {
				continue
			}
			nW++
			wname := r2Name(w)
			cnt[wname]++
			wkey := wname
			if cnt[wname] > 1 {
				wkey = sprintf("%s#%d", wname, cnt[wname])
			}
			// restart pre-handlers: SaveFSM of the dump returned by Do(event_signing_restart) directly
			if t.name == "processMessage" && strings.HasSuffix(wname, "SaveFSM") {
				a := w.Common().Args
				if p := npath(a[len(a)-1]); strings.Contains(p, `.Do("event_signing_restart"`) && !strings.HasPrefix(p, "phi(") {
					// the pre-handler is identified by the state suffix it is taken for (stable under reordering)
					which := wkey
					for _, cd := range ssax.Conds(fn) {
						call, isCall := ssax.Resolve(cd.X).(*ssa.Call)
						if cd.Op != token.ILLEGAL || !isCall || ssax.FuncID(ssax.CalleeObj(call)) != "strings.HasSuffix" {
							continue
						}
						sfx, isConst := ssax.ConstString(call.Common().Args[1])
						e, okE := cd.BoolEdge(true)
						if isConst && okE && !ssax.ReachableAvoiding(fn, w.(ssa.Instruction), []ssax.Edge{e}, nil) {
							which = sfx
						}
					}
					r.Fail("C18/R2", short+":restart-prehandler:"+which, "a message that is refused leaves the round as it was", c.PosOf(w.(ssa.Instruction)),
						"before the message is decoded and checked, a round found in a state ending in "+which+" is restarted (Do(event_signing_restart)) and SAVED; if the message is then refused, the stored round has nevertheless moved to stage_signing_idle (dump = "+trimPath(p)+")")
					continue
				}
			}
			// error edges of w itself are cut: what follows the write's own failure is an I/O failure, not a rejection
			var cut []ssax.Edge
			for _, e := range ssax.NilErrEdgesOfCall(fn, w) {
				cut = append(cut, ssax.Edge{From: e.From, Succ: 1 - e.Succ})
			}
			win := w.(ssa.Instruction)
			bad := map[string]string{}
			for _, x := range calls {
				if x == w {
					continue
				}
				if _, isDefer := x.(*ssa.Defer); isDefer {
					continue
				}
				xin := x.(ssa.Instruction)
				if !ssax.ReachableFrom(fn, win, xin, cut, nil) {
					continue
				}
				if ssax.ErrIndex(x) < 0 {
					continue
				}
				if c.callIsPureIO(x, t.sink, memo) {
					continue
				}
				bad[r2Name(x)] = c.PosOf(xin)
			}
			// explicit rejections: returns of a fresh error not guarded by a call's error
			for _, ret := range ssax.Returns(fn) {
				for _, rj := range explicitRejects(fn, ret) {
					if rj.at != ssa.Instruction(win) && !ssax.ReachableFrom(fn, win, rj.at, cut, nil) {
						continue
					}
					bad["explicit:"+rj.why] = c.PosOf(ret)
				}
			}
			var names []string
			for n := range bad {
				names = append(names, n)
			}
			sort.Strings(names)
			if len(names) == 0 {
				r.OKd("C18/R2", short+":"+wkey, "after this durable write no step can reject the input", c.PosOf(win), "writes through "+via)
				continue
			}
			for _, n := range names {
				key := short + ":" + wkey + "->" + n
				reviewed := ""
				for _, rv := range r2Reviewed {
					if rv.pat.MatchString(key) {
						reviewed = rv.why
					}
				}
				if reviewed != "" {
					r.OKd("C18/R2", key, "reviewed: "+reviewed, bad[n], "")
					continue
				}
				r.Fail("C18/R2", key, "no step that can reject the input follows a durable write", bad[n],
					sprintf("%s (%s) writes durable state / posts to the board (%s), and %s at %s can still fail afterwards: input rejected at that point has already changed durable state", wname, c.PosOf(win), via, n, bad[n]))
			}
		}
	}
	if nW < 8 {
		r.Unknown("C18/R2", "write-census", "the write census sees the handlers' durable writes", "", sprintf("only %d write calls found (9 confirmed by hand)", nW))
	}
	r.Count("r2_write_calls", nW)
	c18ReinitStepsOwnRound(c)
	c18RegisterLast(c)
}

// c18ReinitStepsOwnRound: a reinit operation replays a list of inner operations through GetOperationResult, each with all
// its durable effects (the master-key step stores a BLS keyring under the INNER operation's round id). The outer
// operation can still be refused afterwards, so an inner step may only be executed if it names the outer round: otherwise
// a refused operation has created or replaced the keyring of another round.
func c18ReinitStepsOwnRound(c *Ctx) {
	r := c.R
	fn := c.Fn("C18/R2", "airgapped", "Machine", "handleReinitDKG")
	if fn == nil {
		return
	}
	execs := ssax.Calls(fn, false, func(ci ssa.CallInstruction) bool {
		o := ssax.CalleeObj(ci)
		return o != nil && o.Name() == "GetOperationResult"
	})
	var same []ssax.Edge
	for _, cd := range ssax.Conds(fn) {
		if cd.Op != token.EQL && cd.Op != token.NEQ {
			continue
		}
		a, b := npath(cd.X), npath(cd.Y)
		inner := func(p string) bool { return strings.HasPrefix(p, "json(operation.Payload)[") && strings.HasSuffix(p, ".DKGIdentifier") }
		if (inner(a) && b == "operation.DKGIdentifier") || (inner(b) && a == "operation.DKGIdentifier") {
			e, _ := cd.EdgeWhere(token.EQL)
			same = append(same, e)
		}
	}
	ok := len(execs) == 1 && len(same) > 0
	for _, x := range execs {
		if ssax.ReachableAvoiding(fn, x.(ssa.Instruction), same, nil) {
			ok = false
		}
	}
	r.Check(ok, "C18/R2", "airgapped.handleReinitDKG:steps-own-round", "an inner step of a reinit operation is executed only if it names the reinitialized round", c.Pos(fn.Pos()),
		sprintf("%d inner executions, %d tests of the step's DKGIdentifier against operation.DKGIdentifier; the execution is reachable without one: a reinit operation that is finally refused (\"invalid dkg identifier\") has already stored — or replaced — the BLS keyring of another round", len(execs), len(same)))
}

// callIsPureIO: the call can fail only for storage/board I/O reasons (or not at all): every callee is a durable sink,
// a storage read, a benign step, or a module function made of such steps without a rejection of its own.
func (c *Ctx) callIsPureIO(x ssa.CallInstruction, sink func(*ssa.Function) bool, memo map[*ssa.Function]int) bool {
	id := ssax.FuncID(ssax.CalleeObj(x))
	if isFormatter(id) {
		return true
	}
	for _, b := range r2Benign {
		if strings.HasSuffix(id, b.callee) {
			return true
		}
	}
	if id == "encoding/json.Unmarshal" {
		// decoding what the node / machine stored itself
		p := npath(x.Common().Args[0])
		return strings.Contains(p, ".Get(") || strings.Contains(p, "ReadFile(")
	}
	var callees []*ssa.Function
	for _, cf := range c.calleesAt(x) {
		if strings.Contains(load.FuncName(cf), "mocks/") {
			continue
		}
		callees = append(callees, cf)
	}
	if len(callees) == 0 {
		if sc := x.Common().StaticCallee(); sc != nil {
			callees = append(callees, sc)
		}
	}
	if len(callees) == 0 {
		return false
	}
	for _, cf := range callees {
		if !c.funcIsPureIO(cf, sink, memo) {
			return false
		}
	}
	return true
}

func (c *Ctx) funcIsPureIO(f *ssa.Function, sink func(*ssa.Function) bool, memo map[*ssa.Function]int) bool {
	switch memo[f] {
	case 1, 2:
		return true // in progress (recursion) or known pure
	case 3:
		return false
	}
	if sink(f) || isStorageRead(f) {
		memo[f] = 2
		return true
	}
	if !load.InModule(f) || len(f.Blocks) == 0 {
		if f.Synthetic != "" && len(f.Blocks) > 0 {
			// wrapper: look through
		} else {
			memo[f] = 3
			return false
		}
	}
	memo[f] = 1
	ok := true
	for _, x := range ssax.Calls(f, false, func(ssa.CallInstruction) bool { return true }) {
		if _, isDefer := x.(*ssa.Defer); isDefer {
			continue
		}
		if ssax.ErrIndex(x) < 0 && f.Synthetic == "" {
			continue
		}
		if !c.callIsPureIO(x, sink, memo) {
			if os.Getenv("DCVERIF_DEBUG") != "" {
				println("not pure:", load.FuncName(f), "because of", r2Name(x), c.PosOf(x.(ssa.Instruction)))
			}
			ok = false
			break
		}
	}
	if ok {
		for _, ret := range ssax.Returns(f) {
			if why := explicitReject(f, ret); why != "" {
				if os.Getenv("DCVERIF_DEBUG") != "" {
					println("not pure:", load.FuncName(f), "explicit reject", why, c.PosOf(ret))
				}
				ok = false
			}
		}
	}
	if ok {
		memo[f] = 2
	} else {
		memo[f] = 3
	}
	return ok
}

func isStorageRead(f *ssa.Function) bool {
	name := f.String()
	switch {
	case strings.HasSuffix(name, "leveldb.DB).Get"), strings.HasSuffix(name, "leveldb.DB).Has"), name == "os.ReadFile", name == "io/ioutil.ReadFile":
		return true
	case strings.HasSuffix(name, "client/modules/state.LevelDBState).Get"), strings.HasSuffix(name, "client/modules/state.LevelDBState).LoadOffset"):
		return true
	}
	return false
}

func r2Name(ci ssa.CallInstruction) string {
	id := ssax.FuncID(ssax.CalleeObj(ci))
	if id == "" {
		return "dynamic"
	}
	id = strings.TrimPrefix(id, load.Module+"/")
	if i := strings.LastIndex(id, "/"); i >= 0 {
		id = id[i+1:]
	}
	// drop the package qualifier of methods for brevity: pkg.(T).M -> (T).M ; keep pkg.F
	if j := strings.Index(id, ".("); j >= 0 {
		id = id[j+1:]
	}
	// FSM steps are told apart by their event: a constant one is issued by the node itself
	if id == "(FSMInstance).Do" {
		a := ci.Common().Args
		if ev, ok := ssax.ConstString(a[1]); ok {
			id += "[\"" + ev + "\"]"
		} else {
			id += "[" + npath(a[1]) + "]"
		}
	}
	return id
}

// explicitReject: ret returns a non-nil error that is not the (possibly wrapped) error of a call: a rejection the
// function decides itself (failed comparison, failed assertion, missing entry).
func explicitReject(fn *ssa.Function, ret *ssa.Return) string {
	if rj := explicitRejects(fn, ret); len(rj) > 0 {
		return rj[0].why
	}
	return ""
}

type rejection struct {
	why string
	at  ssa.Instruction // the point where this alternative of the returned error is chosen
}

// explicitRejects examines every alternative of the returned error (a helper expanded in place returns through a merge).
func explicitRejects(fn *ssa.Function, ret *ssa.Return) []rejection {
	if len(ret.Results) == 0 || ret.Block() == fn.Recover {
		return nil // (the recover block of a function with defers re-returns the spilled results)
	}
	ev := ret.Results[len(ret.Results)-1]
	if !isErrorType(ev.Type()) {
		return nil
	}
	var out []rejection
	for _, lf := range ssax.Leaves(ev, ret) {
		if ssax.IsNilConst(ssax.Resolve(lf.V)) {
			continue
		}
		if propagatesCallError(lf.V, 0) || underCallErrorBranchOf(lf.At.Block()) {
			continue
		}
		p := npath(lf.V)
		if len(p) > 50 {
			p = p[:50] + "…"
		}
		out = append(out, rejection{p, lf.At})
	}
	return out
}

// underCallErrorBranch: the return sits in the `err != nil` branch of a call's error result.
func underCallErrorBranch(ret *ssa.Return) bool { return underCallErrorBranchOf(ret.Block()) }

func underCallErrorBranchOf(b *ssa.BasicBlock) bool {
	for i := 0; i < 8 && b != nil; i++ {
		if len(b.Preds) != 1 {
			return false
		}
		pb := b.Preds[0]
		if iff, ok := pb.Instrs[len(pb.Instrs)-1].(*ssa.If); ok {
			cd := ssax.DecomposeCond(iff)
			if cd.Op == token.EQL || cd.Op == token.NEQ {
				for _, pr := range [][2]ssa.Value{{cd.X, cd.Y}, {cd.Y, cd.X}} {
					if ssax.IsNilConst(ssax.Resolve(pr[1])) && isErrorType(pr[0].Type()) {
						switch ssax.Resolve(pr[0]).(type) {
						case *ssa.Call, *ssa.Extract:
							// the error branch is the one on which the value is non-nil
							e, _ := cd.EdgeWhere(token.NEQ)
							return pb.Succs[e.Succ] == b
						}
					}
				}
			}
			return false
		}
		b = pb
	}
	return false
}

// propagatesCallError: v is the error result of a call, or a formatter call one of whose operands is, or a merge of such.
func propagatesCallError(v ssa.Value, depth int) bool {
	if depth > 4 {
		return false
	}
	switch x := ssax.Resolve(v).(type) {
	case *ssa.Extract:
		return true
	case *ssa.Phi:
		for _, e := range ssax.FeasibleEdges(x) {
			if ssax.IsNilConst(ssax.Resolve(e)) {
				continue
			}
			if !propagatesCallError(e, depth+1) {
				return false
			}
		}
		return true
	case *ssa.Call:
		id := ssax.FuncID(ssax.CalleeObj(x))
		if !isFormatter(id) {
			return true
		}
		for _, a := range x.Common().Args {
			var elems []ssa.Value
			if sl, ok := a.(*ssa.Slice); ok {
				if al, ok := sl.X.(*ssa.Alloc); ok {
					elems = ssax.ArrayElems(al)
				}
			}
			for _, e := range elems {
				if mi, ok := e.(*ssa.MakeInterface); ok && isErrorType(mi.X.Type()) && propagatesCallError(mi.X, depth+1) {
					return true
				}
				if ci, ok := e.(*ssa.ChangeInterface); ok && isErrorType(ci.X.Type()) && propagatesCallError(ci.X, depth+1) {
					return true
				}
				if isErrorType(e.Type()) && propagatesCallError(e, depth+1) {
					return true
				}
			}
		}
		return false
	}
	return false
}

// ---------------------------------------------------------------- R3: survive a failing input

func c18Survive(c *Ctx, sites []panicSite) {
	r := c.R
	// no process exit on input-reachable code
	nExit := 0
	for _, s := range sites {
		if s.Kind == "exit" {
			nExit++
			r.Fail("C18/R3", s.Key, "no process exit on input-reachable code", s.Pos, "this call terminates the process and is reachable from an input handler")
		}
	}
	r.Check(nExit == 0, "C18/R3", "no-exit", "no log.Fatal / os.Exit / log.Panic reachable from the input handlers", "", sprintf("%d sites", nExit))
	// Poll: the error of ProcessMessage reaches no return
	if poll := c.Fn("C18/R3", pkgNode, "BaseNodeService", "Poll"); poll != nil {
		pms := callsIn(poll, pkgNode+".(BaseNodeService).ProcessMessage")
		var sel []ssa.Instruction
		ssax.Instrs(poll, func(in ssa.Instruction) {
			if _, ok := in.(*ssa.Select); ok {
				sel = append(sel, in)
			}
		})
		ok := len(pms) == 1 && len(sel) >= 1
		detail := sprintf("%d ProcessMessage calls, %d select statements", len(pms), len(sel))
		if ok {
			for _, ret := range ssax.Returns(poll) {
				if ssax.ReachableFrom(poll, pms[0].(ssa.Instruction), ret, nil, sel) {
					ok = false
					detail = "a return at " + c.PosOf(ret) + " is reachable from the ProcessMessage call within the same iteration: a failing message stops the poller"
				}
			}
			// and the error value is only logged
			for _, ret := range ssax.Returns(poll) {
				for _, res := range ret.Results {
					if strings.Contains(npath(res), "ProcessMessage(") {
						ok = false
						detail = "Poll returns the error of ProcessMessage"
					}
				}
			}
		}
		r.Check(ok, "C18/R3", "node.Poll:survives-message-error", "a message whose handling fails is logged and skipped; the loop continues", c.Pos(poll.Pos()), detail)
	}
	// airgapped prompt: the command's error is printed, not returned
	if run := c.P.Func("cmd/airgapped", "prompt", "run"); run != nil {
		ok, n := true, 0
		detail := ""
		// run itself, its closures, and whatever it calls inside the command package (the command execution may be a
		// closure or a method of the prompt)
		fns := []*ssa.Function{}
		seenF := map[*ssa.Function]bool{}
		var walk func(f *ssa.Function)
		walk = func(f *ssa.Function) {
			if f == nil || seenF[f] || len(f.Blocks) == 0 {
				return
			}
			if f.Pkg != run.Pkg && (f.Parent() == nil || f.Parent().Pkg != run.Pkg) {
				return
			}
			seenF[f] = true
			fns = append(fns, f)
			for _, an := range f.AnonFuncs {
				walk(an)
			}
			if n := c.P.CallGraph().Nodes[f]; n != nil {
				for _, e := range n.Out {
					walk(e.Callee.Func)
				}
			}
		}
		walk(run)
		for _, f := range fns {
			for _, call := range ssax.Calls(f, false, func(ci ssa.CallInstruction) bool {
				return !ci.Common().IsInvoke() && ci.Common().StaticCallee() == nil && strings.HasSuffix(npath(ci.Common().Value), ".commandHandler")
			}) {
				n++
				for _, ret := range ssax.Returns(f) {
					for _, res := range ret.Results {
						if strings.Contains(npath(res), "commandHandler()") {
							ok = false
							detail = "the prompt returns the command's error at " + c.PosOf(ret)
						}
					}
				}
				_ = call
			}
		}
		r.Check(ok && n == 1, "C18/R3", "airgapped.prompt.run:survives-command-error", "a failing command (rejected operation file) is printed; the prompt keeps running", c.Pos(run.Pos()), sprintf("%d commandHandler calls; %s", n, detail))
	} else {
		r.Unknown("C18/R3", "airgapped.prompt.run:survives-command-error", "prompt loop found", "", "cmd/airgapped.(*prompt).run not found")
	}
}

// ---------------------------------------------------------------- R4: Validate before use

func c18ValidateFirst(c *Ctx, ms map[string]*fsmx.Machine) {
	r := c.R
	n := 0
	seen := map[*ssa.Function]bool{}
	// request types that arrive from the board: the decode targets of FSMRequestFromMessage
	decoded := map[string]bool{}
	if fr := c.Fn("C18/R4", pkgTypes, "", "FSMRequestFromMessage"); fr != nil {
		for _, cf := range c.moduleClosure(fr) {
			ssax.Instrs(cf, func(in ssa.Instruction) {
				if al, ok := in.(*ssa.Alloc); ok {
					if nt, ok := al.Type().(*types.Pointer).Elem().(*types.Named); ok && nt.Obj().Pkg() != nil && strings.HasSuffix(nt.Obj().Pkg().Path(), pkgRequests) {
						decoded[nt.Obj().Name()] = true
					}
				}
			})
		}
	}
	r.Count("r4_request_types_decoded_from_messages", len(decoded))
	for _, rel := range fsmx.MachinePkgs {
		m := ms[rel]
		var evs []string
		for ev := range m.Callbacks {
			evs = append(evs, ev)
		}
		sort.Strings(evs)
		for _, ev := range evs {
			cb := m.Callbacks[ev]
			if cb == nil || seen[cb] {
				continue
			}
			seen[cb] = true
			// the request: comma-ok assertion of args[0] to a named request type
			var req *ssa.TypeAssert
			ssax.Instrs(cb, func(in ssa.Instruction) {
				if ta, ok := in.(*ssa.TypeAssert); ok && ta.CommaOk {
					if nt, ok := ta.AssertedType.(*types.Named); ok && nt.Obj().Pkg() != nil && strings.HasSuffix(nt.Obj().Pkg().Path(), pkgRequests) {
						req = ta
					}
				}
			})
			if req == nil {
				continue
			}
			nt := req.AssertedType.(*types.Named)
			if !decoded[nt.Obj().Name()] {
				continue // built by the node itself (DefaultRequest with the node's clock), not decoded from a message
			}
			hasValidate := false
			for i := 0; i < nt.NumMethods(); i++ {
				if nt.Method(i).Name() == "Validate" {
					hasValidate = true
				}
			}
			key := shortFn(cb) + ":validate-first"
			if !hasValidate {
				// observation only: nothing to order
				continue
			}
			n++
			edges := validateNilEdges(cb)
			if len(edges) == 0 {
				r.Fail("C18/R4", key, "the callback validates its request", c.Pos(cb.Pos()), nt.Obj().Name()+" has a Validate method but the callback does not call it: out-of-range ids, empty lists or missing fields reach the handler's logic")
				continue
			}
			// every read of a request field lies behind Validate() == nil
			bad := ""
			nreads := 0
			ssax.Instrs(cb, func(in ssa.Instruction) {
				var base ssa.Value
				switch x := in.(type) {
				case *ssa.Field:
					base = x.X
				case *ssa.FieldAddr:
					base = x.X
				default:
					return
				}
				if !fromRequest(base, req) {
					return
				}
				// the Validate call itself takes the request (receiver copy): skip loads feeding only that call
				nreads++
				if bad == "" && ssax.ReachableAvoiding(cb, in, edges, nil) {
					bad = c.PosOf(in)
				}
			})
			r.Check(bad == "" && nreads > 0, "C18/R4", key, "request fields are read only after request.Validate() returned nil", c.Pos(cb.Pos()),
				sprintf("%d request field reads; first unguarded read at %s", nreads, bad))
		}
	}
	r.Count("r4_callbacks_with_validating_request", n)
}

// fromRequest: v is the asserted request value (or the local it was spilled to).
func fromRequest(v ssa.Value, req *ssa.TypeAssert) bool {
	for i := 0; i < 6; i++ {
		switch x := v.(type) {
		case *ssa.Extract:
			return x.Tuple == req && x.Index == 0
		case *ssa.UnOp:
			if x.Op == token.MUL {
				v = x.X
				continue
			}
			return false
		case *ssa.Alloc:
			// spilled local: stored once from the extracted request
			for _, ref := range *x.Referrers() {
				if st, ok := ref.(*ssa.Store); ok && st.Addr == x {
					if ex, ok := st.Val.(*ssa.Extract); ok && ex.Tuple == req && ex.Index == 0 {
						return true
					}
				}
			}
			return false
		default:
			return false
		}
	}
	return false
}


// c18RegisterLast: the step that CREATES a round's key-generation instance registers it in Machine.dkgInstances only
// when nothing can fail any more. Registered earlier, a step that is then refused (a peer key that is no curve point)
// leaves a half-built instance behind: the refused operation was not a no-op — a corrected operation for the round is
// refused with "already exists" and the next step dereferences what was never initialised.
func c18RegisterLast(c *Ctx) {
	r := c.R
	fn := c.Fn("C18/R2", "airgapped", "Machine", "handleStateDkgCommitsAwaitConfirmations")
	if fn == nil {
		return
	}
	var regs []ssa.Instruction
	ssax.Instrs(fn, func(in ssa.Instruction) {
		mu, ok := in.(*ssa.MapUpdate)
		if !ok || !strings.HasSuffix(ssax.Path(mu.Map), "dkgInstances") {
			return
		}
		if call, isCall := ssax.Resolve(mu.Value).(*ssa.Call); isCall && strings.HasSuffix(ssax.FuncID(ssax.CalleeObj(call)), "/dkg.Init") {
			regs = append(regs, in)
		}
	})
	ok := len(regs) == 1
	detail := sprintf("%d registrations of a fresh instance", len(regs))
	if ok {
		// no step that can refuse the operation follows the registration: a call whose last result is an error (apart
		// from encoding a value the handler built itself, which cannot fail) is such a step
		for _, call := range ssax.Calls(fn, false, func(ssa.CallInstruction) bool { return true }) {
			sig := call.Common().Signature()
			if sig == nil || sig.Results().Len() == 0 || sig.Results().At(sig.Results().Len()-1).Type().String() != "error" {
				continue
			}
			id := ssax.FuncID(ssax.CalleeObj(call))
			if id == "encoding/json.Marshal" || strings.HasPrefix(id, "fmt.") {
				continue
			}
			if ci := call.(ssa.Instruction); ci != regs[0] && ssax.ReachableFrom(fn, regs[0], ci, nil, nil) {
				ok, detail = false, "the fallible step "+callName(call)+" at "+c.PosOf(ci)+" runs after the instance was registered at "+c.PosOf(regs[0])
			}
		}
	}
	r.Check(ok, "C18/R2", "airgapped.commits-handler:registers-last", "the new round's instance is registered only after every step that can refuse the operation", c.Pos(fn.Pos()), detail)
}
