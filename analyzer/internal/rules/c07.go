package rules

import (
	"go/token"
	"strings"

	"dcverif/internal/fsmx"
	"dcverif/internal/load"
	"dcverif/internal/ssax"

	"golang.org/x/tools/go/ssa"
)

func init() { Registry["C07"] = C07 }

// C07 — every batch signed by t honest participants is reconstructed on every node.
// Liveness over schedules is not a static fact; only the structural preconditions are decided.
func C07(c *Ctx) {
	r := c.R
	r.Explain = "Liveness over delivery schedules cannot be decided statically. Decided are the structural preconditions without which the property cannot hold: (R1) on the collected path the dump that processMessage persists is the one returned by Do(event_signing_restart), and that restart comes only after a successful reconstruction and broadcast; " +
		"(R2) answers to a finished batch are inert: partial-signature and error events have no transition from stage_signing_idle, a proposal is accepted only in idle (a batch in progress cannot be replaced), and a partial signature is bound to the current batch id; " +
		"(R3) message processing is all-or-nothing around reconstruction: no durable effect lies between the FSM event and the reconstruction, and the final SaveFSM is reached on the collected path only past successful reconstruction and broadcast; " +
		"(R4) the signing deadline cannot silently disable a round: if the callbacks advance the signing payload's UpdatedAt, every proposal must renew its ExpiresAt; " +
		"(R5) event_signing_start replaces the signing quorum by a freshly made map on every accepting path and fills it only with freshly allocated entries, so partial signatures and statuses of a finished batch cannot leak into the next one. " +
		"(R6) a received reconstruction is stored whatever state the round is in when it arrives: neither the branch of processMessage that handles signature_reconstructed nor processSignature tests the round's FSM instance, dump or the clock, every decoded entry is handed to SaveSignatures, and no success return bypasses the save (a reconstruction that arrives after the next proposal — the normal case for a lagging node — must still be kept). " +
		"(R9) the proposer gives every proposal a freshly generated batch id that depends on nothing the caller supplies: id equality is all that separates a late answer to an earlier proposal from an answer to the current one. " +
		"NOT decided: that reconstruction succeeds for every delivery order (tbls.Recover aborts on the first invalid share — recorded as an observation), polling, eventual delivery."
	r.Trusted = []string{"go/ssa", "FSM engine model (C05/E)"}
	r.Rule("C07/R1", "restart provenance: the saved dump is the restart's dump; restart only after reconstruction+broadcast succeeded", 3)
	r.Rule("C07/R2", "late answers are inert; a proposal cannot replace a batch in progress", 4)
	r.Rule("C07/R3", "all-or-nothing around reconstruction", 2)
	r.Rule("C07/R4", "signing deadline is renewed per batch if it is live", 1)
	r.Rule("C07/R5", "every proposal starts from a fresh quorum: nothing recorded for the previous batch (status, partial signatures) survives into the next", 2)
	r.Rule("C07/R6", "a received reconstruction is stored independently of the round's current state", 3)
	c07StoreIndependent(c)
	r.Rule("C07/R8", "every verified board message that is not a signature announcement reaches the round's machine: processMessage has no other early success return in front of Do(message.Event)", 1)
	c07NoSilentSkip(c)
	r.Rule("C07/R7", "a finished batch stays finished: the blob holding all rounds is rewritten under one fixed lock (a save of another round must not restore this round's earlier dump)", 1)
	c14RMWAs(c, c14Roots(c), "C07/R7", "SaveFSM")
	r.Rule("C07/R9", "every proposal gets a batch id of its own: the id is drawn fresh and does not depend on what is proposed (answers are bound to their batch by id equality alone)", 1)
	c07FreshBatchID(c)
	ms := c.Machines("C07/A1")
	fn := c.Fn("C07/R1", pkgNode, "BaseNodeService", "processMessage")
	if fn == nil || len(ms) != 3 {
		return
	}
	m := ms[pkgSIF]
	// ---- R2 table
	for _, ev := range []string{evPartialSign, evPartialSignError} {
		_, fromIdle := m.Trans[[2]string{stSigningIdle, ev}]
		r.Check(!fromIdle && m.ByName[ev] != nil, "C07/R2", "signing_proposal_fsm:"+ev+":not-from-idle", "an answer arriving after its batch finished is rejected before any callback (no transition from idle)", "", "event "+ev+" has a transition from "+stSigningIdle)
	}
	ds := m.ByName[evSigningStart]
	r.Check(ds != nil && len(ds.Src) == 1 && ds.Src[0] == stSigningIdle, "C07/R2", "signing_proposal_fsm:"+evSigningStart+":only-from-idle", "a new proposal is accepted only in idle: it cannot replace a batch that is collecting answers", "", "event_signing_start is accepted in other states: a concurrent proposal would overwrite BatchID and quorum of the batch in progress, whose answers are then refused")
	if cb := m.Callbacks[evPartialSign]; cb != nil {
		c06BatchBindingRule(c, cb, "C07/R2")
	}
	// ---- anchors in processMessage
	var mainDo, restart ssa.CallInstruction
	for _, call := range ssax.CallsTo(fn, load.Module+"/fsm/state_machines.(FSMInstance).Do") {
		if ev, ok := ssax.ConstString(call.Common().Args[1]); ok {
			if ev == evSigningRestart && len(respStateEdges(fn, stSigningCollected)) > 0 && !ssax.ReachableAvoiding(fn, call, respStateEdges(fn, stSigningCollected), nil) {
				restart = call
			}
			continue
		}
		if strings.HasSuffix(ssax.Path(call.Common().Args[1]), "message.Event") {
			mainDo = call
		}
	}
	recs := ssax.CallsTo(fn, load.Module+"/"+pkgNode+".reconstructThresholdSignature")
	bcs := ssax.CallsTo(fn, load.Module+"/"+pkgNode+".(BaseNodeService).broadcastReconstructedSignatures")
	var finalSave ssa.CallInstruction
	for _, s := range ssax.Calls(fn, false, func(ci ssa.CallInstruction) bool { o := ssax.CalleeObj(ci); return o != nil && o.Name() == "SaveFSM" }) {
		if mainDo != nil && ssax.ReachableFrom(fn, mainDo, s, nil, nil) {
			finalSave = s
		}
	}
	if mainDo == nil || restart == nil || len(recs) != 1 || len(bcs) != 1 || finalSave == nil {
		r.Unknown("C07/R1", "node.processMessage:anchors", "main Do, collected-path restart, reconstruction, broadcast and final SaveFSM are recognisable", c.Pos(fn.Pos()),
			sprintf("mainDo=%v restart=%v reconstruct=%d broadcast=%d finalSave=%v", mainDo != nil, restart != nil, len(recs), len(bcs), finalSave != nil))
		return
	}
	rec, bc := recs[0], bcs[0]
	// R1: saved dump includes the restart's dump
	dumpArg := finalSave.Common().Args[len(finalSave.Common().Args)-1]
	r.Check(valueFlowsFrom(dumpArg, restart, 1), "C07/R1", "node.processMessage:saved-dump=restart-dump", "after a collected batch the persisted dump is the one returned by Do(event_signing_restart)", c.PosOf(finalSave),
		"the dump handed to SaveFSM does not derive from the restart's result: the round would be saved in the collected state and the next proposal rejected")
	// the restart's dump is the last assignment: no other Do between restart and the save
	recOK := ssax.NilErrEdgesOfCall(fn, rec)
	bcOK := ssax.NilErrEdgesOfCall(fn, bc)
	neC := respStateAssume(fn, stSigningCollected) // resp.State is collected on this path
	r.Check(len(recOK) > 0 && !ssax.ReachableFrom(fn, mainDo, restart, append(append([]ssax.Edge{}, neC...), recOK...), nil), "C07/R1", "node.processMessage:reconstruct<restart", "the round returns to idle only after the batch was reconstructed", c.PosOf(restart), "restart reachable without a successful reconstructThresholdSignature")
	r.Check(len(bcOK) > 0 && !ssax.ReachableFrom(fn, mainDo, restart, append(append([]ssax.Edge{}, neC...), bcOK...), nil), "C07/R1", "node.processMessage:broadcast<restart", "the round returns to idle only after the reconstructed signatures were broadcast", c.PosOf(restart), "restart reachable without a successful broadcast")
	// R3a: no durable effect between main Do and reconstruction
	var effects []ssa.Instruction
	for _, call := range ssax.Calls(fn, false, func(ssa.CallInstruction) bool { return true }) {
		if call == mainDo || call == rec {
			continue
		}
		if _, ok := c.siteReaches(call, isDurableSink); ok {
			effects = append(effects, call)
		}
	}
	early := ""
	for _, e := range effects {
		if ssax.ReachableFrom(fn, mainDo, e, nil, nil) && ssax.ReachableFrom(fn, e, rec, nil, nil) {
			early = c.PosOf(e) + " " + callName(e.(ssa.CallInstruction))
		}
	}
	r.Check(early == "", "C07/R3", "node.processMessage:nothing-durable-before-reconstruction", "a failed reconstruction leaves nothing written (no durable effect between the FSM event and the reconstruction)", c.PosOf(rec), "durable effect before reconstruction: "+early)
	// R3b: on the collected path the final save is behind reconstruction and broadcast success
	ne := neC
	cut := append(append([]ssax.Edge{}, ne...), recOK...)
	okB := !ssax.ReachableFrom(fn, mainDo, finalSave, cut, nil)
	cut2 := append(append([]ssax.Edge{}, ne...), bcOK...)
	okC := !ssax.ReachableFrom(fn, mainDo, finalSave, cut2, nil)
	r.Check(okB && okC, "C07/R3", "node.processMessage:save-only-after-reconstruction", "with resp.State==collected the state change is persisted only after reconstruction and broadcast succeeded", c.PosOf(finalSave),
		sprintf("final SaveFSM reachable on the collected path without successful reconstruction (%v) / broadcast (%v)", !okB, !okC))
	// R4 deadline
	c07Deadline(c)
	// R5 fresh quorum per batch
	c07FreshQuorum(c, m)
	r.Note("C07 observation (not a verdict): kyber tbls.Recover verifies shares in order and aborts on the first invalid one instead of skipping it; with a junk share among the first t collected the batch is not reconstructed although t valid shares may exist later.")
	r.Note("C07/C06 observation: signing error reports (event_signing_partial_sign_error_received) carry no BatchID, so they cannot be bound to a batch; a late error answer to a finished batch can be counted in the next one (wire-format limitation, outside the partial-signature clause checked by C06/R3).")
}

// valueFlowsFrom: v is, or is a phi over, result #idx of call.
func valueFlowsFrom(v ssa.Value, call ssa.CallInstruction, idx int) bool {
	seen := map[ssa.Value]bool{}
	var f func(v ssa.Value) bool
	f = func(v ssa.Value) bool {
		v = ssax.Resolve(v)
		if seen[v] {
			return false
		}
		seen[v] = true
		if ssax.ResultOf(v, call, idx) {
			return true
		}
		if p, ok := v.(*ssa.Phi); ok {
			for _, e := range ssax.FeasibleEdges(p) {
				if f(e) {
					return true
				}
			}
		}
		return false
	}
	return f(v)
}

func c07Deadline(c *Ctx) { c07DeadlineAs(c, "C07/R4") }

// c07DeadlineAs evaluates the deadline rule under the given rule id (C06 relies on it too: a batch that is cancelled by a
// stale deadline at its first answer never reaches t contributions).
func c07DeadlineAs(c *Ctx, rule string) {
	r := c.R
	ms := c.Machines(rule)
	m := ms[pkgSIF]
	live := false
	renew := false
	for ev, fn := range m.Callbacks {
		ssax.Instrs(fn, func(in ssa.Instruction) {
			st, ok := in.(*ssa.Store)
			if !ok {
				return
			}
			p := ssax.Path(st.Addr)
			if strings.HasSuffix(p, ".SigningProposalPayload.UpdatedAt") {
				live = true
			}
			if ev == evSigningStart && strings.HasSuffix(p, ".SigningProposalPayload.ExpiresAt") {
				renew = true
			}
		})
	}
	// the same store made by a helper the callbacks call (a quorum-update helper that also stamps the stage)
	for ev, fn := range m.Callbacks {
		if ev == evSigningInit {
			continue
		}
		for _, g := range c.moduleClosure(fn) {
			if g == fn {
				continue
			}
			ssax.Instrs(g, func(in ssa.Instruction) {
				st, ok := in.(*ssa.Store)
				if !ok {
					return
				}
				if fa, isFA := st.Addr.(*ssa.FieldAddr); isFA {
					if fv := ssax.FieldOf(fa); fv != nil && fv.Name() == "UpdatedAt" && ssax.OwnerName(fa) == "SigningConfirmation" {
						live = true
					}
				}
			})
		}
	}
	if !live {
		r.OKd(rule, "signing_proposal_fsm:deadline", "the signing deadline cannot cancel a batch of a round whose key generation is old", "", "no callback advances SigningProposalPayload.UpdatedAt: IsExpired() compares the init-time ExpiresAt with the zero time and is inert")
		return
	}
	r.Check(renew, rule, "signing_proposal_fsm:deadline", "if the signing deadline is live, every proposal renews ExpiresAt", "",
		"callbacks advance SigningProposalPayload.UpdatedAt but event_signing_start does not renew ExpiresAt (set once at event_signing_init): a week after key generation every batch is cancelled by timeout at its first answer")
}


// c07FreshQuorum: the callback of event_signing_start stores a freshly made map into SigningProposalPayload.Quorum on every
// path that accepts the proposal, and every entry put into that map there is a fresh allocation.
func c07FreshQuorum(c *Ctx, m *fsmx.Machine) {
	r := c.R
	cb := m.Callbacks[evSigningStart]
	if cb == nil {
		r.Unknown("C07/R5", "signing_proposal_fsm:"+evSigningStart+":fresh-quorum", "the proposal callback is registered", "", "no callback for "+evSigningStart)
		return
	}
	var stores []ssa.Instruction
	fresh := true
	detail := ""
	ssax.Instrs(cb, func(in ssa.Instruction) {
		switch x := in.(type) {
		case *ssa.Store:
			if strings.HasSuffix(ssax.Path(x.Addr), ".SigningProposalPayload.Quorum") {
				if _, isMake := ssax.Resolve(x.Val).(*ssa.MakeMap); isMake {
					stores = append(stores, in)
				} else {
					fresh, detail = false, "the quorum is assigned "+npath(x.Val)+" at "+c.PosOf(in)
				}
			}
		case *ssa.MapUpdate:
			mp := ssax.Resolve(x.Map)
			_, isMake := mp.(*ssa.MakeMap)
			if !isMake && !strings.HasSuffix(ssax.Path(x.Map), ".SigningProposalPayload.Quorum") {
				return
			}
			if isMake && !strings.Contains(mp.Type().String(), "SigningProposalQuorum") && !strings.Contains(mp.Type().String(), "SigningProposalParticipant") {
				return
			}
			if al, isAlloc := ssax.Resolve(x.Value).(*ssa.Alloc); !isAlloc || !al.Heap {
				fresh, detail = false, "an entry that is not freshly allocated is put into the quorum at "+c.PosOf(in)+": "+npath(x.Value)
			}
		}
	})
	// every accepting return lies behind such a store
	bypass := ""
	for _, ret := range ssax.Returns(cb) {
		if ret.Block() == cb.Recover || len(ret.Results) == 0 {
			continue
		}
		ev := ret.Results[len(ret.Results)-1]
		for _, lf := range ssax.Leaves(ev, ret) {
			if ssax.IsNilConst(ssax.Resolve(lf.V)) && (len(stores) == 0 || ssax.ReachableAvoiding(cb, lf.At, nil, stores)) {
				bypass = c.PosOf(ret)
			}
		}
	}
	r.Check(len(stores) > 0 && bypass == "", "C07/R5", "signing_proposal_fsm:"+evSigningStart+":fresh-quorum", "an accepted proposal replaces the quorum by a freshly made map", c.Pos(cb.Pos()),
		sprintf("%d stores of a new map; an accepting return at %s is reachable without one: entries of the previous batch (their partial signatures) stay in the quorum and are handed to reconstruction with the new batch", len(stores), bypass))
	r.Check(fresh, "C07/R5", "signing_proposal_fsm:"+evSigningStart+":fresh-entries", "the quorum of a new batch is filled with freshly allocated entries only", c.Pos(cb.Pos()), detail)
}


// c07StoreIndependent (R6): signatures are stored on a node only through `signature_reconstructed` board messages
// (including the node's own). Such a message may arrive in any state of the round — after the next proposal, after a
// restart, for a lagging node long after the batch — so keeping it must not depend on the round's current state.
func c07StoreIndependent(c *Ctx) {
	r := c.R
	ps := c.Fn("C07/R6", pkgNode, "BaseNodeService", "processSignature")
	pm := c.Fn("C07/R6", pkgNode, "BaseNodeService", "processMessage")
	if ps == nil || pm == nil {
		return
	}
	stateTyped := func(v ssa.Value) bool {
		t := v.Type().String()
		return strings.Contains(t, "state_machines.FSMInstance") || strings.Contains(t, "state_machines.FSMDump") || strings.Contains(t, "DumpedMachineStatePayload") || strings.Contains(t, "SigningConfirmation")
	}
	clock := func(v ssa.Value) bool {
		if call, ok := v.(*ssa.Call); ok {
			id := ssax.FuncID(ssax.CalleeObj(call))
			return id == "time.Now" || id == "time.Since"
		}
		return false
	}
	// parameters of the round that are fixed once key generation is over (the group polynomial, the registered keys,
	// the threshold, the round id) are not "the state the round is in when the message arrives": checking an announced
	// signature against the group key, say, keeps every valid reconstruction whenever it arrives
	roundConstant := func(x ssa.Value) bool {
		ld, ok := x.(*ssa.UnOp)
		if !ok {
			return false
		}
		fa, ok := ld.X.(*ssa.FieldAddr)
		if !ok || ssax.FieldOf(fa) == nil {
			return false
		}
		switch ssax.FieldOf(fa).Name() {
		case "PubPolyBz", "PubKeys", "IDs", "Threshold", "DkgId", "DKGProposalPayload":
			return true
		}
		return false
	}
	dep := func(v ssa.Value) bool {
		// (the outcome of a lookup or of the signature verification — an error value — is not the round's state)
		if v != nil && v.Type().String() == "error" {
			return false
		}
		return v != nil && derivesFromExcept(v, func(x ssa.Value) bool { return stateTyped(x) || clock(x) }, roundConstant, 0, map[ssa.Value]bool{})
	}
	// (a) no branch of processSignature tests the round's state or the clock
	bad := ""
	for _, cd := range ssax.Conds(ps) {
		if dep(cd.X) || dep(cd.Y) {
			bad = c.PosOf(cd.If)
		}
	}
	r.Check(bad == "", "C07/R6", "node.processSignature:state-independent", "whether a received reconstruction is kept does not depend on the round's FSM state or the clock", c.Pos(ps.Pos()),
		"the branch at "+bad+" tests a value derived from the round's FSM instance/dump (or the clock): a reconstruction that arrives after the round has moved on — e.g. behind the next proposal — is dropped, and no node may ever store that batch")
	// (b) every decoded entry goes to SaveSignatures and no success return bypasses it
	saves := ssax.Calls(ps, false, func(ci ssa.CallInstruction) bool {
		o := ssax.CalleeObj(ci)
		return o != nil && o.Name() == "SaveSignatures"
	})
	ok := len(saves) == 1
	detail := sprintf("%d SaveSignatures calls", len(saves))
	if ok {
		a := saves[0].Common().Args
		if p := npath(a[len(a)-1]); !strings.HasPrefix(p, "json(message.Data)") {
			ok, detail = false, "what is saved is "+p+", not the decoded list itself (a filtered or rebuilt copy can leave entries out)"
		}
		for _, ret := range ssax.Returns(ps) {
			for _, lf := range ssax.Leaves(ret.Results[len(ret.Results)-1], ret) {
				if ssax.IsNilConst(lf.V) && ssax.ReachableAvoiding(ps, lf.At, nil, []ssa.Instruction{saves[0].(ssa.Instruction)}) {
					ok, detail = false, "a nil return at "+c.PosOf(ret)+" is reachable without SaveSignatures"
				}
			}
		}
	}
	r.Check(ok, "C07/R6", "node.processSignature:saves-all", "every decoded reconstruction entry is handed to SaveSignatures; success is returned only past the save", c.Pos(ps.Pos()), detail)
	// (c) the call in processMessage is not guarded by the round's state
	calls := ssax.CallsTo(pm, load.Module+"/"+pkgNode+".(BaseNodeService).processSignature")
	okc := len(calls) == 1
	detailc := sprintf("%d processSignature calls in processMessage", len(calls))
	if okc {
		for _, cd := range ssax.Conds(pm) {
			if !(dep(cd.X) || dep(cd.Y)) {
				continue
			}
			for _, succ := range []int{0, 1} {
				e := ssax.Edge{From: cd.If.Block(), Succ: succ}
				if !ssax.ReachableAvoiding(pm, calls[0].(ssa.Instruction), []ssax.Edge{e}, nil) {
					okc, detailc = false, "processSignature is reached only over one edge of the state test at "+c.PosOf(cd.If)
				}
			}
		}
	}
	r.Check(okc, "C07/R6", "node.processMessage:signature-branch-unguarded", "the handling of signature_reconstructed is not conditional on the round's FSM state", c.Pos(pm.Pos()), detailc)
}

// derivesFrom: v is computed (through loads, field/index addressing, conversions, calls' receivers and arguments, phis
// and local variables) from a value satisfying pred. Bounded backward walk within one function.
func derivesFrom(v ssa.Value, pred func(ssa.Value) bool, depth int, seen map[ssa.Value]bool) bool {
	if v == nil || seen[v] || depth > 12 {
		return false
	}
	seen[v] = true
	if pred(v) {
		return true
	}
	if al, ok := v.(*ssa.Alloc); ok && al.Referrers() != nil {
		for _, ref := range *al.Referrers() {
			if st, ok := ref.(*ssa.Store); ok && st.Addr == ssa.Value(al) && derivesFrom(st.Val, pred, depth+1, seen) {
				return true
			}
			// elements of a local array/struct (the backing array of variadic arguments, a literal)
			if ea, ok := ref.(ssa.Value); ok {
				switch ea.(type) {
				case *ssa.IndexAddr, *ssa.FieldAddr:
					if ea.Referrers() != nil {
						for _, r2 := range *ea.Referrers() {
							if st, ok := r2.(*ssa.Store); ok && st.Addr == ea && derivesFrom(st.Val, pred, depth+1, seen) {
								return true
							}
						}
					}
				}
			}
		}
		return false
	}
	in, ok := v.(ssa.Instruction)
	if !ok {
		return false
	}
	for _, op := range in.Operands(nil) {
		if op != nil && *op != nil && derivesFrom(*op, pred, depth+1, seen) {
			return true
		}
	}
	return false
}


// c07NoSilentSkip (R8): a proposal (or answer) that processMessage drops with a success return is lost for this node —
// the offset moves on, the machine never sees it. Apart from the two announcement events that are handled without the
// machine, no `return nil, nil` may be reachable without passing Do(message.Event).
func c07NoSilentSkip(c *Ctx) {
	r := c.R
	fn := c.Fn("C07/R8", pkgNode, "BaseNodeService", "processMessage")
	if fn == nil {
		return
	}
	var mainDo ssa.Instruction
	for _, call := range ssax.CallsTo(fn, load.Module+"/fsm/state_machines.(FSMInstance).Do") {
		if strings.HasSuffix(ssax.Path(call.Common().Args[1]), "message.Event") {
			mainDo = call.(ssa.Instruction)
		}
	}
	if mainDo == nil {
		r.Unknown("C07/R8", "node.processMessage:silent-skip", "Do(message.Event) is found", c.Pos(fn.Pos()), "main Do call not recognised")
		return
	}
	var annEdges []ssax.Edge
	for _, cd := range ssax.Conds(fn) {
		if cd.Op != token.EQL && cd.Op != token.NEQ {
			continue
		}
		for _, pr := range [][2]ssa.Value{{cd.X, cd.Y}, {cd.Y, cd.X}} {
			if pr[0] == nil || pr[1] == nil || !strings.HasSuffix(ssax.Path(pr[0]), "message.Event") {
				continue
			}
			if k, ok := ssax.ConstString(pr[1]); ok && (k == "signature_reconstructed" || k == "signature_reconstruction_failed") {
				if e, ok := cd.EdgeWhere(token.EQL); ok {
					annEdges = append(annEdges, e)
				}
			}
		}
	}
	// (a round found in a state ending in _error / _timeout is aborted or being restarted: the pre-handlers may drop
	// the message; that is the node's documented reaction to a dead round, not a skipped message of a live one)
	for _, cd := range ssax.Conds(fn) {
		call, isCall := ssax.Resolve(cd.X).(*ssa.Call)
		if cd.Op != token.ILLEGAL || !isCall || ssax.FuncID(ssax.CalleeObj(call)) != "strings.HasSuffix" {
			continue
		}
		if sfx, ok := ssax.ConstString(call.Common().Args[1]); ok && (sfx == "_error" || sfx == "_timeout") {
			if e, ok := cd.BoolEdge(true); ok {
				annEdges = append(annEdges, e)
			}
		}
	}
	// the pre-handlers may live in a helper that reports "this round is dead" as a boolean: a test of a merged boolean
	// whose `true` alternatives all arise behind the edges collected so far is such a report
	for _, cd := range ssax.Conds(fn) {
		if cd.Op != token.ILLEGAL {
			continue
		}
		ph, isPhi := cd.X.(*ssa.Phi)
		if !isPhi {
			continue
		}
		allConst, nTrue, fromDead := true, 0, true
		for i, e := range ph.Edges {
			k, isC := e.(*ssa.Const)
			if !isC || k.Value == nil {
				allConst = false
				break
			}
			if k.Value.String() == "true" && i < len(ph.Block().Preds) {
				nTrue++
				pb := ph.Block().Preds[i]
				if len(pb.Instrs) > 0 && ssax.ReachableAvoiding(fn, pb.Instrs[len(pb.Instrs)-1], annEdges, nil) {
					fromDead = false
				}
			}
		}
		if allConst && nTrue > 0 && fromDead {
			if e, ok := cd.BoolEdge(true); ok {
				annEdges = append(annEdges, e)
			}
		}
	}
	nAnn := 0
	for range annEdges {
		nAnn++
	}
	bad := ""
	for _, ret := range ssax.Returns(fn) {
		if len(ret.Results) != 2 {
			continue
		}
		for _, lf := range ssax.Leaves(ret.Results[1], ret) {
			if !ssax.IsNilConst(lf.V) {
				continue
			}
			// a success return that does not pass the machine and is not behind one of the announcement cases
			if ssax.ReachableAvoiding(fn, lf.At, annEdges, []ssa.Instruction{mainDo}) {
				bad = c.PosOf(ret)
			}
		}
	}
	r.Check(bad == "" && nAnn >= 2, "C07/R8", "node.processMessage:no-silent-skip", "apart from the two announcement events, success is returned only after the machine was given the event", c.Pos(fn.Pos()),
		sprintf("the success return at %s is reachable without Do(message.Event) and outside the announcement cases (%d announcement / dead-round cases recognised): a message skipped this way is never applied on this node", bad, len(annEdges)))
}


// derivesFromExcept is derivesFrom with a barrier: the walk does not continue through values satisfying stop.
func derivesFromExcept(v ssa.Value, pred, stop func(ssa.Value) bool, depth int, seen map[ssa.Value]bool) bool {
	if v == nil || seen[v] || depth > 12 {
		return false
	}
	seen[v] = true
	if stop(v) {
		return false
	}
	if pred(v) {
		return true
	}
	if al, ok := v.(*ssa.Alloc); ok && al.Referrers() != nil {
		for _, ref := range *al.Referrers() {
			if st, ok := ref.(*ssa.Store); ok && st.Addr == ssa.Value(al) && derivesFromExcept(st.Val, pred, stop, depth+1, seen) {
				return true
			}
		}
		return false
	}
	in, ok := v.(ssa.Instruction)
	if !ok {
		return false
	}
	for _, op := range in.Operands(nil) {
		if op != nil && *op != nil && derivesFromExcept(*op, pred, stop, depth+1, seen) {
			return true
		}
	}
	return false
}


// c07FreshBatchID: the only thing that separates a late answer to an earlier proposal from an answer to the current one is
// BatchID equality (C06/R3, C07/R2). That is sound only if two proposals never share an id: the proposer draws it from
// the uuid package's generators and from nothing the caller supplies (re-proposing the same data must give a new id).
func c07FreshBatchID(c *Ctx) {
	r := c.R
	fn := c.Fn("C07/R9", pkgNode, "BaseNodeService", "ProposeSignMessages")
	if fn == nil {
		return
	}
	n := 0
	ssax.Instrs(fn, func(in ssa.Instruction) {
		st, ok := in.(*ssa.Store)
		if !ok {
			return
		}
		fa, ok := st.Addr.(*ssa.FieldAddr)
		if !ok {
			return
		}
		fv := ssax.FieldOf(fa)
		if fv == nil || fv.Name() != "BatchID" {
			return
		}
		n++
		p := ssax.Path(st.Val)
		fresh := strings.Contains(p, "uuid.New()") || strings.Contains(p, "uuid.NewString()") || strings.Contains(p, "uuid.NewRandom()") || strings.Contains(p, "uuid.NewUUID()")
		fromInput := false
		for _, prm := range fn.Params {
			if strings.Contains(p, prm.Name()+".") || strings.Contains(p, "("+prm.Name()+")") || strings.Contains(p, "("+prm.Name()+",") || strings.Contains(p, ", "+prm.Name()+")") {
				fromInput = true
			}
		}
		r.Check(fresh && !fromInput, "C07/R9", "node.ProposeSignMessages:batch-id-fresh", "the proposal's BatchID is a freshly generated uuid, independent of the proposed data", c.PosOf(st),
			"BatchID is "+p+": two proposals of the same data get the same id, so a slow participant's answer to the first is accepted into the second (recorded under stale message ids), its real answer is refused, and the batch reaches the threshold with t-1 usable shares — reconstruction fails on every further answer")
	})
	if n == 0 {
		r.Unknown("C07/R9", "node.ProposeSignMessages:batch-id-fresh", "the proposal's BatchID is set by the proposer", c.Pos(fn.Pos()), "no store to a BatchID field found in ProposeSignMessages")
	}
}
