package rules

import (
	"fmt"
	"os"
	"strings"

	"dcverif/internal/load"
	"dcverif/internal/ssax"

	"golang.org/x/tools/go/ssa"
)

func init() { Registry["PROBE"] = probe }

// probe prints call argument paths of a function: PROBE_FN=pkgrel:Recv:Name
func probe(c *Ctx) {
	parts := strings.Split(os.Getenv("PROBE_FN"), ":")
	if len(parts) != 3 {
		return
	}
	fn := c.P.Func(parts[0], parts[1], parts[2])
	if fn == nil {
		fmt.Println("not found")
		return
	}
	var walk func(f *ssa.Function)
	walk = func(f *ssa.Function) {
		ssax.Instrs(f, func(in ssa.Instruction) {
			switch x := in.(type) {
			case ssa.CallInstruction:
				var args []string
				for _, a := range x.Common().Args {
					args = append(args, ssax.Path(a))
				}
				fmt.Printf("%s CALL %s(%s)\n", c.PosOf(in), callName(x), strings.Join(args, " | "))
			case *ssa.Store:
				fmt.Printf("%s STORE %s := %s\n", c.PosOf(in), ssax.Path(x.Addr), ssax.Path(x.Val))
			case *ssa.MapUpdate:
				fmt.Printf("%s MAPUPD %s[%s] := %s\n", c.PosOf(in), ssax.Path(x.Map), ssax.Path(x.Key), ssax.Path(x.Value))
			case *ssa.Return:
				var rs []string
				for _, a := range x.Results {
					rs = append(rs, ssax.Path(a))
				}
				fmt.Printf("%s RETURN %s\n", c.PosOf(in), strings.Join(rs, " | "))
			}
		})
		for _, cd := range ssax.Conds(f) {
			y := ""
			if cd.Y != nil {
				y = ssax.Path(cd.Y)
			}
			fmt.Printf("%s COND %s %s %s\n", c.PosOf(cd.If), ssax.Path(cd.X), cd.Op, y)
		}
		for _, a := range f.AnonFuncs {
			fmt.Println("--- anon", a.Name())
			walk(a)
		}
	}
	walk(fn)
}

func init() { Registry["PROBE2"] = probe2 }

// probe2 lists map ranges and clock/random calls in functions reachable from the node's message handler and FSM callbacks.
func probe2(c *Ctx) {
	roots := []*ssa.Function{c.P.Func(pkgNode, "BaseNodeService", "processMessage"), c.P.Func(pkgNode, "BaseNodeService", "reinitDKG"), c.P.Func(pkgNode, "BaseNodeService", "Poll")}
	seen := map[*ssa.Function]bool{}
	cg := c.P.CallGraph()
	var walk func(f *ssa.Function)
	walk = func(f *ssa.Function) {
		if f == nil || seen[f] {
			return
		}
		seen[f] = true
		if !load.InModule(f) {
			return
		}
		ssax.Instrs(f, func(in ssa.Instruction) {
			if rg, ok := in.(*ssa.Range); ok && strings.HasPrefix(rg.X.Type().Underlying().String(), "map[") {
				fmt.Printf("MAPRANGE %s %s over %s\n", c.PosOf(in), load.FuncName(f), ssax.Path(rg.X))
			}
			if call, ok := in.(ssa.CallInstruction); ok {
				id := ssax.FuncID(ssax.CalleeObj(call))
				if id == "time.Now" || strings.HasPrefix(id, "math/rand.") || strings.HasPrefix(id, "crypto/rand.") || strings.HasPrefix(id, "github.com/google/uuid.") {
					fmt.Printf("ENTROPY %s %s calls %s\n", c.PosOf(in), load.FuncName(f), id)
				}
			}
		})
		if n := cg.Nodes[f]; n != nil {
			for _, e := range n.Out {
				walk(e.Callee.Func)
			}
		}
	}
	for _, r := range roots {
		walk(r)
	}
}

func init() { Registry["PROBE3"] = probe3 }

func probe3(c *Ctx) {
	for _, s := range c18Sites(c) {
		fmt.Printf("%s\t%s\t%s\t%s\n", s.Kind, s.Status, s.Key, s.Pos)
	}
	for _, f := range c18Scope(c) {
		ssax.Instrs(f, func(in ssa.Instruction) {
			if mu, ok := in.(*ssa.MapUpdate); ok {
				fmt.Printf("MAPUPDATE\t%s\t%s\t%s\n", shortFn(f), npath(mu.Map), c.PosOf(in))
			}
		})
	}
}

func init() { Registry["PROBE4"] = probe4 }

// probe4 dumps the SSA of the function named by DCVERIF_FN ("rel|recv|name") after inlining.
func probe4(c *Ctx) {
	parts := strings.Split(os.Getenv("DCVERIF_FN"), "|")
	if len(parts) != 3 {
		return
	}
	fn := c.P.Func(parts[0], parts[1], parts[2])
	if fn == nil {
		fmt.Println("not found")
		return
	}
	fn.WriteTo(os.Stdout)
	for _, il := range c.P.Inlined {
		fmt.Println("INLINED", il.Caller, "<-", il.Callee, il.Pos)
	}
}

func init() { Registry["SSADUMP"] = ssadump }

// ssadump writes the (post-inlining) SSA of a function: PROBE_FN=pkgrel:Recv:Name
func ssadump(c *Ctx) {
	parts := strings.Split(os.Getenv("PROBE_FN"), ":")
	if len(parts) != 3 {
		return
	}
	fn := c.P.Func(parts[0], parts[1], parts[2])
	if fn == nil {
		fmt.Println("not found")
		return
	}
	for _, b := range fn.Blocks {
		var preds, succs []string
		for _, p := range b.Preds {
			preds = append(preds, fmt.Sprint(p.Index))
		}
		for _, s := range b.Succs {
			succs = append(succs, fmt.Sprint(s.Index))
		}
		fmt.Printf("block %d  preds=%s succs=%s  %s\n", b.Index, strings.Join(preds, ","), strings.Join(succs, ","), b.Comment)
		for _, in := range b.Instrs {
			if v, ok := in.(ssa.Value); ok {
				fmt.Printf("    %s = %s\n", v.Name(), in.String())
			} else {
				fmt.Printf("    %s\n", in.String())
			}
		}
	}
}
