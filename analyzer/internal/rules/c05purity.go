package rules

import (
	"strings"

	"dcverif/internal/fsmx"
	"dcverif/internal/load"
	"dcverif/internal/ssax"

	"golang.org/x/tools/go/ssa"
)

// c05Purity — C05/R6: a rejected event changes nothing that lasts. The node never persists the outcome of an FSM step that
// returned an error: every dump handed to SaveFSM is result #1 of FSMInstance.Do (or FSMInstance.Dump) and SaveFSM is not
// reachable from that call except over its nil-error edge. Together with C08/R2 (the instance is rebuilt from the stored
// dump for every message) a callback that touched the in-memory payload before failing leaves no trace.
// Callback-level purity (no store before any error return) is deliberately NOT demanded: it is stronger than the property
// (actionInitSignatureProposal assigns the payload before a defensive length check) and would be a false alarm.
func c05Purity(c *Ctx, ms map[string]*fsmx.Machine) {
	r := c.R
	r.Rule("C05/R6", "a failed FSM step is never persisted: every saved dump is the result of a step that returned nil error", 4)
	n := 0
	for _, name := range []string{"processMessage", "executeOperation", "reinitDKG"} {
		fn := c.Fn("C05/R6", pkgNode, "BaseNodeService", name)
		if fn == nil {
			continue
		}
		saves := ssax.Calls(fn, false, func(ci ssa.CallInstruction) bool {
			o := ssax.CalleeObj(ci)
			return o != nil && o.Name() == "SaveFSM"
		})
		producers := ssax.Calls(fn, false, func(ci ssa.CallInstruction) bool {
			id := ssax.FuncID(ssax.CalleeObj(ci))
			return id == load.Module+"/fsm/state_machines.(FSMInstance).Do" || id == load.Module+"/fsm/state_machines.(FSMInstance).Dump"
		})
		for i, sv := range saves {
			n++
			key := sprintf("node.%s:SaveFSM#%d", name, i+1)
			a := sv.Common().Args
			dump := a[len(a)-1]
			// leaves of the dump value
			var leaves []ssa.Value
			seen := map[ssa.Value]bool{}
			var walk func(v ssa.Value)
			walk = func(v ssa.Value) {
				v = ssax.Resolve(v)
				if seen[v] {
					return
				}
				seen[v] = true
				if p, ok := v.(*ssa.Phi); ok {
					for _, e := range ssax.FeasibleEdges(p) {
						walk(e)
					}
					return
				}
				leaves = append(leaves, v)
			}
			walk(dump)
			ok, detail := len(leaves) > 0, ""
			for _, lf := range leaves {
				var prod ssa.CallInstruction
				for _, p := range producers {
					idx := 1
					if strings.HasSuffix(ssax.FuncID(ssax.CalleeObj(p)), ").Dump") {
						idx = 0
					}
					if ssax.ResultOf(lf, p, idx) {
						prod = p
					}
				}
				if prod == nil {
					ok, detail = false, "the saved dump can be "+npath(lf)+", which is not the result of FSMInstance.Do / Dump"
					break
				}
				ne := ssax.NilErrEdgesOfCall(fn, prod)
				if len(ne) == 0 || ssax.ReachableFrom(fn, prod.(ssa.Instruction), sv.(ssa.Instruction), ne, nil) {
					ok, detail = false, "SaveFSM is reachable from "+callName(prod)+" at "+c.PosOf(prod.(ssa.Instruction))+" without passing its `err == nil` edge: the outcome of a rejected event would be stored"
					break
				}
			}
			r.Check(ok, "C05/R6", key, "the saved dump is the result of a step that returned nil error", c.PosOf(sv.(ssa.Instruction)), detail)
		}
	}
	if n < 4 {
		r.Unknown("C05/R6", "floor", "SaveFSM call sites of the node found", "", sprintf("%d found, 5 confirmed by hand", n))
	}
}
