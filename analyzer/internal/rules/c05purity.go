package rules

import (
	"dcverif/internal/fsmx"
)

func c05Purity(c *Ctx, ms map[string]*fsmx.Machine) {
	_ = ms
}
