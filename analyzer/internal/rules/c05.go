package rules

import (
	"go/constant"
	"go/token"
	"go/types"
	"sort"
	"strings"

	"dcverif/internal/fsmx"
	"dcverif/internal/load"
	"dcverif/internal/ssax"

	"golang.org/x/tools/go/ssa"
)

func init() { Registry["C05"] = C05 }

// C05 — a round advances only on unanimous delivery; any failure aborts it for good.
func C05(c *Ctx) {
	r := c.R
	r.Explain = "Decided statically on the three extracted FSM transition tables and the SSA of every callback: " +
		"(E) engine semantics of fsm.Do/do/processAutoEvent/SetState; (R1) every event a callback can emit has a transition from every state the callback can run in; " +
		"(R2) the phase states form a dominator chain from __idle to stage_signing_idle with no skipping or backward edge; (R3) cancelled states of the invitation and DKG machines cannot reach any await state or signing-ready; " +
		"(R4) each validator emits its advance event only under the normalised guard count(Status==Confirmed) >= N, the cancel event only under count(Status==Error/Declined) >= 1, the timeout event only under IsExpired(); " +
		"(R5) every per-participant status store is gated by Status==<phase>Await on the same participant and QuorumExists(request.ParticipantId), and stores only that phase's constants; validators reset to the next phase's Await; " +
		"(R6) the node never persists the outcome of an FSM step that returned an error (every dump given to SaveFSM is the result of a Do/Dump call, reachable only over its nil-error edge) — callback-level purity is deliberately not demanded; (R7) master-key mismatch emits the cancel event; (R8) hand-over events are issued only under the matching resp.State; (R9) the contribution requests' Validate refuses zero-length contribution bytes (an empty contribution is not a delivery). " +
		"NOT decided: deadline arithmetic on concrete timestamps, the exhaustive n<=4 exploration of the property's quantifier (the static argument is parametric in n), JSON/map behaviour."
	r.Trusted = []string{"go/types, go/ssa (x/tools v0.29.0)", "Go map/range semantics (each element visited once)", "time.Time.Before"}
	ms := c.Machines("C05/A1")
	if len(ms) != 3 {
		return
	}
	spf, dpf, sif := ms[pkgSPF], ms[pkgDPF], ms[pkgSIF]
	r.Count("fsm_events", len(spf.Events)+len(dpf.Events)+len(sif.Events))
	r.Count("fsm_callbacks", len(spf.Callbacks)+len(dpf.Callbacks)+len(sif.Callbacks))

	c05Engine(c)
	c05Closure(c, ms)
	c05Graph(c, ms)
	c05Validators(c, ms)
	c05StatusGates(c, ms)
	c05Handover(c, "C05/R8", map[string]string{evDKGInit: stSigCollected, evSigningInit: stMasterKeyCollect})
	c05Purity(c, ms)
	c05NonEmptyContribution(c)
}

// c05NonEmptyContribution — R9: "delivery" of a phase means contribution bytes arrived. Each contribution request's
// Validate (which the callbacks call before they count the participant, R5) refuses an empty contribution: a length test
// of the contribution field whose empty edge cannot reach the nil return.
func c05NonEmptyContribution(c *Ctx) {
	c.R.Rule("C05/R9", "an empty contribution is not a delivery: Validate refuses zero-length contribution bytes", 4)
	nonEmptyContributionAs(c, "C05/R9")
}

// nonEmptyContributionAs evaluates the rule under the given id (C10 relies on it as the only step binding the unsigned
// event name leaves: a message of another step does not carry this step's field).
func nonEmptyContributionAs(c *Ctx, rule string) {
	r := c.R
	for _, tf := range [][2]string{
		{"DKGProposalCommitConfirmationRequest", "Commit"},
		{"DKGProposalDealConfirmationRequest", "Deal"},
		{"DKGProposalResponseConfirmationRequest", "Response"},
		{"DKGProposalMasterKeyConfirmationRequest", "MasterKey"},
	} {
		fn := c.Fn(rule, pkgRequests, tf[0], "Validate")
		if fn == nil {
			continue
		}
		var emptyEdges []ssax.Edge
		for _, cd := range ssax.Conds(fn) {
			la := lenArg(cd.X)
			if la == nil || !strings.HasSuffix(ssax.Path(la), "."+tf[1]) {
				continue
			}
			k, ok := ssax.ConstInt(cd.Y)
			if !ok {
				continue
			}
			switch {
			case cd.Op == token.EQL && k == 0, cd.Op == token.LSS && k == 1, cd.Op == token.LEQ && k == 0:
				emptyEdges = append(emptyEdges, ssax.Edge{From: cd.If.Block(), Succ: 0})
			case cd.Op == token.NEQ && k == 0, cd.Op == token.GEQ && k == 1, cd.Op == token.GTR && k == 0:
				emptyEdges = append(emptyEdges, ssax.Edge{From: cd.If.Block(), Succ: 1})
			}
		}
		ok := len(emptyEdges) > 0
		detail := "no test of len(r." + tf[1] + ") against zero"
		if ok {
			// every nil return lies behind the non-empty edge: unreachable when only the empty edge may be taken
			for _, e := range emptyEdges {
				first := e.From.Succs[e.Succ].Instrs[0]
				for _, ret := range ssax.Returns(fn) {
					for _, lf := range ssax.Leaves(ret.Results[0], ret) {
						// (behind a "first failed check" loop every listed check returned nil)
						if ssax.IsNilConst(lf.V) && (lf.At == first || ssax.ReachableFrom(fn, first, lf.At, ssax.AllNilCuts(fn, lf.At), nil)) {
							ok, detail = false, "Validate can still return nil after finding the contribution empty"
						}
					}
				}
			}
		}
		r.Check(ok, rule, "requests."+tf[0]+".Validate:non-empty-"+tf[1], "a request with an empty "+tf[1]+" is refused", c.Pos(fn.Pos()),
			detail+": an empty contribution would be counted as delivered and the phase could advance without it")
	}
}

// ---------- engine rules ----------

func c05Engine(c *Ctx) {
	r := c.R
	r.Rule("C05/E1", "fsm.(*FSM).Do reaches do() only past a successful transition lookup for (currentState,event) and the not-internal edge", 2)
	r.Rule("C05/E2", "do/processAutoEvent never call SetState on the error edge of a callback", 2)
	r.Rule("C05/E3", "SetState writes currentState only from the looked-up transition's dstState under ok", 1)
	r.Rule("C05/E4", "MustNewFSM registers a (source,event) pair only once (duplicate => panic)", 1)
	const pk = "fsm/fsm"
	if fn := c.Fn("C05/E1", pk, "FSM", "Do"); fn != nil {
		calls := ssax.CallsTo(fn, load.Module+"/fsm/fsm.(FSM).do")
		if len(calls) == 0 {
			r.Unknown("C05/E1", "fsm.(*FSM).Do->do", "Do must dispatch through do()", c.Pos(fn.Pos()), "no call to (*FSM).do found")
		}
		for _, call := range calls {
			okEdges := lookupOkEdges(fn, "transitions")
			r.Check(len(okEdges) > 0 && !ssax.ReachableAvoiding(fn, call, okEdges, nil),
				"C05/E1", "fsm.(*FSM).Do->do:transition-exists", "do() only reached on the ok edge of the transitions lookup", c.PosOf(call),
				"a path reaches do() without a successful lookup in f.transitions: events not acceptable in the current state would run callbacks")
			intEdges := fieldBoolEdges(fn, "isInternal", false)
			r.Check(len(intEdges) > 0 && !ssax.ReachableAvoiding(fn, call, intEdges, nil),
				"C05/E1", "fsm.(*FSM).Do->do:not-internal", "do() only reached when the event is not internal", c.PosOf(call),
				"a path reaches do() without passing the !isInternal edge: internal (validation/advance) events could be injected from outside")
		}
	}
	for _, name := range []string{"do", "processAutoEvent"} {
		fn := c.Fn("C05/E2", pk, "FSM", name)
		if fn == nil {
			continue
		}
		cbs := ssax.CallsTo(fn, load.Module+"/fsm/fsm.(FSM).execCallback")
		// the callback may also be fetched from f.callbacks and called in place
		cbs = append(cbs, ssax.Calls(fn, false, func(ci ssa.CallInstruction) bool {
			cc := ci.Common()
			return !cc.IsInvoke() && cc.StaticCallee() == nil && strings.Contains(ssax.Path(cc.Value), ".callbacks[")
		})...)
		sets := ssax.CallsTo(fn, load.Module+"/fsm/fsm.(FSM).SetState")
		if len(cbs) == 0 || len(sets) == 0 {
			r.Unknown("C05/E2", "fsm.(*FSM)."+name, "engine must call execCallback and SetState", c.Pos(fn.Pos()), "calls not found")
			continue
		}
		for i, cb := range cbs {
			nilEdges := ssax.NilErrEdgesOfCall(fn, cb)
			bad := false
			for _, st := range sets {
				if ssax.ReachableFrom(fn, cb, st, nilEdges, nil) {
					bad = true
				}
			}
			r.Check(len(nilEdges) > 0 && !bad, "C05/E2", sprintf("fsm.(*FSM).%s:execCallback#%d", name, i),
				"SetState after a callback only on its nil-error edge", c.PosOf(cb),
				"SetState is reachable from execCallback without passing `err == nil`: a rejected event could change the state")
		}
	}
	if fn := c.Fn("C05/E3", pk, "FSM", "SetState"); fn != nil {
		n := 0
		// the assignment may live in a helper of the same package that SetState calls (a helper with a deferred
		// unlock is not expanded in place): judge it where it is
		hasStore := func(f *ssa.Function) bool {
			found := false
			ssax.Instrs(f, func(in ssa.Instruction) {
				if st, ok := in.(*ssa.Store); ok {
					if fa, ok := st.Addr.(*ssa.FieldAddr); ok && ssax.FieldOf(fa) != nil && ssax.FieldOf(fa).Name() == "currentState" {
						found = true
					}
				}
			})
			return found
		}
		if !hasStore(fn) {
			for _, call := range ssax.Calls(fn, false, func(ssa.CallInstruction) bool { return true }) {
				if sc := call.Common().StaticCallee(); sc != nil && sc.Pkg == fn.Pkg && len(sc.Blocks) > 0 && hasStore(sc) {
					fn = sc
					break
				}
			}
		}
		ssax.Instrs(fn, func(in ssa.Instruction) {
			st, ok := in.(*ssa.Store)
			if !ok {
				return
			}
			fa, ok := st.Addr.(*ssa.FieldAddr)
			if !ok || ssax.FieldOf(fa) == nil || ssax.FieldOf(fa).Name() != "currentState" {
				return
			}
			n++
			p := ssax.Path(st.Val)
			okEdges := lookupOkEdges(fn, "transitions")
			good := strings.HasSuffix(p, ".dstState") && strings.Contains(p, ".transitions[") && len(okEdges) > 0 && !ssax.ReachableAvoiding(fn, st, okEdges, nil)
			r.Check(good, "C05/E3", "fsm.(*FSM).SetState:currentState", "currentState := transitions[{currentState,event}].dstState under ok", c.PosOf(st),
				"currentState is assigned from "+p+" or without the ok guard")
		})
		if n == 0 {
			r.Unknown("C05/E3", "fsm.(*FSM).SetState:currentState", "SetState must assign currentState", c.Pos(fn.Pos()), "no store to currentState")
		}
	}
	if fn := c.Fn("C05/E4", pk, "", "MustNewFSM"); fn != nil {
		// the MapUpdate into f.transitions must be reached only via the not-found edge of a lookup on the same map
		n := 0
		ssax.Instrs(fn, func(in ssa.Instruction) {
			mu, ok := in.(*ssa.MapUpdate)
			if !ok || !strings.HasSuffix(ssax.Path(mu.Map), ".transitions") {
				return
			}
			n++
			notFound := lookupEdges(fn, "transitions", false)
			r.Check(len(notFound) > 0 && !ssax.ReachableAvoiding(fn, mu, notFound, nil), "C05/E4", "fsm.MustNewFSM:transitions-insert",
				"a transition is inserted only when (source,event) is not yet present", c.PosOf(mu),
				"insertion into f.transitions is reachable without the duplicate check: a second entry would silently replace the first")
		})
		if n == 0 {
			r.Unknown("C05/E4", "fsm.MustNewFSM:transitions-insert", "MustNewFSM must fill f.transitions", c.Pos(fn.Pos()), "no map update found")
		}
	}
}

// lookupEdges returns the edges on which a comma-ok lookup in the map field `field` reported found==want.
func lookupEdges(fn *ssa.Function, field string, want bool) []ssax.Edge {
	var out []ssax.Edge
	for _, cd := range ssax.Conds(fn) {
		if cd.Op != token.ILLEGAL {
			continue
		}
		ex, ok := ssax.Resolve(cd.X).(*ssa.Extract)
		if !ok || ex.Index != 1 {
			continue
		}
		lk, ok := ex.Tuple.(*ssa.Lookup)
		if !ok || !lk.CommaOk {
			continue
		}
		if !strings.HasSuffix(ssax.Path(lk.X), "."+field) {
			continue
		}
		if e, ok := cd.BoolEdge(want); ok {
			out = append(out, e)
		}
	}
	return out
}

func lookupOkEdges(fn *ssa.Function, field string) []ssax.Edge { return lookupEdges(fn, field, true) }

// fieldBoolEdges returns the edges on which a boolean struct field `field` equals want.
func fieldBoolEdges(fn *ssa.Function, field string, want bool) []ssax.Edge {
	var out []ssax.Edge
	for _, cd := range ssax.Conds(fn) {
		if cd.Op != token.ILLEGAL {
			continue
		}
		ld, ok := ssax.Resolve(cd.X).(*ssa.UnOp)
		if !ok || ld.Op != token.MUL {
			continue
		}
		fa, ok := ld.X.(*ssa.FieldAddr)
		if !ok || ssax.FieldOf(fa) == nil || ssax.FieldOf(fa).Name() != field {
			continue
		}
		if e, ok := cd.BoolEdge(want); ok {
			out = append(out, e)
		}
	}
	return out
}

// ---------- R1 table closure ----------

func c05Closure(c *Ctx, ms map[string]*fsmx.Machine) {
	r := c.R
	r.Rule("C05/R1", "every event a callback can emit has a transition from every state in which the callback can run (else SetState fails after the payload was mutated); missing entries must be proved unreachable", 20)
	g := buildGraph(ms)
	for _, rel := range fsmx.MachinePkgs {
		m := ms[rel]
		for _, ev := range sortedKeys(m.Callbacks) {
			fn := m.Callbacks[ev]
			desc := m.ByName[ev]
			key := m.Name + ":" + ev
			if desc == nil {
				r.Fail("C05/R1", key, "callback registered for a declared event", c.Pos(m.CbPos[ev]), "callback key "+ev+" is not an event of the table")
				continue
			}
			em := fsmx.EmittedEvents(fn)
			for _, u := range em.Unknown {
				r.Unknown("C05/R1", key+":emits", "emitted event must be a constant, the zero value or inEvent", c.Pos(fn.Pos()), u)
			}
			if len(em.Consts) == 0 {
				r.OKd("C05/R1", key, "callback emits only \"\"/inEvent, which always resolves to the triggering event's own transition", c.Pos(fn.Pos()), "")
			}
			for _, x := range em.Names() {
				missing := []string{}
				for _, s := range desc.Src {
					if _, ok := m.Trans[[2]string{s, x}]; !ok {
						missing = append(missing, s)
					}
				}
				k2 := key + "->" + x
				if len(missing) == 0 {
					r.OK("C05/R1", k2, "emitted event has a transition from every source state of "+ev, c.PosOf(em.Consts[x][0]))
					continue
				}
				// try to prove the emission unreachable: it is guarded by a status count whose status constant is
				// stored only by callbacks of events that leave (for good) the states this validator runs in.
				why, ok := c05ProveDeadEmission(c, ms, g, m, fn, desc, x, em.Consts[x])
				if ok {
					r.OKd("C05/R1", k2, "emission without table entry is unreachable", c.PosOf(em.Consts[x][0]), why)
				} else {
					r.Fail("C05/R1", k2, "emitted event has a transition from every source state of "+ev, c.PosOf(em.Consts[x][0]),
						"no transition for event "+x+" from "+strings.Join(missing, ",")+"; SetState would fail after the callback mutated the payload. Unreachability proof failed: "+why)
				}
			}
		}
	}
}

func c05ProveDeadEmission(c *Ctx, ms map[string]*fsmx.Machine, g *fsmGraph, m *fsmx.Machine, fn *ssa.Function, desc *fsmx.Event, x string, sites []ssa.Instruction) (string, bool) {
	nz := &ssax.Normalizer{Fn: fn}
	rels := nz.EdgeRelations()
	// find the status atoms c:Q:K such that every site requires c>=1
	var atoms []string
	for e, rel := range rels {
		if rel.L.Const != -1 || len(rel.L.Coef) != 1 {
			continue
		}
		for a, co := range rel.L.Coef {
			if co != 1 || !strings.HasPrefix(a, "c:") {
				continue
			}
			all := true
			for _, site := range sites {
				if ssax.ReachableAvoiding(fn, site, []ssax.Edge{e}, nil) {
					all = false
				}
			}
			if all {
				atoms = append(atoms, a)
			}
		}
	}
	if len(atoms) == 0 {
		return "the emission is not guarded by a recognised `count(Status==K) >= 1` test", false
	}
	sort.Strings(atoms)
	atom := atoms[0]
	parts := strings.Split(atom, ":")
	var k int64
	for _, ch := range parts[2] {
		k = k*10 + int64(ch-'0')
	}
	typeName := map[string]string{"Sig": "ConfirmationParticipantStatus", "DKG": "DKGParticipantStatus", "Signing": "SigningParticipantStatus"}[parts[1]]
	// all stores of K into a Status field of that type anywhere in the FSM packages
	var fns []*ssa.Function
	cbOf := map[*ssa.Function][]*fsmx.Event{}
	for _, mm := range ms {
		for ev, f := range mm.Callbacks {
			if len(cbOf[f]) == 0 {
				fns = append(fns, f)
			}
			cbOf[f] = append(cbOf[f], mm.ByName[ev])
		}
	}
	n := 0
	for _, ss := range statusStores(fns, typeName) {
		if ss.K != k {
			continue
		}
		n++
		for _, ev := range cbOf[ss.Fn] {
			// after event ev the state is ev.Dst (or, for validators, any state the emitted events lead to); none may reach a source of desc
			dsts := map[string]bool{ev.Dst: true}
			em := fsmx.EmittedEvents(ss.Fn)
			for _, e2 := range em.Names() {
				for _, mm := range ms {
					if d := mm.ByName[e2]; d != nil {
						dsts[d.Dst] = true
					}
				}
			}
			for d := range dsts {
				reach := g.reach(d, nil)
				reach[d] = true
				for _, s := range desc.Src {
					if reach[s] && !(ss.Fn == fn) {
						return sprintf("status %d is stored by %s (event %s) whose destination %s can reach %s", k, load.FuncName(ss.Fn), ev.Name, d, s), false
					}
				}
			}
		}
	}
	if n == 0 {
		return sprintf("guarded by %s >= 1 and no callback ever stores status %d", atom, k), true
	}
	return sprintf("guarded by %s >= 1; status %d is stored at %d site(s), all in callbacks of events whose destination states cannot reach %v", atom, k, n, desc.Src), true
}

// ---------- R2/R3 graph rules ----------

func c05Graph(c *Ctx, ms map[string]*fsmx.Machine) {
	r := c.R
	r.Rule("C05/R2", "phase states form a dominator chain from __idle (no phase skipped, none re-entered from a later phase)", 16)
	r.Rule("C05/R3", "cancelled states of the invitation and DKG machines are absorbing w.r.t. await states and signing-ready", 10)
	g := buildGraph(ms)
	for _, s := range phaseChain {
		if !g.states[s] {
			r.Unknown("C05/R2", "state:"+s, "phase state must exist in the tables", "", "state "+s+" does not occur in any transition table")
		}
	}
	for i := 1; i < len(phaseChain); i++ {
		prev, cur := phaseChain[i-1], phaseChain[i]
		// dominance: cur unreachable from __idle when prev is removed
		reach := g.reach(stIdle, map[string]bool{prev: true})
		dom := !reach[cur] && cur != stIdle
		if i == 1 {
			dom = g.succ[stIdle][cur] && len(g.succ[stIdle]) == 1
		}
		r.Check(dom, "C05/R2", "dominates:"+prev+"->"+cur, "every path from __idle to "+cur+" passes through "+prev, "",
			"state "+cur+" is reachable from __idle without visiting "+prev+": a phase can be skipped")
		// no way back: prev not reachable from cur
		back := g.reach(cur, nil)
		r.Check(!back[prev], "C05/R2", "no-return:"+cur+"->"+prev, "no path leads from "+cur+" back to "+prev, "",
			"state "+prev+" is reachable from "+cur+": a phase can be repeated")
	}
	// R3
	awaitOrReady := map[string]bool{stSigAwait: true, stCommitsAwait: true, stDealsAwait: true, stResponsesAwait: true, stMasterKeyAwait: true, stSigningIdle: true, stSigCollected: true, stMasterKeyCollect: true, stSigningAwait: true}
	n := 0
	for _, rel := range []string{pkgSPF, pkgDPF} {
		m := ms[rel]
		for _, s := range sortedKeys(m.Dests) {
			if !isCancelState(s) {
				continue
			}
			n++
			reach := g.reach(s, nil)
			var bad []string
			for t := range reach {
				if awaitOrReady[t] {
					bad = append(bad, t)
				}
			}
			sort.Strings(bad)
			r.Check(len(bad) == 0, "C05/R3", "absorbing:"+s, "no path from cancelled state to any await/collected/signing state", "",
				"cancelled state "+s+" can reach "+strings.Join(bad, ","))
		}
	}
	r.Count("cancelled_states", n)
}

// ---------- R4/R7 validators ----------

type validatorSpec struct {
	rel, auto          string // machine package, auto event name
	quorum             string
	confirmedK, errorK string // constant identifiers in package internal
	advanceDst         string // state the advance event must lead to
	cancelDst          string // state the cancel event must lead to ("" = proved dead / none)
	timeoutDst         string
}

var c05Validators_ = []validatorSpec{
	{pkgSPF, "event_sig_proposal_validate", "Sig", "SigConfirmationConfirmed", "SigConfirmationDeclined", stSigCollected, "state_sig_proposal_canceled_by_participant", "state_sig_proposal_canceled_by_timeout"},
	{pkgDPF, "event_dkg_commits_validate_internal", "DKG", "CommitConfirmed", "CommitConfirmationError", stDealsAwait, "", "state_dkg_commits_await_canceled_by_timeout"},
	{pkgDPF, "event_dkg_deals_validate_internal", "DKG", "DealConfirmed", "DealConfirmationError", stResponsesAwait, "", "state_dkg_deals_await_canceled_by_timeout"},
	{pkgDPF, "event_dkg_responses_validate_internal", "DKG", "ResponseConfirmed", "ResponseConfirmationError", stMasterKeyAwait, "", "state_dkg_responses_sending_canceled_by_timeout"},
	{pkgDPF, "event_dkg_master_key_validate_internal", "DKG", "MasterKeyConfirmed", "MasterKeyConfirmationError", stMasterKeyCollect, "state_dkg_master_key_await_canceled_by_error", "state_dkg_master_key_await_canceled_by_timeout"},
}

func (c *Ctx) internalConst(rule, name string) (int64, bool) {
	pk := c.P.Pkg(pkgInternal)
	if pk == nil {
		c.R.Unknown(rule, "anchor:internal."+name, "status constant must resolve", "", "package not loaded")
		return 0, false
	}
	o, ok := pk.Types.Scope().Lookup(name).(*types.Const)
	if !ok {
		c.R.Unknown(rule, "anchor:internal."+name, "status constant must resolve", "", "constant internal."+name+" not found")
		return 0, false
	}
	v, ok := constInt64(o)
	return v, ok
}

func c05Validators(c *Ctx, ms map[string]*fsmx.Machine) {
	r := c.R
	r.Rule("C05/R4", "validators: advance only under count(Confirmed) >= N; cancel only under count(Error|Declined) >= 1; timeout only under IsExpired()", 14)
	c05ExpiredDefinition(c)
	r.Rule("C05/R7", "master-key validator: a byte mismatch between announced keys emits the cancel event", 2)
	for _, vs := range c05Validators_ {
		m := ms[vs.rel]
		fn := m.Callbacks[vs.auto]
		key := m.Name + ":" + vs.auto
		if fn == nil {
			r.Unknown("C05/R4", key, "validator callback must be registered for the auto event", "", "no callback for "+vs.auto)
			continue
		}
		desc := m.ByName[vs.auto]
		if desc == nil || !desc.Auto || !desc.Internal {
			r.Fail("C05/R4", key+":auto", "validation event is internal and automatic", c.Pos(fn.Pos()), "event "+vs.auto+" is not declared IsInternal+IsAuto: validation would not run after every accepted event")
		} else {
			r.OK("C05/R4", key+":auto", "validation event is internal and automatic (runs after every accepted event)", c.Pos(desc.Pos))
		}
		kc, ok1 := c.internalConst("C05/R4", vs.confirmedK)
		ke, ok2 := c.internalConst("C05/R4", vs.errorK)
		if !ok1 || !ok2 {
			continue
		}
		em := fsmx.EmittedEvents(fn)
		nz := &ssax.Normalizer{Fn: fn}
		rels := nz.EdgeRelations()
		// classify emitted events by destination state
		for _, x := range em.Names() {
			var dst string
			for _, s := range desc.Src {
				if t := m.Trans[[2]string{s, x}]; t != nil {
					dst = t.Dst
				}
			}
			sites := em.Consts[x]
			k2 := key + "->" + x
			switch {
			case dst == vs.advanceDst:
				want := ssax.MakeLin(0, map[string]int{sprintf("c:%s:%d", vs.quorum, kc): 1, "N:" + vs.quorum: -1})
				c05RequireGuard(c, "C05/R4", k2+":unanimous", fn, sites, rels, want,
					"advance event only when every one of the N participants has status "+vs.confirmedK, nz)
			case dst == "" || (vs.cancelDst != "" && dst == vs.cancelDst):
				want := ssax.MakeLin(-1, map[string]int{sprintf("c:%s:%d", vs.quorum, ke): 1})
				// the master-key validator additionally cancels on mismatch (R7): those sites are checked there
				var flagSites []ssa.Instruction
				for _, s := range sites {
					if vs.auto == "event_dkg_master_key_validate_internal" && c05IsMismatchSite(fn, s) {
						continue
					}
					flagSites = append(flagSites, s)
				}
				if len(flagSites) > 0 {
					c05RequireGuard(c, "C05/R4", k2+":on-failure", fn, flagSites, rels, want,
						"cancel event only when at least one participant has status "+vs.errorK, nz)
				}
			case dst == vs.timeoutDst:
				bad := false
				for _, s := range sites {
					edges := expiredEdges(fn)
					if len(edges) == 0 || ssax.ReachableAvoiding(fn, s, edges, nil) {
						bad = true
					}
				}
				r.Check(!bad, "C05/R4", k2+":on-timeout", "timeout event only under IsExpired()", c.PosOf(sites[0]),
					"the timeout-cancel event can be emitted without the deadline test")
			default:
				r.Fail("C05/R4", k2, "validator emits only advance/cancel/timeout events", c.PosOf(sites[0]), "event "+x+" leads to unexpected state "+dst)
			}
		}
		// the advance event must be among the emitted ones and lead to advanceDst
		found := false
		for _, x := range em.Names() {
			for _, s := range desc.Src {
				if t := m.Trans[[2]string{s, x}]; t != nil && t.Dst == vs.advanceDst && t.Internal {
					found = true
				}
			}
		}
		r.Check(found, "C05/R4", key+":advance-exists", "validator has an internal advance event to "+vs.advanceDst, c.Pos(fn.Pos()),
			"no emitted internal event leads to "+vs.advanceDst)
		// validator must test the decline/error flag BEFORE the unanimity test can succeed: covered because the advance
		// store is only reachable past the c_err == 0 edge
		// an expired deadline must win over a completed phase: the advance emission lies behind IsExpired()==false
		var notExpired []ssax.Edge
		for _, e := range expiredEdges(fn) {
			notExpired = append(notExpired, ssax.Edge{From: e.From, Succ: 1 - e.Succ})
		}
		for _, x := range em.Names() {
			for _, s := range desc.Src {
				if t := m.Trans[[2]string{s, x}]; t != nil && t.Dst == vs.advanceDst {
					for i, site := range em.Consts[x] {
						r.Check(len(notExpired) > 0 && !ssax.ReachableAvoiding(fn, site, notExpired, nil), "C05/R4", sprintf("%s->%s:not-expired#%d", key, x, i),
							"advance event only when the confirmation deadline has not expired", c.PosOf(site),
							"the advance event can be emitted without passing `IsExpired() == false`: a late last contribution would complete the phase instead of cancelling the round by timeout")
					}
				}
			}
		}
		errAtom := sprintf("c:%s:%d", vs.quorum, ke)
		noErr := ssax.MakeLin(0, map[string]int{errAtom: -1})
		for _, x := range em.Names() {
			for _, s := range desc.Src {
				if t := m.Trans[[2]string{s, x}]; t != nil && t.Dst == vs.advanceDst {
					c05RequireGuard(c, "C05/R4", key+"->"+x+":no-failure", fn, em.Consts[x], rels, noErr,
						"advance event only when no participant has status "+vs.errorK, nz)
				}
			}
		}
	}
	// R7
	if fn := ms[pkgDPF].Callbacks["event_dkg_master_key_validate_internal"]; fn != nil {
		c05Mismatch(c, ms[pkgDPF], fn)
	}
}

func constInt64(o *types.Const) (int64, bool) {
	v := o.Val()
	if v == nil {
		return 0, false
	}
	s := v.ExactString()
	var n int64
	for _, ch := range s {
		if ch < '0' || ch > '9' {
			return 0, false
		}
		n = n*10 + int64(ch-'0')
	}
	return n, true
}

func c05RequireGuard(c *Ctx, rule, key string, fn *ssa.Function, sites []ssa.Instruction, rels map[ssax.Edge]ssax.GE0, want ssax.Lin, what string, nz *ssax.Normalizer) {
	var cut []ssax.Edge
	var seen []string
	for e, rel := range rels {
		seen = append(seen, rel.String())
		if rel.L.String() == want.String() {
			cut = append(cut, e)
		}
	}
	sort.Strings(seen)
	for i, s := range sites {
		k := key
		if len(sites) > 1 {
			k = sprintf("%s#%d", key, i)
		}
		if len(cut) > 0 && !ssax.ReachableAvoiding(fn, s, cut, nil) {
			c.R.OKd(rule, k, what, c.PosOf(s), "guard: "+want.String()+" >= 0")
			continue
		}
		detail := "required guard `" + want.String() + " >= 0` is not on every path to the emission; recognised branch relations in " + fn.Name() + ": " + strings.Join(uniqStr(seen), " ; ")
		if len(nz.Why) > 0 {
			detail += " ; normaliser notes: " + strings.Join(nz.Why, " | ")
		}
		c.R.Fail(rule, k, what, c.PosOf(s), detail)
	}
}

func uniqStr(s []string) []string {
	var out []string
	for i, x := range s {
		if i == 0 || x != s[i-1] {
			out = append(out, x)
		}
	}
	return out
}

// expiredEdges: true edges of `….IsExpired()` calls.
func expiredEdges(fn *ssa.Function) []ssax.Edge {
	var out []ssax.Edge
	for _, call := range ssax.Calls(fn, false, func(ci ssa.CallInstruction) bool {
		o := ssax.CalleeObj(ci)
		return o != nil && o.Name() == "IsExpired" && o.Pkg() != nil && strings.HasSuffix(o.Pkg().Path(), pkgInternal)
	}) {
		out = append(out, ssax.BoolEdgesOfCall(fn, call, -1, true)...)
	}
	return out
}

// c05IsMismatchSite: the store is reachable only via the not-equal edge of the DeepEqual/bytes.Equal comparison.
func c05IsMismatchSite(fn *ssa.Function, site ssa.Instruction) bool {
	edges := mismatchEdges(fn)
	return len(edges) > 0 && !ssax.ReachableAvoiding(fn, site, edges, nil)
}

func mismatchEdges(fn *ssa.Function) []ssax.Edge {
	var out []ssax.Edge
	for _, call := range ssax.Calls(fn, false, func(ci ssa.CallInstruction) bool {
		id := ssax.FuncID(ssax.CalleeObj(ci))
		return id == "reflect.DeepEqual" || id == "bytes.Equal"
	}) {
		out = append(out, ssax.BoolEdgesOfCall(fn, call, -1, false)...)
	}
	return out
}

func c05Mismatch(c *Ctx, m *fsmx.Machine, fn *ssa.Function) {
	r := c.R
	key := m.Name + ":event_dkg_master_key_validate_internal"
	cmp := ssax.Calls(fn, false, func(ci ssa.CallInstruction) bool {
		id := ssax.FuncID(ssax.CalleeObj(ci))
		return id == "reflect.DeepEqual" || id == "bytes.Equal"
	})
	if len(cmp) == 0 {
		r.Fail("C05/R7", key+":compare", "announced master keys are compared for equality", c.Pos(fn.Pos()), "no reflect.DeepEqual/bytes.Equal call in the master-key validator: differing group keys would be accepted")
		return
	}
	for i, call := range cmp {
		args := call.Common().Args
		a, b := ssax.Path(args[0]), ssax.Path(args[1])
		// both operands must derive from the DkgMasterKey slice built in the loop (element vs first element)
		ok := strings.Contains(a+b, "DkgMasterKey") || (strings.Contains(a, "masterKeys") || strings.Contains(b, "masterKeys")) || masterKeyOperands(call)
		r.Check(ok, "C05/R7", sprintf("%s:compare#%d:operands", key, i), "comparison operands are participants' announced master keys", c.PosOf(call), "operands are "+a+" and "+b)
		ne := ssax.BoolEdgesOfCall(fn, call, -1, false)
		// on the not-equal edge the function must return the cancel event: the advance store must be unreachable from that edge,
		// and a store of the cancel event must be reachable
		em := fsmx.EmittedEvents(fn)
		var cancelSites, advanceSites []ssa.Instruction
		for _, x := range em.Names() {
			t := m.Trans[[2]string{stMasterKeyAwait, x}]
			if t == nil {
				continue
			}
			if t.Dst == "state_dkg_master_key_await_canceled_by_error" {
				cancelSites = append(cancelSites, em.Consts[x]...)
			}
			if t.Dst == stMasterKeyCollect {
				advanceSites = append(advanceSites, em.Consts[x]...)
			}
		}
		good := len(ne) > 0
		for _, e := range ne {
			first := e.From.Succs[e.Succ].Instrs[0]
			reachCancel := false
			for _, s := range cancelSites {
				if s == first || ssax.ReachableFrom(fn, first, s, nil, nil) {
					reachCancel = true
				}
			}
			reachAdvance := false
			for _, s := range advanceSites {
				// advance reachable from mismatch edge without passing through a cancel store + return?
				if ssax.ReachableFrom(fn, first, s, nil, cancelSites) || s == first {
					reachAdvance = true
				}
			}
			if !reachCancel || reachAdvance {
				good = false
			}
		}
		r.Check(good, "C05/R7", sprintf("%s:compare#%d:mismatch-cancels", key, i), "on a mismatch the validator stores the cancel event and cannot go on to the advance event", c.PosOf(call),
			"from the not-equal edge the cancel event is not stored, or the advance event remains reachable")
	}
	// the advance event requires that the comparison ran to completion: every path to the advance emission leaves the
	// comparison loop through its bound test, or passes the `fewer than two keys` edge
	{
		em := fsmx.EmittedEvents(fn)
		var advanceSites []ssa.Instruction
		for _, x := range em.Names() {
			if t := m.Trans[[2]string{stMasterKeyAwait, x}]; t != nil && t.Dst == stMasterKeyCollect {
				advanceSites = append(advanceSites, em.Consts[x]...)
			}
		}
		var pass []ssax.Edge
		for _, cd := range ssax.Conds(fn) {
			yp := ""
			if cd.Y != nil {
				yp = ssax.Path(cd.Y)
			}
			xp := ssax.Path(cd.X)
			// loop bound of the loop that contains the comparison
			if cd.Op == token.LSS && strings.HasPrefix(yp, "len(") && len(cmp) > 0 && ssax.ReachableFrom(fn, cd.If, cmp[0], nil, nil) && ssax.ReachableFrom(fn, cmp[0], cd.If, nil, nil) {
				pass = append(pass, ssax.Edge{From: cd.If.Block(), Succ: 1})
			}
			// `len(masterKeys) > 1` false edge
			if strings.HasPrefix(xp, "len(") && (cd.Op == token.GTR || cd.Op == token.GEQ) {
				if k, ok := ssax.ConstInt(cd.Y); ok && ((cd.Op == token.GTR && k == 1) || (cd.Op == token.GEQ && k == 2)) {
					pass = append(pass, ssax.Edge{From: cd.If.Block(), Succ: 1})
				}
			}
			// the same test written the other way round: `len(masterKeys) < 2` / `<= 1`, true edge
			if strings.HasPrefix(xp, "len(") && (cd.Op == token.LSS || cd.Op == token.LEQ) {
				if k, ok := ssax.ConstInt(cd.Y); ok && ((cd.Op == token.LSS && k == 2) || (cd.Op == token.LEQ && k == 1)) {
					pass = append(pass, ssax.Edge{From: cd.If.Block(), Succ: 0})
				}
			}
		}
		bad := len(pass) == 0 || len(advanceSites) == 0
		for _, s := range advanceSites {
			if ssax.ReachableAvoiding(fn, s, pass, nil) {
				bad = true
			}
		}
		r.Check(!bad, "C05/R7", key+":advance-after-comparison", "the advance event is emitted only after all announced keys were compared (or fewer than two exist)", c.Pos(fn.Pos()),
			"the advance emission is reachable on a path that does not run the key comparison to completion: the announcement that completes the quorum would not be compared")
	}
	// every announced key takes part: the comparison loop ranges over the collected slice, which is appended for every Confirmed participant
	r.Note("C05/R7 compares each collected key with the first one (all-vs-first); the collected slice is appended under Status==MasterKeyConfirmed inside the quorum range")
}

func masterKeyOperands(call ssa.CallInstruction) bool {
	for _, a := range call.Common().Args {
		if strings.Contains(ssax.Path(a), "append(") {
			return true
		}
	}
	return false
}

// ---------- R5 status gates ----------

type gateSpec struct {
	rel     string
	event   string // public event whose callback is checked
	typ     string // status type name
	await   string
	allowed []string // constants the callback may store under this event
	quorum  string   // QuorumExists method
}

var c05Gates = []gateSpec{
	{pkgSPF, "event_sig_proposal_confirm_by_participant", "ConfirmationParticipantStatus", "SigConfirmationAwaitConfirmation", []string{"SigConfirmationConfirmed"}, "SigQuorumExists"},
	{pkgSPF, "event_sig_proposal_decline_by_participant", "ConfirmationParticipantStatus", "SigConfirmationAwaitConfirmation", []string{"SigConfirmationDeclined"}, "SigQuorumExists"},
	{pkgDPF, "event_dkg_commit_confirm_received", "DKGParticipantStatus", "CommitAwaitConfirmation", []string{"CommitConfirmed"}, "DKGQuorumExists"},
	{pkgDPF, "event_dkg_commit_confirm_canceled_by_error", "DKGParticipantStatus", "CommitAwaitConfirmation", []string{"CommitConfirmationError"}, "DKGQuorumExists"},
	{pkgDPF, "event_dkg_deal_confirm_received", "DKGParticipantStatus", "DealAwaitConfirmation", []string{"DealConfirmed"}, "DKGQuorumExists"},
	{pkgDPF, "event_dkg_deal_confirm_canceled_by_error", "DKGParticipantStatus", "DealAwaitConfirmation", []string{"DealConfirmationError"}, "DKGQuorumExists"},
	{pkgDPF, "event_dkg_response_confirm_received", "DKGParticipantStatus", "ResponseAwaitConfirmation", []string{"ResponseConfirmed"}, "DKGQuorumExists"},
	{pkgDPF, "event_dkg_response_confirm_canceled_by_error", "DKGParticipantStatus", "ResponseAwaitConfirmation", []string{"ResponseConfirmationError"}, "DKGQuorumExists"},
	{pkgDPF, "event_dkg_master_key_confirm_received", "DKGParticipantStatus", "MasterKeyAwaitConfirmation", []string{"MasterKeyConfirmed"}, "DKGQuorumExists"},
	{pkgDPF, "event_dkg_master_key_confirm_canceled_by_error", "DKGParticipantStatus", "MasterKeyAwaitConfirmation", []string{"MasterKeyConfirmationError"}, "DKGQuorumExists"},
}

// validator resets: auto event -> status constant every participant is reset to on advance
var c05Resets = map[string]string{
	"event_dkg_commits_validate_internal":    "DealAwaitConfirmation",
	"event_dkg_deals_validate_internal":      "ResponseAwaitConfirmation",
	"event_dkg_responses_validate_internal":  "MasterKeyAwaitConfirmation",
	"event_dkg_master_key_validate_internal": "MasterKeyConfirmed",
}

func c05StatusGates(c *Ctx, ms map[string]*fsmx.Machine) {
	c.R.Rule("C05/R5", "per-participant callbacks change a participant only under Status==<phase>Await and QuorumExists(request.ParticipantId), store only that phase's constants, and write back under the same id; validators reset to the next phase's Await", 30)
	for _, gs := range c05Gates {
		checkGate(c, "C05/R5", ms, gs)
	}
	for _, auto := range sortedKeys(c05Resets) {
		m := ms[pkgDPF]
		fn := m.Callbacks[auto]
		if fn == nil {
			continue
		}
		want, ok := c.internalConst("C05/R5", c05Resets[auto])
		if !ok {
			continue
		}
		em := fsmx.EmittedEvents(fn)
		var advance []ssa.Instruction
		for _, x := range em.Names() {
			if t := m.Trans[[2]string{m.ByName[auto].Src[0], x}]; t != nil && !isCancelState(t.Dst) {
				advance = append(advance, em.Consts[x]...)
			}
		}
		n := 0
		for _, ss := range statusStores([]*ssa.Function{fn}, "DKGParticipantStatus") {
			// stores on the mismatch path (error status) are part of R7
			if c05IsMismatchSite(fn, ss.Store) {
				continue
			}
			n++
			key := sprintf("%s:%s:reset#%d", m.Name, auto, n)
			inRange := strings.Contains(ssax.Path(ss.Store.Addr), "next(range(") && strings.Contains(ssax.Path(ss.Store.Addr), "DKGProposalPayload.Quorum")
			// the reset must happen only on the advance path: after the advance store
			afterAdvance := len(advance) > 0 && !ssax.ReachableAvoiding(fn, ss.Store, nil, advance)
			if !afterAdvance && len(advance) > 0 {
				// the decision may also FOLLOW the reset (`for … { reset }; return advanceEvent`): then every way out of the
				// function from the reset passes an advance emission, and no other event's emission is reachable from it
				follows := true
				for _, ret := range ssax.Returns(fn) {
					if ssax.ReachableFrom(fn, ss.Store, ret, nil, advance) {
						follows = false
					}
				}
				for _, x := range em.Names() {
					if t := m.Trans[[2]string{m.ByName[auto].Src[0], x}]; t != nil && !isCancelState(t.Dst) {
						continue
					}
					for _, other := range em.Consts[x] {
						if ssax.ReachableFrom(fn, ss.Store, other, nil, nil) {
							follows = false
						}
					}
				}
				afterAdvance = follows
			}
			c.R.Check(ss.K == want && inRange && afterAdvance, "C05/R5", key, "on advance every participant's status is reset to "+c05Resets[auto], c.PosOf(ss.Store),
				sprintf("stores status %d (want %d = %s), over-quorum-range=%v, only-after-advance-decision=%v", ss.K, want, c05Resets[auto], inRange, afterAdvance))
		}
		c.R.Check(n >= 1, "C05/R5", sprintf("%s:%s:reset-exists", m.Name, auto), "validator resets statuses for the next phase", c.Pos(fn.Pos()), "no status reset found on the advance path: the next phase's contributions would be rejected or the previous ones counted again")
	}
}

// checkGate verifies one (event, callback) pair.
func checkGate(c *Ctx, rule string, ms map[string]*fsmx.Machine, gs gateSpec) {
	r := c.R
	m := ms[gs.rel]
	fn := m.Callbacks[gs.event]
	key := m.Name + ":" + gs.event
	if fn == nil {
		r.Unknown(rule, key, "callback must be registered", "", "no callback for event "+gs.event)
		return
	}
	await, ok := c.internalConst(rule, gs.await)
	if !ok {
		return
	}
	allowed := map[int64]string{}
	for _, a := range gs.allowed {
		if k, ok := c.internalConst(rule, a); ok {
			allowed[k] = a
		}
	}
	// edges that pin inEvent to this event (callbacks shared by several events switch on inEvent)
	inEv := fn.Params[1]
	var thisEvent, otherEvent []ssax.Edge
	for _, cd := range ssax.Conds(fn) {
		if cd.Op != token.EQL && cd.Op != token.NEQ {
			continue
		}
		for _, pr := range [][2]ssa.Value{{cd.X, cd.Y}, {cd.Y, cd.X}} {
			if ssax.Resolve(pr[0]) != ssa.Value(inEv) {
				continue
			}
			s, ok := ssax.ConstString(pr[1])
			if !ok {
				continue
			}
			eq, _ := cd.EdgeWhere(token.EQL)
			if s == gs.event {
				thisEvent = append(thisEvent, eq)
			} else {
				otherEvent = append(otherEvent, eq)
			}
		}
	}
	// the assumption "inEvent == this event": the equal edges of the other events and the not-equal edge of this one
	// are never taken. Table-driven callbacks select their status constants by the event (phis); under the assumption
	// they are constants again.
	assume := append([]ssax.Edge{}, otherEvent...)
	for _, e := range thisEvent {
		assume = append(assume, ssax.Edge{From: e.From, Succ: 1 - e.Succ})
	}
	// status gate edges: Status == await on the participant obtained via QuorumGet(request.ParticipantId)
	var gate []ssax.Edge
	asm := ssax.Assumption{Cut: assume, KeyVal: inEv, KeyConst: gs.event}
	for _, sc := range ssax.StatusCondsUnderA(fn, asm) {
		if sc.K == await && strings.Contains(sc.Base, "QuorumGet(") && strings.Contains(sc.Base, ".ParticipantId") {
			gate = append(gate, sc.EqEdge)
		}
	}
	// switch lowering: `switch p.Status { case Await: … }` produces the same EQL conds, so it is covered above.
	var exists []ssax.Edge
	for _, call := range ssax.Calls(fn, false, func(ci ssa.CallInstruction) bool {
		o := ssax.CalleeObj(ci)
		return o != nil && o.Name() == gs.quorum
	}) {
		if strings.HasSuffix(ssax.Path(call.Common().Args[len(call.Common().Args)-1]), ".ParticipantId") {
			exists = append(exists, ssax.BoolEdgesOfCall(fn, call, -1, true)...)
		}
	}
	validate := validateNilEdges(fn)
	stores := statusStores([]*ssa.Function{fn}, gs.typ)
	n := 0
	for _, ss := range stores {
		// consider only stores that can execute when inEvent == gs.event
		if len(otherEvent) > 0 || len(thisEvent) > 0 {
			// reachable while avoiding every "inEvent == other" edge?
			if !ssax.ReachableAvoiding(fn, ss.Store, otherEvent, nil) {
				continue
			}
		}
		n++
		k := sprintf("%s:status-store#%d", key, n)
		valuePinned := false
		if ss.K == -1 {
			if kk, ok := ssax.ConstIntUnderA(fn, ss.Store.Val, asm); ok {
				ss.K, valuePinned = kk, true
			}
		}
		name, okK := allowed[ss.K]
		base := ssax.Path(ss.Store.Addr)
		onParticipant := strings.Contains(base, "QuorumGet(") && strings.Contains(base, ".ParticipantId")
		gated := len(gate) > 0 && !ssax.ReachableAvoiding(fn, ss.Store, gate, nil)
		exist := len(exists) > 0 && !ssax.ReachableAvoiding(fn, ss.Store, exists, nil)
		valid := len(validate) > 0 && !ssax.ReachableAvoiding(fn, ss.Store, validate, nil)
		pinned := true
		if len(m.CallbackEvents(fn)) > 1 {
			pinned = (len(thisEvent) > 0 && !ssax.ReachableAvoiding(fn, ss.Store, thisEvent, nil)) || valuePinned
		}
		det := []string{}
		if !okK {
			det = append(det, sprintf("stores status %d which is not one of %v", ss.K, gs.allowed))
		}
		if !onParticipant {
			det = append(det, "target "+base+" is not the participant looked up by request.ParticipantId")
		}
		if !gated {
			det = append(det, "not gated by Status == "+gs.await+" (a contribution could be accepted twice or out of phase)")
		}
		if !exist {
			det = append(det, "not gated by "+gs.quorum+"(request.ParticipantId)")
		}
		if !valid {
			det = append(det, "not preceded by a successful request.Validate()")
		}
		if !pinned {
			det = append(det, "shared callback does not pin inEvent == "+gs.event+" for this store")
		}
		r.Check(len(det) == 0, rule, k, "status store under "+gs.event+" is "+name+" gated by "+gs.await, c.PosOf(ss.Store), strings.Join(det, "; "))
	}
	r.Check(n >= 1, rule, key+":stores", "callback records the participant's new status", c.Pos(fn.Pos()), "no status store reachable for event "+gs.event)
	// write-back under the same id
	for i, call := range ssax.Calls(fn, false, func(ci ssa.CallInstruction) bool {
		o := ssax.CalleeObj(ci)
		return o != nil && strings.HasSuffix(o.Name(), "QuorumUpdate")
	}) {
		args := call.Common().Args
		idp := ssax.Path(args[1])
		pp := ssax.Path(args[2])
		ok := strings.HasSuffix(idp, ".ParticipantId") && strings.Contains(pp, "QuorumGet(") && strings.Contains(pp, idp)
		r.Check(ok, rule, sprintf("%s:write-back#%d", key, i), "QuorumUpdate(request.ParticipantId, <the participant fetched under that id>)", c.PosOf(call), "update key "+idp+" / value "+pp)
	}
}

// validateNilEdges: nil-error edges of request.Validate() calls.
func validateNilEdges(fn *ssa.Function) []ssax.Edge {
	var out []ssax.Edge
	for _, call := range ssax.Calls(fn, false, func(ci ssa.CallInstruction) bool {
		o := ssax.CalleeObj(ci)
		return o != nil && o.Name() == "Validate" && o.Pkg() != nil && strings.HasSuffix(o.Pkg().Path(), pkgRequests)
	}) {
		out = append(out, ssax.NilErrEdgesOfCall(fn, call)...)
	}
	return out
}

// ---------- R8 hand-over ----------

// c05Handover checks that processMessage issues the constant events only under resp.State == required state.
func c05Handover(c *Ctx, rule string, want map[string]string) {
	r := c.R
	r.Rule(rule, "manual hand-over events are issued only under resp.State == the state the previous machine ended in", len(want))
	fn := c.Fn(rule, pkgNode, "BaseNodeService", "processMessage")
	if fn == nil {
		return
	}
	found := map[string]int{}
	for _, call := range ssax.CallsTo(fn, load.Module+"/fsm/state_machines.(FSMInstance).Do") {
		ev, ok := ssax.ConstString(call.Common().Args[1])
		if !ok {
			// table-driven hand-over: Do(row.event) under resp.State == row.state for a row of a constant table
			if rf, isRow := ssax.AsRowFieldFn(fn, call.Common().Args[1], isRespState); isRow {
				if rows, okR := ssax.RowEntries(rf.Global); okR {
					for _, row := range rows {
						rev, ok1 := rowString(row, rf.Field)
						rst, ok2 := rowString(row, rf.KeyField)
						if !ok1 {
							continue
						}
						if st, wanted := want[rev]; wanted {
							found[rev]++
							r.Check(ok2 && rst == st, rule, sprintf("node.processMessage:Do(%s)#%d", rev, found[rev]),
								"Do("+rev+") only under resp.State == "+st, c.PosOf(call), "the hand-over table issues "+rev+" under resp.State == "+rst)
						}
					}
				}
			}
			continue
		}
		st, ok := want[ev]
		if !ok {
			continue
		}
		found[ev]++
		edges := respStateEdges(fn, st)
		r.Check(len(edges) > 0 && !ssax.ReachableAvoiding(fn, call, edges, nil), rule, sprintf("node.processMessage:Do(%s)#%d", ev, found[ev]),
			"Do("+ev+") only under resp.State == "+st, c.PosOf(call), "hand-over event is reachable without the state test")
	}
	for _, ev := range sortedKeys(want) {
		if found[ev] == 0 {
			r.Fail(rule, "node.processMessage:Do("+ev+")", "hand-over event is issued by the node", c.Pos(fn.Pos()), "no call Do("+ev+") in processMessage: the round could never leave "+want[ev])
		}
	}
}

// isRespState: v reads (<*fsm.Response>).State.
func isRespState(v ssa.Value) bool {
	ld, ok := ssax.Resolve(v).(*ssa.UnOp)
	if !ok {
		return false
	}
	fa, ok := ld.X.(*ssa.FieldAddr)
	return ok && ssax.FieldOf(fa) != nil && ssax.FieldOf(fa).Name() == "State" && ssax.OwnerName(fa) == "Response"
}

func rowString(row []constant.Value, i int) (string, bool) {
	if i < 0 || i >= len(row) || row[i] == nil || row[i].Kind() != constant.String {
		return "", false
	}
	return constant.StringVal(row[i]), true
}

// respStateEdges: edges on which (<*fsm.Response>).State == st.
func respStateEdges(fn *ssa.Function, st string) []ssax.Edge {
	var out []ssax.Edge
	for _, cd := range ssax.Conds(fn) {
		if cd.Op != token.EQL && cd.Op != token.NEQ {
			continue
		}
		for _, pr := range [][2]ssa.Value{{cd.X, cd.Y}, {cd.Y, cd.X}} {
			s, ok := ssax.ConstString(pr[1])
			if !ok || s != st {
				continue
			}
			ld, ok := ssax.Resolve(pr[0]).(*ssa.UnOp)
			if !ok {
				continue
			}
			fa, ok := ld.X.(*ssa.FieldAddr)
			if !ok || ssax.FieldOf(fa) == nil || ssax.FieldOf(fa).Name() != "State" || ssax.OwnerName(fa) != "Response" {
				continue
			}
			if e, ok := cd.EdgeWhere(token.EQL); ok {
				out = append(out, e)
			}
		}
	}
	return out
}

// respStateAssume returns the edges that are infeasible when (<*fsm.Response>).State == st is assumed for the whole
// path: the not-equal edge of every test against st and the equal edge of every test against another constant.
func respStateAssume(fn *ssa.Function, st string) []ssax.Edge {
	var out []ssax.Edge
	for _, cd := range ssax.Conds(fn) {
		if cd.Op != token.EQL && cd.Op != token.NEQ {
			continue
		}
		for _, pr := range [][2]ssa.Value{{cd.X, cd.Y}, {cd.Y, cd.X}} {
			s, ok := ssax.ConstString(pr[1])
			if !ok {
				continue
			}
			ld, ok := ssax.Resolve(pr[0]).(*ssa.UnOp)
			if !ok {
				continue
			}
			fa, ok := ld.X.(*ssa.FieldAddr)
			if !ok || ssax.FieldOf(fa) == nil || ssax.FieldOf(fa).Name() != "State" || ssax.OwnerName(fa) != "Response" {
				continue
			}
			eq, _ := cd.EdgeWhere(token.EQL)
			if s == st {
				out = append(out, ssax.Edge{From: eq.From, Succ: 1 - eq.Succ})
			} else {
				out = append(out, eq)
			}
		}
	}
	return out
}


// c05ExpiredDefinition: the validators' deadline clause rests on what IsExpired MEANS. The three sibling definitions
// (invitation, key generation, signing) answer from the two time stamps only — ExpiresAt.Before(UpdatedAt), or the
// mirrored After — on every return. A definition that also looks at the quorum ("nobody is awaited any more, so it is
// not expired") lets the answer that completes a phase arrive after the deadline and advance the round.
func c05ExpiredDefinition(c *Ctx) {
	r := c.R
	for _, tn := range []string{"SignatureConfirmation", "DKGConfirmation", "SigningConfirmation"} {
		fn := c.Fn("C05/R4", "fsm/state_machines/internal", tn, "IsExpired")
		if fn == nil {
			continue
		}
		why := ""
		for _, ret := range ssax.Returns(fn) {
			if len(ret.Results) != 1 {
				why = "unexpected result count"
				continue
			}
			for _, lf := range ssax.Leaves(ret.Results[0], ret) {
				call, isCall := ssax.Resolve(lf.V).(*ssa.Call)
				if !isCall {
					why = "returns " + ssax.Path(lf.V) + " at " + c.PosOf(ret) + " instead of the comparison of the two time stamps"
					continue
				}
				id := ssax.FuncID(ssax.CalleeObj(call))
				a := call.Common().Args
				if len(a) != 2 {
					why = "unexpected call " + id
					continue
				}
				x, y := ssax.Path(a[0]), ssax.Path(a[1])
				okBefore := id == "time.(Time).Before" && strings.HasSuffix(x, ".ExpiresAt") && strings.HasSuffix(y, ".UpdatedAt")
				okAfter := id == "time.(Time).After" && strings.HasSuffix(x, ".UpdatedAt") && strings.HasSuffix(y, ".ExpiresAt")
				if !okBefore && !okAfter {
					why = "returns " + ssax.Path(lf.V) + " at " + c.PosOf(ret)
				}
			}
		}
		// and nothing but the two stamps is consulted
		ssax.Instrs(fn, func(in ssa.Instruction) {
			if fa, ok := in.(*ssa.FieldAddr); ok && ssax.FieldOf(fa) != nil {
				if n := ssax.FieldOf(fa).Name(); n != "ExpiresAt" && n != "UpdatedAt" && why == "" {
					why = "consults field " + n + " at " + c.PosOf(in)
				}
			}
		})
		r.Check(why == "", "C05/R4", "internal.("+tn+").IsExpired:definition", "expired means exactly ExpiresAt before UpdatedAt", c.Pos(fn.Pos()), why)
	}
}
