package rules

import (
	"go/types"
	"reflect"
	"sort"
	"strings"
)

// CustomJSONVerifier, when set, checks that a module type's MarshalJSON/UnmarshalJSON pair is symmetric; it returns
// "" when verified and a reason otherwise. (Set by the rules package, which has the SSA program.)
var CustomJSONVerifier func(t types.Type) string

// jsonIssue is a reason why a value of a type does not survive encoding/json marshal+unmarshal unchanged.
type jsonIssue struct {
	Path string
	Why  string
}

// jsonWalk walks the exported-field closure of t and reports constructs that do not round-trip through
// encoding/json: unexported or json:"-" fields (silently dropped), interface-typed fields (decode into
// map/float64), func/chan/complex (marshal error), map keys that are not string/integer, a custom MarshalJSON
// without a matching UnmarshalJSON on the pointer receiver (or vice versa), omitempty on non-pointer structs.
// Types that implement both MarshalJSON and UnmarshalJSON (or TextMarshaler pair) are trusted leaves.
func jsonWalk(t types.Type, path string, seen map[string]bool, out *[]jsonIssue, visited *[]string) {
	key := t.String()
	if seen[key] {
		return
	}
	seen[key] = true
	*visited = append(*visited, key)
	if hasMethod(t, "MarshalJSON") || hasMethod(t, "UnmarshalJSON") {
		m, u := hasMethod(t, "MarshalJSON"), hasMethod(types.NewPointer(deref(t)), "UnmarshalJSON")
		if m != u {
			*out = append(*out, jsonIssue{path, "type " + key + " has only one of MarshalJSON/UnmarshalJSON: encode and decode are not symmetric"})
		} else if CustomJSONVerifier != nil && strings.Contains(key, "lidofinance/dc4bc") {
			if why := CustomJSONVerifier(deref(t)); why != "" {
				*out = append(*out, jsonIssue{path, "type " + key + " has a hand-written MarshalJSON/UnmarshalJSON pair that is not a recognised symmetric delegation: " + why})
			}
		}
		return
	}
	if hasMethod(t, "MarshalText") && hasMethod(types.NewPointer(deref(t)), "UnmarshalText") {
		return
	}
	switch u := t.Underlying().(type) {
	case *types.Basic:
		switch {
		case u.Info()&types.IsComplex != 0:
			*out = append(*out, jsonIssue{path, "complex numbers cannot be marshalled"})
		case u.Kind() == types.UnsafePointer:
			*out = append(*out, jsonIssue{path, "unsafe pointer"})
		}
	case *types.Pointer:
		jsonWalk(u.Elem(), path, seen, out, visited)
	case *types.Slice:
		jsonWalk(u.Elem(), path+"[]", seen, out, visited)
	case *types.Array:
		jsonWalk(u.Elem(), path+"[]", seen, out, visited)
	case *types.Map:
		kb, ok := u.Key().Underlying().(*types.Basic)
		if !ok || kb.Info()&(types.IsString|types.IsInteger) == 0 {
			if !(hasMethod(u.Key(), "MarshalText") && hasMethod(types.NewPointer(u.Key()), "UnmarshalText")) {
				*out = append(*out, jsonIssue{path, "map key type " + u.Key().String() + " is not a string/integer"})
			}
		}
		jsonWalk(u.Elem(), path+"[k]", seen, out, visited)
	case *types.Struct:
		for i := 0; i < u.NumFields(); i++ {
			f := u.Field(i)
			tag := reflect.StructTag(u.Tag(i)).Get("json")
			name := strings.Split(tag, ",")[0]
			fp := path + "." + f.Name()
			if !f.Exported() {
				if !f.Embedded() {
					*out = append(*out, jsonIssue{fp, "unexported field is dropped by encoding/json"})
				}
				continue
			}
			if name == "-" {
				*out = append(*out, jsonIssue{fp, "field tagged json:\"-\" is dropped"})
				continue
			}
			if strings.Contains(tag, "omitempty") {
				if _, isStruct := f.Type().Underlying().(*types.Struct); isStruct {
					*out = append(*out, jsonIssue{fp, "omitempty on a struct value has no effect / hides intent"})
				}
			}
			jsonWalk(f.Type(), fp, seen, out, visited)
		}
	case *types.Interface:
		*out = append(*out, jsonIssue{path, "interface-typed value decodes into map[string]interface{}/float64, not the original type"})
	case *types.Chan, *types.Signature:
		*out = append(*out, jsonIssue{path, "func/chan cannot be marshalled"})
	}
}

func deref(t types.Type) types.Type {
	if p, ok := t.(*types.Pointer); ok {
		return p.Elem()
	}
	return t
}

func hasMethod(t types.Type, name string) bool {
	ms := types.NewMethodSet(t)
	for i := 0; i < ms.Len(); i++ {
		if ms.At(i).Obj().Name() == name {
			return true
		}
	}
	if _, ok := t.(*types.Pointer); !ok {
		// value type: methods with pointer receivers are not in the method set of T but json uses addressable values when decoding
	}
	return false
}

// wireField describes one exported field by its JSON wire name.
type wireField struct {
	GoName string
	Wire   string
	Type   string
}

// wireSchema lists the exported fields of a struct type keyed by JSON name.
func wireSchema(t types.Type) []wireField {
	st, ok := deref(t).Underlying().(*types.Struct)
	if !ok {
		return nil
	}
	var out []wireField
	for i := 0; i < st.NumFields(); i++ {
		f := st.Field(i)
		if !f.Exported() {
			continue
		}
		tag := reflect.StructTag(st.Tag(i)).Get("json")
		name := strings.Split(tag, ",")[0]
		if name == "-" {
			continue
		}
		if name == "" {
			name = f.Name()
		}
		out = append(out, wireField{GoName: f.Name(), Wire: name, Type: types.TypeString(f.Type(), nil)})
	}
	sort.Slice(out, func(i, j int) bool { return out[i].Wire < out[j].Wire })
	return out
}

// structFields returns Go field name -> type string for all fields (exported or not).
func structFields(t types.Type) map[string]string {
	st, ok := deref(t).Underlying().(*types.Struct)
	if !ok {
		return nil
	}
	out := map[string]string{}
	for i := 0; i < st.NumFields(); i++ {
		out[st.Field(i).Name()] = types.TypeString(st.Field(i).Type(), nil)
	}
	return out
}

// lookupType resolves a named type in a module-relative package.
func (c *Ctx) lookupType(rule, rel, name string) types.Type {
	pk := c.P.Pkg(rel)
	if pk == nil {
		c.R.Unknown(rule, "anchor:"+rel+"."+name, "anchor type must resolve", "", "package "+rel+" not loaded")
		return nil
	}
	o := pk.Types.Scope().Lookup(name)
	tn, ok := o.(*types.TypeName)
	if !ok {
		c.R.Unknown(rule, "anchor:"+rel+"."+name, "anchor type must resolve", "", "type "+rel+"."+name+" not found (renamed or removed)")
		return nil
	}
	return tn.Type()
}
