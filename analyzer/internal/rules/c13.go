package rules

import (
	"go/token"
	"sort"
	"strings"

	"dcverif/internal/load"
	"dcverif/internal/ssax"

	"golang.org/x/tools/go/ssa"
)

func init() { Registry["C13"] = C13 }

// C13 — a hot node killed at any instant resumes without losing messages or operations.
func C13(c *Ctx) {
	r := c.R
	r.Explain = "Decided statically (ordering and initialisation shape of the node's durable writes): (R1) every durable write performed by a start-up constructor (anything reachable from CreateServiceProviderWithCfg/NewNode) is conditional on a failed/empty read of the same store — a restart must not reset offset, pool, tombstones or keys; " +
		"(R2) in Poll the offset write of a message comes after that message was handled (or skipped as not-for-us), its value is message.Offset+1, and LoadOffset feeds GetMessages; (R3) the write that makes re-processing a no-op (SaveFSM of the advanced round) must not precede the write of the work derived from the message (PutOperation); " +
		"(R4) an operation is retired only after its result was posted (or written back); (R5) the pool view is filtered by tombstones and the tombstone is written first. " +
		"NOT decided: LevelDB atomicity, the crash-point enumeration itself (each rule is the ordering fact that enumeration would need at that point)."
	r.Trusted = []string{"goleveldb single-key Put atomicity", "VTA call graph for constructor reachability", "go/ssa"}
	r.Rule("C13/R1", "start-up constructors write durable keys only when the key is absent; the stores are opened with goleveldb's tolerant recovery options", 5)
	r.Rule("C13/R2", "offset is saved after the message was handled, as message.Offset+1; LoadOffset feeds GetMessages", 3)
	r.Rule("C13/R3", "derived work (operation) is durable no later than the state change that makes the message unrepeatable", 1)
	r.Rule("C13/R4", "post before retire", 3)
	r.Rule("C13/R5", "tombstones filter the pool; tombstone first", 3)
	c13Constructors(c)
	c13Poll(c)
	c13Order(c)
	c13Retire(c)
	openTolerant(c, "C13/R1", []string{"client/modules/state", "client/modules/keystore"})
}

// openTolerant: a process killed in the middle of a LevelDB write leaves a torn last journal record. With the default
// options goleveldb drops that record when the database is opened again and the node comes up with the state as of the
// previous write; Strict journal/manifest checking turns the same file into an error at start-up, ErrorIfMissing /
// ErrorIfExist / ReadOnly make a (first) start or any write fail. The durable stores are therefore opened with nil
// options or with an Options literal that sets none of these.
func openTolerant(c *Ctx, rule string, pkgs []string) {
	r := c.R
	forbidden := map[string]bool{"Strict": true, "ErrorIfMissing": true, "ErrorIfExist": true, "ReadOnly": true}
	n := 0
	for fn := range c.P.AllFuncs() {
		if !load.InModule(fn) || c.isTestFunc(fn) || fn.Pkg == nil || len(fn.Blocks) == 0 {
			continue
		}
		in := false
		for _, p := range pkgs {
			if strings.HasSuffix(fn.Pkg.Pkg.Path(), p) {
				in = true
			}
		}
		if !in {
			continue
		}
		for _, call := range ssax.Calls(fn, true, func(ci ssa.CallInstruction) bool {
			id := ssax.FuncID(ssax.CalleeObj(ci))
			return id == "github.com/syndtr/goleveldb/leveldb.OpenFile" || id == "github.com/syndtr/goleveldb/leveldb.Open" || id == "github.com/syndtr/goleveldb/leveldb.RecoverFile" || id == "github.com/syndtr/goleveldb/leveldb.Recover"
		}) {
			n++
			key := lastSeg(fn.Pkg.Pkg.Path()) + "." + fn.Name() + ":open-options"
			if strings.Contains(ssax.FuncID(ssax.CalleeObj(call)), "Recover") {
				r.Fail(rule, key, "the store is opened, not rebuilt", c.PosOf(call), "RecoverFile rebuilds the database from its tables and drops what is only in the journal: the last writes before a kill are lost at every start")
				continue
			}
			opt := ssax.Resolve(call.Common().Args[1])
			if ssax.IsNilConst(opt) {
				r.OKd(rule, key, "opened with default (tolerant) recovery options", c.PosOf(call), "options = nil")
				continue
			}
			al, isAlloc := opt.(*ssa.Alloc)
			if !isAlloc || al.Referrers() == nil {
				r.Unknown(rule, key, "options are nil or a literal in the opening function", c.PosOf(call), "options come from "+ssax.Path(opt))
				continue
			}
			var set []string
			for _, ref := range *al.Referrers() {
				if fa, ok := ref.(*ssa.FieldAddr); ok && ssax.FieldOf(fa) != nil && forbidden[ssax.FieldOf(fa).Name()] && fa.Referrers() != nil {
					for _, u := range *fa.Referrers() {
						if st, ok := u.(*ssa.Store); ok && st.Addr == ssa.Value(fa) {
							if k, isC := st.Val.(*ssa.Const); isC && (k.Value == nil || k.Value.String() == "0" || k.Value.String() == "false") {
								continue
							}
							set = append(set, ssax.FieldOf(fa).Name())
						}
					}
				}
			}
			sort.Strings(set)
			r.Check(len(set) == 0, rule, key, "the options keep goleveldb's tolerant recovery (no Strict / ErrorIfMissing / ErrorIfExist / ReadOnly)", c.PosOf(call),
				"options set "+strings.Join(set, ", ")+": a journal record torn by a kill in the middle of a write (or a missing/existing directory) makes every later start fail instead of resuming from the last complete write")
		}
	}
	r.Check(n >= 1, rule, "open-options:census", "the durable stores are opened through goleveldb's OpenFile", "", sprintf("%d open calls found in %v", n, pkgs))
}

func isStoreWrite(ci ssa.CallInstruction) bool {
	id := ssax.FuncID(ssax.CalleeObj(ci))
	switch {
	case id == "github.com/syndtr/goleveldb/leveldb.(DB).Put", id == "github.com/syndtr/goleveldb/leveldb.(DB).Delete",
		id == "github.com/syndtr/goleveldb/leveldb.(Transaction).Put":
		return true
	case strings.HasSuffix(id, "client/modules/state.(State).Set"), strings.HasSuffix(id, "client/modules/state.(LevelDBState).Set"),
		strings.HasSuffix(id, "client/modules/state.(State).SaveOffset"), strings.HasSuffix(id, "client/modules/state.(LevelDBState).SaveOffset"),
		strings.HasSuffix(id, "client/modules/state.(State).Delete"), strings.HasSuffix(id, "client/modules/state.(LevelDBState).Delete"):
		return true
	}
	return stateLikeCall(ci, "Set", "Delete", "SaveOffset")
}

func isStoreRead(ci ssa.CallInstruction) bool {
	id := ssax.FuncID(ssax.CalleeObj(ci))
	switch {
	case id == "github.com/syndtr/goleveldb/leveldb.(DB).Get", id == "github.com/syndtr/goleveldb/leveldb.(DB).Has":
		return true
	case strings.HasSuffix(id, "client/modules/state.(State).Get"), strings.HasSuffix(id, "client/modules/state.(LevelDBState).Get"),
		strings.HasSuffix(id, "client/modules/state.(State).GetOrError"), strings.HasSuffix(id, "client/modules/state.(LevelDBState).GetOrError"),
		strings.HasSuffix(id, "client/modules/state.(State).LoadOffset"):
		return true
	}
	return stateLikeCall(ci, "Get", "GetOrError", "LoadOffset")
}

// absentEdges: edges of fn on which a preceding read reported "absent": the non-nil error edge of a read, or
// result#0 == nil / len(result#0) == 0.
func absentEdges(fn *ssa.Function) []ssax.Edge {
	var out []ssax.Edge
	for _, rd := range ssax.Calls(fn, false, isStoreRead) {
		for _, e := range ssax.NilErrEdgesOfCall(fn, rd) {
			out = append(out, ssax.Edge{From: e.From, Succ: 1 - e.Succ})
		}
		for _, cd := range ssax.Conds(fn) {
			if cd.Op == token.ILLEGAL {
				continue
			}
			for _, pr := range [][2]ssa.Value{{cd.X, cd.Y}, {cd.Y, cd.X}} {
				x := ssax.Resolve(pr[0])
				// value == nil
				if ssax.ResultOf(x, rd, 0) && ssax.IsNilConst(ssax.Resolve(pr[1])) {
					if e, ok := cd.EdgeWhere(token.EQL); ok {
						out = append(out, e)
					}
				}
				// len(value) == 0 / > 0 / < 1
				if call, ok := x.(*ssa.Call); ok {
					if b, ok := call.Common().Value.(*ssa.Builtin); ok && b.Name() == "len" && ssax.ResultOf(call.Common().Args[0], rd, 0) {
						if k, ok := ssax.ConstInt(pr[1]); ok && pr[0] == cd.X {
							switch {
							case k == 0 && cd.Op == token.EQL:
								out = append(out, ssax.Edge{From: cd.If.Block(), Succ: 0})
							case k == 0 && (cd.Op == token.NEQ || cd.Op == token.GTR):
								out = append(out, ssax.Edge{From: cd.If.Block(), Succ: 1})
							case k == 1 && cd.Op == token.LSS:
								out = append(out, ssax.Edge{From: cd.If.Block(), Succ: 0})
							case k == 1 && cd.Op == token.GEQ:
								out = append(out, ssax.Edge{From: cd.If.Block(), Succ: 1})
							}
						}
					}
				}
			}
		}
	}
	return out
}

func c13Constructors(c *Ctx) {
	r := c.R
	roots := []*ssa.Function{c.Fn("C13/R1", "client/services", "", "CreateServiceProviderWithCfg"), c.Fn("C13/R1", pkgNode, "", "NewNode")}
	cg := c.P.CallGraph()
	reach := map[*ssa.Function]bool{}
	var walk func(f *ssa.Function)
	walk = func(f *ssa.Function) {
		if f == nil || reach[f] || !load.InModule(f) {
			return
		}
		reach[f] = true
		if n := cg.Nodes[f]; n != nil {
			for _, e := range n.Out {
				walk(e.Callee.Func)
			}
		}
	}
	for _, rt := range roots {
		walk(rt)
	}
	r.Count("startup_reachable_functions", len(reach))
	var fns []*ssa.Function
	for f := range reach {
		if c.isTestFunc(f) || strings.Contains(load.FuncName(f), "mocks/") {
			continue
		}
		fns = append(fns, f)
	}
	sort.Slice(fns, func(i, j int) bool { return load.FuncName(fns[i]) < load.FuncName(fns[j]) })
	nw := 0
	for _, f := range fns {
		writes := ssax.Calls(f, false, isStoreWrite)
		if len(writes) == 0 {
			continue
		}
		// Set/SaveOffset methods of the state module are the write primitives themselves
		if strings.Contains(load.FuncName(f), "client/modules/state.LevelDBState).") && !strings.HasSuffix(load.FuncName(f), "NewLevelDBState") {
			continue
		}
		abs := absentEdges(f)
		for i, w := range writes {
			nw++
			key := sprintf("%s:write#%d(%s)", shortFn(f), i+1, lastSeg(callName(w)))
			if len(abs) > 0 && !ssax.ReachableAvoiding(f, w, abs, nil) {
				r.OKd("C13/R1", key, "start-up write happens only when the key was found absent", c.PosOf(w), "")
				continue
			}
			// lift one level: every call site of f (within start-up code) must itself be conditional on absence
			lifted := false
			if n := cg.Nodes[f]; n != nil && len(n.In) > 0 {
				lifted = true
				for _, e := range n.In {
					if !c.P.AllFuncs()[e.Caller.Func] {
						continue // a helper that was expanded into all its callers (or a function outside the census)
					}
					caller := e.Caller.Func
					if !reach[caller] {
						continue
					}
					ca := absentEdges(caller)
					if len(ca) == 0 || e.Site == nil || ssax.ReachableAvoiding(caller, e.Site, ca, nil) {
						lifted = false
					}
				}
			}
			r.Check(lifted, "C13/R1", key, "start-up write happens only when the key was found absent", c.PosOf(w),
				"this write runs on every start of the node (no preceding read of the store whose 'absent' edge guards it, neither here nor at the call sites): a restart resets durable data")
		}
	}
	if nw < 3 {
		r.Unknown("C13/R1", "startup:write-census", "constructor writes are visible", "", sprintf("only %d writes found in start-up code", nw))
	}
}

func shortFn(f *ssa.Function) string {
	n := load.FuncName(f)
	n = strings.ReplaceAll(n, "client/", "")
	return n
}

func lastSeg(s string) string {
	if i := strings.LastIndex(s, "/"); i >= 0 {
		return s[i+1:]
	}
	return s
}

func c13Poll(c *Ctx) { c13PollAs(c, "C13/R2") }

// c13PollAs: the Poll rules under the given rule id (C13/R2; C08/R5 — a state that is a function of the log needs every
// log entry applied exactly once, in order, whatever crash point).
func c13PollAs(c *Ctx, rule string) {
	r := c.R
	fn := c.Fn(rule, pkgNode, "BaseNodeService", "Poll")
	if fn == nil {
		return
	}
	byName := func(name string) []ssa.CallInstruction {
		return ssax.Calls(fn, false, func(ci ssa.CallInstruction) bool { o := ssax.CalleeObj(ci); return o != nil && o.Name() == name })
	}
	saves, procs, loads, gets := byName("SaveOffset"), byName("ProcessMessage"), byName("LoadOffset"), byName("GetMessages")
	if len(saves) != 1 || len(procs) != 1 || len(loads) != 1 || len(gets) != 1 {
		r.Unknown(rule, "node.Poll:anchors", "Poll loads the offset, fetches, processes and saves", c.Pos(fn.Pos()), sprintf("SaveOffset=%d ProcessMessage=%d LoadOffset=%d GetMessages=%d", len(saves), len(procs), len(loads), len(gets)))
		return
	}
	save, proc, ld, get := saves[0], procs[0], loads[0], gets[0]
	// iteration start: the element load of the fetched slice
	var iter ssa.Instruction
	ssax.Instrs(fn, func(in ssa.Instruction) {
		if ia, ok := in.(*ssa.IndexAddr); ok && ssax.ResultOf(ia.X, get, 0) {
			iter = in
		}
	})
	// skip edge: message.RecipientAddr != username
	var skip []ssax.Edge
	for _, cd := range ssax.Conds(fn) {
		if cd.Op != token.EQL && cd.Op != token.NEQ {
			continue
		}
		a, b := ssax.Path(cd.X), ssax.Path(cd.Y)
		if (strings.HasSuffix(a, ".RecipientAddr") && strings.HasSuffix(b, "GetUsername()")) || (strings.HasSuffix(b, ".RecipientAddr") && strings.HasSuffix(a, "GetUsername()")) {
			if e, ok := cd.EdgeWhere(token.NEQ); ok {
				skip = append(skip, e)
			}
		}
	}
	if iter == nil {
		r.Unknown(rule, "node.Poll:loop", "Poll iterates over the fetched messages", c.Pos(fn.Pos()), "range over GetMessages result not found")
		return
	}
	r.Check(!ssax.ReachableFrom(fn, iter, save, skip, []ssa.Instruction{proc}), rule, "node.Poll:handle<offset", "the offset of a message is saved only after ProcessMessage ran for it (or it was skipped as not addressed to this node)", c.PosOf(save),
		"SaveOffset is reachable from the start of an iteration without passing ProcessMessage: a crash while handling the message skips it for ever after restart")
	// value
	okVal := false
	if b, ok := ssax.Resolve(save.Common().Args[0]).(*ssa.BinOp); ok && b.Op == token.ADD {
		if k, ok := ssax.ConstInt(b.Y); ok && k == 1 && strings.HasSuffix(ssax.Path(b.X), ".Offset") && strings.Contains(ssax.Path(b.X), "GetMessages(") {
			okVal = true
		}
	}
	r.Check(okVal, rule, "node.Poll:offset-value", "the saved offset is message.Offset + 1 of the message just handled", c.PosOf(save), "argument is "+ssax.Path(save.Common().Args[0]))
	r.Check(ssax.ResultOf(get.Common().Args[0], ld, 0), rule, "node.Poll:resume-from-saved", "messages are fetched from the saved offset", c.PosOf(get), "GetMessages argument is "+ssax.Path(get.Common().Args[0]))
	// every message of the batch gets its offset saved: SaveOffset post-dominates the iteration (next iteration start unreachable avoiding save)
	r.Check(!ssax.ReachableFrom(fn, iter, iter, nil, []ssa.Instruction{save}), rule, "node.Poll:offset-every-message", "every iteration saves the offset before the next message is taken", c.PosOf(save), "an iteration can continue to the next message without saving the offset")
}

func c13Order(c *Ctx) {
	r := c.R
	// SaveFSM (inside processMessage) vs PutOperation (in ProcessMessage, after processMessage returned)
	pm := c.Fn("C13/R3", pkgNode, "BaseNodeService", "ProcessMessage")
	inner := c.Fn("C13/R3", pkgNode, "BaseNodeService", "processMessage")
	if pm == nil || inner == nil {
		return
	}
	puts := ssax.Calls(pm, false, func(ci ssa.CallInstruction) bool {
		o := ssax.CalleeObj(ci)
		return o != nil && o.Name() == "PutOperation"
	})
	calls := ssax.CallsTo(pm, load.Module+"/"+pkgNode+".(BaseNodeService).processMessage")
	saves := ssax.Calls(inner, false, func(ci ssa.CallInstruction) bool { o := ssax.CalleeObj(ci); return o != nil && o.Name() == "SaveFSM" })
	if len(puts) != 1 || len(calls) != 1 || len(saves) == 0 {
		r.Unknown("C13/R3", "node.ProcessMessage:anchors", "ProcessMessage = processMessage + PutOperation", c.Pos(pm.Pos()), "anchors not found")
		return
	}
	// the round state is saved inside processMessage, i.e. before PutOperation, and the two are separate writes
	savedInside := false
	for _, s := range saves {
		if _, ok := c.siteReaches(s, isDurableSink); ok {
			savedInside = true
		}
	}
	before := savedInside && ssax.ReachableFrom(pm, calls[0], puts[0], nil, nil)
	r.Check(!before, "C13/R3", "node.ProcessMessage:SaveFSM<PutOperation", "the derived operation is durable no later than the round-state change", c.PosOf(puts[0]),
		"processMessage persists the advanced round (SaveFSM) and only afterwards, in a separate write, ProcessMessage stores the operation derived from the message (PutOperation): a crash or a PutOperation error between the two leaves the round advanced and the operation lost; the re-read message is then rejected by the FSM, so the operation is never offered")
}

func c13Retire(c *Ctx) {
	r := c.R
	fn := c.Fn("C13/R4", pkgNode, "BaseNodeService", "executeOperation")
	if fn != nil {
		byName := func(name string) []ssa.CallInstruction {
			return ssax.Calls(fn, false, func(ci ssa.CallInstruction) bool { o := ssax.CalleeObj(ci); return o != nil && o.Name() == name })
		}
		dels := byName("DeleteOperation")
		if len(dels) != 1 {
			r.Unknown("C13/R4", "node.executeOperation:retire", "one retirement site", c.Pos(fn.Pos()), sprintf("%d DeleteOperation calls", len(dels)))
		} else {
			var effects []ssa.CallInstruction
			effects = append(effects, byName("Send")...)
			effects = append(effects, byName("SaveFSM")...)
			var okEdges []ssax.Edge
			for _, e := range effects {
				okEdges = append(okEdges, ssax.NilErrEdgesOfCall(fn, e)...)
			}
			r.Check(len(okEdges) > 0 && !ssax.ReachableAvoiding(fn, dels[0], okEdges, nil), "C13/R4", "node.executeOperation:post<retire", "an operation is retired only after its result was posted / written back successfully", c.PosOf(dels[0]),
				"DeleteOperation is reachable without a successful Send/SaveFSM: a crash or error loses the answer while the operation is gone")
			// nothing that changes what the operation pool offers is durable BEFORE the answer is on the board: an operation
			// marked/hidden first and posted second is lost by a kill between the two (at-most-once). The only calls of
			// the operation service in front of Send are reads.
			for _, sd := range byName("Send") {
				var early []string
				for _, call := range ssax.Calls(fn, false, func(ci ssa.CallInstruction) bool {
					return strings.Contains(ssax.Path(ci.Common().Value), "opService") || strings.Contains(ssax.FuncID(ssax.CalleeObj(ci)), "services/operation.")
				}) {
					o := ssax.CalleeObj(call)
					if o == nil || strings.HasPrefix(o.Name(), "Get") {
						continue
					}
					if ci := call.(ssa.Instruction); ssax.ReachableFrom(fn, ci, sd.(ssa.Instruction), nil, nil) {
						early = append(early, o.Name()+" at "+c.PosOf(ci))
					}
				}
				sort.Strings(early)
				r.Check(len(early) == 0, "C13/R4", "node.executeOperation:pool-unchanged-before-post", "the operation pool is not written before the answer is posted", c.PosOf(sd.(ssa.Instruction)),
					"operation-service writes in front of Send: "+strings.Join(early, ", ")+" — a kill after that write and before the post leaves an operation that is no longer offered although its answer never reached the board")
			}
			for i, e := range effects {
				eo := ssax.NilErrEdgesOfCall(fn, e)
				r.Check(len(eo) > 0 && !ssax.ReachableFrom(fn, e, dels[0], eo, nil), "C13/R4", sprintf("node.executeOperation:%s#%d:failure-keeps-operation", ssax.CalleeObj(e).Name(), i+1), "a failed post keeps the operation pending", c.PosOf(e), "DeleteOperation reachable after a failed post")
			}
		}
	}
	// R5: reuse the repository rules
	save := c.R
	_ = save
	c15RepoRules(c, "C13/R5")
}
