package rules

import (
	"go/token"
	"sort"
	"strings"

	"dcverif/internal/fsmx"
	"dcverif/internal/load"
	"dcverif/internal/ssax"

	"golang.org/x/tools/go/ssa"
)

func init() { Registry["C11"] = C11 }

// C11 — a dealer whose private deal contradicts its public commitments is caught.
func C11(c *Ctx) {
	r := c.R
	r.Explain = "Decided statically: (R1) in dkg.ProcessDeals a response is produced only past the success of kyber's ProcessDeal, of processDealCommits, and of `resp.Response.Status && commitsOK`; processDealCommits returns true only past length equality and an element-wise Equal loop over all commitments against the dealer's broadcast commits, which only StoreCommits writes; " +
		"(R2) in the responses handler a deal that cannot be decrypted or parsed makes the handler return an error, and the only skipped entry is the machine's own; (R3) GetOperationResult turns every handler error into the phase's error request: the error map has an entry for every DKG phase whose event is accepted in that phase's await state and leads to a cancelled state, and a handler produces either its contribution or an error, never both; " +
		"(R4) the four DKG error events lead from the await state to *_canceled_by_error, which is absorbing (C05/R3); (R5) the key share is saved only past ProcessResponses/Certified. " +
		"NOT decided: kyber's VSS verification, ECIES, complaint semantics."
	r.Trusted = []string{"corestario/kyber pedersen DKG/VSS (ProcessDeal, DecryptDeal, Certified)", "go/ssa", "FSM engine model (C05/E)"}
	r.Rule("C11/R1", "commitment comparison is on the only success path of ProcessDeals", 8)
	r.Rule("C11/R2", "undecipherable/malformed deals are refused; only the own entry is skipped", 3)
	r.Rule("C11/R3", "handler errors become the phase's error event; contribution xor error", 12)
	r.Rule("C11/R4", "error events cancel the round on every node", 8)
	r.Rule("C11/R5", "no share is stored for a refused round", 3)
	c11ProcessDeals(c)
	c11Handler(c)
	c11ErrorMap(c)
	c11SaveShare(c, "C11/R5")
}

func c11ProcessDeals(c *Ctx) {
	r := c.R
	fn := c.Fn("C11/R1", "dkg", "DKG", "ProcessDeals")
	if fn == nil {
		return
	}
	pds := ssax.Calls(fn, false, func(ci ssa.CallInstruction) bool {
		o := ssax.CalleeObj(ci)
		return o != nil && o.Name() == "ProcessDeal"
	})
	pcs := ssax.CallsTo(fn, load.Module+"/dkg.(DKG).processDealCommits")
	var apps []ssa.Instruction
	ssax.Instrs(fn, func(in ssa.Instruction) {
		if call, ok := in.(*ssa.Call); ok {
			if b, isB := call.Common().Value.(*ssa.Builtin); isB && b.Name() == "append" {
				// the append of a response (an append of deals — collecting them to process them in a fixed order — is
				// not what is judged here)
				if strings.Contains(call.Type().String(), "Response") {
					apps = append(apps, in)
				}
			}
		}
	})
	if len(pds) != 1 || len(pcs) != 1 || len(apps) != 1 {
		r.Unknown("C11/R1", "dkg.ProcessDeals:shape", "one ProcessDeal, one processDealCommits, one append of a response", c.Pos(fn.Pos()), sprintf("ProcessDeal=%d processDealCommits=%d append=%d", len(pds), len(pcs), len(apps)))
		return
	}
	pd, pc, app := pds[0], pcs[0], apps[0]
	pdOK, pcOK := ssax.NilErrEdgesOfCall(fn, pd), ssax.NilErrEdgesOfCall(fn, pc)
	r.Check(len(pdOK) > 0 && !ssax.ReachableAvoiding(fn, app, pdOK, nil), "C11/R1", "dkg.ProcessDeals:response<=ProcessDeal-ok", "a response is produced only if kyber accepted the deal", c.PosOf(app), "append reachable after a ProcessDeal error")
	r.Check(len(pcOK) > 0 && !ssax.ReachableAvoiding(fn, app, pcOK, nil), "C11/R1", "dkg.ProcessDeals:response<=commit-check-ran", "a response is produced only if the commitment comparison ran without error", c.PosOf(app), "append reachable after a processDealCommits error")
	commitsTrue := ssax.BoolEdgesOfCall(fn, pc, 0, true)
	r.Check(len(commitsTrue) > 0 && !ssax.ReachableAvoiding(fn, app, commitsTrue, nil), "C11/R1", "dkg.ProcessDeals:response<=commits-equal", "a response is produced only if the deal's commitments equal the broadcast ones", c.PosOf(app),
		"append reachable although processDealCommits reported a mismatch: a deal from a different polynomial would be answered with an approval")
	// Response.Status true
	var statusTrue []ssax.Edge
	for _, cd := range ssax.Conds(fn) {
		if cd.Op == token.ILLEGAL && strings.HasSuffix(ssax.Path(cd.X), ".Response.Status") {
			if e, ok := cd.BoolEdge(true); ok {
				statusTrue = append(statusTrue, e)
			}
		}
	}
	r.Check(len(statusTrue) > 0 && !ssax.ReachableAvoiding(fn, app, statusTrue, nil), "C11/R1", "dkg.ProcessDeals:response<=status-approved", "a complaint (Status == false) is never forwarded as a response: the handler fails instead", c.PosOf(app), "append reachable with Response.Status == false")
	// the response appended is ProcessDeal's
	r.Check(strings.Contains(ssax.Path(app.(*ssa.Call).Common().Args[1]), "ProcessDeal("), "C11/R1", "dkg.ProcessDeals:response-value", "the response forwarded is the one kyber produced for this deal", c.PosOf(app), "appended value is "+ssax.Path(app.(*ssa.Call).Common().Args[1]))
	// only own deal skipped
	var extra []string
	// the loop in which ProcessDeal is called: a map range (its Next) or an index loop over the collected deals (its
	// bound test)
	var iter ssa.Instruction
	ssax.Instrs(fn, func(in ssa.Instruction) {
		if n, ok := in.(*ssa.Next); ok && ssax.ReachableFrom(fn, n, pd.(ssa.Instruction), nil, nil) && ssax.ReachableFrom(fn, pd.(ssa.Instruction), n, nil, nil) {
			iter = n
		}
	})
	if iter == nil {
		for _, cd := range ssax.Conds(fn) {
			if cd.Op == token.LSS && lenArg(cd.Y) != nil && ssax.ReachableFrom(fn, cd.If, pd.(ssa.Instruction), nil, nil) && ssax.ReachableFrom(fn, pd.(ssa.Instruction), cd.If, nil, nil) {
				// the deals iterated are all the stored deals: the slice is filled from a range over d.deals
				la := lenArg(cd.Y)
				fed := strings.Contains(ssax.Path(la), "range(d.deals)")
				// (the slice may live in a local captured by sort.Slice's less function)
				if ld, isLd := la.(*ssa.UnOp); isLd && !fed {
					if al, isAl := ld.X.(*ssa.Alloc); isAl && al.Referrers() != nil {
						for _, ref := range *al.Referrers() {
							if st, isSt := ref.(*ssa.Store); isSt && st.Addr == ssa.Value(al) && strings.Contains(ssax.Path(st.Val), "range(d.deals)") {
								fed = true
							}
						}
					}
				}
				if fed {
					iter = cd.If
				}
			}
		}
	}
	if iter != nil {
		for _, cd := range ssax.CondsBetween(fn, iter, pd) {
			p := ssax.Path(cd.X)
			if cd.Op == token.ILLEGAL && strings.HasPrefix(p, "next(range(") {
				continue
			}
			if cd.If == iter {
				continue
			}
			if cd.Op == token.EQL || cd.Op == token.NEQ {
				// the own-deal test, operands in either order
				q := ssax.Path(cd.Y)
				if (strings.HasSuffix(p, ".Index") && strings.Contains(q, "d.ParticipantID")) || (strings.HasSuffix(q, ".Index") && strings.Contains(p, "d.ParticipantID")) {
					continue
				}
			}
			extra = append(extra, p+" at "+c.PosOf(cd.If))
		}
	}
	r.Check(iter != nil && len(extra) == 0, "C11/R1", "dkg.ProcessDeals:every-foreign-deal", "every stored deal except the machine's own is processed", c.PosOf(pd), "additional skip conditions: "+strings.Join(extra, "; "))

	// processDealCommits
	pf := c.Fn("C11/R1", "dkg", "DKG", "processDealCommits")
	if pf == nil {
		return
	}
	var trueRets []*ssa.Return
	for _, ret := range ssax.Returns(pf) {
		if len(ret.Results) == 2 {
			if k, ok := ssax.ConstOf(ret.Results[0]); ok && k.String() == "true" {
				trueRets = append(trueRets, ret)
			}
		}
	}
	if len(trueRets) == 0 {
		r.Fail("C11/R1", "dkg.processDealCommits:accepts", "the comparison can succeed", c.Pos(pf.Pos()), "no `return true`")
		return
	}
	var lenEq []ssax.Edge
	for _, cd := range ssax.Conds(pf) {
		if (cd.Op == token.EQL || cd.Op == token.NEQ) && cd.Y != nil && strings.HasPrefix(ssax.Path(cd.X), "len(") && strings.HasPrefix(ssax.Path(cd.Y), "len(") {
			both := ssax.Path(cd.X) + ssax.Path(cd.Y)
			if strings.Contains(both, ".Commitments") && strings.Contains(both, "d.commits[") {
				e, _ := cd.EdgeWhere(token.EQL)
				lenEq = append(lenEq, e)
			}
		}
	}
	eqCalls := ssax.Calls(pf, false, func(ci ssa.CallInstruction) bool {
		o := ssax.CalleeObj(ci)
		return o != nil && o.Name() == "Equal" && ci.Common().IsInvoke()
	})
	for i, ret := range trueRets {
		r.Check(len(lenEq) > 0 && !ssax.ReachableAvoiding(pf, ret, lenEq, nil), "C11/R1", sprintf("dkg.processDealCommits:length-equal#%d", i+1), "`true` only if the deal carries as many commitments as were broadcast", c.PosOf(ret), "return true reachable without the length comparison")
		ok := len(eqCalls) == 1
		if ok {
			eq := eqCalls[0]
			ops := ssax.Path(eq.Common().Value) + " vs " + ssax.Path(eq.Common().Args[0])
			if !(strings.Contains(ops, "d.commits[") && strings.Contains(ops, ".Commitments[")) {
				ok = false
			}
			// from the not-equal edge `true` is unreachable
			for _, e := range ssax.BoolEdgesOfCall(pf, eq, -1, false) {
				first := e.From.Succs[e.Succ].Instrs[0]
				if first == ssa.Instruction(ret) || ssax.ReachableFrom(pf, first, ret, nil, nil) {
					ok = false
				}
			}
			// `true` is reached only by leaving the comparison loop through its bound test (all elements compared)
			var loopExit []ssax.Edge
			for _, cd := range ssax.Conds(pf) {
				if cd.Op == token.LSS && strings.HasPrefix(ssax.Path(cd.Y), "len(") {
					if ssax.ReachableFrom(pf, cd.If, eq, nil, nil) && ssax.ReachableFrom(pf, eq, cd.If, nil, nil) {
						loopExit = append(loopExit, ssax.Edge{From: cd.If.Block(), Succ: 1})
					}
				}
			}
			if len(loopExit) == 0 || ssax.ReachableAvoiding(pf, ret, loopExit, nil) {
				ok = false
			}
		}
		r.Check(ok, "C11/R1", sprintf("dkg.processDealCommits:all-equal#%d", i+1), "`true` only after every broadcast commitment was compared equal to the deal's", c.PosOf(ret), "element-wise Equal loop over d.commits[dealer] vs deal.Commitments not recognised as dominating `return true`")
	}
	// the dealer whose commits are compared is the deal's sender
	look := false
	ssax.Instrs(pf, func(in ssa.Instruction) {
		if lk, ok := in.(*ssa.Lookup); ok && strings.HasSuffix(ssax.Path(lk.X), "d.commits") && strings.Contains(ssax.Path(lk.Index), "GetParticipantByIndex(conv<int>(deal.Index))") {
			look = true
		}
	})
	r.Check(look, "C11/R1", "dkg.processDealCommits:dealer", "the broadcast commitments used are those of the deal's own dealer (deal.Index)", c.Pos(pf.Pos()), "lookup d.commits[GetParticipantByIndex(deal.Index)] not found")
	// writers of d.commits
	var writers []string
	for f := range c.P.AllFuncs() {
		if f.Pkg == nil || f.Pkg != c.P.SSAPkg("dkg") || c.isTestFunc(f) {
			continue
		}
		ssax.Instrs(f, func(in ssa.Instruction) {
			if mu, ok := in.(*ssa.MapUpdate); ok && strings.HasSuffix(ssax.Path(mu.Map), ".commits") {
				writers = append(writers, f.Name())
			}
		})
	}
	sort.Strings(writers)
	r.Check(strings.Join(writers, ",") == "StoreCommits", "C11/R1", "dkg.DKG.commits:writers", "broadcast commitments are recorded only by StoreCommits", "", "writers: "+strings.Join(writers, ","))
}

func c11Handler(c *Ctx) {
	r := c.R
	fn := c.Fn("C11/R2", "airgapped", "Machine", "handleStateDkgResponsesAwaitConfirmations")
	if fn == nil {
		return
	}
	// (decryptDataFromParticipant is expanded into the handler — load.flatten)
	decs := ssax.CallsTo(fn, "github.com/corestario/kyber/encrypt/ecies.Decrypt")
	stores := ssax.Calls(fn, false, func(ci ssa.CallInstruction) bool { o := ssax.CalleeObj(ci); return o != nil && o.Name() == "StoreDeal" })
	procs := ssax.Calls(fn, false, func(ci ssa.CallInstruction) bool {
		o := ssax.CalleeObj(ci)
		return o != nil && o.Name() == "ProcessDeals"
	})
	if len(decs) != 1 || len(stores) != 1 || len(procs) != 1 {
		r.Unknown("C11/R2", "airgapped.handleStateDkgResponsesAwaitConfirmations:shape", "decrypt, StoreDeal, ProcessDeals", c.Pos(fn.Pos()), sprintf("decrypt=%d StoreDeal=%d ProcessDeals=%d", len(decs), len(stores), len(procs)))
		return
	}
	dec, st, proc := decs[0], stores[0], procs[0]
	decOK := ssax.NilErrEdgesOfCall(fn, dec)
	r.Check(len(decOK) > 0 && !ssax.ReachableAvoiding(fn, st, decOK, nil), "C11/R2", "airgapped.responses-handler:decrypt-checked", "a deal that cannot be decrypted with this machine's key is not stored", c.PosOf(dec), "StoreDeal reachable after a decrypt error")
	// decrypt failure must end the handler with an error (not continue)
	refuse := len(decOK) > 0
	for _, e := range decOK {
		other := e.From.Succs[1-e.Succ]
		if other.Instrs[0] == ssa.Instruction(proc.(*ssa.Call)) || ssax.ReachableFrom(fn, other.Instrs[0], proc, nil, nil) {
			refuse = false
		}
	}
	r.Check(refuse, "C11/R2", "airgapped.responses-handler:decrypt-error-refuses", "an undecipherable deal makes the whole step fail (error result), it is not skipped", c.PosOf(dec), "after a decrypt error the handler continues to ProcessDeals")
	ums := ssax.Calls(fn, false, func(ci ssa.CallInstruction) bool {
		return ssax.FuncID(ssax.CalleeObj(ci)) == "encoding/json.Unmarshal" && ssax.ReachableFrom(fn, dec, ci, nil, nil)
	})
	okU := len(ums) >= 1
	for _, u := range ums {
		ne := ssax.NilErrEdgesOfCall(fn, u)
		if len(ne) == 0 || ssax.ReachableFrom(fn, dec, st, ne, nil) && false {
			okU = false
		}
		for _, e := range ne {
			other := e.From.Succs[1-e.Succ]
			if ssax.ReachableFrom(fn, other.Instrs[0], proc, nil, nil) {
				okU = false
			}
		}
	}
	r.Check(okU, "C11/R2", "airgapped.responses-handler:malformed-refuses", "a decrypted deal that does not parse makes the step fail", c.PosOf(dec), "after an unmarshal error the handler continues")
	// only own entry skipped
	var iter ssa.Instruction
	ssax.Instrs(fn, func(in ssa.Instruction) {
		if ia, ok := in.(*ssa.IndexAddr); ok && strings.HasSuffix(ssax.Path(ia.X), "json(o.Payload)") {
			iter = in
		}
	})
	var extra []string
	if iter != nil {
		for _, cd := range ssax.CondsBetween(fn, iter, dec) {
			p := ssax.Path(cd.X)
			if cd.Op == token.LSS && strings.HasPrefix(ssax.Path(cd.Y), "len(") && strings.Contains(p, "phi(") {
				continue // range loop bound
			}
			if cd.Op == token.GTR && strings.HasPrefix(p, "len(") && strings.Contains(ssax.Path(cd.Y), "phi(") {
				continue // the same bound written `len(xs) > i`
			}
			if cd.Op == token.EQL || cd.Op == token.NEQ {
				q := ssax.Path(cd.Y)
				if (strings.HasSuffix(p, ".ParticipantId") && strings.HasSuffix(q, ".ParticipantID")) || (strings.HasSuffix(q, ".ParticipantId") && strings.HasSuffix(p, ".ParticipantID")) {
					continue
				}
			}
			// a condition whose other branch ends the handler (rejects the operation) does not skip anything: only a branch
			// that goes on to the next entry without decrypting this one does
			skips := false
			for si := 0; si < 2; si++ {
				first := cd.If.Block().Succs[si].Instrs[0]
				if first != ssa.Instruction(dec) && !ssax.ReachableFrom(fn, first, dec.(ssa.Instruction), nil, []ssa.Instruction{iter}) &&
					(first == iter || ssax.ReachableFrom(fn, first, iter, nil, []ssa.Instruction{dec.(ssa.Instruction)})) {
					skips = true
				}
			}
			if !skips {
				continue
			}
			extra = append(extra, p+" at "+c.PosOf(cd.If))
		}
	}
	r.Check(iter != nil && len(extra) == 0, "C11/R2", "airgapped.responses-handler:only-own-skipped", "every received deal except the machine's own self-confirmation is decrypted and checked", c.PosOf(dec), "additional skip conditions: "+strings.Join(extra, "; "))
}

func c11ErrorMap(c *Ctx) {
	r := c.R
	ms := c.Machines("C11/R3")
	if len(ms) != 3 {
		return
	}
	gor := c.Fn("C11/R3", "airgapped", "Machine", "GetOperationResult")
	wer := c.Fn("C11/R3", "airgapped", "Machine", "writeErrorRequestToOperation")
	if gor == nil || wer == nil {
		return
	}
	// every handler error reaches writeErrorRequestToOperation: the success return is reachable on the error edge only through it
	wcalls := ssax.CallsTo(gor, load.Module+"/airgapped.(Machine).writeErrorRequestToOperation")
	r.Check(len(wcalls) == 1, "C11/R3", "airgapped.GetOperationResult:converts-errors", "handler errors are written into the operation as an error request", c.Pos(gor.Pos()), sprintf("%d calls to writeErrorRequestToOperation", len(wcalls)))
	if len(wcalls) == 1 {
		// err != nil edge: cond on phi of handler results
		var errEdges []ssax.Edge
		for _, cd := range ssax.Conds(gor) {
			if (cd.Op == token.NEQ || cd.Op == token.EQL) && ssax.IsNilConst(ssax.Resolve(cd.Y)) {
				// (the merged error of the handlers — not a nil test of a handler function value chosen by a lookup helper)
				if _, isPhi := ssax.Resolve(cd.X).(*ssa.Phi); isPhi && cd.X.Type().String() == "error" {
					if e, ok := cd.EdgeWhere(token.NEQ); ok {
						errEdges = append(errEdges, e)
					}
				}
			}
		}
		okc := len(errEdges) == 1
		if okc {
			// on the error edge every return passes through the conversion call
			first := errEdges[0].From.Succs[errEdges[0].Succ].Instrs[0]
			for _, ret := range ssax.Returns(gor) {
				if ssax.ReachableFrom(gor, first, ret, nil, []ssa.Instruction{wcalls[0]}) {
					okc = false
				}
			}
		}
		r.Check(okc, "C11/R3", "airgapped.GetOperationResult:error-path", "on a handler error no result is returned without the error request having been written", c.PosOf(wcalls[0]), "a return is reachable on the error path that bypasses writeErrorRequestToOperation")
	}
	// handled operation types of the dispatch switch
	var handled []string
	for _, cd := range ssax.Conds(gor) {
		if cd.Op != token.EQL && cd.Op != token.NEQ {
			continue
		}
		if s, ok := ssax.ConstString(cd.Y); ok && strings.HasSuffix(ssax.Path(cd.X), "operation.Type") {
			handled = append(handled, s)
		}
	}
	// … or of a dispatch table keyed by the operation's type (local literal or package-level map)
	ssax.Instrs(gor, func(in ssa.Instruction) {
		lk, ok := in.(*ssa.Lookup)
		if !ok || !strings.Contains(ssax.Path(lk.Index), "operation.Type") {
			return
		}
		if mm, ok := ssax.Resolve(lk.X).(*ssa.MakeMap); ok {
			ssax.Instrs(gor, func(in2 ssa.Instruction) {
				if mu, ok := in2.(*ssa.MapUpdate); ok && ssax.Resolve(mu.Map) == ssa.Value(mm) {
					if k, ok := ssax.ConstString(mu.Key); ok {
						handled = append(handled, k)
					}
				}
			})
		} else if tf, ok := ssax.AsTableField(lk); ok {
			if _, vals, ok := ssax.TableEntries(tf.Global); ok {
				for k := range vals {
					handled = append(handled, k)
				}
			}
		}
	})
	// the map literal
	emap := map[string]string{}
	collect := func(fn *ssa.Function, only ssa.Value) {
		ssax.Instrs(fn, func(in ssa.Instruction) {
			if mu, ok := in.(*ssa.MapUpdate); ok && (only == nil || ssax.Resolve(mu.Map) == only) {
				k, ok1 := ssax.ConstString(mu.Key)
				v, ok2 := ssax.ConstString(mu.Value)
				if ok1 && ok2 {
					emap[k] = v
				}
			}
		})
	}
	collect(wer, nil)
	if len(emap) == 0 {
		// the table may live in a package-level variable initialised by a literal: the map consulted with the
		// operation's type is a global whose only writer is the package initialiser
		var glob *ssa.Global
		ssax.Instrs(wer, func(in ssa.Instruction) {
			if lk, ok := in.(*ssa.Lookup); ok && strings.HasSuffix(ssax.Path(lk.Index), "o.Type)") || ok && strings.HasSuffix(ssax.Path(lk.Index), "o.Type") {
				if ld, ok := lk.X.(*ssa.UnOp); ok {
					if g, ok := ld.X.(*ssa.Global); ok {
						glob = g
					}
				}
			}
		})
		if glob != nil && wer.Pkg != nil {
			written := false
			for f := range c.P.AllFuncs() {
				if !load.InModule(f) || c.isTestFunc(f) {
					continue
				}
				isInit := f == wer.Pkg.Func("init")
				ssax.Instrs(f, func(in ssa.Instruction) {
					switch x := in.(type) {
					case *ssa.Store:
						if x.Addr == ssa.Value(glob) {
							if mm, ok := ssax.Resolve(x.Val).(*ssa.MakeMap); ok && isInit {
								collect(f, mm)
							} else {
								written = true
							}
						}
					case *ssa.MapUpdate:
						if !isInit && strings.HasSuffix(ssax.Path(x.Map), "global:"+glob.Pkg.Pkg.Name()+"."+glob.Name()) {
							written = true
						}
					}
				})
			}
			if written {
				r.Fail("C11/R3", "airgapped.writeErrorRequestToOperation:map:read-only", "the package-level error map is written only by its initialiser", c.Pos(glob.Pos()), "the map "+glob.Name()+" is modified outside the package initialiser")
			}
		}
	}
	if len(emap) < 5 {
		r.Unknown("C11/R3", "airgapped.writeErrorRequestToOperation:map", "error map is a literal of constants", c.Pos(wer.Pos()), sprintf("%d constant entries", len(emap)))
		return
	}
	sort.Strings(handled)
	find := func(ev string) (*fsmx.Machine, *fsmx.Event) {
		for _, m := range ms {
			if e := m.ByName[ev]; e != nil {
				return m, e
			}
		}
		return nil, nil
	}
	for _, st := range handled {
		if st == "reinit_dkg" {
			r.Note("C11/R3 observation: operation type reinit_dkg has no entry in eventToErrorMap (a failing reinit yields an empty error event); outside this property")
			continue
		}
		ev, ok := emap[st]
		if !ok {
			r.Fail("C11/R3", "airgapped.eventToErrorMap:"+st, "every handled operation type has an error event", c.Pos(wer.Pos()), "no entry for "+st+": a handler error would be posted with an empty event and ignored by every node")
			continue
		}
		m, e := find(ev)
		if e == nil {
			r.Fail("C11/R3", "airgapped.eventToErrorMap:"+st, "the error event exists in an FSM table", c.Pos(wer.Pos()), "event "+ev+" is not declared")
			continue
		}
		accepted := false
		for _, s := range e.Src {
			if s == st {
				accepted = true
			}
		}
		isDKG := m.Pkg == pkgDPF
		okDst := !isDKG || (isCancelState(e.Dst) && strings.HasSuffix(e.Dst, "_error"))
		r.Check(accepted && !e.Internal && okDst, "C11/R3", "airgapped.eventToErrorMap:"+st, "the phase's error event is accepted in that phase's await state"+map[bool]string{true: " and cancels the round", false: ""}[isDKG], c.Pos(wer.Pos()),
			sprintf("state %s -> event %s: accepted-in-state=%v internal=%v destination=%s", st, ev, accepted, e.Internal, e.Dst))
		if isDKG {
			// R4: absorbing
			g := buildGraph(ms)
			reach := g.reach(e.Dst, nil)
			var bad []string
			for t := range reach {
				if strings.Contains(t, "await_confirmations") || t == stSigningIdle || strings.HasSuffix(t, "_collected") {
					bad = append(bad, t)
				}
			}
			sort.Strings(bad)
			r.Check(len(bad) == 0, "C11/R4", "fsm:"+ev+"->"+e.Dst+":absorbing", "after the error event the round can never continue or become signing-ready", "", "from "+e.Dst+" reachable: "+strings.Join(bad, ","))
			// the callback records the error status for the sender (C05/R5 covers gating); here: a callback exists
			r.Check(m.Callbacks[ev] != nil, "C11/R4", "fsm:"+ev+":callback", "the error event records the reporting participant's error", "", "no callback registered")
		}
	}
	// the error request carries the machine's own participant id and the handler error
	pidOK, errOK := false, false
	ssax.Instrs(wer, func(in ssa.Instruction) {
		if st, ok := in.(*ssa.Store); ok {
			p := ssax.Path(st.Addr)
			if strings.HasSuffix(p, ".ParticipantId") && strings.Contains(ssax.Path(st.Val), "getParticipantID(o.DKGIdentifier)") {
				pidOK = true
			}
			if strings.HasSuffix(p, ".Error") && strings.Contains(ssax.Path(st.Val), "NewFSMError(handlerError)") {
				errOK = true
			}
		}
	})
	r.Check(pidOK && errOK, "C11/R3", "airgapped.writeErrorRequestToOperation:request", "the error request names this machine's participant and carries the handler error", c.Pos(wer.Pos()), sprintf("participant-id-from-own-instance=%v error-from-handler=%v", pidOK, errOK))
	// the error conversion needs the round's instance (participant id) after the handler returned: nothing may remove it
	var dels []string
	if sp := c.P.SSAPkg("airgapped"); sp != nil {
		for f := range c.P.AllFuncs() {
			if f.Pkg != sp || c.isTestFunc(f) {
				continue
			}
			ssax.Instrs(f, func(in ssa.Instruction) {
				if call, ok := in.(*ssa.Call); ok {
					if b, isB := call.Common().Value.(*ssa.Builtin); isB && b.Name() == "delete" && strings.HasSuffix(ssax.Path(call.Common().Args[0]), ".dkgInstances") {
						dels = append(dels, f.Name()+" at "+c.PosOf(in))
					}
				}
			})
		}
	}
	sort.Strings(dels)
	r.Check(len(dels) == 0, "C11/R3", "airgapped.Machine.dkgInstances:never-removed", "a round's DKG instance stays registered, so a handler error can always be reported under this machine's participant id", "",
		"dkgInstances entries are deleted in "+strings.Join(dels, "; ")+": writeErrorRequestToOperation's getParticipantID then fails and the refusal is a fatal error without any error event — the round hangs instead of being cancelled")
	// contribution xor error: after the (last) success message was appended no error return is possible
	for _, h := range []string{"handleStateDkgCommitsAwaitConfirmations", "handleStateDkgDealsAwaitConfirmations", "handleStateDkgResponsesAwaitConfirmations", "handleStateDkgMasterKeyAwaitConfirmations", "handleStateSigningAwaitPartialSigns"} {
		hf := c.Fn("C11/R3", "airgapped", "Machine", h)
		if hf == nil {
			continue
		}
		var appends []ssa.Instruction
		ssax.Instrs(hf, func(in ssa.Instruction) {
			if st, ok := in.(*ssa.Store); ok && strings.HasSuffix(ssax.Path(st.Addr), ".ResultMsgs") {
				appends = append(appends, in)
			}
		})
		if len(appends) == 0 {
			r.Unknown("C11/R3", "airgapped."+h+":result", "handler appends its contribution to ResultMsgs", c.Pos(hf.Pos()), "no store to ResultMsgs")
			continue
		}
		last := appends[len(appends)-1]
		// choose the append from which no other append is reachable
		for _, a := range appends {
			later := false
			for _, b := range appends {
				if a != b && ssax.ReachableFrom(hf, a, b, nil, nil) && !ssax.ReachableFrom(hf, b, a, nil, nil) {
					later = true
				}
			}
			if !later {
				last = a
			}
		}
		bad := ""
		for _, ret := range ssax.Returns(hf) {
			if len(ret.Results) != 1 {
				continue
			}
			// a merged result (`return helper(...)` expanded in place) is judged per alternative, at the point where
			// that alternative is chosen
			for _, lf := range ssax.Leaves(ret.Results[0], ret) {
				if ssax.IsNilConst(lf.V) {
					continue
				}
				if lf.At == last || ssax.ReachableFrom(hf, last, lf.At, nil, nil) {
					bad = c.PosOf(ret)
				}
			}
		}
		r.Check(bad == "", "C11/R3", "airgapped."+h+":contribution-xor-error", "once the contribution is in the result no failure can follow (a result carries the contribution or the error, never both)", c.PosOf(last),
			"an error return at "+bad+" is reachable after the contribution was appended: GetOperationResult would add the error request behind it and the node would post both; the FSMs accept the contribution and then reject the error")
	}
}

// c11SaveShare: saveBLSKeyring only past ProcessResponses and GetBLSKeyring success; GetBLSKeyring only past Certified().
func c11SaveShare(c *Ctx, rule string) {
	r := c.R
	fn := c.Fn(rule, "airgapped", "Machine", "handleStateDkgMasterKeyAwaitConfirmations")
	if fn != nil {
		saves := ssax.CallsTo(fn, load.Module+"/airgapped.(Machine).saveBLSKeyring")
		prs := ssax.Calls(fn, false, func(ci ssa.CallInstruction) bool {
			o := ssax.CalleeObj(ci)
			return o != nil && o.Name() == "ProcessResponses"
		})
		gks := ssax.Calls(fn, false, func(ci ssa.CallInstruction) bool {
			o := ssax.CalleeObj(ci)
			return o != nil && o.Name() == "GetBLSKeyring"
		})
		if len(saves) != 1 || len(prs) != 1 || len(gks) != 1 {
			r.Unknown(rule, "airgapped.master-key-handler:shape", "ProcessResponses, GetBLSKeyring, saveBLSKeyring", c.Pos(fn.Pos()), sprintf("save=%d ProcessResponses=%d GetBLSKeyring=%d", len(saves), len(prs), len(gks)))
		} else {
			r.Check(!ssax.ReachableAvoiding(fn, saves[0], ssax.NilErrEdgesOfCall(fn, prs[0]), nil) && len(ssax.NilErrEdgesOfCall(fn, prs[0])) > 0, rule, "airgapped.master-key-handler:save<=responses-ok", "the share is stored only if all responses were processed and the round is certified", c.PosOf(saves[0]), "saveBLSKeyring reachable after a ProcessResponses error")
			r.Check(!ssax.ReachableAvoiding(fn, saves[0], ssax.NilErrEdgesOfCall(fn, gks[0]), nil) && len(ssax.NilErrEdgesOfCall(fn, gks[0])) > 0, rule, "airgapped.master-key-handler:save<=keyring-ok", "the share stored is a successfully built keyring", c.PosOf(saves[0]), "saveBLSKeyring reachable after a GetBLSKeyring error")
			r.Check(ssax.ResultOf(saves[0].Common().Args[2], gks[0], 0) && strings.HasSuffix(ssax.Path(saves[0].Common().Args[1]), "o.DKGIdentifier"), rule, "airgapped.master-key-handler:save-args", "the keyring of this instance is saved under this round's id", c.PosOf(saves[0]), "saveBLSKeyring("+ssax.Path(saves[0].Common().Args[1])+", "+ssax.Path(saves[0].Common().Args[2])+")")
		}
	}
	if pr := c.Fn(rule, "dkg", "DKG", "ProcessResponses"); pr != nil {
		certs := ssax.Calls(pr, false, func(ci ssa.CallInstruction) bool { o := ssax.CalleeObj(ci); return o != nil && o.Name() == "Certified" })
		ok := len(certs) >= 1
		if ok {
			te := ssax.BoolEdgesOfCall(pr, certs[0], -1, true)
			for _, ret := range ssax.Returns(pr) {
				if len(ret.Results) == 1 && ssax.IsNilConst(ssax.Resolve(ret.Results[0])) && (len(te) == 0 || ssax.ReachableAvoiding(pr, ret, te, nil)) {
					ok = false
				}
			}
		}
		r.Check(ok, rule, "dkg.ProcessResponses:certified", "ProcessResponses succeeds only if the DKG instance is certified", c.Pos(pr.Pos()), "nil return reachable without Certified() == true")
	}
	if gk := c.Fn(rule, "dkg", "DKG", "GetBLSKeyring"); gk != nil {
		certs := ssax.Calls(gk, false, func(ci ssa.CallInstruction) bool { o := ssax.CalleeObj(ci); return o != nil && o.Name() == "Certified" })
		ok := len(certs) >= 1
		if ok {
			te := ssax.BoolEdgesOfCall(gk, certs[0], -1, true)
			for _, ret := range ssax.Returns(gk) {
				if len(ret.Results) == 2 && ssax.IsNilConst(ssax.Resolve(ret.Results[1])) && (len(te) == 0 || ssax.ReachableAvoiding(gk, ret, te, nil)) {
					ok = false
				}
			}
		}
		r.Check(ok, rule, "dkg.GetBLSKeyring:certified", "a keyring is handed out only by a certified instance", c.Pos(gk.Pos()), "success return reachable without Certified() == true")
	}
}
