package rules

import (
	"fmt"
	"os"

	"dcverif/internal/fsmx"
	"dcverif/internal/load"

	"golang.org/x/tools/go/ssa"
)

func init() { Registry["DUMP"] = dump }

func dump(c *Ctx) {
	ms := c.Machines("DUMP")
	for _, rel := range fsmx.MachinePkgs {
		m := ms[rel]
		if m == nil {
			continue
		}
		fmt.Printf("machine %s initial=%s events=%d callbacks=%d\n", m.Name, m.Initial, len(m.Events), len(m.Callbacks))
		for _, e := range m.Events {
			fmt.Printf("  %s: %v -> %s internal=%v auto=%v mode=%d\n", e.Name, e.Src, e.Dst, e.Internal, e.Auto, e.Mode)
		}
		for _, ev := range sortedKeys(m.Callbacks) {
			fn := m.Callbacks[ev]
			em := fsmx.EmittedEvents(fn)
			fmt.Printf("  cb %s = %s emits=%v in=%v empty=%v unknown=%v\n", ev, load.FuncName(fn), em.Names(), em.InEvent, em.Empty, em.Unknown)
		}
	}
	if fn := os.Getenv("DUMP_FN"); fn != "" {
		for _, pk := range c.P.SSAPkgs {
			for _, mem := range pk.Members {
				if f, ok := mem.(*ssa.Function); ok && f.Name() == fn {
					f.WriteTo(os.Stdout)
				}
			}
		}
		for f := range c.P.AllFuncs() {
			if f.Name() == fn && f.Signature.Recv() != nil {
				f.WriteTo(os.Stdout)
			}
		}
	}
}
