package rules

import (
	"go/token"
	"go/types"
	"sort"
	"strings"

	"dcverif/internal/load"
	"dcverif/internal/ssax"

	"golang.org/x/tools/go/ssa"
)

func init() { Registry["C08"] = C08 }

// reviewed order-sensitive map iterations: function -> (ranged expression suffix, reason)
var c08ReviewedRanges = []struct{ Fn, Over, Why, Premise string }{
	{"actionValidateDkgProposalAwaitMasterKey", "DKGProposalPayload.Quorum", "collects the announced master keys into a slice whose only consumer is the all-equal comparison: the verdict is independent of the order", "slice-only-compared"},
	{"actionValidateSignatureProposal", "SignatureProposalPayload.Quorum", "builds the status response of the collected event; the node replaces that response by the DKG hand-over's response and never persists it", ""},
	{"reconstructThresholdSignature", "PartialSigns", "files each share under its message id (per-key append); the order inside one key's list is given by the outer, ordered participant slice", ""},
	{"reconstructThresholdSignature", "makemap<types.BatchPartialSignatures>", "the result slice is stored by SaveSignatures keyed by batch and message id and broadcast as this node's own message; its order is not part of the round state", ""},
	{"StatesList", "f.transitions", "the list is only searched for membership / used to fill maps", ""},
	{"StatesList", "makemap<map[fsm.State]*>", "idem (a local set of states, whatever its value type)", ""},
	{"EventsList", "f.transitions", "the list is only used to fill the pool's event map", ""},
	{"EventsList", "makemap<map[fsm.Event]*>", "idem (a local set of events, whatever its value type)", ""},
	{"FinStatesList", "f.finStates", "the list is only used to fill the pool's state map", ""},
}

// allow-listed clock/uuid uses on the replay path: function -> callee prefix -> what the value may flow into
var c08Entropy = []struct{ Fn, Callee, Sink, Why string }{
	{"processMessage", "time.Now", "DefaultRequest.CreatedAt", "time stamp of the node-issued hand-over/restart request; lands only in time.Time fields the property projects away"},
	{"NewOperation", "time.Now", "Operation.CreatedAt", "creation time of the pool entry (not part of the round state; the id is payload-derived)"},
	{"buildMessage", "github.com/google/uuid.", "Message.ID", "id of a board-bound message this node posts"},
	{"send", "github.com/google/uuid.", "Message.ID", "id the file board assigns to a message being posted (transport; the handler never reads Message.ID)"},
	{"GetMessages", "time.Now", "", "kafka read deadline (transport, not state)"},
}

// C08 — a round's state is a deterministic function of the board log.
func C08(c *Ctx) {
	r := c.R
	r.Explain = "Decided statically (absence of the sources of non-determinism, and isolation): (R1a) every iteration over a map in the code that applies board messages (everything reachable from Poll/processMessage/reinitDKG, including all FSM callbacks and the FSM engine) is order-insensitive — it only touches the ranged element, writes map entries keyed by the range key, updates counters/flags, returns/stores constants, or appends to a slice that is sorted before use — or is a reviewed exemption; " +
		"(R1b) clock, randomness and uuid are used on that path only at allow-listed sites whose value flows into time-stamp fields or ids of messages this node posts; the FSM packages use none; (R2) no FSM instance is cached: the node and the FSM service hold no field containing an instance or machine, processMessage gets its instance from GetFSMInstance (FromDump) and re-enters through FromDump after each hand-over; " +
		"(R3) round isolation: every durable write of the handler is keyed by the envelope's DkgRoundID (SaveFSM key, NewOperation round, ReconstructedSignature.DKGRoundID at both store sites) and SaveFSM replaces exactly the entry of its key; (R4) addressing: a message is handled only if it has no recipient or this node is the recipient, in Poll and in the reinit replay; (R5) the log is applied entry by entry: Poll fetches from the durable position, handles a message before its position is saved as message.Offset+1, and saves it in every iteration (a position saved before handling makes delivery at-most-once: a node killed inside the handler differs for good from one that read the same log uninterrupted). " +
		"NOT decided: functional determinism of kyber/JSON, equality of two nodes' states as an executed fact, deadline edge cases (control dependence on IsExpired is within the property's 'timestamps within the deadlines' proviso)."
	r.Trusted = []string{"VTA call graph (scope of the replay path)", "sort.Ints/sort.Slice", "encoding/json map-key ordering", "go/ssa"}
	r.Rule("C08/R1", "no map-order, clock or randomness dependence in the code that applies board messages", 20)
	r.Rule("C08/R2", "the FSM instance is rebuilt from its dump for every message", 4)
	r.Rule("C08/R3", "round isolation: durable writes are keyed by the envelope's round id", 5)
	r.Rule("C08/R4", "addressing: only messages for this node (or broadcast) are handled", 2)
	r.Rule("C08/R5", "every log entry is applied exactly once and in order: the poll position moves past a message only after it was handled, by one, from the durable position (= C13/R2)", 4)
	c13PollAs(c, "C08/R5")
	scope := c08Scope(c)
	r.Count("replay_scope_functions", len(scope))
	c08MapRanges(c, scope)
	c08EntropyRule(c, scope)
	c08NoCache(c)
	c08Isolation(c)
	c08Addressing(c)
}

func c08Scope(c *Ctx) []*ssa.Function {
	roots := []*ssa.Function{c.Fn("C08/R1", pkgNode, "BaseNodeService", "Poll")}
	seen := map[*ssa.Function]bool{}
	cg := c.P.CallGraph()
	var out []*ssa.Function
	var walk func(f *ssa.Function)
	walk = func(f *ssa.Function) {
		if f == nil || seen[f] {
			return
		}
		seen[f] = true
		if !load.InModule(f) || strings.Contains(load.FuncName(f), "mocks/") || c.isTestFunc(f) {
			return
		}
		out = append(out, f)
		if n := cg.Nodes[f]; n != nil {
			for _, e := range n.Out {
				walk(e.Callee.Func)
			}
		}
	}
	for _, rt := range roots {
		walk(rt)
	}
	sort.Slice(out, func(i, j int) bool { return load.FuncName(out[i]) < load.FuncName(out[j]) })
	return out
}

func c08MapRanges(c *Ctx, scope []*ssa.Function) {
	r := c.R
	n := 0
	usedReview := map[int]bool{}
	keyCount := map[string]int{}
	for _, f := range scope {
		ssax.Instrs(f, func(in ssa.Instruction) {
			rg, ok := in.(*ssa.Range)
			if !ok || !strings.HasPrefix(rg.X.Type().Underlying().String(), "map[") {
				return
			}
			n++
			over := npath(rg.X)
			key := sprintf("%s:range(%s)", f.Name(), shortOver(over))
			keyCount[key]++
			if keyCount[key] > 1 {
				key = sprintf("%s#%d", key, keyCount[key])
			}
			why := c08RangeSensitive(c, f, rg)
			if len(why) == 0 {
				r.OKd("C08/R1", "map-range:"+key, "iteration over a map is order-insensitive", c.PosOf(in), "")
				return
			}
			for i, rv := range c08ReviewedRanges {
				match := strings.HasSuffix(over, rv.Over)
				if strings.HasSuffix(rv.Over, "*>") { // a local map of the given key type, any value type
					pre := strings.TrimSuffix(rv.Over, "*>")
					if i := strings.LastIndex(over, pre); i >= 0 && strings.HasSuffix(over, ">") && !strings.Contains(over[i+len(pre):len(over)-1], "]") {
						match = true
					}
				}
				if rv.Fn == f.Name() && match {
					usedReview[i] = true
					if rv.Premise == "slice-only-compared" {
						// the review's premise is re-checked: the slice filled in map order is consumed only by comparisons whose
						// outcome has the same effect whichever pair of elements triggers it
						if bad := c08SliceOnlyCompared(c, f, rg); len(bad) > 0 {
							r.Fail("C08/R1", "map-range:"+key, "iteration over a map is order-insensitive or reviewed", c.PosOf(in),
								"the reviewed premise ("+rv.Why+") no longer holds: "+strings.Join(bad, "; ")+" — which participant is affected depends on Go's randomised map order, so two nodes (or one node after a replay) derive different states from the same log")
							return
						}
					}
					r.OKd("C08/R1", "map-range:"+key, "iteration over a map is order-insensitive or reviewed", c.PosOf(in), "reviewed: "+rv.Why+" [order-sensitive effects: "+strings.Join(why, "; ")+"]")
					return
				}
			}
			r.Fail("C08/R1", "map-range:"+key, "iteration over a map is order-insensitive", c.PosOf(in),
				"the loop body depends on Go's randomised map order: "+strings.Join(why, "; ")+" — two nodes (or the same node after a replay) can derive different state/responses from the same log")
		})
	}
	if n < 15 {
		r.Unknown("C08/R1", "map-range:census", "the map iterations of the FSM callbacks are in scope", "", sprintf("only %d map iterations found in %d functions", n, len(scope)))
	}
}

func shortOver(s string) string {
	if i := strings.LastIndex(s, "Payload."); i >= 0 && strings.Contains(s[i:], "Quorum") {
		return s[i+len("Payload."):]
	}
	if len(s) > 60 {
		return s[len(s)-60:]
	}
	return s
}

// c08RangeSensitive returns the order-sensitive effects of a map range loop (empty = insensitive).
func c08RangeSensitive(c *Ctx, f *ssa.Function, rg *ssa.Range) []string {
	// the Next instruction and the loop blocks
	var next *ssa.Next
	for _, ref := range *rg.Referrers() {
		if n, ok := ref.(*ssa.Next); ok {
			next = n
		}
	}
	if next == nil {
		return []string{"range without next"}
	}
	header := next.Block()
	inLoop := map[*ssa.BasicBlock]bool{}
	for _, b := range f.Blocks {
		if b != header && blockReach(header, b) && blockReach(b, header) {
			inLoop[b] = true
		}
	}
	inLoop[header] = true
	fromElem := func(v ssa.Value) bool { return strings.Contains(ssax.Path(v), "next(range(") }
	var why []string
	for b := range inLoop {
		for _, in := range b.Instrs {
			switch x := in.(type) {
			case *ssa.Store:
				ap := ssax.Path(x.Addr)
				if strings.Contains(ap, "next(range(") {
					continue // per-element update
				}
				if _, isConst := ssax.Resolve(x.Val).(*ssa.Const); isConst {
					continue // constant into an outer variable (flag / fixed event)
				}
				if call, isCall := x.Val.(*ssa.Call); isCall {
					if bi, isB := call.Common().Value.(*ssa.Builtin); isB && bi.Name() == "append" {
						continue // the grown slice put back into its variable: judged by the append rule below
					}
				}
				if a, isAlloc := x.Addr.(*ssa.IndexAddr); isAlloc {
					if _, ok := a.X.(*ssa.Alloc); ok {
						continue // varargs / literal backing array
					}
				}
				if fa, ok := x.Addr.(*ssa.FieldAddr); ok {
					if _, isAlloc := fa.X.(*ssa.Alloc); isAlloc {
						continue // field of a literal built inside the loop
					}
				}
				if _, isAlloc := x.Addr.(*ssa.Alloc); isAlloc && !fromElem(x.Val) {
					continue
				}
				if fromElem(x.Val) {
					why = append(why, "stores an element-derived value into "+ap+" (last element wins)")
				}
			case *ssa.MapUpdate:
				if !fromElem(x.Key) {
					if _, isConst := ssax.Resolve(x.Key).(*ssa.Const); !isConst {
						why = append(why, "updates map entry "+ssax.Path(x.Key)+" not keyed by the ranged element")
					}
				}
			case *ssa.Call:
				if bi, ok := x.Common().Value.(*ssa.Builtin); ok {
					if bi.Name() == "append" && escapesLoop(x, inLoop) && !sortedAfter(f, x, inLoop) {
						why = append(why, "appends to a slice in map order ("+ssax.Path(x.Common().Args[0])+")")
					}
					continue
				}
				id := ssax.FuncID(ssax.CalleeObj(x))
				if strings.HasSuffix(id, ".Log") || strings.HasPrefix(id, "fmt.") || strings.HasPrefix(id, "log.") || strings.HasPrefix(id, "errors.") {
					continue
				}
				// calls with element-derived arguments that may accumulate state
				for _, a := range x.Common().Args {
					if fromElem(a) && mutatesArgs(id) {
						why = append(why, "calls "+strings.ReplaceAll(id, load.Module+"/", "")+" with element-derived arguments in map order")
						break
					}
				}
			case *ssa.Return:
				for _, res := range x.Results {
					if fromElem(res) {
						why = append(why, "returns an element-derived value from inside the loop (first match in map order)")
					}
				}
			}
		}
	}
	// loop-carried phis that take element-derived values
	for _, in := range header.Instrs {
		if p, ok := in.(*ssa.Phi); ok {
			for _, e := range ssax.FeasibleEdges(p) {
				if fromElem(e) {
					if call, isCall := ssax.Resolve(e).(*ssa.Call); isCall {
						if bi, isB := call.Common().Value.(*ssa.Builtin); isB && bi.Name() == "append" {
							continue // handled above
						}
					}
					why = append(why, "carries an element-derived value across iterations ("+p.Comment+")")
				}
			}
		}
	}
	sort.Strings(why)
	return uniqStr(why)
}

func mutatesArgs(id string) bool {
	switch {
	case strings.HasSuffix(id, ".AddPartialSignature"):
		return true
	case strings.HasSuffix(id, ".Equal"), strings.HasSuffix(id, "reflect.DeepEqual"), strings.HasSuffix(id, ".Before"), strings.HasSuffix(id, ".String"), strings.HasSuffix(id, ".Error"),
		strings.HasSuffix(id, "state_machines.FromDump"), strings.HasSuffix(id, ".State"):
		return false
	}
	return false
}

func blockReach(a, b *ssa.BasicBlock) bool {
	seen := map[*ssa.BasicBlock]bool{}
	st := []*ssa.BasicBlock{a}
	for len(st) > 0 {
		x := st[len(st)-1]
		st = st[:len(st)-1]
		for _, s := range x.Succs {
			if s == b {
				return true
			}
			if !seen[s] {
				seen[s] = true
				st = append(st, s)
			}
		}
	}
	return false
}

// escapesLoop: the appended slice is used after the loop (through the header phi).
func escapesLoop(app *ssa.Call, inLoop map[*ssa.BasicBlock]bool) bool {
	seen := map[ssa.Value]bool{}
	var f func(v ssa.Value) bool
	f = func(v ssa.Value) bool {
		if seen[v] {
			return false
		}
		seen[v] = true
		refs := v.Referrers()
		if refs == nil {
			return false
		}
		for _, ref := range *refs {
			if !inLoop[ref.Block()] {
				return true
			}
			if p, ok := ref.(*ssa.Phi); ok && f(p) {
				return true
			}
			if st, ok := ref.(*ssa.Store); ok && st.Val == v {
				return true // stored to memory (field/variable)
			}
		}
		return false
	}
	return f(app)
}

// sortedAfter: every use of the appended slice after the loop is preceded by a sort call on it.
func sortedAfter(f *ssa.Function, app *ssa.Call, inLoop map[*ssa.BasicBlock]bool) bool {
	// find the header phi that carries the slice
	var carriers []ssa.Value
	carriers = append(carriers, app)
	if refs := app.Referrers(); refs != nil {
		for _, ref := range *refs {
			if p, ok := ref.(*ssa.Phi); ok {
				carriers = append(carriers, p)
			}
		}
	}
	// the slice may live in a local that a closure captures (sort.Slice's less function): the append is stored into the
	// local and the sorted value is a load of it
	for _, cv := range append([]ssa.Value{}, carriers...) {
		if refs := cv.Referrers(); refs != nil {
			for _, ref := range *refs {
				if st, ok := ref.(*ssa.Store); ok && st.Val == cv {
					if al, ok := st.Addr.(*ssa.Alloc); ok && al.Referrers() != nil {
						for _, r2 := range *al.Referrers() {
							if ld, ok := r2.(*ssa.UnOp); ok && !inLoop[ld.Block()] {
								carriers = append(carriers, ld)
							}
						}
					}
				}
			}
		}
	}
	for _, cv := range carriers {
		refs := cv.Referrers()
		if refs == nil {
			continue
		}
		for _, ref := range *refs {
			if inLoop[ref.Block()] {
				continue
			}
			isSort := func(r ssa.Instruction) bool {
				call, ok := r.(ssa.CallInstruction)
				if !ok {
					return false
				}
				id := ssax.FuncID(ssax.CalleeObj(call))
				return id == "sort.Ints" || id == "sort.Strings" || id == "sort.Slice" || id == "sort.Sort" || id == "sort.SliceStable"
			}
			if isSort(ref) {
				return true
			}
			// sort.Slice(xs, less) takes the slice as an interface value
			if mi, ok := ref.(*ssa.MakeInterface); ok && mi.Referrers() != nil {
				for _, r2 := range *mi.Referrers() {
					if !inLoop[r2.Block()] && isSort(r2) {
						return true
					}
				}
			}
		}
	}
	return false
}

func c08EntropyRule(c *Ctx, scope []*ssa.Function) {
	r := c.R
	n := 0
	entCount := map[string]int{}
	for _, f := range scope {
		ssax.Instrs(f, func(in ssa.Instruction) {
			call, ok := in.(ssa.CallInstruction)
			if !ok {
				return
			}
			id := ssax.FuncID(ssax.CalleeObj(call))
			if !(id == "time.Now" || id == "time.Since" || strings.HasPrefix(id, "math/rand.") || strings.HasPrefix(id, "crypto/rand.") || id == "github.com/google/uuid.New" || id == "github.com/google/uuid.NewString" || id == "lukechampine.com/frand.New") {
				return
			}
			n++
			key := sprintf("entropy:%s:%s", f.Name(), id)
			entCount[key]++
			if entCount[key] > 1 {
				key = sprintf("%s#%d", key, entCount[key])
			}
			inFSM := strings.Contains(load.FuncName(f), "fsm/")
			var allow *struct{ Fn, Callee, Sink, Why string }
			for i := range c08Entropy {
				if c08Entropy[i].Fn == f.Name() && strings.HasPrefix(id, c08Entropy[i].Callee) {
					allow = &c08Entropy[i]
				}
			}
			if !inFSM && allow == nil {
				// a clock reading that is only observed — handed to a logger or put into an atomic counter/gauge (health,
				// metrics) — cannot reach the round state
				if v, isVal := in.(ssa.Value); isVal && observedOnly(v, 0, map[ssa.Value]bool{}) {
					r.OKd("C08/R1", key, "clock value is only observed (logging / atomic health counters)", c.PosOf(in), "")
					return
				}
			}
			if inFSM || allow == nil {
				r.Fail("C08/R1", key, "no clock/randomness on the path that applies board messages", c.PosOf(in),
					"call to "+id+" in "+load.FuncName(f)+": the round state would depend on when (or by which random draw) the log is consumed — a node replaying the log later than a live follower reaches a different state")
				return
			}
			// flow check: every use of the value is a store into the allowed sink field
			okFlow := true
			if v, isVal := in.(ssa.Value); isVal && allow.Sink != "" {
				okFlow = flowsOnlyInto(v, allow.Sink)
			}
			r.Check(okFlow, "C08/R1", key, "allow-listed clock/uuid use flows only into "+allow.Sink, c.PosOf(in), "the value of "+id+" is used for something else than "+allow.Sink+" ("+allow.Why+")")
		})
	}
	if n < 5 {
		r.Unknown("C08/R1", "entropy:census", "the known clock uses of the handler are in scope", "", sprintf("%d entropy calls found", n))
	}
}

// flowsOnlyInto: every (transitive, through conversions/method String) use of v is a Store into field Owner.Field.
func flowsOnlyInto(v ssa.Value, sink string) bool {
	parts := strings.SplitN(sink, ".", 2)
	seen := map[ssa.Value]bool{}
	var f func(v ssa.Value) bool
	f = func(v ssa.Value) bool {
		if seen[v] {
			return true
		}
		seen[v] = true
		refs := v.Referrers()
		if refs == nil {
			return true
		}
		for _, ref := range *refs {
			switch x := ref.(type) {
			case *ssa.Store:
				fa, ok := x.Addr.(*ssa.FieldAddr)
				if !ok || ssax.OwnerName(fa) != parts[0] || ssax.FieldOf(fa).Name() != parts[1] {
					return false
				}
			case *ssa.Call:
				// uuid.New().String()
				if o := ssax.CalleeObj(x); o != nil && o.Name() == "String" {
					if !f(x) {
						return false
					}
					continue
				}
				return false
			case *ssa.DebugRef:
			case *ssa.MakeInterface, *ssa.ChangeType, *ssa.Convert:
				if !f(x.(ssa.Value)) {
					return false
				}
			default:
				return false
			}
		}
		return true
	}
	return f(v)
}

func c08NoCache(c *Ctx) {
	r := c.R
	for _, tn := range [][2]string{{pkgNode, "BaseNodeService"}, {"client/services/fsmservice", "FSM"}, {"client/services", "ServiceProvider"}} {
		t := c.lookupType("C08/R2", tn[0], tn[1])
		if t == nil {
			continue
		}
		var bad []string
		st := t.Underlying().(*types.Struct)
		for i := 0; i < st.NumFields(); i++ {
			ts := st.Field(i).Type().String()
			if strings.Contains(ts, "state_machines.FSMInstance") || strings.Contains(ts, "state_machines.FSMDump") || strings.Contains(ts, "DumpedMachineProvider") || strings.Contains(ts, "fsm/fsm.FSM") {
				bad = append(bad, st.Field(i).Name()+" "+ts)
			}
		}
		r.Check(len(bad) == 0, "C08/R2", "no-cached-instance:"+tn[1], tn[1]+" keeps no FSM instance between messages", "", "fields "+strings.Join(bad, ", ")+": a cached instance makes the state depend on the process history instead of the persisted dump")
	}
	// … nor any other copy of durable data: the services and repositories between the handler and the state DB have no
	// container-typed field (map/slice) that is written after construction. A copy kept in memory makes what a node does
	// with a message depend on what this process did before (and survives a state reset), instead of on the stored state.
	for _, tn := range [][2]string{{pkgNode, "BaseNodeService"}, {"client/services/fsmservice", "FSM"}, {"client/repositories/operation", "BaseOperationRepo"},
		{"client/repositories/signature", "BaseSignatureRepo"}, {"client/services/operation", "BaseOperationService"}, {"client/services/signature", "BaseSignatureService"}} {
		t := c.lookupType("C08/R2", tn[0], tn[1])
		if t == nil {
			continue
		}
		st, isStruct := t.Underlying().(*types.Struct)
		if !isStruct {
			continue
		}
		var bad []string
		for i := 0; i < st.NumFields(); i++ {
			f := st.Field(i)
			switch f.Type().Underlying().(type) {
			case *types.Map, *types.Slice:
			default:
				continue
			}
			// written anywhere but in a constructor?
			var writers []string
			for fn := range c.P.AllFuncs() {
				if !load.InModule(fn) || c.isTestFunc(fn) || fn.Synthetic != "" || strings.HasPrefix(fn.Name(), "New") {
					continue
				}
				ssax.Instrs(fn, func(in ssa.Instruction) {
					fa, ok := in.(*ssa.FieldAddr)
					if !ok || ssax.FieldOf(fa) != f || fa.Referrers() == nil {
						return
					}
					for _, u := range *fa.Referrers() {
						switch x := u.(type) {
						case *ssa.Store:
							if x.Addr == ssa.Value(fa) {
								writers = append(writers, shortFn(fn))
							}
						case *ssa.UnOp:
							if x.Referrers() != nil {
								for _, uu := range *x.Referrers() {
									if mu, isMU := uu.(*ssa.MapUpdate); isMU && mu.Map == ssa.Value(x) {
										writers = append(writers, shortFn(fn))
									}
								}
							}
						}
					}
				})
			}
			if len(writers) > 0 {
				sort.Strings(writers)
				bad = append(bad, f.Name()+" "+f.Type().String()+" (written by "+strings.Join(uniqStr(writers), ", ")+")")
			}
		}
		r.Check(len(bad) == 0, "C08/R2", "no-cached-state:"+tn[1], tn[1]+" keeps no in-memory copy of durable data", "", "fields "+strings.Join(bad, "; ")+": the node's reaction to a message would depend on this process's history (and on a copy that a state reset does not replace) instead of the stored state")
	}
	if fn := c.Fn("C08/R2", pkgNode, "BaseNodeService", "processMessage"); fn != nil {
		// every Do receiver derives from GetFSMInstance or FromDump
		bad := ""
		n := 0
		for _, call := range ssax.CallsTo(fn, load.Module+"/fsm/state_machines.(FSMInstance).Do") {
			n++
			p := ssax.Path(call.Common().Args[0])
			if !(strings.Contains(p, "GetFSMInstance(message.DkgRoundID") || strings.Contains(p, "state_machines.FromDump(")) {
				bad = p
			}
		}
		r.Check(n >= 4 && bad == "", "C08/R2", "node.processMessage:instance-source", "every FSM event is applied to an instance freshly restored from a dump", c.Pos(fn.Pos()), "Do receiver "+bad)
		// after a hand-over the instance is re-created from the dump just produced
		ok := false
		for _, call := range ssax.CallsTo(fn, load.Module+"/fsm/state_machines.FromDump") {
			if strings.Contains(ssax.Path(call.Common().Args[0]), ".Do(") {
				ok = true
			}
		}
		r.Check(ok, "C08/R2", "node.processMessage:reenter-from-dump", "hand-overs re-enter through FromDump(dump of the previous step)", c.Pos(fn.Pos()), "FromDump(fsmDump) not found")
	}
	if lf := c.Fn("C08/R2", "client/services/fsmservice", "FSM", "loadFSM"); lf != nil {
		ok := len(ssax.CallsTo(lf, load.Module+"/fsm/state_machines.FromDump")) == 1
		r.Check(ok, "C08/R2", "fsmservice.loadFSM:from-dump", "the service restores the instance from the stored dump on every call", c.Pos(lf.Pos()), "FromDump not called")
	}
}

func c08Isolation(c *Ctx) {
	r := c.R
	pm := [3]string{pkgNode, "BaseNodeService", "processMessage"}
	fn := c.Fn("C08/R3", pm[0], pm[1], pm[2])
	if fn == nil {
		return
	}
	n := 0
	for _, call := range ssax.Calls(fn, false, func(ci ssa.CallInstruction) bool { o := ssax.CalleeObj(ci); return o != nil && o.Name() == "SaveFSM" }) {
		n++
		a := call.Common().Args
		r.Check(npath(a[len(a)-2]) == "message.DkgRoundID", "C08/R3", sprintf("node.processMessage:SaveFSM#%d:key", n), "the round is saved under the envelope's round id", c.PosOf(call), "key is "+npath(a[len(a)-2]))
	}
	for _, call := range callsIn(fn, pkgTypes+".NewOperation") {
		r.Check(npath(call.Common().Args[0]) == "message.DkgRoundID", "C08/R3", "node.processMessage:NewOperation:round", "the derived operation belongs to the envelope's round", c.PosOf(call), "round is "+npath(call.Common().Args[0]))
	}
	for _, call := range callsIn(fn, "client/services/fsmservice.(FSMService).GetFSMInstance") {
		r.Check(strings.HasPrefix(npath(call.Common().Args[0]), "message.DkgRoundID") || npath(call.Common().Args[len(call.Common().Args)-2]) == "message.DkgRoundID", "C08/R3", "node.processMessage:GetFSMInstance:round", "the instance loaded is the envelope's round", c.PosOf(call), "loaded round "+npath(call.Common().Args[len(call.Common().Args)-2]))
	}
	checkStores(c, []storeSpec{
		{"C08/R3", "node.processSignatureProposal:DKGRoundID", [3]string{pkgNode, "BaseNodeService", "processSignatureProposal"}, "ReconstructedSignature", "DKGRoundID", `^message\.DkgRoundID$`, "the batch record is filed under the envelope's round", "other round id"},
	})
	c08SignatureAttribution(c, "C08/R3")
	c08SignatureKey(c)
	// SaveFSM replaces exactly one entry
	if sf := c.Fn("C08/R3", "client/services/fsmservice", "FSM", "SaveFSM"); sf != nil {
		n := 0
		ok := true
		ssax.Instrs(sf, func(in ssa.Instruction) {
			if mu, isMu := in.(*ssa.MapUpdate); isMu {
				n++
				if ssax.Path(mu.Key) != "dkgRoundID" || ssax.Path(mu.Value) != "dump" {
					ok = false
				}
			}
			if call, isCall := in.(*ssa.Call); isCall {
				if b, isB := call.Common().Value.(*ssa.Builtin); isB && b.Name() == "delete" {
					ok = false
				}
			}
		})
		r.Check(ok && n == 1, "C08/R3", "fsmservice.SaveFSM:one-entry", "saving a round replaces exactly that round's entry of the stored map", c.Pos(sf.Pos()), sprintf("%d map updates; key/value not (dkgRoundID, dump) or an entry is deleted", n))
	}
}

func c08Addressing(c *Ctx) {
	r := c.R
	// what a poll hands to the node depends on the log only, not on where the batch starts (R4, reader side)
	for _, rd := range [][2]string{{pkgFS, "FileStorage"}, {"storage/kafka_storage", "KafkaStorage"}} {
		if gm := c.Fn("C08/R4", rd[0], rd[1], "GetMessages"); gm != nil {
			freshDecodeTarget(c, "C08/R4", lastSeg(rd[0])+".GetMessages:fresh-decode-target", gm)
		}
	}
	for _, spec := range []struct{ fn, callee string }{{"Poll", "ProcessMessage"}, {"reinitDKG", "processMessage"}} {
		fn := c.Fn("C08/R4", pkgNode, "BaseNodeService", spec.fn)
		if fn == nil {
			continue
		}
		calls := ssax.Calls(fn, false, func(ci ssa.CallInstruction) bool { o := ssax.CalleeObj(ci); return o != nil && o.Name() == spec.callee })
		if len(calls) != 1 {
			r.Unknown("C08/R4", "node."+spec.fn+":dispatch", "one dispatch site", c.Pos(fn.Pos()), sprintf("%d", len(calls)))
			continue
		}
		// "RecipientAddr is empty" in any spelling (== "", len(...) == 0, len(...) < 1, negated forms), or equal to the own name
		isRecipient := func(p string) bool { return strings.HasSuffix(p, ".RecipientAddr") }
		okEdges := emptyEdges(fn, isRecipient)
		nEmpty, nOwn := len(okEdges), 0
		for _, cd := range ssax.Conds(fn) {
			if cd.Op != token.EQL && cd.Op != token.NEQ {
				continue
			}
			a, b := ssax.Path(cd.X), ssax.Path(cd.Y)
			if (isRecipient(a) && strings.HasSuffix(b, "GetUsername()")) || (isRecipient(b) && strings.HasSuffix(a, "GetUsername()")) {
				e, _ := cd.EdgeWhere(token.EQL)
				okEdges = append(okEdges, e)
				nOwn++
			}
		}
		r.Check(nEmpty >= 1 && nOwn >= 1 && !ssax.ReachableAvoiding(fn, calls[0], okEdges, nil), "C08/R4", "node."+spec.fn+":addressed-only", "a message is handled only if RecipientAddr is empty or equals this node's user name", c.PosOf(calls[0]),
			sprintf("%d recipient tests recognised; the handler is reachable without passing one of them: messages addressed to other participants (private deals) would change this node's view", len(okEdges)))
	}
}

// c08SignatureAttribution: a received `signature_reconstructed` entry is filed under the envelope's round and attributed to
// the verified sender, unconditionally for every entry (shared by C03: the record kept next to a proposal's payload can
// be replaced only by its author).
func c08SignatureAttribution(c *Ctx, rule string) {
	r := c.R
	checkStores(c, []storeSpec{
		{rule, "node.processSignature:DKGRoundID", [3]string{pkgNode, "BaseNodeService", "processSignature"}, "ReconstructedSignature", "DKGRoundID", `^message\.DkgRoundID$`, "a received signature is filed under the envelope's round, whatever its body says", "the body's round id is trusted: a message verified under one round writes into another round's signature store"},
		{rule, "node.processSignature:Username", [3]string{pkgNode, "BaseNodeService", "processSignature"}, "ReconstructedSignature", "Username", `^message\.SenderAddr$`, "a received signature is attributed to the verified sender", "attribution taken from the body"},
	})
	// the overwrite in processSignature is unconditional (every element)
	if ps := c.Fn(rule, pkgNode, "BaseNodeService", "processSignature"); ps != nil {
		var stores []ssa.Instruction
		var iter ssa.Instruction
		ssax.Instrs(ps, func(in ssa.Instruction) {
			if st, ok := in.(*ssa.Store); ok {
				if fa, ok := st.Addr.(*ssa.FieldAddr); ok && ssax.FieldOf(fa).Name() == "DKGRoundID" {
					stores = append(stores, in)
				}
			}
			if ia, ok := in.(*ssa.IndexAddr); ok && iter == nil {
				iter = ia
			}
		})
		save := ssax.Calls(ps, false, func(ci ssa.CallInstruction) bool {
			o := ssax.CalleeObj(ci)
			return o != nil && o.Name() == "SaveSignatures"
		})
		ok := len(stores) == 1 && len(save) == 1
		if ok {
			// no condition inside the loop can skip the overwrite
			for _, cd := range ssax.CondsBetween(ps, stores[0].Block().Instrs[0], stores[0]) {
				if cd.Op != token.LSS {
					ok = false
				}
			}
			// the store's block is the loop body reached directly from the loop bound test
			for _, cd := range ssax.Conds(ps) {
				if cd.Op != token.LSS && cd.If.Block() != ps.Blocks[0] {
					// any other branch in the function apart from the unmarshal error check
					p := ssax.Path(cd.X)
					if !strings.Contains(p, "json.Unmarshal(") {
						// a test one of whose outcomes never reaches the save (the whole message is refused: a validity
						// check of the announced signatures) does not make the attribution of what IS saved conditional
						aborts := false
						for _, sb := range cd.If.Block().Succs {
							if len(sb.Instrs) > 0 && !ssax.ReachableFrom(ps, sb.Instrs[0], save[0].(ssa.Instruction), nil, nil) && sb.Instrs[0] != save[0].(ssa.Instruction) {
								aborts = true
							}
						}
						if !aborts {
							ok = false
						}
					}
				}
			}
		}
		r.Check(ok, rule, "node.processSignature:overwrite-unconditional", "the round id and sender of every received signature entry are overwritten unconditionally", c.Pos(ps.Pos()), "the overwrite is conditional or missing")
	}
}


// observedOnly: every transitive use of v is an argument of a logging/formatting call, of a sync/atomic operation, of a
// time.Time/Duration method (whose result is followed in turn), a conversion, or an argument of a module function whose
// parameter is itself only observed (two levels). No store into a struct field, no comparison, no return.
func observedOnly(v ssa.Value, depth int, seen map[ssa.Value]bool) bool {
	if seen[v] {
		return true
	}
	seen[v] = true
	refs := v.Referrers()
	if refs == nil {
		return true
	}
	for _, ref := range *refs {
		switch x := ref.(type) {
		case *ssa.DebugRef:
		case *ssa.MakeInterface, *ssa.ChangeType, *ssa.Convert, *ssa.Extract:
			if !observedOnly(x.(ssa.Value), depth, seen) {
				return false
			}
		case *ssa.Store:
			// spilled into a local (value receivers): follow the local's loads
			al, ok := x.Addr.(*ssa.Alloc)
			if !ok || !observedOnly(al, depth, seen) {
				return false
			}
		case *ssa.UnOp:
			if !observedOnly(x, depth, seen) {
				return false
			}
		case ssa.CallInstruction:
			id := ssax.FuncID(ssax.CalleeObj(x))
			switch {
			case strings.HasPrefix(id, "sync/atomic."), strings.HasPrefix(id, "log."), strings.HasPrefix(id, "fmt.Print"), strings.HasPrefix(id, "fmt.Fprint"), strings.HasSuffix(id, ".Log"), strings.HasSuffix(id, ".Logf"):
			case strings.HasPrefix(id, "time.(Time)."), strings.HasPrefix(id, "time.(Duration)."), id == "time.Since":
				if val, isVal := x.(ssa.Value); isVal && !observedOnly(val, depth, seen) {
					return false
				}
			default:
				sc := x.Common().StaticCallee()
				if sc == nil || !load.InModule(sc) || depth >= 2 || len(sc.Blocks) == 0 {
					return false
				}
				for i, a := range x.Common().Args {
					if a == v && i < len(sc.Params) && !observedOnly(sc.Params[i], depth+1, seen) {
						return false
					}
				}
				if val, isVal := x.(ssa.Value); isVal && val.Referrers() != nil && len(*val.Referrers()) > 0 {
					// the callee's result is used: it may carry the clock value back
					if !observedOnly(val, depth, seen) {
						return false
					}
				}
			}
		default:
			return false
		}
	}
	return true
}


// c08SliceOnlyCompared re-checks the premise of a reviewed map iteration that appends the elements to a slice: the elements
// of that slice (whose order is Go's map order) are used only in comparisons, and whatever such a comparison guards treats
// all participants alike (it is not inside an iteration whose current element it then updates), stores no element and
// returns none. Returns the offending constructs.
func c08SliceOnlyCompared(c *Ctx, f *ssa.Function, rg *ssa.Range) []string {
	var next *ssa.Next
	for _, ref := range *rg.Referrers() {
		if n, ok := ref.(*ssa.Next); ok {
			next = n
		}
	}
	if next == nil {
		return []string{"range without next"}
	}
	header := next.Block()
	inLoop := map[*ssa.BasicBlock]bool{header: true}
	for _, b := range f.Blocks {
		if b != header && blockReach(header, b) && blockReach(b, header) {
			inLoop[b] = true
		}
	}
	slices := map[ssa.Value]bool{}
	var work []ssa.Value
	for b := range inLoop {
		for _, in := range b.Instrs {
			if call, ok := in.(*ssa.Call); ok {
				if bi, isB := call.Common().Value.(*ssa.Builtin); isB && bi.Name() == "append" {
					slices[call] = true
					work = append(work, call)
				}
			}
		}
	}
	if len(work) == 0 {
		return nil
	}
	var bad []string
	elems := map[ssa.Value]bool{}
	var ework []ssa.Value
	addElem := func(v ssa.Value) {
		if !elems[v] {
			elems[v] = true
			ework = append(ework, v)
		}
	}
	addSlice := func(v ssa.Value) {
		if !slices[v] {
			slices[v] = true
			work = append(work, v)
		}
	}
	loadsOf := func(a *ssa.Alloc, add func(ssa.Value)) {
		for _, ref := range *a.Referrers() {
			if u, ok := ref.(*ssa.UnOp); ok && u.Op == token.MUL {
				add(u)
			}
		}
	}
	for len(work) > 0 {
		v := work[len(work)-1]
		work = work[:len(work)-1]
		refs := v.Referrers()
		if refs == nil {
			continue
		}
		for _, ref := range *refs {
			switch x := ref.(type) {
			case *ssa.Phi, *ssa.Slice, *ssa.ChangeType:
				addSlice(x.(ssa.Value))
			case *ssa.IndexAddr:
				if x.X == v {
					addElem(x)
				}
			case *ssa.Index:
				if x.X == v {
					addElem(x)
				}
			case *ssa.Range:
				addElem(x)
			case *ssa.Store:
				if x.Val == v {
					if a, ok := x.Addr.(*ssa.Alloc); ok {
						loadsOf(a, addSlice)
					} else {
						bad = append(bad, "the slice filled in map order is stored into "+ssax.Path(x.Addr)+" at "+c.PosOf(x))
					}
				}
			case *ssa.Call:
				if bi, isB := x.Common().Value.(*ssa.Builtin); isB {
					if bi.Name() == "append" && len(x.Common().Args) > 0 && x.Common().Args[0] == v {
						addSlice(x)
					}
					continue // len, cap, copy into something else: order-independent or judged at the destination
				}
				addElem(x) // the result of a call on the slice depends on its order unless proved otherwise
			case *ssa.Return:
				bad = append(bad, "the slice filled in map order is returned at "+c.PosOf(x))
			}
		}
	}
	var tainted []*ssa.If
	for len(ework) > 0 {
		v := ework[len(ework)-1]
		ework = ework[:len(ework)-1]
		refs := v.Referrers()
		if refs == nil {
			continue
		}
		for _, ref := range *refs {
			switch x := ref.(type) {
			case *ssa.If:
				tainted = append(tainted, x)
			case *ssa.Store:
				if x.Val == v {
					if a, ok := x.Addr.(*ssa.Alloc); ok {
						loadsOf(a, addElem)
					} else {
						bad = append(bad, "an element chosen by map order is stored into "+ssax.Path(x.Addr)+" at "+c.PosOf(x))
					}
				}
			case *ssa.MapUpdate:
				bad = append(bad, "an element chosen by map order is put into a map at "+c.PosOf(x))
			case *ssa.Return:
				bad = append(bad, "an element chosen by map order is returned at "+c.PosOf(x))
			case *ssa.DebugRef:
			default:
				if val, ok := ref.(ssa.Value); ok {
					addElem(val)
				}
			}
		}
	}
	// what an order-dependent comparison guards must treat every participant alike
	var outerNexts func(v ssa.Value, succ *ssa.BasicBlock, depth int, seen map[ssa.Value]bool) bool
	outerNexts = func(v ssa.Value, succ *ssa.BasicBlock, depth int, seen map[ssa.Value]bool) bool {
		if v == nil || depth > 24 || seen[v] {
			return false
		}
		seen[v] = true
		if n, ok := v.(*ssa.Next); ok {
			if it, isR := n.Iter.(*ssa.Range); isR && !dominatedBy(f, succ)[it.Block()] {
				return true
			}
		}
		in, ok := v.(ssa.Instruction)
		if !ok {
			return false
		}
		for _, op := range in.Operands(nil) {
			if op != nil && *op != nil && outerNexts(*op, succ, depth+1, seen) {
				return true
			}
		}
		return false
	}
	for _, iff := range tainted {
		for _, succ := range iff.Block().Succs {
			if len(succ.Preds) != 1 {
				continue
			}
			dom := dominatedBy(f, succ)
			for _, b := range f.Blocks {
				if !dom[b] {
					continue
				}
				for _, in := range b.Instrs {
					switch x := in.(type) {
					case *ssa.Store:
						if _, isAlloc := x.Addr.(*ssa.Alloc); isAlloc {
							continue
						}
						if outerNexts(x.Addr, succ, 0, map[ssa.Value]bool{}) {
							bad = append(bad, "the store into "+ssax.Path(x.Addr)+" at "+c.PosOf(x)+" updates the element of an enclosing iteration only when a comparison with an element chosen by map order says so (condition at "+c.PosOf(iff)+")")
						}
					case *ssa.MapUpdate:
						if outerNexts(x.Key, succ, 0, map[ssa.Value]bool{}) {
							bad = append(bad, "the map entry written at "+c.PosOf(x)+" is chosen by a comparison with an element taken in map order")
						}
					}
				}
			}
		}
	}
	sort.Strings(bad)
	return uniqStrings(bad)
}

func uniqStrings(s []string) []string {
	var out []string
	for i, x := range s {
		if i == 0 || x != s[i-1] {
			out = append(out, x)
		}
	}
	return out
}


// dominatedBy: the blocks every path from the entry to which passes through d (computed on the graph as it is: functions
// expanded by the inliner carry no dominator tree for their new blocks).
func dominatedBy(f *ssa.Function, d *ssa.BasicBlock) map[*ssa.BasicBlock]bool {
	reach := map[*ssa.BasicBlock]bool{}
	var walk func(b *ssa.BasicBlock)
	walk = func(b *ssa.BasicBlock) {
		if b == d || reach[b] {
			return
		}
		reach[b] = true
		for _, s := range b.Succs {
			walk(s)
		}
	}
	if len(f.Blocks) > 0 {
		walk(f.Blocks[0])
	}
	out := map[*ssa.BasicBlock]bool{}
	for _, b := range f.Blocks {
		if !reach[b] {
			out[b] = true
		}
	}
	return out
}


// c08SignatureKey: the signature repository keeps one record per round under a key made from the round id. Rounds are told
// apart everywhere else (board, poller, FSM storage) by the exact id string, so the key must be made from the id as it is:
// any normalisation (trimmed, lower-cased, truncated, hashed to fewer bits) lets a message of one round rewrite the stored
// signatures of another.
func c08SignatureKey(c *Ctx) {
	r := c.R
	sp := c.P.SSAPkg("client/repositories/signature")
	if sp == nil {
		r.Unknown("C08/R3", "anchor:client/repositories/signature", "the signature repository must be loaded", "", "package not found")
		return
	}
	n := 0
	var bad []string
	for f := range c.P.AllFuncs() {
		if f.Pkg != sp || c.isTestFunc(f) {
			continue
		}
		for _, call := range ssax.Calls(f, false, func(ci ssa.CallInstruction) bool {
			o := ssax.CalleeObj(ci)
			return o != nil && (o.Name() == "MakeCompositeKeyString" || o.Name() == "MakeCompositeKey")
		}) {
			a := call.Common().Args
			if len(a) < 2 {
				continue
			}
			n++
			p := npath(a[1])
			if strings.ContainsAny(p, "(") || strings.Contains(p, "[:") {
				bad = append(bad, f.Name()+" at "+c.PosOf(call)+": "+p)
			}
		}
	}
	sort.Strings(bad)
	r.Check(n >= 3 && len(bad) == 0, "C08/R3", "signature-repo:key-is-round-id", "the signature record's key is made from the round id as given (no normalisation)", "",
		sprintf("%d key constructions; made from a transformed id: %s — two round ids that differ only in what the transformation removes share one record, and a reconstruction announced in one round overwrites the other's stored signatures", n, strings.Join(bad, "; ")))
}
