package rules

import (
	"go/token"
	"go/types"
	"sort"
	"strings"

	"dcverif/internal/fsmx"
	"dcverif/internal/load"
	"dcverif/internal/ssax"

	"golang.org/x/tools/go/ssa"
)

func init() { Registry["C19"] = C19 }

// C19 — persisting and restoring a round at any point never changes its behaviour.
func C19(c *Ctx) {
	r := c.R
	r.Explain = "Decided statically: (R1) every state of the extracted transition tables (all destinations and sources, plus __idle) is restorable by FromDump: it is registered in the pool's state map and accepted by that machine's MustCopyWithState — the registration/acceptance sets are re-derived from the shape of StatesList/FinStatesList/MustNewFSM/MustCopyWithState/fsm_pool.Init as written; " +
		"(R2) the dumped payload type closure is JSON round-trip safe (no unexported/dropped/interface fields, symmetric custom marshalers) and the machines hold no state besides *fsm.FSM (whose only datum written after construction is currentState) and the payload pointer; " +
		"(R3) the three WithSetup siblings install exactly (state, payload) and FromDump passes the dump's own State and Payload, FSMInstance.Do writes the resulting state into the dump before marshalling; (R4) GetAllFSM restores every entry via FromDump and fails as a whole on an error; (R5) the service hands a round out as persisted: GetFSMInstance/loadFSM return only what FromDump or Create produced in that very call; (R2, values) the FSM code never compares time.Time values with == / != (the representation — monotonic reading, *Location pointer — does not survive the dump: the same instant compares equal in memory and unequal after a restore). " +
		"NOT decided: equality of responses between continuing in memory and continuing after dump+restore (execution), encoding/json itself."
	r.Trusted = []string{"go/types, go/ssa", "encoding/json round-trip of exported fields of bool/int/string/[]byte/time.Time/map/slice/struct/pointer kinds"}
	ms := c.Machines("C19/A1")
	if len(ms) != 3 {
		return
	}
	c19Restorable(c, ms)
	c19Payload(c)
	c19Siblings(c, ms)
	c19Listing(c)
}

// feedsFrom reports which fields of the transitions/finStates tables reach the keys of map updates / appended values of fn.
func rangeSources(fn *ssa.Function) map[string]bool {
	out := map[string]bool{}
	ssax.Instrs(fn, func(in ssa.Instruction) {
		switch x := in.(type) {
		case *ssa.MapUpdate:
			p := ssax.Path(x.Key)
			mark(out, p)
		case *ssa.Call:
			if b, ok := x.Common().Value.(*ssa.Builtin); ok && b.Name() == "append" && len(x.Common().Args) == 2 {
				mark(out, ssax.Path(x.Common().Args[1]))
			}
		}
	})
	return out
}

func mark(out map[string]bool, p string) {
	switch {
	case strings.Contains(p, "range(") && strings.Contains(p, ".transitions)") && strings.Contains(p, ".source"):
		out["source"] = true
	case strings.Contains(p, ".dstState"):
		out["dst"] = true
	case strings.Contains(p, "range(") && strings.Contains(p, ".finStates)"):
		out["fin"] = true
	}
}

func c19Restorable(c *Ctx, ms map[string]*fsmx.Machine) {
	r := c.R
	r.Rule("C19/R1", "every state a round can be in is registered with a machine in FSMPool.states and accepted by that machine's MustCopyWithState", 20)
	const pk = "fsm/fsm"
	statesList := c.Fn("C19/R1", pk, "FSM", "StatesList")
	copyWith := c.Fn("C19/R1", pk, "FSM", "MustCopyWithState")
	poolInit := c.Fn("C19/R1", "fsm/fsm_pool", "", "Init")
	if statesList == nil || copyWith == nil || poolInit == nil {
		return
	}
	// (a) what StatesList returns
	slSrc := rangeSources(statesList)
	// appended values come from the local map whose keys were marked; accept when keys derive from sources (and/or dst)
	listHasSources := slSrc["source"]
	listHasDests := slSrc["dst"]
	if !listHasSources {
		r.Unknown("C19/R1", "fsm.(*FSM).StatesList:shape", "StatesList collects the source states of f.transitions", c.Pos(statesList.Pos()), "unrecognised shape: keys do not derive from range f.transitions .source")
		return
	}
	// (b) FinStatesList, if present
	finList := c.P.Func(pk, "FSM", "FinStatesList")
	finListOK := false
	if finList != nil && len(finList.Blocks) > 0 {
		finListOK = rangeSources(finList)["fin"]
		n := 0
		for _, cd := range ssax.Conds(finList) {
			// (an early exit for an empty set — len(f.finStates) compared with 0 — filters nothing)
			px, py := ssax.Path(cd.X), ""
			if cd.Y != nil {
				py = ssax.Path(cd.Y)
			}
			if (strings.HasPrefix(px, "len(") && strings.Contains(px, ".finStates")) || (strings.HasPrefix(py, "len(") && strings.Contains(py, ".finStates")) {
				continue
			}
			n++
		}
		if finListOK && n != 1 {
			r.Unknown("C19/R1", "fsm.(*FSM).FinStatesList:shape", "FinStatesList returns every finish state (a plain loop over f.finStates)", c.Pos(finList.Pos()),
				sprintf("the function has %d branches; a filter would leave finish states unregistered", n))
			finListOK = false
		}
	}
	// fin states as computed by MustNewFSM: destinations that are not sources (excluding __idle)
	mustNew := c.Fn("C19/R1", pk, "", "MustNewFSM")
	finComputed := false
	if mustNew != nil {
		ssax.Instrs(mustNew, func(in ssa.Instruction) {
			if mu, ok := in.(*ssa.MapUpdate); ok && strings.HasSuffix(ssax.Path(mu.Map), ".finStates") {
				// reached only when the state is not in allSources (or is the done state)
				finComputed = true
			}
		})
	}
	// (c) acceptance by MustCopyWithState
	acceptSources := len(ssax.CallsTo(copyWith, load.Module+"/fsm/fsm.(FSM).StatesList")) > 0
	if !acceptSources {
		// membership tested directly on the transitions: `for k := range f.transitions { if k.source == state {…} }`
		for _, cd := range ssax.Conds(copyWith) {
			if cd.Op != token.EQL && cd.Op != token.NEQ || cd.Y == nil {
				continue
			}
			px, py := ssax.Path(cd.X), ssax.Path(cd.Y)
			isSrc := func(p string) bool {
				return strings.Contains(p, "range(") && strings.Contains(p, ".transitions)") && strings.HasSuffix(p, ".source")
			}
			if (isSrc(px) && py == "state") || (isSrc(py) && px == "state") {
				acceptSources = true
			}
		}
	}
	acceptFin := len(ssax.CallsTo(copyWith, load.Module+"/fsm/fsm.(FSM).IsFinState")) > 0
	// the fin acceptance must be able to set `exists` – i.e. it must not be on a path that panics anyway: the panic call
	// must be unreachable from the true edge of IsFinState
	if acceptFin {
		acceptFin = false
		for _, call := range ssax.CallsTo(copyWith, load.Module+"/fsm/fsm.(FSM).IsFinState") {
			if finAcceptSuppressesPanic(copyWith, call) {
				acceptFin = true
			}
		}
	}
	if !acceptSources {
		r.Unknown("C19/R1", "fsm.(*FSM).MustCopyWithState:shape", "MustCopyWithState accepts the states of StatesList()", c.Pos(copyWith.Pos()), "no call to StatesList")
		return
	}
	// (c') an accepted state is also INSTALLED: every return of MustCopyWithState lies behind `currentState = state`,
	// or behind a test that says there is nothing to install (state == "" / state == currentState)
	{
		var stores []ssa.Instruction
		ssax.Instrs(copyWith, func(in ssa.Instruction) {
			if st, ok := in.(*ssa.Store); ok {
				if fa, ok := st.Addr.(*ssa.FieldAddr); ok && ssax.FieldOf(fa) != nil && ssax.FieldOf(fa).Name() == "currentState" && ssax.Path(st.Val) == "state" {
					stores = append(stores, in)
				}
			}
		})
		var nothing []ssax.Edge
		for _, cd := range ssax.Conds(copyWith) {
			if (cd.Op != token.EQL && cd.Op != token.NEQ) || cd.Y == nil {
				continue
			}
			px, py := ssax.Path(cd.X), ssax.Path(cd.Y)
			other := ""
			if px == "state" {
				other = py
			} else if py == "state" {
				other = px
			}
			if k, isC := ssax.ConstString(cd.Y); (isC && k == "" && px == "state") || strings.HasSuffix(other, ".currentState") {
				if e, ok := cd.EdgeWhere(token.EQL); ok {
					nothing = append(nothing, e)
				}
			}
		}
		// (`state == ""` in every spelling: len(state) == 0, len(state) < 1, …)
		nothing = append(nothing, emptyEdges(copyWith, func(p string) bool { return p == "state" })...)
		bad := ""
		for _, ret := range ssax.Returns(copyWith) {
			if ssax.ReachableAvoiding(copyWith, ret, nothing, stores) {
				bad = c.PosOf(ret)
			}
		}
		r.Check(len(stores) > 0 && bad == "", "C19/R1", "fsm.(*FSM).MustCopyWithState:installs-state", "every accepted state is installed as the machine's current state", c.Pos(copyWith.Pos()),
			"the return at "+bad+" is reachable without `currentState = state`: a round dumped in such a state is restored without error but sits in the machine's initial state")
	}
	// (d) registration by fsm_pool.Init
	regSources, regFin := false, false
	ssax.Instrs(poolInit, func(in ssa.Instruction) {
		mu, ok := in.(*ssa.MapUpdate)
		if !ok || !strings.HasSuffix(ssax.Path(mu.Map), ".states") {
			return
		}
		kp := ssax.Path(mu.Key)
		if strings.Contains(kp, ".StatesList()") {
			regSources = true
		}
		if strings.Contains(kp, ".FinStatesList()") {
			regFin = true
			// between the range step and the registration only the "already registered" test may branch
			if nx := nextOf(mu.Key); nx != nil {
				for _, cd := range ssax.CondsBetween(poolInit, nx, mu) {
					cp := ssax.Path(cd.X)
					if cd.Op == 0 && (strings.Contains(cp, ".states[") || strings.Contains(cp, "next(")) {
						continue
					}
					r.Unknown("C19/R1", "fsm_pool.Init:fin-registration-filter", "every finish state not yet registered is registered", c.PosOf(cd.If),
						"an additional condition ("+cp+") can skip the registration of a finish state")
					regFin = false
				}
			}
		}
	})
	if !regSources {
		r.Unknown("C19/R1", "fsm_pool.Init:shape", "Init registers the states of machine.StatesList()", c.Pos(poolInit.Pos()), "no p.states[...] update keyed by StatesList() elements")
		return
	}
	regFin = regFin && finListOK && finComputed
	r.Note("C19/R1 model derived from code: StatesList={sources%s}; FinStatesList present=%v; MustCopyWithState accepts sources%s; fsm_pool.Init registers sources%s",
		map[bool]string{true: "+destinations", false: ""}[listHasDests], finListOK,
		map[bool]string{true: "+finish states", false: ""}[acceptFin], map[bool]string{true: "+finish states", false: ""}[regFin])

	// evaluate the model on the extracted tables
	type mach struct {
		name    string
		sources map[string]bool
		fin     map[string]bool
	}
	var machines []mach
	all := map[string]bool{stIdle: true}
	for _, rel := range fsmx.MachinePkgs {
		m := ms[rel]
		mm := mach{name: m.Name, sources: map[string]bool{}, fin: map[string]bool{}}
		for s := range m.Sources {
			mm.sources[s] = true
			all[s] = true
		}
		for d := range m.Dests {
			all[d] = true
			if !m.Sources[d] && d != stIdle {
				mm.fin[d] = true
			}
		}
		if listHasDests {
			for d := range m.Dests {
				mm.sources[d] = true
			}
		}
		machines = append(machines, mm)
	}
	// registration: loop 2 registers non-fin listed states with their machine (fin listed states go to the machine that starts there);
	// loop 3 registers remaining fin states
	reg := map[string]string{}
	for _, mm := range machines {
		for s := range mm.sources {
			if mm.fin[s] {
				continue
			}
			reg[s] = mm.name
		}
	}
	if regFin {
		for _, mm := range machines {
			for s := range mm.fin {
				if _, ok := reg[s]; !ok {
					reg[s] = mm.name
				}
			}
		}
	}
	var states []string
	for s := range all {
		states = append(states, s)
	}
	sort.Strings(states)
	for _, s := range states {
		name, ok := reg[s]
		if !ok {
			r.Fail("C19/R1", "restorable:"+s, "state is registered in FSMPool.states", "", "state "+s+" is reachable (destination of a transition) but no machine is registered for it: FromDump returns \"cannot init machine for state\" and GetFSMList fails for all rounds")
			continue
		}
		var mm mach
		for _, x := range machines {
			if x.name == name {
				mm = x
			}
		}
		acc := mm.sources[s] || (acceptFin && mm.fin[s])
		r.Check(acc, "C19/R1", "restorable:"+s, "state is registered with "+name+" and accepted by its MustCopyWithState", "",
			"state "+s+" is registered with "+name+" but MustCopyWithState panics for it (not in StatesList and finish states are not accepted)")
	}
}

func panics(fn *ssa.Function) []ssa.Instruction {
	var out []ssa.Instruction
	ssax.Instrs(fn, func(in ssa.Instruction) {
		if _, ok := in.(*ssa.Panic); ok {
			out = append(out, in)
		}
	})
	return out
}

func c19Payload(c *Ctx) {
	r := c.R
	r.Rule("C19/R2", "the dump carries everything: payload type closure is JSON round-trip safe; machines and the engine hold no other mutable state", 6)
	c19TimeIdentity(c)
	t := c.lookupType("C19/R2", "fsm/state_machines", "FSMDump")
	if t != nil {
		var issues []jsonIssue
		var visited []string
		jsonWalk(t, "FSMDump", map[string]bool{}, &issues, &visited)
		r.Count("json_types_walked", len(visited))
		if len(issues) == 0 {
			r.OKd("C19/R2", "json-safe:state_machines.FSMDump", "every field reachable from FSMDump survives json marshal/unmarshal", "", sprintf("%d types walked: %s", len(visited), strings.Join(shorten(visited), ", ")))
		}
		for _, is := range issues {
			r.Fail("C19/R2", "json-safe:"+is.Path, "field survives json marshal/unmarshal", "", is.Why)
		}
		// every field of the payload structs must be listed (guards against vacuity)
		r.Check(len(visited) >= 10, "C19/R2", "json-safe:closure-size", "type closure of the dump has the expected extent", "", sprintf("only %d types walked", len(visited)))
	}
	// machine structs: only {FSM, payload, payloadMu}
	for _, mt := range [][2]string{{pkgSPF, "SignatureProposalFSM"}, {pkgDPF, "DKGProposalFSM"}, {pkgSIF, "SigningProposalFSM"}} {
		tt := c.lookupType("C19/R2", mt[0], mt[1])
		if tt == nil {
			continue
		}
		fs := structFields(tt)
		var extra []string
		for n, ty := range fs {
			switch {
			case n == "FSM" && strings.HasSuffix(ty, "fsm/fsm.FSM"):
			case n == "payload" && strings.HasSuffix(ty, "internal.DumpedMachineStatePayload"):
			case strings.HasPrefix(ty, "sync."):
			default:
				extra = append(extra, n+" "+ty)
			}
		}
		sort.Strings(extra)
		r.Check(len(extra) == 0, "C19/R2", "machine-fields:"+mt[1], "machine holds only the engine, the payload pointer and a mutex", "",
			"additional field(s) "+strings.Join(extra, ", ")+" are not part of the dump: state cached there is lost on restore")
	}
	// engine: fields of fsm.FSM written outside MustNewFSM
	written := map[string][]string{}
	if sp := c.P.SSAPkg("fsm/fsm"); sp != nil {
		for fn := range c.P.AllFuncs() {
			if fn.Pkg != sp || fn.Name() == "MustNewFSM" {
				continue
			}
			ssax.Instrs(fn, func(in ssa.Instruction) {
				var addr ssa.Value
				switch x := in.(type) {
				case *ssa.Store:
					addr = x.Addr
				case *ssa.MapUpdate:
					addr = x.Map
					if u, ok := addr.(*ssa.UnOp); ok {
						addr = u.X
					}
				}
				if fa, ok := addr.(*ssa.FieldAddr); ok && ssax.OwnerName(fa) == "FSM" {
					// an observer hook — a func-typed field without results (a listener for logging/metrics) — cannot feed
					// anything back into the machine: it is not state that a restore would have to bring back
					if sig, isFn := ssax.FieldOf(fa).Type().Underlying().(*types.Signature); isFn && sig.Results().Len() == 0 {
						return
					}
					written[ssax.FieldOf(fa).Name()] = append(written[ssax.FieldOf(fa).Name()], fn.Name())
				}
			})
		}
	}
	var bad []string
	for f, fns := range written {
		if f != "currentState" {
			bad = append(bad, f+" (in "+strings.Join(fns, ",")+")")
		}
	}
	sort.Strings(bad)
	r.Check(len(written["currentState"]) > 0 && len(bad) == 0, "C19/R2", "engine-mutable-state:fsm.FSM", "after construction the engine mutates only currentState (which the dump's State restores)", "",
		"engine fields written after construction: "+strings.Join(bad, "; "))
}

func shorten(v []string) []string {
	var out []string
	for _, s := range v {
		out = append(out, strings.ReplaceAll(s, load.Module+"/", ""))
	}
	return out
}

func c19Siblings(c *Ctx, ms map[string]*fsmx.Machine) {
	r := c.R
	r.Rule("C19/R3", "WithSetup siblings install (state,payload); FromDump/Create pass the dump's own State and Payload; Do records the resulting state in the dump before marshalling", 6)
	for _, mt := range [][2]string{{pkgSPF, "SignatureProposalFSM"}, {pkgDPF, "DKGProposalFSM"}, {pkgSIF, "SigningProposalFSM"}} {
		fn := c.Fn("C19/R3", mt[0], mt[1], "WithSetup")
		if fn == nil {
			continue
		}
		payloadOK, stateOK := false, false
		var pstores []ssa.Instruction
		ssax.Instrs(fn, func(in ssa.Instruction) {
			if st, ok := in.(*ssa.Store); ok {
				if fa, ok := st.Addr.(*ssa.FieldAddr); ok && ssax.FieldOf(fa).Name() == "payload" && ssax.Path(st.Val) == "payload" {
					pstores = append(pstores, in)
				}
			}
		})
		payloadOK = len(pstores) > 0
		for _, ret := range ssax.Returns(fn) {
			if ret.Block() != fn.Recover && ssax.ReachableAvoiding(fn, ret, nil, pstores) {
				payloadOK = false // installation is conditional
			}
		}
		for _, call := range ssax.CallsTo(fn, load.Module+"/fsm/fsm.(FSM).MustCopyWithState") {
			if ssax.Path(call.Common().Args[1]) == "state" {
				stateOK = true
			}
		}
		r.Check(payloadOK && stateOK, "C19/R3", "with-setup:"+mt[1], "WithSetup stores the payload parameter and restores the state parameter", c.Pos(fn.Pos()),
			sprintf("payload installed=%v, MustCopyWithState(state)=%v", payloadOK, stateOK))
	}
	if fn := c.Fn("C19/R3", "fsm/state_machines", "", "FromDump"); fn != nil {
		ok := false
		for _, call := range ssax.Calls(fn, false, func(ci ssa.CallInstruction) bool { o := ssax.CalleeObj(ci); return o != nil && o.Name() == "WithSetup" }) {
			a := call.Common().Args
			if strings.HasSuffix(ssax.Path(a[len(a)-2]), ".dump.State") && strings.HasSuffix(ssax.Path(a[len(a)-1]), ".dump.Payload") {
				ok = true
			}
		}
		r.Check(ok, "C19/R3", "from-dump:with-setup-args", "FromDump hands the dump's own State and Payload to the machine", c.Pos(fn.Pos()), "WithSetup is not called with (i.dump.State, i.dump.Payload)")
		// the machine is chosen by the pool whose registration C19/R1 models
		inits := ssax.CallsTo(fn, load.Module+"/fsm/fsm_pool.Init")
		mbs := ssax.CallsTo(fn, load.Module+"/fsm/fsm_pool.(FSMPool).MachineByState")
		poolOK := len(inits) == 1 && len(mbs) == 1
		if poolOK {
			poolOK = ssax.ResultOf(mbs[0].Common().Args[0], inits[0], -1) && strings.HasSuffix(ssax.Path(mbs[0].Common().Args[1]), ".dump.State")
			el := sliceElems(inits[0].Common().Args[0])
			news := 0
			for _, e := range el {
				if strings.HasSuffix(ssax.Path(e), "_fsm.New()") {
					news++
				}
			}
			if news != 3 {
				poolOK = false
			}
			for _, call := range ssax.Calls(fn, false, func(ci ssa.CallInstruction) bool { o := ssax.CalleeObj(ci); return o != nil && o.Name() == "WithSetup" }) {
				if !strings.Contains(ssax.Path(call.Common().Value), "MachineByState(") {
					poolOK = false
				}
			}
		}
		r.Check(poolOK, "C19/R3", "from-dump:machine-from-pool", "FromDump restores through fsm_pool.Init(three machines).MachineByState(dump.State) — the registration that C19/R1 proves complete", c.Pos(fn.Pos()),
			"the machine is not obtained from the pool's MachineByState(dump.State): the state->machine mapping used for restoring is not the one proved to cover every reachable state")
		if mb := c.Fn("C19/R3", "fsm/fsm_pool", "FSMPool", "MachineByState"); mb != nil {
			okMB := false
			ssax.Instrs(mb, func(in ssa.Instruction) {
				if lk, isLk := in.(*ssa.Lookup); isLk && strings.HasSuffix(ssax.Path(lk.X), "p.states") && ssax.Path(lk.Index) == "state" {
					okMB = true
				}
			})
			r.Check(okMB, "C19/R3", "fsm_pool.MachineByState:lookup", "MachineByState resolves through p.states[state]", c.Pos(mb.Pos()), "lookup p.states[state] not found")
		}
		// the unmarshal error edge returns
		um := ssax.Calls(fn, false, func(ci ssa.CallInstruction) bool { o := ssax.CalleeObj(ci); return o != nil && o.Name() == "Unmarshal" })
		good := len(um) > 0
		for _, u := range um {
			ne := ssax.NilErrEdgesOfCall(fn, u)
			for _, call := range ssax.Calls(fn, false, func(ci ssa.CallInstruction) bool {
				o := ssax.CalleeObj(ci)
				return o != nil && o.Name() == "MachineByState"
			}) {
				if len(ne) == 0 || ssax.ReachableAvoiding(fn, call, ne, nil) {
					good = false
				}
			}
		}
		r.Check(good, "C19/R3", "from-dump:unmarshal-checked", "a dump that does not parse is refused", c.Pos(fn.Pos()), "MachineByState reachable without a successful Unmarshal")
		// restoring is read-only on the dump: between decoding and handing the payload to the machine nothing rewrites the
		// payload (derived lookups re-computed at load time would replace what a later writer — the reinit key update —
		// stored in them)
		wr := c19PayloadWriters(c)
		mutated := ""
		ssax.Instrs(fn, func(in ssa.Instruction) {
			switch x := in.(type) {
			case *ssa.Store:
				if fa, ok := x.Addr.(*ssa.FieldAddr); ok && isPayloadType(fa.X.Type()) {
					mutated = "a store to " + trimPath(ssax.Path(x.Addr)) + " at " + c.PosOf(in)
				}
			case *ssa.MapUpdate:
				if strings.Contains(ssax.Path(x.Map), ".dump.Payload") {
					mutated = "a map update of " + trimPath(ssax.Path(x.Map)) + " at " + c.PosOf(in)
				}
			case ssa.CallInstruction:
				touches := false
				for _, a := range x.Common().Args {
					if strings.Contains(ssax.Path(a), ".dump.Payload") {
						touches = true
					}
				}
				if !touches {
					return
				}
				if o := ssax.CalleeObj(x); o != nil && o.Name() == "WithSetup" {
					return // installs the pointer, judged by the sibling rule
				}
				for _, callee := range c.calleesAt(x) {
					if wr[callee] {
						mutated = "a call of " + load.FuncName(callee) + ", which writes payload fields, at " + c.PosOf(in)
					}
				}
			}
		})
		r.Check(mutated == "", "C19/R3", "from-dump:payload-read-only", "restoring a dump does not rewrite its payload", c.Pos(fn.Pos()),
			mutated+": the restored round differs from the round that was dumped (dump → restore → dump is not a fixed point)")
	}
	if fn := c.Fn("C19/R3", "fsm/state_machines", "FSMInstance", "Do"); fn != nil {
		// store i.dump.State = result.State must precede Marshal, under result != nil
		var stateStores, marshals []ssa.Instruction
		ssax.Instrs(fn, func(in ssa.Instruction) {
			if st, ok := in.(*ssa.Store); ok {
				if strings.HasSuffix(ssax.Path(st.Addr), ".dump.State") && strings.HasSuffix(ssax.Path(st.Val), ".State") {
					stateStores = append(stateStores, in)
				}
			}
		})
		for _, call := range ssax.Calls(fn, false, func(ci ssa.CallInstruction) bool { o := ssax.CalleeObj(ci); return o != nil && o.Name() == "Marshal" }) {
			marshals = append(marshals, call)
		}
		ok := len(stateStores) > 0 && len(marshals) > 0
		for _, m := range marshals {
			if ssax.ReachableAvoiding(fn, m, nil, stateStores) {
				ok = false
			}
		}
		r.Check(ok, "C19/R3", "instance-do:state-before-marshal", "the dump returned by Do carries the state the machine ended in", c.Pos(fn.Pos()), "dump.Marshal() reachable without first storing result.State into dump.State")
		// the dump's state follows the machine only when the machine accepted the event: FSM.do answers a refused event
		// with an empty response next to the callback's error, and copying its (empty) State would make the instance's
		// own dump unrestorable
		mdos := ssax.Calls(fn, false, func(ci ssa.CallInstruction) bool {
			o := ssax.CalleeObj(ci)
			return o != nil && o.Name() == "Do" && strings.HasSuffix(ssax.Path(ci.Common().Value), ".machine")
		})
		okAcc := len(mdos) == 1 && len(stateStores) > 0
		if okAcc {
			ne := ssax.NilErrEdgesOfCall(fn, mdos[0])
			for _, st := range stateStores {
				if len(ne) == 0 || ssax.ReachableAvoiding(fn, st, ne, nil) {
					okAcc = false
				}
			}
		}
		r.Check(okAcc, "C19/R3", "instance-do:state-only-on-success", "dump.State is updated only when the machine accepted the event", c.Pos(fn.Pos()),
			"the store of result.State into the dump is reachable although machine.Do returned an error: after an event refused by its callback Dump() yields a dump with an empty State that FromDump cannot restore")
		// a dump that could not be produced must not be handed out with a nil error (the node would persist it): on the
		// failure edge of Marshal the returned error is that failure, or an error known to be non-nil
		for i, m := range marshals {
			call := m.(ssa.CallInstruction)
			okE := ssax.NilErrEdgesOfCall(fn, call)
			bad := ""
			if len(okE) == 0 {
				bad = "the error of dump.Marshal() is not tested"
			}
			for _, e := range okE {
				fail := e.From.Succs[1-e.Succ]
				if len(fail.Instrs) == 0 {
					continue
				}
				for _, ret := range ssax.Returns(fn) {
					if ret.Block() == fn.Recover || len(ret.Results) == 0 {
						continue
					}
					ev := ret.Results[len(ret.Results)-1]
					for _, lf := range ssax.Leaves(ev, ret) {
						if !(lf.At.Block() == fail || ssax.ReachableFrom(fn, fail.Instrs[0], lf.At, nil, nil)) {
							continue
						}
						v := ssax.Resolve(lf.V)
						if ssax.IsNilConst(v) {
							bad = "nil is returned at " + c.PosOf(ret)
							continue
						}
						if valueFlowsFrom(lf.V, call, ssax.ErrIndex(call)) || propagatesFreshError(v) {
							continue
						}
						bad = "the error returned at " + c.PosOf(ret) + " is " + npath(lf.V) + ", which may be nil"
					}
				}
			}
			r.Check(bad == "", "C19/R3", sprintf("instance-do:marshal-failure-reported#%d", i+1), "when the dump cannot be encoded Do reports an error instead of handing out an empty dump", c.PosOf(m),
				bad+": the node stores the empty dump of an accepted event, the round can never be restored and listing fails for every round")
		}
	}
}

func c19Listing(c *Ctx) {
	r := c.R
	r.Rule("C19/R5", "the round handed out for a message is restored from the stored dump at that moment (or freshly created), never an instance kept from an earlier call; the all-rounds blob is rewritten under one fixed lock", 3)
	for _, name := range []string{"GetFSMInstance", "loadFSM"} {
		if fn := c.Fn("C19/R5", "client/services/fsmservice", "FSM", name); fn != nil {
			why := c19FreshInstance(c, fn, 0)
			r.Check(why == "", "C19/R5", "fsmservice."+name+":as-persisted", "every instance returned is the result of FromDump (of the stored dump) or Create in this very call", c.Pos(fn.Pos()),
				why+": an instance that outlives the call is changed in place by Do; if that change is not saved (an error after Do, before SaveFSM) the service keeps answering from a round that a restored node does not have")
		}
	}
	// ... and what is stored for a round is what was last saved for it: the blob of all rounds is rewritten under one lock
	c14RMWAs(c, c14Roots(c), "C19/R5", "SaveFSM")
	r.Rule("C19/R4", "listing restores every stored round through FromDump and propagates an error", 1)
	fn := c.Fn("C19/R4", "client/services/fsmservice", "FSM", "GetAllFSM")
	if fn == nil {
		return
	}
	calls := ssax.CallsTo(fn, load.Module+"/fsm/state_machines.FromDump")
	ok := len(calls) > 0
	for _, call := range calls {
		if !strings.Contains(ssax.Path(call.Common().Args[0]), "next(range(") {
			ok = false
		}
	}
	r.Check(ok, "C19/R4", "fsmservice.GetAllFSM:restore-each", "every stored dump is restored with FromDump inside the range over all rounds", c.Pos(fn.Pos()), "FromDump not applied to each ranged entry")
}

// finAcceptSuppressesPanic: the panic of MustCopyWithState is guarded by a boolean flag (phi); on the path from the
// true edge of IsFinState(state) the flag receives the constant that makes the panic branch untaken.
func finAcceptSuppressesPanic(fn *ssa.Function, call ssa.CallInstruction) bool {
	pns := panics(fn)
	if len(pns) == 0 {
		return false
	}
	te := ssax.BoolEdgesOfCall(fn, call, -1, true)
	if len(te) == 0 {
		// `return f.IsFinState(state)` in a helper / `exists = f.IsFinState(state)`: the call's result itself is one
		// alternative of the flag; the panic must be reachable only when the flag is false
		cv, _ := call.(ssa.Value)
		if cv == nil {
			return false
		}
		for _, pn := range pns {
			ok := false
			for _, cd := range ssax.Conds(fn) {
				if cd.Op != 0 {
					continue
				}
				phi, isPhi := ssax.Resolve(cd.X).(*ssa.Phi)
				if !isPhi {
					continue
				}
				e, _ := cd.BoolEdge(false)
				if ssax.ReachableAvoiding(fn, pn, []ssax.Edge{e}, nil) {
					continue // the panic is reachable with the flag true
				}
				for _, ev := range phi.Edges {
					if ssax.Resolve(ev) == cv {
						ok = true
					}
				}
			}
			if !ok {
				return false
			}
		}
		return true
	}
	if len(te) != 1 {
		return false
	}
	b := te[0].From.Succs[te[0].Succ]
	// simplest form: the call is branched on directly (`if !isSource(s) && !f.IsFinState(s) { panic }`): from the true
	// edge no panic is reachable (the reachability is aware of merged boolean flags)
	direct := true
	for _, pn := range pns {
		if len(b.Instrs) == 0 || b.Instrs[0] == pn || ssax.ReachableFrom(fn, b.Instrs[0], pn, nil, nil) {
			direct = false
		}
	}
	if direct {
		return true
	}
	for _, pn := range pns {
		ok := false
		for _, cd := range ssax.Conds(fn) {
			if cd.Op != 0 { // token.ILLEGAL
				continue
			}
			phi, isPhi := ssax.Resolve(cd.X).(*ssa.Phi)
			if !isPhi {
				continue
			}
			for _, pv := range []bool{true, false} {
				e, _ := cd.BoolEdge(pv)
				other := ssax.Edge{From: e.From, Succ: 1 - e.Succ}
				// panic only reachable through edge e (flag == pv)?
				if ssax.ReachableAvoiding(fn, pn, []ssax.Edge{e}, nil) {
					continue
				}
				_ = other
				// value of the flag when coming from b
				for i, pred := range phi.Block().Preds {
					if pred == b || (len(b.Succs) == 1 && b.Succs[0] == pred) {
						if k, isC := ssax.Resolve(phi.Edges[i]).(*ssa.Const); isC && k.Value != nil && (k.Value.String() == "true") != pv {
							ok = true
						}
					}
				}
			}
		}
		if !ok {
			return false
		}
	}
	return true
}

// nextOf returns the Next instruction a ranged key/value derives from.
func nextOf(v ssa.Value) *ssa.Next {
	v = ssax.Resolve(v)
	if ex, ok := v.(*ssa.Extract); ok {
		if n, ok := ex.Tuple.(*ssa.Next); ok {
			return n
		}
	}
	if u, ok := v.(*ssa.UnOp); ok {
		if ia, ok := u.X.(*ssa.IndexAddr); ok {
			_ = ia
		}
	}
	return nil
}


// propagatesFreshError: v is a newly constructed error (fmt.Errorf / errors.New).
func propagatesFreshError(v ssa.Value) bool {
	call, ok := v.(*ssa.Call)
	if !ok {
		return false
	}
	id := ssax.FuncID(ssax.CalleeObj(call))
	return id == "fmt.Errorf" || id == "errors.New"
}


// isPayloadType: *DumpedMachineStatePayload or one of the structures hanging off it.
func isPayloadType(t types.Type) bool {
	if pt, ok := t.Underlying().(*types.Pointer); ok {
		t = pt.Elem()
	}
	nt, ok := t.(*types.Named)
	if !ok || nt.Obj().Pkg() == nil || !strings.HasSuffix(nt.Obj().Pkg().Path(), "fsm/state_machines/internal") {
		return false
	}
	_, isStruct := nt.Underlying().(*types.Struct)
	return isStruct
}

// c19PayloadWriters: module functions that (transitively) store into fields or maps of the payload structures.
func c19PayloadWriters(c *Ctx) map[*ssa.Function]bool {
	direct := map[*ssa.Function]bool{}
	for fn := range c.P.AllFuncs() {
		if !load.InModule(fn) || c.isTestFunc(fn) {
			continue
		}
		ssax.Instrs(fn, func(in ssa.Instruction) {
			switch x := in.(type) {
			case *ssa.Store:
				if fa, ok := x.Addr.(*ssa.FieldAddr); ok && isPayloadType(fa.X.Type()) {
					direct[fn] = true
				}
			case *ssa.MapUpdate:
				m := x.Map
				if ld, ok := m.(*ssa.UnOp); ok {
					if fa, ok := ld.X.(*ssa.FieldAddr); ok && isPayloadType(fa.X.Type()) {
						direct[fn] = true
					}
				}
			}
		})
	}
	out := map[*ssa.Function]bool{}
	cg := c.P.CallGraph()
	var visit func(f *ssa.Function, seen map[*ssa.Function]bool) bool
	visit = func(f *ssa.Function, seen map[*ssa.Function]bool) bool {
		if direct[f] {
			return true
		}
		if seen[f] || !load.InModule(f) {
			return false
		}
		seen[f] = true
		if n := cg.Nodes[f]; n != nil {
			for _, e := range n.Out {
				if visit(e.Callee.Func, seen) {
					return true
				}
			}
		}
		return false
	}
	for fn := range c.P.AllFuncs() {
		if load.InModule(fn) && visit(fn, map[*ssa.Function]bool{}) {
			out[fn] = true
		}
	}
	return out
}


// c19FreshInstance: every *FSMInstance that fn can return is nil, the result of state_machines.FromDump / Create called
// in fn, or the result of a module helper of the same package for which the same holds. Returns "" or the offending shape.
func c19FreshInstance(c *Ctx, fn *ssa.Function, depth int) string {
	for _, ret := range ssax.Returns(fn) {
		if len(ret.Results) == 0 {
			continue
		}
		for _, lf := range ssax.Leaves(ret.Results[0], ret) {
			v := ssax.Resolve(lf.V)
			if ssax.IsNilConst(v) {
				continue
			}
			call := callOfResult(v)
			if call == nil {
				return fn.Name() + " returns " + ssax.Path(v) + " at " + c.PosOf(ret) + ", which is not restored or created in this call"
			}
			id := ssax.FuncID(ssax.CalleeObj(call))
			if strings.HasSuffix(id, "fsm/state_machines.FromDump") || strings.HasSuffix(id, "fsm/state_machines.Create") {
				continue
			}
			cal := call.Common().StaticCallee()
			if cal == nil || !load.InModule(cal) || cal.Pkg != fn.Pkg || depth >= 2 {
				return fn.Name() + " returns the result of " + id + " at " + c.PosOf(ret)
			}
			if why := c19FreshInstance(c, cal, depth+1); why != "" {
				return why
			}
		}
	}
	return ""
}


// c19TimeIdentity: `==`/`!=` on time.Time (or on a struct/array containing one) compares the in-memory representation —
// wall/monotonic words and the *Location pointer — which JSON does not preserve: a value copied from a request compares
// equal to that request's value in memory and different after dump+restore. Equal/Before/After compare instants.
// Census over the machine packages, the request types and the engine; expected count zero.
func c19TimeIdentity(c *Ctx) {
	r := c.R
	var bad []string
	n := 0
	containsTime := func(t types.Type) bool {
		var walk func(t types.Type, d int) bool
		walk = func(t types.Type, d int) bool {
			if d > 4 {
				return false
			}
			if nt, ok := t.(*types.Named); ok && nt.Obj().Pkg() != nil && nt.Obj().Pkg().Path() == "time" && nt.Obj().Name() == "Time" {
				return true
			}
			switch u := t.Underlying().(type) {
			case *types.Struct:
				for i := 0; i < u.NumFields(); i++ {
					if walk(u.Field(i).Type(), d+1) {
						return true
					}
				}
			case *types.Array:
				return walk(u.Elem(), d+1)
			}
			return false
		}
		return walk(t, 0)
	}
	for fn := range c.P.AllFuncs() {
		if !load.InModule(fn) || c.isTestFunc(fn) || fn.Pkg == nil || len(fn.Blocks) == 0 {
			continue
		}
		pp := fn.Pkg.Pkg.Path()
		if !(strings.Contains(pp, "/fsm/") || strings.HasSuffix(pp, "/fsm")) {
			continue
		}
		n++
		ssax.Instrs(fn, func(in ssa.Instruction) {
			if b, ok := in.(*ssa.BinOp); ok && (b.Op == token.EQL || b.Op == token.NEQ) && containsTime(b.X.Type()) {
				bad = append(bad, shortFn(fn)+" at "+c.PosOf(in))
			}
		})
	}
	r.Count("r2_fsm_functions_scanned_for_time_identity", n)
	sort.Strings(bad)
	r.Check(len(bad) == 0 && n > 50, "C19/R2", "fsm:no-time-identity-comparison", "no == / != on time.Time values in the FSM packages", "", "compared by representation: "+strings.Join(bad, "; ")+" — equal in memory, unequal (or the reverse) once the value has been through the dump")
}
