package rules

import (
	"go/token"
	"sort"
	"strings"

	"dcverif/internal/load"
	"dcverif/internal/ssax"

	"golang.org/x/tools/go/ssa"
)

func init() { Registry["C09"] = C09 }

// C09 — no state change without a valid signature by the claimed sender's registered key.
func C09(c *Ctx) {
	r := c.R
	r.Explain = "Decided statically: (R1) in node.processMessage every call that can reach a durable write, a board post or an FSM event (resolved through the VTA call graph) lies behind the success edge of verifyMessage(fsmInstance, message) or the equal edge of message.Event == event_sig_proposal_init; ProcessMessage diverts only message.Event == reinit_dkg to reinitDKG; " +
		"(R2) verifyMessage returns nil only via the skip switch or the true edge of ed25519.Verify(key, message.Bytes(), message.Signature) with key = GetPubKeyByUsername(message.SenderAddr) of the same instance; the key lookup fails for unknown/empty names; registered keys are written only by the opening proposal and the reinit key update; " +
		"(R3) the skip switch is written only by its setter, called from the daemon flag and from reinitDKG where `true` is paired with a deferred `false` on every exit; (R4) a persisting call that precedes verification (the round lookup, if it creates and stores a round) is recorded as an observation and decided under C18/R2. " +
		"NOT decided: ed25519 itself; the per-byte mutation quantifier (execution)."
	r.Trusted = []string{"crypto/ed25519.Verify", "VTA call graph (x/tools v0.29.0) for effect reachability", "go/ssa"}
	r.Rule("C09/R1", "every effect in processMessage is dominated by verification success or the opening-proposal exemption", 6)
	r.Rule("C09/R2", "verifyMessage accepts only a valid ed25519 signature by the sender's registered key (or the explicit skip switch)", 6)
	r.Rule("C09/R3", "the skip switch has one writer; reinitDKG's `true` is paired with a deferred `false`", 3)
	c09Effects(c)
	c09Verify(c)
	c09Skip(c)
}

func c09Effects(c *Ctx) {
	r := c.R
	fn := c.Fn("C09/R1", pkgNode, "BaseNodeService", "processMessage")
	if fn == nil {
		return
	}
	verifies := ssax.CallsTo(fn, load.Module+"/"+pkgNode+".(BaseNodeService).verifyMessage")
	if len(verifies) != 1 {
		r.Fail("C09/R1", "node.processMessage:verifyMessage", "processMessage verifies the message exactly once", c.Pos(fn.Pos()), sprintf("%d calls to verifyMessage", len(verifies)))
		return
	}
	v := verifies[0]
	// arguments: the instance obtained for this message's round, and the message itself
	a := v.Common().Args
	argsOK := strings.Contains(ssax.Path(a[1]), "GetFSMInstance(message.DkgRoundID") && ssax.Path(a[2]) == "message"
	r.Check(argsOK, "C09/R1", "node.processMessage:verifyMessage:args", "verification uses this round's instance and this message", c.PosOf(v), "arguments are ("+ssax.Path(a[1])+", "+ssax.Path(a[2])+")")
	guard := ssax.NilErrEdgesOfCall(fn, v)
	// exemption: message.Event == EventInitProposal
	var exempt []ssax.Edge
	for _, cd := range ssax.Conds(fn) {
		if cd.Op != token.EQL && cd.Op != token.NEQ {
			continue
		}
		for _, pr := range [][2]ssa.Value{{cd.X, cd.Y}, {cd.Y, cd.X}} {
			if s, ok := ssax.ConstString(pr[1]); ok && s == evSigInit && ssax.Path(pr[0]) == "message.Event" {
				// only the test that guards the verifyMessage call counts (not the dispatch switch further down)
				e, _ := cd.EdgeWhere(token.EQL)
				ne := ssax.Edge{From: e.From, Succ: 1 - e.Succ}
				if !ssax.ReachableAvoiding(fn, v, []ssax.Edge{ne}, nil) {
					exempt = append(exempt, e)
				}
			}
		}
	}
	// the exemption may also live inside verifyMessage (an early `return nil` for the opening proposal)
	inVerify := 0
	if vfn := c.P.Func(pkgNode, "BaseNodeService", "verifyMessage"); vfn != nil {
		inVerify = len(c09VerifyExemptions(vfn))
	}
	r.Check(len(exempt)+inVerify == 1, "C09/R1", "node.processMessage:exemption", "the only unverified event is the opening proposal (message.Event == event_sig_proposal_init)", c.PosOf(v),
		sprintf("%d exemption tests recognised around verifyMessage and %d inside it (expected exactly the `message.Event != EventInitProposal` guard)", len(exempt), inVerify))
	cut := append(append([]ssax.Edge{}, guard...), exempt...)
	// effect census
	type eff struct {
		call ssa.CallInstruction
		why  string
	}
	var effs []eff
	ncalls := 0
	for _, call := range ssax.Calls(fn, true, func(ssa.CallInstruction) bool { return true }) {
		ncalls++
		if call == v {
			continue
		}
		if _, isDefer := call.(*ssa.Defer); isDefer {
			continue
		}
		isEffect := func(f *ssa.Function) bool { return isDurableSink(f) || isFSMDo(f) }
		if p, ok := c.siteReaches(call, isEffect); ok {
			effs = append(effs, eff{call, strings.Join(p, " -> ")})
		}
	}
	r.Count("processMessage_calls", ncalls)
	r.Count("processMessage_effect_calls", len(effs))
	idx := map[string]int{}
	pre := 0
	for _, e := range effs {
		name := callName(e.call)
		if name == "" {
			name = "dynamic"
		}
		idx[name]++
		key := sprintf("node.processMessage->%s#%d", name, idx[name])
		if e.call.Parent() != fn {
			key += "(closure)"
		}
		// the instance lookup itself necessarily precedes verification (it supplies the keys); recorded under R4
		if strings.HasSuffix(name, "fsmservice.(FSMService).GetFSMInstance") && !ssax.ReachableAvoiding(fn, v, nil, []ssa.Instruction{e.call}) {
			pre++
			r.Note("C09/R4 (observation): %s at %s precedes verification and can persist a fresh empty round for an unverifiable message (%s); existing rounds, pool and store are untouched — reported under C18/R2", name, c.PosOf(e.call), e.why)
			continue
		}
		ok := len(guard) > 0 && e.call.Parent() == fn && !ssax.ReachableAvoiding(fn, e.call, cut, nil)
		r.Check(ok, "C09/R1", key, "effect only after successful verification (or for the opening proposal)", c.PosOf(e.call),
			"this call can change durable state / the round ("+e.why+") and is reachable without passing `verifyMessage(...) == nil` or the opening-proposal test")
	}
	if len(effs)-pre < 5 {
		r.Unknown("C09/R1", "node.processMessage:effect-census", "the effect census sees the handler's writes", c.Pos(fn.Pos()), sprintf("only %d effect calls found via the call graph", len(effs)-pre))
	}
	// ProcessMessage: the reinit diversion is pinned to message.Event == reinit_dkg, everything else goes through processMessage
	if pm := c.Fn("C09/R1", pkgNode, "BaseNodeService", "ProcessMessage"); pm != nil {
		var re []ssax.Edge
		for _, cd := range ssax.Conds(pm) {
			if cd.Op != token.EQL && cd.Op != token.NEQ {
				continue
			}
			for _, pr := range [][2]ssa.Value{{cd.X, cd.Y}, {cd.Y, cd.X}} {
				if s, ok := ssax.ConstString(pr[1]); ok && s == "reinit_dkg" && ssax.Path(pr[0]) == "message.Event" {
					e, _ := cd.EdgeWhere(token.EQL)
					re = append(re, e)
				}
			}
		}
		for i, call := range ssax.CallsTo(pm, load.Module+"/"+pkgNode+".(BaseNodeService).reinitDKG") {
			r.Check(len(re) > 0 && !ssax.ReachableAvoiding(pm, call, re, nil), "C09/R1", sprintf("node.ProcessMessage->reinitDKG#%d", i+1), "the unverified reinit path is taken only for message.Event == reinit_dkg", c.PosOf(call),
				"reinitDKG reachable for other events")
		}
		puts := ssax.Calls(pm, false, func(ci ssa.CallInstruction) bool {
			o := ssax.CalleeObj(ci)
			return o != nil && o.Name() == "PutOperation"
		})
		pcs := ssax.CallsTo(pm, load.Module+"/"+pkgNode+".(BaseNodeService).processMessage")
		ok := len(puts) == 1 && len(pcs) == 1
		if ok {
			ne := ssax.NilErrEdgesOfCall(pm, pcs[0])
			ok = len(ne) > 0 && !ssax.ReachableAvoiding(pm, puts[0], ne, nil) && strings.Contains(ssax.Path(puts[0].Common().Args[len(puts[0].Common().Args)-1]), "processMessage(message)#0")
		}
		r.Check(ok, "C09/R1", "node.ProcessMessage->PutOperation", "the pool receives only the operation returned by a successful processMessage", c.Pos(pm.Pos()), "PutOperation is not fed by processMessage's result under its nil-error edge")
	}
}

// c09VerifyExemptions: equal edges of `message.Event == event_sig_proposal_init` tests in verifyMessage that let a nil
// return through without a signature check.
func c09VerifyExemptions(fn *ssa.Function) []ssax.Edge {
	var okEdges []ssax.Edge
	for _, vf := range ssax.CallsTo(fn, "crypto/ed25519.Verify") {
		okEdges = append(okEdges, ssax.BoolEdgesOfCall(fn, vf, -1, true)...)
	}
	for _, s := range ssax.CallsTo(fn, load.Module+"/"+pkgNode+".(BaseNodeService).GetSkipCommKeysVerification") {
		okEdges = append(okEdges, ssax.BoolEdgesOfCall(fn, s, -1, true)...)
	}
	var out []ssax.Edge
	for _, cd := range ssax.Conds(fn) {
		if cd.Op != token.EQL && cd.Op != token.NEQ {
			continue
		}
		for _, pr := range [][2]ssa.Value{{cd.X, cd.Y}, {cd.Y, cd.X}} {
			if s, ok := ssax.ConstString(pr[1]); !ok || s != evSigInit || ssax.Path(pr[0]) != "message.Event" {
				continue
			}
			e, _ := cd.EdgeWhere(token.EQL)
			lets := false
			for _, ret := range ssax.Returns(fn) {
				if ret.Block() == fn.Recover || len(ret.Results) != 1 {
					continue
				}
				for _, lf := range ssax.Leaves(ret.Results[0], ret) {
					if ssax.IsNilConst(lf.V) && ssax.ReachableAvoiding(fn, lf.At, okEdges, nil) && !ssax.ReachableAvoiding(fn, lf.At, append(append([]ssax.Edge{}, okEdges...), e), nil) {
						lets = true
					}
				}
			}
			if lets {
				out = append(out, e)
			}
		}
	}
	return out
}

func c09Verify(c *Ctx) {
	r := c.R
	fn := c.Fn("C09/R2", pkgNode, "BaseNodeService", "verifyMessage")
	if fn == nil {
		return
	}
	verifs := ssax.CallsTo(fn, "crypto/ed25519.Verify")
	skips := ssax.CallsTo(fn, load.Module+"/"+pkgNode+".(BaseNodeService).GetSkipCommKeysVerification")
	if len(verifs) != 1 {
		r.Fail("C09/R2", "node.verifyMessage:ed25519.Verify", "verifyMessage calls ed25519.Verify exactly once", c.Pos(fn.Pos()), sprintf("%d calls", len(verifs)))
		return
	}
	vf := verifs[0]
	var okEdges []ssax.Edge
	okEdges = append(okEdges, ssax.BoolEdgesOfCall(fn, vf, -1, true)...)
	nVerifyEdges := len(okEdges)
	for _, s := range skips {
		okEdges = append(okEdges, ssax.BoolEdgesOfCall(fn, s, -1, true)...)
	}
	// (or behind the opening-proposal exemption, when the caller's guard was moved into this function; C09/R1 counts it)
	okEdges = append(okEdges, c09VerifyExemptions(fn)...)
	// every `return nil` lies behind one of those edges
	n := 0
	for _, ret := range ssax.Returns(fn) {
		if ret.Block() == fn.Recover || len(ret.Results) != 1 {
			continue
		}
		// the returned value may be a merge (`return helper(...)` with the helper expanded): every alternative is
		// judged where it is chosen
		for _, lf := range ssax.Leaves(ret.Results[0], ret) {
			if !ssax.IsNilConst(lf.V) {
				// a non-constant result: must be an error value produced on a failure path
				if _, isCall := lf.V.(*ssa.Call); isCall {
					continue
				}
				r.Unknown("C09/R2", sprintf("node.verifyMessage:return#%d", n), "return value is nil or a fresh error", c.PosOf(ret), "result is "+ssax.Path(lf.V))
				continue
			}
			n++
			r.Check(nVerifyEdges > 0 && !ssax.ReachableAvoiding(fn, lf.At, okEdges, nil), "C09/R2", sprintf("node.verifyMessage:return-nil#%d", n), "nil is returned only past ed25519.Verify == true or the skip switch", c.PosOf(ret),
				"a `return nil` is reachable without a successful signature verification")
		}
	}
	r.Check(n >= 1, "C09/R2", "node.verifyMessage:accepts", "verifyMessage can accept", c.Pos(fn.Pos()), "no nil return found")
	a := vf.Common().Args
	keyP, msgP, sigP := ssax.Path(a[0]), ssax.Path(a[1]), ssax.Path(a[2])
	r.Check(strings.Contains(keyP, "fsmInstance.GetPubKeyByUsername(message.SenderAddr)"), "C09/R2", "node.verifyMessage:key", "the key is the one registered in this round for message.SenderAddr", c.PosOf(vf), "key argument is "+keyP)
	r.Check(strings.HasSuffix(msgP, "message.Bytes()") || msgP == "message.Bytes()", "C09/R2", "node.verifyMessage:signed-bytes", "the bytes verified are message.Bytes()", c.PosOf(vf), "message argument is "+msgP)
	r.Check(sigP == "message.Signature", "C09/R2", "node.verifyMessage:signature", "the signature verified is message.Signature", c.PosOf(vf), "signature argument is "+sigP)
	// the key lookup's error edge returns
	for _, lk := range ssax.Calls(fn, false, func(ci ssa.CallInstruction) bool {
		o := ssax.CalleeObj(ci)
		return o != nil && o.Name() == "GetPubKeyByUsername"
	}) {
		ne := ssax.NilErrEdgesOfCall(fn, lk)
		r.Check(len(ne) > 0 && !ssax.ReachableAvoiding(fn, vf, ne, nil), "C09/R2", "node.verifyMessage:key-lookup-checked", "an unknown sender is rejected before Verify", c.PosOf(lk), "ed25519.Verify reachable although the key lookup failed")
	}
	// Message.Bytes covers Data
	if bf := c.Fn("C09/R2", "storage", "Message", "Bytes"); bf != nil {
		covers := false
		ssax.Instrs(bf, func(in ssa.Instruction) {
			if call, ok := in.(ssa.CallInstruction); ok {
				for _, arg := range call.Common().Args {
					if strings.HasSuffix(ssax.Path(arg), "m.Data") {
						covers = true
					}
				}
			}
		})
		r.Check(covers, "C09/R2", "storage.(*Message).Bytes:covers-data", "the signed bytes include the message payload (Data)", c.Pos(bf.Pos()), "m.Data does not flow into the buffer returned by Bytes(): any payload would verify")
	}
	// key registry lookup: (key, nil) only on the ok edge of PubKeys[username]
	if gf := c.Fn("C09/R2", pkgInternal, "DumpedMachineStatePayload", "GetPubKeyByUsername"); gf != nil {
		okE := lookupEdges(gf, "PubKeys", true)
		bad := false
		nn := 0
		for _, ret := range ssax.Returns(gf) {
			if len(ret.Results) == 2 && ssax.IsNilConst(ssax.Resolve(ret.Results[1])) {
				nn++
				if len(okE) == 0 || ssax.ReachableAvoiding(gf, ret, okE, nil) {
					bad = true
				}
				if !strings.Contains(ssax.Path(ret.Results[0]), ".PubKeys[username]") {
					bad = true
				}
			}
		}
		r.Check(nn >= 1 && !bad, "C09/R2", "internal.GetPubKeyByUsername:found-only", "a key is returned without error only when PubKeys contains the user name", c.Pos(gf.Pos()), "success return not guarded by the map lookup's ok")
	}
	// writers of PubKeys
	var writers []string
	for f := range c.P.AllFuncs() {
		if !load.InModule(f) || c.isTestFunc(f) {
			continue
		}
		ssax.Instrs(f, func(in ssa.Instruction) {
			if mu, ok := in.(*ssa.MapUpdate); ok && strings.HasSuffix(ssax.Path(mu.Map), ".PubKeys") && strings.Contains(mu.Map.Type().String(), "ed25519.PublicKey") {
				writers = append(writers, load.FuncName(f))
			}
		})
	}
	sort.Strings(writers)
	r.Check(len(writers) == 1 && strings.HasSuffix(writers[0], "DumpedMachineStatePayload).SetPubKeyUsername"), "C09/R2", "internal.PubKeys:writers", "registered keys are written only by SetPubKeyUsername", "", "writers: "+strings.Join(writers, ", "))
	var callers []string
	for f := range c.P.AllFuncs() {
		if !load.InModule(f) || c.isTestFunc(f) {
			continue
		}
		if len(ssax.CallsTo(f, load.Module+"/"+pkgInternal+".(DumpedMachineStatePayload).SetPubKeyUsername")) > 0 {
			callers = append(callers, load.FuncName(f))
		}
	}
	sort.Strings(callers)
	want := []string{"(*client/services/node.BaseNodeService).reinitDKG", "(*fsm/state_machines/signature_proposal_fsm.SignatureProposalFSM).actionInitSignatureProposal"}
	r.Check(strings.Join(callers, ",") == strings.Join(want, ","), "C09/R2", "internal.SetPubKeyUsername:callers", "keys are registered only by the opening proposal and the reinit key update (the two out-of-band confirmed messages)", "",
		"callers: "+strings.Join(callers, ", "))
}

func c09Skip(c *Ctx) {
	r := c.R
	var writers []string
	for f := range c.P.AllFuncs() {
		if !load.InModule(f) || c.isTestFunc(f) {
			continue
		}
		ssax.Instrs(f, func(in ssa.Instruction) {
			if st, ok := in.(*ssa.Store); ok {
				if fa, ok := st.Addr.(*ssa.FieldAddr); ok && ssax.FieldOf(fa) != nil && ssax.FieldOf(fa).Name() == "SkipCommKeysVerification" {
					writers = append(writers, load.FuncName(f))
				}
			}
		})
	}
	sort.Strings(writers)
	r.Check(len(writers) == 1 && strings.HasSuffix(writers[0], "BaseNodeService).SetSkipCommKeysVerification"), "C09/R3", "node.SkipCommKeysVerification:writers", "the skip switch is written only by its setter", "", "writers: "+strings.Join(writers, ", "))
	var sites []string
	setID := load.Module + "/" + pkgNode + ".(BaseNodeService).SetSkipCommKeysVerification"
	for f := range c.P.AllFuncs() {
		if !load.InModule(f) || c.isTestFunc(f) || strings.Contains(load.FuncName(f), "mocks/") {
			continue
		}
		calls := ssax.Calls(f, false, func(ci ssa.CallInstruction) bool {
			o := ssax.CalleeObj(ci)
			return o != nil && o.Name() == "SetSkipCommKeysVerification"
		})
		for range calls {
			sites = append(sites, load.FuncName(f))
		}
	}
	_ = setID
	sort.Strings(sites)
	okSites := true
	for _, s := range sites {
		if !(strings.HasSuffix(s, "BaseNodeService).reinitDKG") || strings.Contains(s, "cmd/dc4bc_d")) {
			okSites = false
		}
	}
	r.Check(okSites && len(sites) >= 2, "C09/R3", "node.SetSkipCommKeysVerification:call-sites", "the switch is set only from the daemon's flag and inside reinitDKG", "", "call sites: "+strings.Join(sites, ", "))
	fn := c.Fn("C09/R3", pkgNode, "BaseNodeService", "reinitDKG")
	if fn == nil {
		return
	}
	var setTrue []ssa.CallInstruction
	var deferFalse []ssa.Instruction
	for _, call := range ssax.Calls(fn, false, func(ci ssa.CallInstruction) bool {
		o := ssax.CalleeObj(ci)
		return o != nil && o.Name() == "SetSkipCommKeysVerification"
	}) {
		args := call.Common().Args
		k, ok := ssax.ConstOf(args[len(args)-1])
		if !ok {
			r.Unknown("C09/R3", "node.reinitDKG:skip-arg", "switch argument is a constant", c.PosOf(call), "non-constant argument "+ssax.Path(args[len(args)-1]))
			continue
		}
		if _, isDefer := call.(*ssa.Defer); isDefer && k.String() == "false" {
			deferFalse = append(deferFalse, call)
		} else if k.String() == "true" {
			setTrue = append(setTrue, call)
		} else {
			// a non-deferred Set(false): not the pairing idiom
			r.Unknown("C09/R3", "node.reinitDKG:skip-reset-not-deferred", "the switch is reset by a deferred call", c.PosOf(call), "Set(false) is not deferred: an early return between Set(true) and this call leaves verification off")
		}
	}
	for i, st := range setTrue {
		bad := false
		for _, ret := range ssax.Returns(fn) {
			if ret.Block() == fn.Recover {
				continue
			}
			if ssax.ReachableFrom(fn, st, ret, nil, deferFalse) {
				bad = true
			}
		}
		// also: between Set(true) and the defer no call that can fail/return
		r.Check(len(deferFalse) > 0 && !bad, "C09/R3", sprintf("node.reinitDKG:skip-paired#%d", i+1), "Set(true) is followed on every path by `defer Set(false)` before any return", c.PosOf(st),
			"a return is reachable after SetSkipCommKeysVerification(true) without the deferred reset: verification stays off for all later messages")
	}
	r.Check(len(setTrue) == 1, "C09/R3", "node.reinitDKG:skip-on", "reinitDKG switches verification off exactly once (for the replayed log)", c.Pos(fn.Pos()), sprintf("%d Set(true) calls", len(setTrue)))
}
