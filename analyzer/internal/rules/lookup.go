package rules

import (
	"go/token"
	"strings"

	"dcverif/internal/load"
	"dcverif/internal/ssax"

	"golang.org/x/tools/go/ssa"
)

// keyedLookup decides that fn is a lookup "by key": every value it can return as result #0 is either a zero/nil value
// (the miss), or field valField of an element e of a collection where
//   - (by name) the return is reached only over the edge on which e.<keyField> equals the parameter #param, or
//   - (by position) e is the element indexed by the parameter #param itself,
//
// or it is result #0 of a module function that receives the parameter unchanged and is itself such a lookup (two levels).
// A lookup that answers from a remembered position, a cache keyed by something else, or another element returns a value
// of another entry: that is what is reported. Returns "" when the rule holds, else a description of the offending return.
func keyedLookup(c *Ctx, fn *ssa.Function, param int, keyField, valField string, depth int) string {
	if fn == nil || len(fn.Blocks) == 0 {
		return "no body"
	}
	if param >= len(fn.Params) {
		return "parameter index out of range in " + fn.Name()
	}
	p := fn.Params[param]
	sameAsParam := func(v ssa.Value) bool {
		v = ssax.Resolve(v)
		return v == ssa.Value(p) || ssax.Path(v) == ssax.Path(p)
	}
	conds := ssax.Conds(fn)
	n := 0
	for _, ret := range ssax.Returns(fn) {
		if len(ret.Results) == 0 {
			continue
		}
		for _, lf := range ssax.Leaves(ret.Results[0], ret) {
			v := ssax.Resolve(lf.V)
			if ssax.IsNilConst(v) {
				continue
			}
			if k, isConst := v.(*ssa.Const); isConst && (k.Value == nil || k.Value.String() == `""` || k.Value.String() == "0") {
				continue
			}
			n++
			// result of a callee that gets the key unchanged
			if call := callOfResult(v); call != nil {
				cal := call.Common().StaticCallee()
				if cal == nil || !load.InModule(cal) || depth >= 2 {
					return "returns the result of " + ssax.Path(v) + ", which is not a keyed lookup of the module"
				}
				args := call.Common().Args
				idx := -1
				for i, a := range args {
					if sameAsParam(a) {
						idx = i
					}
				}
				if idx < 0 {
					return "the inner lookup " + cal.Name() + " is not given the key parameter"
				}
				if why := keyedLookup(c, cal, idx, keyField, valField, depth+1); why != "" {
					return cal.Name() + ": " + why
				}
				continue
			}
			ld, isLoad := v.(*ssa.UnOp)
			if !isLoad || ld.Op != token.MUL {
				return "returns " + ssax.Path(v) + ", not a field of a stored entry"
			}
			fa, isFA := ld.X.(*ssa.FieldAddr)
			if !isFA || ssax.FieldOf(fa) == nil || ssax.FieldOf(fa).Name() != valField {
				return "returns " + ssax.Path(v) + ", not the " + valField + " of a stored entry"
			}
			base := ssax.Resolve(fa.X)
			// by position: the element indexed by the parameter
			if bl, ok := base.(*ssa.UnOp); ok && bl.Op == token.MUL {
				if ia, ok := bl.X.(*ssa.IndexAddr); ok && sameAsParam(ia.Index) {
					continue
				}
			}
			if ix, ok := base.(*ssa.Index); ok && sameAsParam(ix.Index) {
				continue
			}
			// by name: behind the equal edge of e.keyField == param
			okName := false
			for _, cd := range conds {
				if cd.Op != token.EQL && cd.Op != token.NEQ {
					continue
				}
				for _, pr := range [][2]ssa.Value{{cd.X, cd.Y}, {cd.Y, cd.X}} {
					if pr[0] == nil || pr[1] == nil || !sameAsParam(pr[1]) {
						continue
					}
					kl, isL := ssax.Resolve(pr[0]).(*ssa.UnOp)
					if !isL || kl.Op != token.MUL {
						continue
					}
					kfa, isF := kl.X.(*ssa.FieldAddr)
					if !isF || ssax.FieldOf(kfa) == nil || ssax.FieldOf(kfa).Name() != keyField {
						continue
					}
					kb := ssax.Resolve(kfa.X)
					if kb != base && ssax.Path(kb) != ssax.Path(base) {
						continue
					}
					e, ok := cd.EdgeWhere(token.EQL)
					if ok && !ssax.ReachableAvoiding(fn, lf.At, []ssax.Edge{e}, nil) {
						okName = true
					}
				}
			}
			if !okName {
				return "returns " + ssax.Path(v) + " without having compared that entry's " + keyField + " with the key asked for (" + c.PosOf(ret) + ")"
			}
		}
	}
	if n == 0 {
		return "no value-returning path"
	}
	return ""
}

// callOfResult: v is (an extracted element of) a call's result.
func callOfResult(v ssa.Value) *ssa.Call {
	switch x := v.(type) {
	case *ssa.Call:
		if _, isB := x.Common().Value.(*ssa.Builtin); isB {
			return nil
		}
		return x
	case *ssa.Extract:
		if cl, ok := x.Tuple.(*ssa.Call); ok && x.Index == 0 {
			return cl
		}
	}
	return nil
}

var _ = strings.HasPrefix
