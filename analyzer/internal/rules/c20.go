package rules

import (
	"go/token"
	"go/types"
	"regexp"
	"sort"
	"strings"

	"dcverif/internal/load"
	"dcverif/internal/ssax"

	"golang.org/x/tools/go/ssa"
)

func init() { Registry["C20"] = C20 }

// C20 — reinitialising from a log dump reproduces the original key material and state.
func C20(c *Ctx) {
	r := c.R
	r.Explain = "Decided statically: (R1) the confirmation hash covers every field the property names — round id, threshold; per participant name and the three keys; per message data, signature, sender, recipient, event, round id, offset — each written for every element of its slice with no filter, and the digest is taken over the whole buffer; " +
		"(R3, header) reinitDKG refuses no (participants, threshold) header that the opening proposal's validation accepts; " +
		"(R6) on the airgapped side the round's suite and the dealer's reader are built for the round from the base seed (the rules of C12/R2), so fresh machines given the same mnemonics regenerate the same polynomial whatever else the original machines had done; " +
		"(R2) CLI and node call that one function, the node feeds it the posted payload, and the API form and the parsed type agree on wire names and types so decode-encode preserves every hashed field; " +
		"(R3) reinitDKG replays the selected messages through the ordinary processMessage in slice order up to the first signing proposal, stores the collected operations as the payload of one reinit operation carrying the hash, and registers each participant's new communication key before saving; GenerateReDKGMessage copies round id, threshold and keys from the opening proposal; " +
		"(R4) the airgapped machine replays every request operation through the ordinary handlers (an error aborts) and hands back PubPolyBytes() of the round's keyring; the node writes exactly that into the round named by the operation and saves that round; (R5) the 0.1.4 adaptation only inserts self-confirmations and renumbers offsets. " +
		"NOT decided: that replay reproduces the same share (C12's determinism + execution), signatures after reinit."
	r.Trusted = []string{"crypto/sha1", "encoding/json", "go/ssa"}
	r.Rule("C20/R1", "hash coverage of the reinit confirmation hash", 15)
	r.Rule("C20/R2", "one hash implementation, same bytes on CLI and node; form/type wire agreement", 3)
	r.Rule("C20/R3", "replay path of reinitDKG and the generator", 8)
	r.Rule("C20/R4", "key hand-back from the airgapped machine into the right round", 5)
	r.Rule("C20/R5", "0.1.4 adaptation is additive", 2)
	c20Hash(c)
	c20OneImpl(c)
	c20Replay(c)
	c20HandBack(c)
	c20Adapt(c)
	r.Rule("C20/R6", "the key material a machine regenerates is a function of the mnemonic and the round alone: suite and dealer reader are seeded from the base seed inside the round's own handler, never a stream shared across rounds (= C12/R2)", 6)
	c12EntropySpecs(c, "C20/R6")
}

var reHashField = regexp.MustCompile(`json\(\w+\)\.(Participants|Messages)\[[^\]]*\]\.([A-Za-z]+)|json\(\w+\)\.(DKGID|Threshold)`)

func c20Hash(c *Ctx) {
	r := c.R
	fn := c.Fn("C20/R1", pkgTypes, "", "CalcStartReInitDKGMessageHash")
	if fn == nil {
		return
	}
	type wr struct {
		call ssa.CallInstruction
		key  string
	}
	var writes []wr
	var bufNew ssa.CallInstruction
	for _, call := range ssax.Calls(fn, false, func(ssa.CallInstruction) bool { return true }) {
		id := ssax.FuncID(ssax.CalleeObj(call))
		var arg ssa.Value
		switch id {
		case "bytes.NewBuffer", "bytes.NewBufferString":
			arg = call.Common().Args[0]
			bufNew = call
		case "bytes.(Buffer).Write", "bytes.(Buffer).WriteString":
			arg = call.Common().Args[1]
		default:
			continue
		}
		p := ssax.Path(arg)
		for _, m := range reHashField.FindAllStringSubmatch(p, -1) {
			key := m[3]
			if m[1] != "" {
				key = m[1] + "." + m[2]
			}
			writes = append(writes, wr{call, key})
		}
	}
	want := []string{"DKGID", "Threshold", "Participants.Name", "Participants.NewCommPubKey", "Participants.OldCommPubKey", "Participants.DKGPubKey",
		"Messages.Data", "Messages.Signature", "Messages.SenderAddr", "Messages.RecipientAddr", "Messages.Event", "Messages.Offset", "Messages.DkgRoundID"}
	have := map[string][]ssa.CallInstruction{}
	for _, w := range writes {
		have[w.key] = append(have[w.key], w.call)
	}
	// the digest
	sums := ssax.Calls(fn, false, func(ci ssa.CallInstruction) bool {
		id := ssax.FuncID(ssax.CalleeObj(ci))
		return strings.HasPrefix(id, "crypto/") && strings.HasSuffix(id, ".Sum") || strings.HasSuffix(id, ".Sum256")
	})
	if len(sums) != 1 || bufNew == nil {
		r.Unknown("C20/R1", "types.CalcStartReInitDKGMessageHash:digest", "one digest over one buffer", c.Pos(fn.Pos()), sprintf("digest calls=%d", len(sums)))
		return
	}
	sum := sums[0]
	r.Check(strings.Contains(ssax.Path(sum.Common().Args[0]), "bytes.NewBuffer(") && strings.HasSuffix(ssax.Path(sum.Common().Args[0]), ".Bytes()"), "C20/R1", "types.CalcStartReInitDKGMessageHash:digest-input", "the digest is computed over the whole buffer", c.PosOf(sum), "digest input is "+ssax.Path(sum.Common().Args[0]))
	// element loads start each iteration
	iterStart := map[string]ssa.Instruction{}
	ssax.Instrs(fn, func(in ssa.Instruction) {
		if ia, ok := in.(*ssa.IndexAddr); ok {
			p := ssax.Path(ia.X)
			if strings.HasSuffix(p, ").Participants") && strings.HasPrefix(p, "json(") {
				iterStart["Participants"] = in
			}
			if strings.HasSuffix(p, ").Messages") && strings.HasPrefix(p, "json(") {
				iterStart["Messages"] = in
			}
		}
	})
	for _, k := range want {
		calls := have[k]
		if len(calls) == 0 {
			r.Fail("C20/R1", "types.CalcStartReInitDKGMessageHash:covers:"+k, "field "+k+" is part of the hashed bytes", c.Pos(fn.Pos()),
				"field "+k+" never reaches the hash buffer: two reinit files differing only in it show the same confirmation hash to the operators")
			continue
		}
		w := calls[0]
		// a write that sits in a loop over a literal list of chunks (a variadic helper expanded in place) runs for every
		// chunk: what has to be passed on every path is then the head of that inner loop
		var must ssa.Instruction = w
		if h := fixedTripLoopHead(fn, w); h != nil {
			must = h
		}
		w = nil
		ok := !ssax.ReachableAvoiding(fn, sum, nil, []ssa.Instruction{must}) || strings.Contains(k, ".")
		detail := ""
		if strings.Contains(k, ".") {
			slice := strings.Split(k, ".")[0]
			it := iterStart[slice]
			if it == nil {
				ok, detail = false, "no loop over msg."+slice
			} else if ssax.ReachableFrom(fn, it, it, nil, []ssa.Instruction{must}) {
				ok, detail = false, "an iteration over msg."+slice+" can complete without writing this field (conditional write)"
			} else if !ssax.ReachableFrom(fn, it, must, nil, nil) {
				ok, detail = false, "the write is not inside the loop over msg."+slice
			}
		} else if !ok {
			detail = "the digest is reachable without this write"
		}
		r.Check(ok, "C20/R1", "types.CalcStartReInitDKGMessageHash:covers:"+k, "field "+k+" is written into the hash for every element / on every path", c.PosOf(must), detail)
	}
	// the fields are delimited: what is hashed must determine the message. A plain concatenation of variable-length fields
	// gives the same bytes for different messages (bytes moved across a field boundary), and this hash is all that
	// authenticates a reinit message. Required: before each field's bytes go into the buffer, the field's length is
	// computed and something is written (its length), and the element count of each list is used as data.
	var undelimited []string
	for _, k := range want {
		if k == "Threshold" || k == "Messages.Offset" {
			continue // rendered as a decimal number: delimited once the field itself is (its own length is written)
		}
		for _, w := range have[k] {
			fieldArg := w.Common().Args[len(w.Common().Args)-1]
			fp := ssax.Path(fieldArg)
			okD := false
			ssax.Instrs(fn, func(in ssa.Instruction) {
				lc, isCall := in.(*ssa.Call)
				if !isCall {
					return
				}
				if b, isB := lc.Common().Value.(*ssa.Builtin); !isB || b.Name() != "len" || ssax.Path(lc.Common().Args[0]) != fp {
					return
				}
				// every path to the field's write passes this len(), and between the two something is written into the buffer
				if ssax.ReachableAvoiding(fn, w.(ssa.Instruction), nil, []ssa.Instruction{lc}) {
					return
				}
				for _, other := range ssax.Calls(fn, false, func(ci ssa.CallInstruction) bool {
					id := ssax.FuncID(ssax.CalleeObj(ci))
					return id == "bytes.(Buffer).Write" || id == "bytes.(Buffer).WriteString"
				}) {
					if other != w && !ssax.ReachableFrom(fn, lc, w.(ssa.Instruction), nil, []ssa.Instruction{other.(ssa.Instruction)}) {
						okD = true
					}
				}
			})
			if !okD {
				undelimited = append(undelimited, k)
			}
		}
	}
	for _, list := range []string{"Participants", "Messages"} {
		asData := false
		ssax.Instrs(fn, func(in ssa.Instruction) {
			lc, isCall := in.(*ssa.Call)
			if !isCall || lc.Referrers() == nil {
				return
			}
			if b, isB := lc.Common().Value.(*ssa.Builtin); !isB || b.Name() != "len" {
				return
			}
			if p := ssax.Path(lc.Common().Args[0]); !(strings.HasPrefix(p, "json(") && strings.HasSuffix(p, ")."+list)) {
				return
			}
			for _, ref := range *lc.Referrers() {
				if bo, isBo := ref.(*ssa.BinOp); isBo && (bo.Op == token.LSS || bo.Op == token.GTR || bo.Op == token.LEQ || bo.Op == token.GEQ) {
					continue // loop bound
				}
				if _, dbg := ref.(*ssa.DebugRef); dbg {
					continue
				}
				asData = true
			}
		})
		if !asData {
			undelimited = append(undelimited, "len("+list+")")
		}
	}
	sort.Strings(undelimited)
	r.Check(len(undelimited) == 0, "C20/R1", "types.CalcStartReInitDKGMessageHash:delimited", "every variable-length field goes into the hash together with its length, every list together with its element count", c.Pos(fn.Pos()),
		"not delimited: "+strings.Join(uniqStr(undelimited), ", ")+" — different reinit messages (a key moved into a neighbour's unused field, a recipient merged into a signature) produce the same confirmation hash, so the poster can rebind communication keys under the hash the operators agreed on")
	// no filter: every branch is a loop bound or an error test of a call
	var odd []string
	for _, cd := range ssax.Conds(fn) {
		x := ssax.Resolve(cd.X)
		switch {
		case cd.Op == token.LSS && cd.Y != nil && strings.HasPrefix(ssax.Path(cd.Y), "len("):
		case (cd.Op == token.NEQ || cd.Op == token.EQL) && cd.Y != nil && (ssax.IsNilConst(ssax.Resolve(cd.Y)) || ssax.IsNilConst(x)):
		default:
			// a test one of whose outcomes never reaches the digest (it fails the whole computation: a short-write or
			// sanity check) cannot select a subset of what is hashed
			aborts := false
			for _, sb := range cd.If.Block().Succs {
				if len(sb.Instrs) > 0 && sb.Instrs[0] != ssa.Instruction(sum.(ssa.Instruction)) && !ssax.ReachableFrom(fn, sb.Instrs[0], sum.(ssa.Instruction), nil, nil) {
					aborts = true
				}
			}
			if !aborts {
				odd = append(odd, ssax.Path(cd.X)+" at "+c.PosOf(cd.If))
			}
		}
	}
	r.Check(len(odd) == 0, "C20/R1", "types.CalcStartReInitDKGMessageHash:no-filter", "no condition selects a subset of participants/messages (all elements are hashed)", c.Pos(fn.Pos()), "additional branch conditions: "+strings.Join(odd, "; "))
}

func c20OneImpl(c *Ctx) {
	r := c.R
	id := load.Module + "/" + pkgTypes + ".CalcStartReInitDKGMessageHash"
	var callers []string
	for f := range c.P.AllFuncs() {
		if !load.InModule(f) || c.isTestFunc(f) {
			continue
		}
		for range ssax.CallsTo(f, id) {
			callers = append(callers, load.FuncName(f))
		}
	}
	sort.Strings(callers)
	okCallers := len(callers) == 2 && strings.Contains(strings.Join(callers, " "), "BaseNodeService).reinitDKG") && strings.Contains(strings.Join(callers, " "), "cmd/dc4bc_cli")
	r.Check(okCallers, "C20/R2", "types.CalcStartReInitDKGMessageHash:callers", "the CLI command and the node both use the one hash function", "", "callers: "+strings.Join(callers, ", "))
	// any other sha1/sha256-of-reinit implementation would be a second interpreter; checked by callers census only.
	if fn := c.Fn("C20/R2", pkgNode, "BaseNodeService", "reinitDKG"); fn != nil {
		for _, call := range ssax.CallsTo(fn, id) {
			r.Check(ssax.Path(call.Common().Args[0]) == "message.Data", "C20/R2", "node.reinitDKG:hash-input", "the node hashes the posted payload (message.Data)", c.PosOf(call), "argument is "+ssax.Path(call.Common().Args[0]))
		}
	}
	a, f := c.lookupType("C20/R2", pkgTypes, "ReDKG"), c.lookupType("C20/R2", "client/api/http_api/requests", "ReInitDKGForm")
	if a != nil && f != nil {
		am, fm := map[string]wireField{}, map[string]wireField{}
		for _, x := range wireSchema(a) {
			am[x.Wire] = x
		}
		for _, x := range wireSchema(f) {
			fm[x.Wire] = x
		}
		var diffs []string
		for w, x := range am {
			y, ok := fm[w]
			if !ok {
				diffs = append(diffs, "ReDKG field "+w+" missing in ReInitDKGForm (dropped when the API re-encodes the file)")
			} else if !sameWireType(c, a, x.GoName, f, y.GoName) {
				diffs = append(diffs, w+": "+x.Type+" vs "+y.Type)
			}
		}
		for w := range fm {
			if _, ok := am[w]; !ok {
				diffs = append(diffs, "form field "+w+" unknown to ReDKG")
			}
		}
		sort.Strings(diffs)
		r.Check(len(diffs) == 0, "C20/R2", "schema:ReDKG<->ReInitDKGForm", "the API form and the hashed type agree on every JSON name and type", "", strings.Join(diffs, "; "))
	}
	// handler marshals the whole form
	if h := c.Fn("C20/R2", "client/api/http_api/handlers", "HTTPApp", "ReInitDKG"); h != nil {
		ok := false
		ssax.Instrs(h, func(in ssa.Instruction) {
			if st, isSt := in.(*ssa.Store); isSt && strings.HasSuffix(ssax.Path(st.Addr), ".Payload") && strings.Contains(ssax.Path(st.Val), "json.Marshal(") {
				ok = true
			}
		})
		r.Check(ok, "C20/R2", "handlers.ReInitDKG:payload", "the posted payload is the JSON of the whole parsed form", c.Pos(h.Pos()), "Payload is not json.Marshal(request)")
	}
}

func c20Replay(c *Ctx) {
	r := c.R
	fn := c.Fn("C20/R3", pkgNode, "BaseNodeService", "reinitDKG")
	if fn == nil {
		return
	}
	pcs := ssax.CallsTo(fn, load.Module+"/"+pkgNode+".(BaseNodeService).processMessage")
	if len(pcs) != 1 {
		r.Fail("C20/R3", "node.reinitDKG:replay-call", "old messages are re-fed through the ordinary handler", c.Pos(fn.Pos()), sprintf("%d calls to processMessage", len(pcs)))
		return
	}
	pc := pcs[0]
	arg := ssax.Path(pc.Common().Args[1])
	r.Check(strings.Contains(arg, "json(message.Data).Messages["), "C20/R3", "node.reinitDKG:replay-source", "each replayed message is an element of the file's message list, in slice order", c.PosOf(pc), "processMessage argument is "+arg)
	// stop at the first signing start: the replay call is unreachable past the equal edge of msg.Event == event_signing_start
	var stop []ssax.Edge
	for _, cd := range ssax.Conds(fn) {
		if cd.Op != token.EQL && cd.Op != token.NEQ {
			continue
		}
		for _, pr := range [][2]ssa.Value{{cd.X, cd.Y}, {cd.Y, cd.X}} {
			if s, ok := ssax.ConstString(pr[1]); ok && s == evSigningStart && strings.HasSuffix(ssax.Path(pr[0]), ".Event") {
				e, _ := cd.EdgeWhere(token.EQL)
				stop = append(stop, e)
			}
		}
	}
	okStop := len(stop) > 0
	for _, e := range stop {
		first := e.From.Succs[e.Succ].Instrs[0]
		if first == ssa.Instruction(pc.(*ssa.Call)) || ssax.ReachableFrom(fn, first, pc, nil, nil) {
			okStop = false
		}
	}
	r.Check(okStop, "C20/R3", "node.reinitDKG:stop-at-signing", "replay stops at the first event_signing_start", c.PosOf(pc), "the replay continues past a signing proposal")
	// every (participants, threshold) header that key generation accepted is accepted by the reinitialisation: a comparison of
	// the file's threshold with its participant count may refuse only threshold > count, and numeric floors on either may not
	// exceed the proposal validation's
	c20HeaderAccepted(c, fn, pc)
	// operation: NewOperation(req.DKGID, json.Marshal(operations), ReinitDKG); ExtraData = hash; PutOperation
	news := ssax.CallsTo(fn, load.Module+"/"+pkgTypes+".NewOperation")
	if len(news) == 1 {
		a := news[0].Common().Args
		st, _ := ssax.ConstString(a[2])
		r.Check(ssax.Path(a[0]) == "json(message.Data).DKGID" && strings.Contains(ssax.Path(a[1]), "json.Marshal(") && st == "reinit_dkg", "C20/R3", "node.reinitDKG:operation", "one reinit_dkg operation for the file's round carrying the collected operations", c.PosOf(news[0]),
			"NewOperation("+ssax.Path(a[0])+", "+ssax.Path(a[1])+", "+st+")")
	} else {
		r.Unknown("C20/R3", "node.reinitDKG:operation", "one NewOperation", c.Pos(fn.Pos()), sprintf("%d", len(news)))
	}
	extra := false
	ssax.Instrs(fn, func(in ssa.Instruction) {
		if st, ok := in.(*ssa.Store); ok && strings.HasSuffix(ssax.Path(st.Addr), ".ExtraData") && strings.Contains(ssax.Path(st.Val), "CalcStartReInitDKGMessageHash(message.Data)") {
			extra = true
		}
	})
	r.Check(extra, "C20/R3", "node.reinitDKG:operation-hash", "the operation shown to the operator carries the confirmation hash of the posted payload", c.Pos(fn.Pos()), "ExtraData is not the hash of message.Data")
	// collected operations = results of the replay call
	coll := false
	ssax.Instrs(fn, func(in ssa.Instruction) {
		if call, ok := in.(*ssa.Call); ok {
			if b, isB := call.Common().Value.(*ssa.Builtin); isB && b.Name() == "append" && strings.Contains(ssax.Path(call.Common().Args[1]), "processMessage(") {
				coll = true
			}
		}
	})
	r.Check(coll, "C20/R3", "node.reinitDKG:collect", "every operation returned by the replay is collected", c.Pos(fn.Pos()), "append(operations, <processMessage result>) not found")
	// new comm keys registered for every participant, before SaveFSM
	sets := ssax.Calls(fn, false, func(ci ssa.CallInstruction) bool {
		o := ssax.CalleeObj(ci)
		return o != nil && o.Name() == "SetPubKeyUsername"
	})
	saves := ssax.Calls(fn, false, func(ci ssa.CallInstruction) bool { o := ssax.CalleeObj(ci); return o != nil && o.Name() == "SaveFSM" })
	dumps := ssax.Calls(fn, false, func(ci ssa.CallInstruction) bool { o := ssax.CalleeObj(ci); return o != nil && o.Name() == "Dump" })
	if len(sets) == 1 && len(saves) == 1 && len(dumps) == 1 {
		a := sets[0].Common().Args
		r.Check(strings.Contains(ssax.Path(a[1]), "json(message.Data).Participants[") && strings.HasSuffix(ssax.Path(a[1]), ".Name") && strings.HasSuffix(ssax.Path(a[2]), ".NewCommPubKey"), "C20/R3", "node.reinitDKG:new-keys", "each participant's new communication key is registered under the participant's name", c.PosOf(sets[0]), ssax.Path(a[1])+" -> "+ssax.Path(a[2]))
		// Dump happens after the key loop: Dump unreachable from entry without passing the loop header... approximated: the save stores the dump taken after the updates
		r.Check(ssax.ResultOf(saves[0].Common().Args[len(saves[0].Common().Args)-1], dumps[0], 0) && ssax.ReachableFrom(fn, sets[0], dumps[0], nil, nil) && !ssax.ReachableFrom(fn, dumps[0], sets[0], nil, nil), "C20/R3", "node.reinitDKG:save-after-keys", "the round is dumped and saved after the key update", c.PosOf(saves[0]), "SaveFSM does not persist the dump taken after SetPubKeyUsername")
	} else {
		r.Unknown("C20/R3", "node.reinitDKG:new-keys", "key registration + one save", c.Pos(fn.Pos()), sprintf("SetPubKeyUsername=%d SaveFSM=%d Dump=%d", len(sets), len(saves), len(dumps)))
	}
	// generator
	if g := c.Fn("C20/R3", pkgTypes, "", "GenerateReDKGMessage"); g != nil {
		got := map[string]string{}
		ssax.Instrs(g, func(in ssa.Instruction) {
			if st, ok := in.(*ssa.Store); ok {
				if fa, ok := st.Addr.(*ssa.FieldAddr); ok {
					got[ssax.OwnerName(fa)+"."+ssax.FieldOf(fa).Name()] = ssax.Path(st.Val)
				}
			}
		})
		want := map[string]string{"ReDKG.DKGID": ".DkgRoundID", "ReDKG.Threshold": ".SigningThreshold", "Participant.DKGPubKey": ".DkgPubKey", "Participant.OldCommPubKey": ".PubKey", "Participant.Name": ".Username"}
		for _, k := range sortedKeys(want) {
			r.Check(strings.HasSuffix(got[k], want[k]), "C20/R3", "types.GenerateReDKGMessage:"+k, k+" is copied from the opening proposal ("+want[k]+")", c.Pos(g.Pos()), "value is "+got[k])
		}
		r.Check(strings.Contains(got["Participant.NewCommPubKey"], "newCommPubKeys[") && strings.Contains(got["Participant.NewCommPubKey"], ".Username"), "C20/R3", "types.GenerateReDKGMessage:Participant.NewCommPubKey", "the new key is looked up by the participant's user name", c.Pos(g.Pos()), "value is "+got["Participant.NewCommPubKey"])
	}
}

func c20HandBack(c *Ctx) {
	r := c.R
	fn := c.Fn("C20/R4", "airgapped", "Machine", "handleReinitDKG")
	if fn != nil {
		gors := ssax.CallsTo(fn, load.Module+"/airgapped.(Machine).GetOperationResult")
		loads := ssax.CallsTo(fn, load.Module+"/airgapped.(Machine).loadBLSKeyring")
		pubs := ssax.CallsTo(fn, load.Module+"/dkg.(BLSKeyring).PubPolyBytes")
		if len(gors) == 1 && len(loads) == 1 && len(pubs) == 1 {
			ne := ssax.NilErrEdgesOfCall(fn, gors[0])
			// an error of a replayed operation aborts: the keyring load is not reachable from the error edge
			abort := len(ne) > 0
			for _, e := range ne {
				other := e.From.Succs[1-e.Succ]
				if other.Instrs[0] == ssa.Instruction(loads[0].(*ssa.Call)) || ssax.ReachableFrom(fn, other.Instrs[0], loads[0], nil, nil) {
					abort = false
				}
			}
			r.Check(abort, "C20/R4", "airgapped.handleReinitDKG:error-aborts", "a failing replayed operation aborts the reinitialisation", c.PosOf(gors[0]), "the keyring is loaded even after a replay error")
			r.Check(strings.HasSuffix(ssax.Path(loads[0].Common().Args[1]), "operation.DKGIdentifier"), "C20/R4", "airgapped.handleReinitDKG:keyring-round", "the keyring handed back is the one of the operation's round", c.PosOf(loads[0]), "loadBLSKeyring("+ssax.Path(loads[0].Common().Args[1])+")")
			r.Check(ssax.ResultOf(pubs[0].Common().Args[0], loads[0], 0), "C20/R4", "airgapped.handleReinitDKG:public-part", "what is exported is PubPolyBytes() of that keyring", c.PosOf(pubs[0]), "receiver is "+ssax.Path(pubs[0].Common().Args[0]))
			extra := false
			ssax.Instrs(fn, func(in ssa.Instruction) {
				if st, ok := in.(*ssa.Store); ok && strings.HasSuffix(ssax.Path(st.Addr), "operation.ExtraData") && ssax.ResultOf(st.Val, pubs[0], 0) {
					extra = true
				}
			})
			r.Check(extra, "C20/R4", "airgapped.handleReinitDKG:extra-data", "ExtraData := PubPolyBytes()", c.Pos(fn.Pos()), "ExtraData is not the public polynomial bytes")
			// replay argument: each element of the unmarshalled operations
			r.Check(strings.Contains(ssax.Path(gors[0].Common().Args[1]), "["), "C20/R4", "airgapped.handleReinitDKG:replay-each", "every collected operation is run through the ordinary handlers", c.PosOf(gors[0]), "argument is "+ssax.Path(gors[0].Common().Args[1]))
		} else {
			r.Unknown("C20/R4", "airgapped.handleReinitDKG:shape", "replay + keyring + public bytes", c.Pos(fn.Pos()), sprintf("GetOperationResult=%d loadBLSKeyring=%d PubPolyBytes=%d", len(gors), len(loads), len(pubs)))
		}
	}
	if ex := c.Fn("C20/R4", pkgNode, "BaseNodeService", "executeOperation"); ex != nil {
		var polyStore *ssa.Store
		ssax.Instrs(ex, func(in ssa.Instruction) {
			if st, ok := in.(*ssa.Store); ok && strings.HasSuffix(ssax.Path(st.Addr), ".DKGProposalPayload.PubPolyBz") {
				polyStore = st
			}
		})
		saves := ssax.Calls(ex, false, func(ci ssa.CallInstruction) bool { o := ssax.CalleeObj(ci); return o != nil && o.Name() == "SaveFSM" })
		if polyStore == nil || len(saves) != 1 {
			r.Unknown("C20/R4", "node.executeOperation:write-back", "polynomial write-back recognisable", c.Pos(ex.Pos()), "store or SaveFSM not found")
		} else {
			ap := ssax.Path(polyStore.Addr)
			// the round is the operation's: the submitted copy's or — since the submitted round id is not bound by Equal
			// (C15/R7) — the stored operation's
			roundOK := false
			for _, rp := range []string{"operation.DKGIdentifier", "s.opService.GetOperationByID(operation.ID)#0.DKGIdentifier"} {
				if strings.Contains(ap, "GetFSMInstance("+rp) || strings.Contains(ap, "GetFSMInstance(conv<string>("+rp+")") {
					roundOK = true
				}
			}
			r.Check(ssax.Path(polyStore.Val) == "operation.ExtraData" && roundOK, "C20/R4", "node.executeOperation:write-back-value", "exactly operation.ExtraData is written into the polynomial of round operation.DKGIdentifier", c.PosOf(polyStore), ap+" := "+ssax.Path(polyStore.Val))
			sa := saves[0].Common().Args
			// the bytes saved are a dump taken AFTER the polynomial was written: every Dump() call that can supply the saved
			// value lies behind the store
			dumpAfter := false
			for _, lf := range ssax.Leaves(sa[len(sa)-1], saves[0].(ssa.Instruction)) {
				v := lf.V
				if exv, isEx := v.(*ssa.Extract); isEx {
					v = exv.Tuple
				}
				dc, isCall := v.(*ssa.Call)
				if !isCall || !strings.HasSuffix(ssax.FuncID(ssax.CalleeObj(dc)), "state_machines.(FSMInstance).Dump") {
					dumpAfter = false
					break
				}
				dumpAfter = !ssax.ReachableAvoiding(ex, dc, nil, []ssa.Instruction{polyStore})
				if !dumpAfter {
					break
				}
			}
			keyP := ssax.Path(sa[len(sa)-2])
			r.Check((strings.HasSuffix(keyP, "operation.DKGIdentifier") || strings.HasSuffix(keyP, "GetOperationByID(operation.ID)#0.DKGIdentifier")) && strings.Contains(ap, "GetFSMInstance("+strings.TrimPrefix(keyP, "conv<string>(")) && strings.Contains(ssax.Path(sa[len(sa)-1]), ".Dump()") && dumpAfter && !ssax.ReachableAvoiding(ex, saves[0], nil, []ssa.Instruction{polyStore}), "C20/R4", "node.executeOperation:write-back-save", "that round is dumped after the update and saved under its own id", c.PosOf(saves[0]), "SaveFSM("+ssax.Path(sa[len(sa)-2])+", "+ssax.Path(sa[len(sa)-1])+sprintf("); dump taken after the polynomial was written: %v", dumpAfter))
		}
	}
}

func c20Adapt(c *Ctx) {
	r := c.R
	fn := c.Fn("C20/R5", pkgNode, "", "GetAdaptedReDKG")
	if fn == nil {
		return
	}
	// appends: originals (element of originalDKG.Messages) appended on every iteration
	var origAppend, iter ssa.Instruction
	ssax.Instrs(fn, func(in ssa.Instruction) {
		if ia, ok := in.(*ssa.IndexAddr); ok && strings.HasSuffix(ssax.Path(ia.X), "originalDKG.Messages") {
			iter = in
		}
		if call, ok := in.(*ssa.Call); ok {
			if b, isB := call.Common().Value.(*ssa.Builtin); isB && b.Name() == "append" {
				p := ssax.Path(call.Common().Args[1])
				if strings.Contains(p, "originalDKG.Messages[") && !strings.Contains(p, "createMessage(") {
					origAppend = in
				}
			}
		}
	})
	if iter == nil || origAppend == nil {
		r.Unknown("C20/R5", "node.GetAdaptedReDKG:shape", "loop over original messages with an append of each", c.Pos(fn.Pos()), "not recognised")
		return
	}
	r.Check(!ssax.ReachableFrom(fn, iter, iter, nil, []ssa.Instruction{origAppend}), "C20/R5", "node.GetAdaptedReDKG:keeps-every-message", "every original message is appended to the adapted list", c.PosOf(origAppend), "an iteration can finish without appending the original message")
	// only Offset of the copy is modified
	var mods []string
	ssax.Instrs(fn, func(in ssa.Instruction) {
		if st, ok := in.(*ssa.Store); ok {
			if fa, ok := st.Addr.(*ssa.FieldAddr); ok && ssax.OwnerName(fa) == "Message" {
				// the local that holds (a copy of) an original message: some store into it comes from originalDKG.Messages[i]
				if a, isAlloc := fa.X.(*ssa.Alloc); isAlloc && holdsOriginalMessage(a) {
					mods = append(mods, ssax.FieldOf(fa).Name())
				}
			}
		}
	})
	sort.Strings(mods)
	r.Check(strings.Join(mods, ",") == "Offset", "C20/R5", "node.GetAdaptedReDKG:only-offset-changes", "the only field of an original message that changes is Offset", c.Pos(fn.Pos()), "modified fields: "+strings.Join(mods, ","))
	// header copied
	hdr := map[string]string{}
	ssax.Instrs(fn, func(in ssa.Instruction) {
		if st, ok := in.(*ssa.Store); ok {
			if fa, ok := st.Addr.(*ssa.FieldAddr); ok && ssax.OwnerName(fa) == "ReDKG" {
				hdr[ssax.FieldOf(fa).Name()] = ssax.Path(st.Val)
			}
		}
	})
	r.Check(strings.HasSuffix(hdr["DKGID"], "originalDKG.DKGID") && strings.HasSuffix(hdr["Threshold"], "originalDKG.Threshold") && strings.HasSuffix(hdr["Participants"], "originalDKG.Participants"), "C20/R5", "node.GetAdaptedReDKG:header", "round id, threshold and participants are copied unchanged", c.Pos(fn.Pos()), sprintf("%v", hdr))
}

// holdsOriginalMessage: a whole-value store into the local comes from an element of originalDKG.Messages (not from the
// constructed self-confirmation).
func holdsOriginalMessage(a *ssa.Alloc) bool {
	if a.Referrers() == nil {
		return false
	}
	for _, r := range *a.Referrers() {
		if st, ok := r.(*ssa.Store); ok && st.Addr == ssa.Value(a) {
			p := ssax.Path(st.Val)
			if strings.Contains(p, "originalDKG.Messages[") && !strings.Contains(p, "createMessage(") {
				return true
			}
		}
	}
	return false
}

// fixedTripLoopHead: w lies in a loop `for i := range <literal list of n >= 1 elements>` whose body cannot reach the next
// test or the loop exit without executing w; returns the loop's test (every pass through it runs the body, hence w, for
// every element of the list, unless w itself fails). nil if w is not in such a loop.
func fixedTripLoopHead(fn *ssa.Function, w ssa.CallInstruction) ssa.Instruction {
	win := w.(ssa.Instruction)
	for _, cd := range ssax.Conds(fn) {
		if cd.Op != token.LSS || cd.Y == nil {
			continue
		}
		n, ok := ssax.ConstInt(cd.Y)
		if !ok || n < 1 {
			continue
		}
		// range-style counter starting at 0
		if !strings.Contains(ssax.Path(cd.X), "<cycle> + 1)|-1) + 1") {
			continue
		}
		body := cd.If.Block().Succs[0]
		if len(body.Instrs) == 0 {
			continue
		}
		first := body.Instrs[0]
		// w is in the loop: reachable from the body and reaches the test again
		if first != win && !ssax.ReachableFrom(fn, first, win, nil, []ssa.Instruction{cd.If}) {
			continue
		}
		if !ssax.ReachableFrom(fn, win, cd.If, nil, nil) {
			continue
		}
		// the body cannot come back to the test without executing w
		if first != win && ssax.ReachableFrom(fn, first, cd.If, nil, []ssa.Instruction{win}) {
			continue
		}
		return cd.If
	}
	return nil
}


// c20HeaderAccepted: reinitDKG may add sanity checks on the file's header, but none that refuses a header the opening
// proposal's validation (requests.SignatureProposalParticipantsListRequest.Validate: minimum counts, threshold <= n) lets
// through — such a round generates keys and signs normally and then can never be reinitialised.
func c20HeaderAccepted(c *Ctx, fn *ssa.Function, pc ssa.CallInstruction) {
	r := c.R
	isThr := func(v ssa.Value) bool { return strings.HasSuffix(ssax.Path(v), ".Threshold") }
	isCnt := func(v ssa.Value) bool {
		p := ssax.Path(v)
		return strings.HasPrefix(p, "len(") && strings.HasSuffix(p, ".Participants)")
	}
	cfgConst := func(name string) (int64, bool) {
		pk := c.P.Pkg("fsm/config")
		if pk == nil {
			return 0, false
		}
		o, ok := pk.Types.Scope().Lookup(name).(*types.Const)
		if !ok {
			return 0, false
		}
		return constInt64(o)
	}
	refuses := func(cd ssax.Cond, succ int) bool {
		b := cd.If.Block().Succs[succ]
		if len(b.Instrs) == 0 {
			return false
		}
		first := b.Instrs[0]
		return first != ssa.Instruction(pc.(*ssa.Call)) && !ssax.ReachableFrom(fn, first, pc, nil, nil)
	}
	var bad []string
	n := 0
	for _, cd := range ssax.Conds(fn) {
		switch cd.Op {
		case token.EQL, token.NEQ, token.LSS, token.LEQ, token.GTR, token.GEQ:
		default:
			continue
		}
		x, y, op := cd.X, cd.Y, cd.Op
		if y == nil {
			continue
		}
		if isCnt(x) && isThr(y) {
			x, y, op = y, x, ssax.MirrorOp(op)
		}
		rels := [2]token.Token{op, ssax.NegateOp(op)}
		switch {
		case isThr(x) && isCnt(y):
			n++
			for i, rel := range rels {
				if refuses(cd, i) && rel != token.GTR {
					bad = append(bad, sprintf("a file whose threshold %s its participant count is refused at %s (key generation accepts every threshold up to and including the count)", rel, c.PosOf(cd.If)))
				}
			}
		case isThr(x) || isCnt(x):
			k, isK := ssax.ConstInt(y)
			if !isK {
				continue
			}
			n++
			name := "SignatureProposalSigningThresholdMinCount"
			if isCnt(x) {
				name = "ParticipantsMinCount"
			}
			min, ok := cfgConst(name)
			if !ok {
				r.Unknown("C20/R3", "anchor:fsm/config."+name, "the proposal validation's floor must resolve", "", "constant not found")
				continue
			}
			for i, rel := range rels {
				if !refuses(cd, i) {
					continue
				}
				// values refused: v rel k. Accepted by key generation: v >= min. Refusal must not contain any v >= min.
				okRel := (rel == token.LSS && k <= min) || (rel == token.LEQ && k < min)
				if !okRel {
					bad = append(bad, sprintf("a file whose %s is %s %d is refused at %s although key generation accepts every value from config.%s = %d", ssax.Path(x), rel, k, c.PosOf(cd.If), name, min))
				}
			}
		}
	}
	sort.Strings(bad)
	r.Check(len(bad) == 0, "C20/R3", "node.reinitDKG:accepts-every-generated-header", "no header (participants, threshold) that key generation accepted is refused by the reinitialisation", c.Pos(fn.Pos()),
		strings.Join(bad, "; ")+sprintf(" [%d header comparisons examined]: such a round generates keys and signs normally but no node creates it from the dump, no reinit operation is issued and the shares are never rebuilt", n))
}
