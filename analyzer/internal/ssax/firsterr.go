package ssax

import (
	"go/token"
	"go/types"

	"golang.org/x/tools/go/ssa"
)

// "First failed check" loops: `for _, e := range []error{c1, c2, …} { if e != nil { return e } }; return nil`
// (often a variadic helper firstError(checks ...error) expanded in place). Behind the loop's normal exit every element
// was nil, so an alternative of an element that is known to be non-nil was not the one chosen: the edge that selects it
// is infeasible for everything that lies behind the exit.

// AllNilCuts returns the edges that cannot have been taken when `at` is reached, because `at` lies behind the normal exit
// of a first-failed-check loop over a literal list of error values. Empty if there is no such loop.
func AllNilCuts(fn *ssa.Function, at ssa.Instruction) []Edge {
	var cuts []Edge
	for _, h := range fn.Blocks {
		if len(h.Instrs) == 0 || len(h.Succs) != 2 {
			continue
		}
		iff, ok := h.Instrs[len(h.Instrs)-1].(*ssa.If)
		if !ok {
			continue
		}
		cmp, ok := iff.Cond.(*ssa.BinOp)
		if !ok || cmp.Op != token.LSS {
			continue
		}
		// i' < len(S), S = A[:] for a local array A
		var sl *ssa.Slice
		if call, ok := cmp.Y.(*ssa.Call); ok {
			if b, ok := call.Common().Value.(*ssa.Builtin); ok && b.Name() == "len" {
				sl, _ = call.Common().Args[0].(*ssa.Slice)
			}
		}
		if sl == nil || sl.Low != nil || sl.High != nil || sl.Max != nil {
			continue
		}
		arr, ok := sl.X.(*ssa.Alloc)
		if !ok {
			continue
		}
		elems := ArrayElems(arr)
		if len(elems) == 0 {
			continue
		}
		// every slot of the array was filled
		if at, ok := arr.Type().Underlying().(*types.Pointer).Elem().Underlying().(*types.Array); !ok || at.Len() != int64(len(elems)) {
			continue
		}
		body, done := h.Succs[0], h.Succs[1]
		// body: load S[i'], test against nil, non-nil leaves the loop, nil goes back to the header
		if len(body.Instrs) == 0 || len(body.Succs) != 2 {
			continue
		}
		biff, ok := body.Instrs[len(body.Instrs)-1].(*ssa.If)
		if !ok {
			continue
		}
		bc, ok := biff.Cond.(*ssa.BinOp)
		if !ok || (bc.Op != token.NEQ && bc.Op != token.EQL) {
			continue
		}
		var loaded ssa.Value
		switch {
		case isNilConstRaw(bc.Y):
			loaded = bc.X
		case isNilConstRaw(bc.X):
			loaded = bc.Y
		}
		ld, ok := loaded.(*ssa.UnOp)
		if !ok || ld.Op != token.MUL {
			continue
		}
		ia, ok := ld.X.(*ssa.IndexAddr)
		if !ok || ia.X != ssa.Value(sl) || ia.Index != cmp.X {
			continue
		}
		nilSucc := 1
		if bc.Op == token.EQL {
			nilSucc = 0
		}
		if body.Succs[nilSucc] != h {
			continue
		}
		// the index runs over all elements: cmp.X = phi(-1, cmp.X) + 1, or phi(0, …) with the increment in the body
		if !countsFromStart(cmp.X, h) {
			continue
		}
		// `at` only behind the exit edge
		if len(done.Instrs) == 0 || ReachableAvoiding(fn, at, []Edge{{From: h, Succ: 1}}, nil) {
			continue
		}
		// the slice and the array are used for nothing else
		if !onlyUsedBy(sl, ia, cmp.Y) || !arrayOnlyFilled(arr, sl) {
			continue
		}
		for _, e := range elems {
			ph, ok := e.(*ssa.Phi)
			if !ok {
				continue
			}
			pb := ph.Block()
			if len(pb.Instrs) > 0 && ReachableFrom(fn, pb.Instrs[len(pb.Instrs)-1], ph, nil, nil) {
				continue // the merge sits in a cycle: "the edge taken" is not a single event
			}
			for i, alt := range ph.Edges {
				if i >= len(pb.Preds) || !knownNonNilErr(alt, pb.Preds[i]) {
					continue
				}
				p := pb.Preds[i]
				for si, s := range p.Succs {
					if s == pb {
						cuts = append(cuts, Edge{From: p, Succ: si})
					}
				}
			}
		}
	}
	return cuts
}

func isNilConstRaw(v ssa.Value) bool {
	c, ok := v.(*ssa.Const)
	return ok && c.Value == nil
}

// knownNonNilErr: a freshly made error, or a value tested non-nil on the way into the predecessor.
func knownNonNilErr(v ssa.Value, pred *ssa.BasicBlock) bool {
	if call, ok := rawStrip(v).(*ssa.Call); ok {
		if sc := call.Call.StaticCallee(); sc != nil && (sc.String() == "fmt.Errorf" || sc.String() == "errors.New") {
			return true
		}
	}
	if IsSentinelErr(rawStrip(v)) {
		return true
	}
	return knownNonNilOn(pred, v)
}

func countsFromStart(idx ssa.Value, h *ssa.BasicBlock) bool {
	add, ok := idx.(*ssa.BinOp)
	if !ok || add.Op != token.ADD || add.Block() != h {
		return false
	}
	one, ok := add.Y.(*ssa.Const)
	if !ok || one.Value == nil || one.Int64() != 1 {
		return false
	}
	ph, ok := add.X.(*ssa.Phi)
	if !ok || ph.Block() != h || len(ph.Edges) != 2 {
		return false
	}
	start, back := 0, 0
	for _, e := range ph.Edges {
		if c, ok := e.(*ssa.Const); ok && c.Value != nil && c.Int64() == -1 {
			start++
		} else if e == ssa.Value(add) {
			back++
		}
	}
	return start == 1 && back == 1
}

func onlyUsedBy(sl *ssa.Slice, ia *ssa.IndexAddr, lenCall ssa.Value) bool {
	if sl.Referrers() == nil {
		return false
	}
	for _, r := range *sl.Referrers() {
		switch x := r.(type) {
		case *ssa.IndexAddr:
			if x != ia {
				return false
			}
		case *ssa.Call:
			if ssa.Value(x) != lenCall {
				return false
			}
		case *ssa.DebugRef:
		default:
			return false
		}
	}
	// the element address is only loaded
	if ia.Referrers() != nil {
		for _, r := range *ia.Referrers() {
			if u, ok := r.(*ssa.UnOp); !ok || u.Op != token.MUL {
				if _, dbg := r.(*ssa.DebugRef); !dbg {
					return false
				}
			}
		}
	}
	return true
}

func arrayOnlyFilled(arr *ssa.Alloc, sl *ssa.Slice) bool {
	if arr.Referrers() == nil {
		return false
	}
	for _, r := range *arr.Referrers() {
		switch x := r.(type) {
		case *ssa.IndexAddr:
			if _, isC := x.Index.(*ssa.Const); !isC || x.Referrers() == nil {
				return false
			}
			n := 0
			for _, u := range *x.Referrers() {
				if st, ok := u.(*ssa.Store); ok && st.Addr == ssa.Value(x) {
					n++
				} else if _, dbg := u.(*ssa.DebugRef); !dbg {
					return false
				}
			}
			if n != 1 {
				return false
			}
		case *ssa.Slice:
			if x != sl {
				return false
			}
		case *ssa.DebugRef:
		default:
			return false
		}
	}
	return true
}
