package ssax

import (
	"go/constant"
	"go/token"

	"golang.org/x/tools/go/ssa"
)

// Package-level constant tables: `var t = map[K]S{k1: {f: c1, …}, …}` consulted as t[key].f. A switch over an event or a
// type is often rewritten into such a table; the rules that reason about "the constant used for event e" evaluate the
// lookup under the assumption key == e.

// TableField describes v = G[key].field for a package-level map G that is written only by its package initialiser.
type TableField struct {
	Global *ssa.Global
	Key    ssa.Value
	Field  int // -1: the element itself is the value
}

// AsTableField recognises v as a (field of a) lookup in a package-level map.
func AsTableField(v ssa.Value) (TableField, bool) {
	v = rawStrip(v)
	field := -1
	if f, ok := v.(*ssa.Field); ok {
		field = f.Field
		v = rawStrip(f.X)
	} else if ld, ok := v.(*ssa.UnOp); ok && ld.Op == token.MUL {
		// field read through a spilled copy: *(&local.f) where local := G[key]
		if fa, ok := ld.X.(*ssa.FieldAddr); ok {
			if al, ok := fa.X.(*ssa.Alloc); ok {
				if st := storesTo(al); len(st) == 1 {
					field = fa.Field
					v = rawStrip(st[0].Val)
				}
			}
		}
	}
	if ex, ok := v.(*ssa.Extract); ok && ex.Index == 0 {
		v = ex.Tuple
	}
	lk, ok := v.(*ssa.Lookup)
	if !ok {
		return TableField{}, false
	}
	ld, ok := lk.X.(*ssa.UnOp)
	if !ok || ld.Op != token.MUL {
		return TableField{}, false
	}
	g, ok := ld.X.(*ssa.Global)
	if !ok {
		return TableField{}, false
	}
	return TableField{Global: g, Key: lk.Index, Field: field}, true
}

// TableEntries returns, for a package-level map with constant string keys initialised by a literal in the package
// initialiser, key -> element description; ok=false if the map is written anywhere else or has another shape.
// Each element is the list of constant field values (index = field number; missing = not a constant), or a single value.
func TableEntries(g *ssa.Global) (map[string][]constant.Value, map[string]ssa.Value, bool) {
	if g.Pkg == nil {
		return nil, nil, false
	}
	init := g.Pkg.Func("init")
	if init == nil {
		return nil, nil, false
	}
	var mm *ssa.MakeMap
	nStores := 0
	for _, b := range init.Blocks {
		for _, in := range b.Instrs {
			if st, ok := in.(*ssa.Store); ok && st.Addr == ssa.Value(g) {
				nStores++
				mm, _ = rawStrip(st.Val).(*ssa.MakeMap)
			}
		}
	}
	if mm == nil || nStores != 1 {
		return nil, nil, false
	}
	// no other writer of the global or of the map in the package
	for _, mem := range g.Pkg.Members {
		fn, ok := mem.(*ssa.Function)
		if !ok {
			continue
		}
		fns := append([]*ssa.Function{fn}, fn.AnonFuncs...)
		for _, f := range fns {
			if f == init {
				continue
			}
			for _, b := range f.Blocks {
				for _, in := range b.Instrs {
					switch x := in.(type) {
					case *ssa.Store:
						if x.Addr == ssa.Value(g) {
							return nil, nil, false
						}
					case *ssa.MapUpdate:
						if ld, ok := x.Map.(*ssa.UnOp); ok && ld.X == ssa.Value(g) {
							return nil, nil, false
						}
					}
				}
			}
		}
	}
	fields := map[string][]constant.Value{}
	vals := map[string]ssa.Value{}
	for _, b := range init.Blocks {
		for _, in := range b.Instrs {
			mu, ok := in.(*ssa.MapUpdate)
			if !ok || mu.Map != ssa.Value(mm) {
				continue
			}
			kc, ok := rawStrip(mu.Key).(*ssa.Const)
			if !ok || kc.Value == nil || kc.Value.Kind() != constant.String {
				return nil, nil, false
			}
			key := constant.StringVal(kc.Value)
			vals[key] = mu.Value
			// struct literal: load of a local whose fields were stored
			if ld, ok := rawStrip(mu.Value).(*ssa.UnOp); ok && ld.Op == token.MUL {
				if al, ok := ld.X.(*ssa.Alloc); ok && al.Referrers() != nil {
					var fv []constant.Value
					for _, r := range *al.Referrers() {
						fa, ok := r.(*ssa.FieldAddr)
						if !ok || fa.Referrers() == nil {
							continue
						}
						for _, u := range *fa.Referrers() {
							if st, ok := u.(*ssa.Store); ok && st.Addr == ssa.Value(fa) {
								if c, ok := rawStrip(st.Val).(*ssa.Const); ok && c.Value != nil {
									for len(fv) <= fa.Field {
										fv = append(fv, nil)
									}
									fv[fa.Field] = c.Value
								}
							}
						}
					}
					fields[key] = fv
				}
			} else if c, ok := rawStrip(mu.Value).(*ssa.Const); ok && c.Value != nil {
				fields[key] = []constant.Value{c.Value}
			}
		}
	}
	return fields, vals, len(vals) > 0
}

// ConstOfTableField evaluates G[key].field for key == keyConst.
func ConstOfTableField(tf TableField, keyConst string) (constant.Value, bool) {
	fields, _, ok := TableEntries(tf.Global)
	if !ok {
		return nil, false
	}
	fv, ok := fields[keyConst]
	if !ok {
		return nil, false
	}
	idx := tf.Field
	if idx < 0 {
		idx = 0
	}
	if idx >= len(fv) || fv[idx] == nil {
		return nil, false
	}
	return fv[idx], true
}
