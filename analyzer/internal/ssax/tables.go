package ssax

import (
	"go/constant"
	"go/token"
	"go/types"
	"os"

	"golang.org/x/tools/go/ssa"
)

// Package-level constant tables: `var t = map[K]S{k1: {f: c1, …}, …}` consulted as t[key].f. A switch over an event or a
// type is often rewritten into such a table; the rules that reason about "the constant used for event e" evaluate the
// lookup under the assumption key == e.

// TableField describes v = G[key].field for a package-level map G that is written only by its package initialiser.
type TableField struct {
	Global *ssa.Global
	Key    ssa.Value
	Field  int // -1: the element itself is the value
}

// AsTableField recognises v as a (field of a) lookup in a package-level map.
func AsTableField(v ssa.Value) (TableField, bool) {
	v = rawStrip(v)
	field := -1
	if f, ok := v.(*ssa.Field); ok {
		field = f.Field
		v = rawStrip(f.X)
	} else if ld, ok := v.(*ssa.UnOp); ok && ld.Op == token.MUL {
		// field read through a spilled copy: *(&local.f) where local := G[key]
		if fa, ok := ld.X.(*ssa.FieldAddr); ok {
			if al, ok := fa.X.(*ssa.Alloc); ok {
				if st := storesTo(al); len(st) == 1 {
					field = fa.Field
					v = rawStrip(st[0].Val)
				}
			}
		}
	}
	if ex, ok := v.(*ssa.Extract); ok && ex.Index == 0 {
		v = ex.Tuple
	}
	lk, ok := v.(*ssa.Lookup)
	if !ok {
		return TableField{}, false
	}
	ld, ok := lk.X.(*ssa.UnOp)
	if !ok || ld.Op != token.MUL {
		return TableField{}, false
	}
	g, ok := ld.X.(*ssa.Global)
	if !ok {
		return TableField{}, false
	}
	return TableField{Global: g, Key: lk.Index, Field: field}, true
}

// TableEntries returns, for a package-level map with constant string keys initialised by a literal in the package
// initialiser, key -> element description; ok=false if the map is written anywhere else or has another shape.
// Each element is the list of constant field values (index = field number; missing = not a constant), or a single value.
func TableEntries(g *ssa.Global) (map[string][]constant.Value, map[string]ssa.Value, bool) {
	if g.Pkg == nil {
		return nil, nil, false
	}
	init := g.Pkg.Func("init")
	if init == nil {
		return nil, nil, false
	}
	var mm *ssa.MakeMap
	nStores := 0
	for _, b := range init.Blocks {
		for _, in := range b.Instrs {
			if st, ok := in.(*ssa.Store); ok && st.Addr == ssa.Value(g) {
				nStores++
				mm, _ = rawStrip(st.Val).(*ssa.MakeMap)
			}
		}
	}
	if mm == nil || nStores != 1 {
		return nil, nil, false
	}
	// no other writer of the global or of the map in the package
	for _, mem := range g.Pkg.Members {
		fn, ok := mem.(*ssa.Function)
		if !ok {
			continue
		}
		fns := append([]*ssa.Function{fn}, fn.AnonFuncs...)
		for _, f := range fns {
			if f == init {
				continue
			}
			for _, b := range f.Blocks {
				for _, in := range b.Instrs {
					switch x := in.(type) {
					case *ssa.Store:
						if x.Addr == ssa.Value(g) {
							return nil, nil, false
						}
					case *ssa.MapUpdate:
						if ld, ok := x.Map.(*ssa.UnOp); ok && ld.X == ssa.Value(g) {
							return nil, nil, false
						}
					}
				}
			}
		}
	}
	fields := map[string][]constant.Value{}
	vals := map[string]ssa.Value{}
	for _, b := range init.Blocks {
		for _, in := range b.Instrs {
			mu, ok := in.(*ssa.MapUpdate)
			if !ok || mu.Map != ssa.Value(mm) {
				continue
			}
			kc, ok := rawStrip(mu.Key).(*ssa.Const)
			if !ok || kc.Value == nil || kc.Value.Kind() != constant.String {
				return nil, nil, false
			}
			key := constant.StringVal(kc.Value)
			vals[key] = mu.Value
			// struct literal: load of a local whose fields were stored
			if ld, ok := rawStrip(mu.Value).(*ssa.UnOp); ok && ld.Op == token.MUL {
				if al, ok := ld.X.(*ssa.Alloc); ok && al.Referrers() != nil {
					var fv []constant.Value
					for _, r := range *al.Referrers() {
						fa, ok := r.(*ssa.FieldAddr)
						if !ok || fa.Referrers() == nil {
							continue
						}
						for _, u := range *fa.Referrers() {
							if st, ok := u.(*ssa.Store); ok && st.Addr == ssa.Value(fa) {
								if c, ok := rawStrip(st.Val).(*ssa.Const); ok && c.Value != nil {
									for len(fv) <= fa.Field {
										fv = append(fv, nil)
									}
									fv[fa.Field] = c.Value
								}
							}
						}
					}
					fields[key] = fv
				}
			} else if c, ok := rawStrip(mu.Value).(*ssa.Const); ok && c.Value != nil {
				fields[key] = []constant.Value{c.Value}
			}
		}
	}
	return fields, vals, len(vals) > 0
}

// ConstOfTableField evaluates G[key].field for key == keyConst.
func ConstOfTableField(tf TableField, keyConst string) (constant.Value, bool) {
	fields, _, ok := TableEntries(tf.Global)
	if !ok {
		return nil, false
	}
	fv, ok := fields[keyConst]
	if !ok {
		return nil, false
	}
	idx := tf.Field
	if idx < 0 {
		idx = 0
	}
	if idx >= len(fv) || fv[idx] == nil {
		return nil, false
	}
	return fv[idx], true
}

// ---- searched row tables --------------------------------------------------------------------------------------------
//
// `var rows = []T{{key: k1, a: c1, …}, …}` consulted by a linear search `for _, r := range rows { if r.key == x { … r.a … } }`
// (possibly in an expanded helper that returns the row). Under the assumption x == k the field is the constant of the
// unique row whose key field is k.

// RowField describes v = row.Field where row is the element of the package-level slice (or array) Global at which a
// linear search stopped because row.KeyField == Key.
type RowField struct {
	Global   *ssa.Global
	Field    int
	KeyField int
	Key      ssa.Value
}

// rowElem: v is the load of an element of a package-level slice/array: *(&(*G)[i]) or *(&G[i]).
func rowElem(v ssa.Value) (*ssa.Global, *ssa.IndexAddr, bool) {
	ld, ok := v.(*ssa.UnOp)
	if !ok || ld.Op != token.MUL {
		return nil, nil, false
	}
	ia, ok := ld.X.(*ssa.IndexAddr)
	if !ok {
		return nil, nil, false
	}
	return rowElemAddr(ia)
}

func rowElemAddr(ia *ssa.IndexAddr) (*ssa.Global, *ssa.IndexAddr, bool) {
	switch x := ia.X.(type) {
	case *ssa.Global:
		return x, ia, true
	case *ssa.UnOp:
		if x.Op == token.MUL {
			if g, ok := x.X.(*ssa.Global); ok {
				return g, ia, true
			}
		}
	}
	return nil, nil, false
}

// rowSources traces a struct value back to element loads of package-level tables; every store into a local on the way
// is reported in stores. ok=false if some alternative is anything else (zero-value alternatives that FeasibleEdges
// cannot exclude included).
func rowSources(v ssa.Value, seen map[ssa.Value]bool, elems *[]*ssa.IndexAddr, gl **ssa.Global, stores *[]*ssa.Store) bool {
	v = rawStrip(v)
	if seen[v] {
		return true
	}
	seen[v] = true
	if g, ia, ok := rowElem(v); ok {
		if *gl != nil && *gl != g {
			return false
		}
		*gl = g
		*elems = append(*elems, ia)
		return true
	}
	switch x := v.(type) {
	case *ssa.Phi:
		for _, e := range FeasibleEdges(x) {
			if !rowSources(e, seen, elems, gl, stores) {
				return false
			}
		}
		return true
	case *ssa.UnOp:
		if x.Op != token.MUL {
			return false
		}
		al, ok := x.X.(*ssa.Alloc)
		if !ok {
			return false
		}
		st := storesTo(al)
		if len(st) == 0 {
			return false
		}
		// the local must not be written any other way (its address must not escape into a call)
		for _, r := range *al.Referrers() {
			switch r.(type) {
			case *ssa.Store, *ssa.UnOp, *ssa.FieldAddr, *ssa.DebugRef:
			default:
				return false
			}
		}
		for _, s := range st {
			*stores = append(*stores, s)
			if !rowSources(s.Val, seen, elems, gl, stores) {
				return false
			}
		}
		return true
	}
	return false
}

// AsRowField recognises v (a field read of a struct) as a field of the row found by a linear search for key.
func AsRowField(fn *ssa.Function, v ssa.Value, key ssa.Value) (RowField, bool) {
	if key == nil {
		return RowField{}, false
	}
	return AsRowFieldFn(fn, v, func(x ssa.Value) bool { return Resolve(x) == Resolve(key) })
}

// AsRowFieldFn is AsRowField where the value the key column is compared with is described by a predicate.
func AsRowFieldFn(fn *ssa.Function, v ssa.Value, key func(ssa.Value) bool) (RowField, bool) {
	v = rawStrip(v)
	var base ssa.Value
	field := -1
	var use ssa.Instruction
	switch x := v.(type) {
	case *ssa.Field:
		base, field, use = x.X, x.Field, x
	case *ssa.UnOp:
		if x.Op != token.MUL {
			return RowField{}, false
		}
		fa, ok := x.X.(*ssa.FieldAddr)
		if !ok {
			return RowField{}, false
		}
		field, use = fa.Field, x
		switch y := fa.X.(type) {
		case *ssa.Alloc:
			// a load of the whole local stands for the struct held in it
			for _, r := range *y.Referrers() {
				switch r.(type) {
				case *ssa.Store, *ssa.UnOp, *ssa.FieldAddr, *ssa.DebugRef:
				default:
					return RowField{}, false
				}
			}
			base = nil
			var elems []*ssa.IndexAddr
			var g *ssa.Global
			var stores []*ssa.Store
			seen := map[ssa.Value]bool{}
			st := storesTo(y)
			if len(st) == 0 {
				return RowField{}, false
			}
			for _, s := range st {
				stores = append(stores, s)
				if !rowSources(s.Val, seen, &elems, &g, &stores) {
					return RowField{}, false
				}
			}
			return rowFieldFrom(fn, use, field, key, g, elems, stores)
		case *ssa.IndexAddr:
			g, ia, ok := rowElemAddr(y)
			if !ok {
				return RowField{}, false
			}
			return rowFieldFrom(fn, use, field, key, g, []*ssa.IndexAddr{ia}, nil)
		default:
			return RowField{}, false
		}
	default:
		return RowField{}, false
	}
	var elems []*ssa.IndexAddr
	var g *ssa.Global
	var stores []*ssa.Store
	if !rowSources(base, map[ssa.Value]bool{}, &elems, &g, &stores) {
		return RowField{}, false
	}
	return rowFieldFrom(fn, use, field, key, g, elems, stores)
}

func rowFieldFrom(fn *ssa.Function, use ssa.Instruction, field int, key func(ssa.Value) bool, g *ssa.Global, elems []*ssa.IndexAddr, stores []*ssa.Store) (RowField, bool) {
	if os.Getenv("DCVERIF_DEBUG_ROW") != "" {
		println("ROW", fn.Name(), use.String(), g != nil, len(elems))
	}
	if g == nil || len(elems) == 0 || key == nil {
		return RowField{}, false
	}
	// every element access uses the same index value (one search loop)
	idx := elems[0].Index
	for _, e := range elems {
		if e.Index != idx {
			return RowField{}, false
		}
	}
	isElem := func(v ssa.Value) bool {
		var es []*ssa.IndexAddr
		var gg *ssa.Global
		var ss []*ssa.Store
		if !rowSources(v, map[ssa.Value]bool{}, &es, &gg, &ss) || gg != g || len(es) == 0 {
			return false
		}
		for _, e := range es {
			if e.Index != idx {
				return false
			}
		}
		return true
	}
	// the key comparison: <elem>.k == key whose equal edge every path to the use takes
	for _, c := range Conds(fn) {
		if c.Op != token.EQL && c.Op != token.NEQ {
			continue
		}
		for _, pr := range [][2]ssa.Value{{c.X, c.Y}, {c.Y, c.X}} {
			if !key(pr[1]) {
				continue
			}
			kf := -1
			switch x := rawStrip(pr[0]).(type) {
			case *ssa.Field:
				if isElem(x.X) {
					kf = x.Field
				}
			case *ssa.UnOp:
				if fa, ok := x.X.(*ssa.FieldAddr); ok && x.Op == token.MUL {
					switch y := fa.X.(type) {
					case *ssa.Alloc:
						ok := len(storesTo(y)) > 0
						for _, s := range storesTo(y) {
							if !isElem(s.Val) {
								ok = false
							}
						}
						if ok {
							kf = fa.Field
						}
					case *ssa.IndexAddr:
						if gg, ia, ok := rowElemAddr(y); ok && gg == g && ia.Index == idx {
							kf = fa.Field
						}
					}
				}
			}
			if kf < 0 {
				continue
			}
			eq, ok := c.EdgeWhere(token.EQL)
			if !ok {
				continue
			}
			if ReachableAvoiding(fn, use, []Edge{eq}, nil) {
				continue
			}
			// the row read at the use is the row that was compared: after the latest element load the equal edge is
			// taken before the use, and every copy on the way to the use is made after that load (no "previous row")
			stale := false
			for _, b := range fn.Blocks {
				for _, in := range b.Instrs {
					ia, ok := in.(*ssa.IndexAddr)
					if !ok {
						continue
					}
					gg, _, ok := rowElemAddr(ia)
					if !ok || gg != g {
						continue
					}
					if ReachableFrom(fn, ia, use, []Edge{eq}, nil) {
						stale = true
					}
					for _, st := range stores {
						if ld, isLd := rawStrip(st.Val).(*ssa.UnOp); isLd && ld.X == ssa.Value(ia) && ld.Block() == st.Block() {
							continue // the row variable itself: written at every element load
						}
						if ReachableFrom(fn, st, ia, nil, nil) && ReachableFrom(fn, ia, use, nil, nil) {
							stale = true
						}
					}
				}
			}
			if stale {
				continue
			}
			return RowField{Global: g, Field: field, KeyField: kf, Key: pr[1]}, true
		}
	}
	return RowField{}, false
}

// RowEntries returns the rows of a package-level slice or array of structs initialised by a composite literal of
// constants in the package initialiser and never written elsewhere in its package: row -> field -> constant.
func RowEntries(g *ssa.Global) ([][]constant.Value, bool) {
	if g.Pkg == nil {
		return nil, false
	}
	init := g.Pkg.Func("init")
	if init == nil {
		return nil, false
	}
	var backing ssa.Value // the array whose elements the literal fills
	nStores := 0
	for _, b := range init.Blocks {
		for _, in := range b.Instrs {
			switch x := in.(type) {
			case *ssa.Store:
				if x.Addr == ssa.Value(g) {
					nStores++
					if sl, ok := rawStrip(x.Val).(*ssa.Slice); ok {
						backing = sl.X
					}
				}
			case *ssa.IndexAddr:
				if x.X == ssa.Value(g) {
					backing = g
				}
			}
		}
	}
	if backing == nil || (backing != ssa.Value(g) && nStores != 1) || (backing == ssa.Value(g) && nStores != 0) {
		return nil, false
	}
	for _, mem := range g.Pkg.Members {
		fn, ok := mem.(*ssa.Function)
		if !ok {
			continue
		}
		fns := append([]*ssa.Function{fn}, fn.AnonFuncs...)
		for _, f := range fns {
			if f == init {
				continue
			}
			if writesTable(f, g) {
				return nil, false
			}
		}
	}
	// methods of the package's types
	for _, mem := range g.Pkg.Members {
		if t, ok := mem.(*ssa.Type); ok {
			for _, f := range methodsOf(g.Pkg.Prog, t) {
				if writesTable(f, g) {
					return nil, false
				}
			}
		}
	}
	var rows [][]constant.Value
	for _, b := range init.Blocks {
		for _, in := range b.Instrs {
			ia, ok := in.(*ssa.IndexAddr)
			if !ok || ia.X != backing || ia.Referrers() == nil {
				continue
			}
			ic, ok := ia.Index.(*ssa.Const)
			if !ok || ic.Value == nil {
				return nil, false
			}
			i64, _ := constant.Int64Val(ic.Value)
			for int64(len(rows)) <= i64 {
				rows = append(rows, nil)
			}
			for _, r := range *ia.Referrers() {
				fa, ok := r.(*ssa.FieldAddr)
				if !ok {
					if _, dbg := r.(*ssa.DebugRef); dbg {
						continue
					}
					return nil, false
				}
				if fa.Referrers() == nil {
					continue
				}
				for _, u := range *fa.Referrers() {
					st, ok := u.(*ssa.Store)
					if !ok || st.Addr != ssa.Value(fa) {
						continue
					}
					c, ok := rawStrip(st.Val).(*ssa.Const)
					if !ok || c.Value == nil {
						continue
					}
					for len(rows[i64]) <= fa.Field {
						rows[i64] = append(rows[i64], nil)
					}
					rows[i64][fa.Field] = c.Value
				}
			}
		}
	}
	return rows, len(rows) > 0
}

func methodsOf(prog *ssa.Program, t *ssa.Type) []*ssa.Function {
	var out []*ssa.Function
	for _, typ := range []types.Type{t.Type(), types.NewPointer(t.Type())} {
		ms := prog.MethodSets.MethodSet(typ)
		for i := 0; i < ms.Len(); i++ {
			if f := prog.MethodValue(ms.At(i)); f != nil && f.Pkg == t.Package() {
				out = append(out, f)
				out = append(out, f.AnonFuncs...)
			}
		}
	}
	return out
}

// writesTable: f stores to the global, or to an element (field) of the slice/array held in it.
func writesTable(f *ssa.Function, g *ssa.Global) bool {
	for _, b := range f.Blocks {
		for _, in := range b.Instrs {
			switch x := in.(type) {
			case *ssa.Store:
				if x.Addr == ssa.Value(g) {
					return true
				}
				a := x.Addr
				if fa, ok := a.(*ssa.FieldAddr); ok {
					a = fa.X
				}
				if ia, ok := a.(*ssa.IndexAddr); ok {
					if gg, _, ok := rowElemAddr(ia); ok && gg == g {
						return true
					}
				}
			}
		}
	}
	return false
}

// ConstOfRowField evaluates the field for key == keyConst; exactly one row must carry that key.
func ConstOfRowField(rf RowField, keyConst string) (constant.Value, bool) {
	rows, ok := RowEntries(rf.Global)
	if !ok {
		return nil, false
	}
	var hit []constant.Value
	n := 0
	for _, r := range rows {
		if rf.KeyField < len(r) && r[rf.KeyField] != nil && r[rf.KeyField].Kind() == constant.String && constant.StringVal(r[rf.KeyField]) == keyConst {
			hit = r
			n++
		}
	}
	if n != 1 || rf.Field >= len(hit) || hit[rf.Field] == nil {
		return nil, false
	}
	return hit[rf.Field], true
}
