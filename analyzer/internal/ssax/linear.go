package ssax

import (
	"go/constant"
	"fmt"
	"go/token"
	"go/types"
	"sort"
	"strings"

	"golang.org/x/tools/go/ssa"
)

// Lin is an integer linear form over symbolic atoms:
//
//	"N:<quorum>"  size of a quorum (…QuorumCount() or len(….Quorum))
//	"T"           the round threshold (GetThreshold() / .Threshold)
//	"c:<quorum>:<K>" number of quorum members whose Status equals constant K
//
// plus a constant term.
type Lin struct {
	Coef  map[string]int
	Const int
}

func newLin() Lin { return Lin{Coef: map[string]int{}} }

func (l Lin) add(o Lin, sign int) Lin {
	r := newLin()
	for k, v := range l.Coef {
		r.Coef[k] += v
	}
	for k, v := range o.Coef {
		r.Coef[k] += sign * v
	}
	r.Const = l.Const + sign*o.Const
	for k, v := range r.Coef {
		if v == 0 {
			delete(r.Coef, k)
		}
	}
	return r
}

func (l Lin) scale(k int) Lin {
	out := newLin()
	out.Const = l.Const * k
	for a, c := range l.Coef {
		if c*k != 0 {
			out.Coef[a] = c * k
		}
	}
	return out
}

func (l Lin) neg() Lin { return newLin().add(l, -1) }

func (l Lin) String() string {
	var ks []string
	for k := range l.Coef {
		ks = append(ks, k)
	}
	sort.Strings(ks)
	var parts []string
	for _, k := range ks {
		parts = append(parts, fmt.Sprintf("%+d*%s", l.Coef[k], k))
	}
	parts = append(parts, fmt.Sprintf("%+d", l.Const))
	return strings.Join(parts, " ")
}

// GE0 is the canonical relation "Lin >= 0".
type GE0 struct{ L Lin }

func (g GE0) String() string { return g.L.String() + " >= 0" }

// Normalizer turns SSA integer values of FSM validator callbacks into linear forms.
type Normalizer struct {
	Fn *ssa.Function
	// QuorumOf maps an access path to a quorum tag ("Sig","DKG","Signing") or "".
	Why []string
}

func quorumTag(path string) string {
	switch {
	case strings.Contains(path, "SignatureProposalPayload.Quorum"):
		return "Sig"
	case strings.Contains(path, "DKGProposalPayload.Quorum"):
		return "DKG"
	case strings.Contains(path, "SigningProposalPayload.Quorum"):
		return "Signing"
	}
	return ""
}

func (n *Normalizer) fail(format string, a ...interface{}) (Lin, bool) {
	n.Why = append(n.Why, fmt.Sprintf(format, a...))
	return Lin{}, false
}

// Value normalises v.
func (n *Normalizer) Value(v ssa.Value) (Lin, bool) {
	v = Resolve(v)
	switch x := v.(type) {
	case *ssa.Const:
		k, ok := ConstInt(x)
		if !ok {
			return n.fail("non-integer constant %s", x)
		}
		l := newLin()
		l.Const = int(k)
		return l, true
	case *ssa.Call:
		cc := x.Common()
		if b, ok := cc.Value.(*ssa.Builtin); ok && b.Name() == "len" {
			// the length of a slice that grows by one element per participant in a given status is that status' count
			if sp, isPhi := Resolve(cc.Args[0]).(*ssa.Phi); isPhi {
				if _, isSlice := sp.Type().Underlying().(*types.Slice); isSlice {
					return n.lenCounter(sp)
				}
			}
			tag := quorumTag(Path(cc.Args[0]))
			if tag == "" {
				return n.fail("len of a non-quorum value %s", Path(cc.Args[0]))
			}
			l := newLin()
			l.Coef["N:"+tag] = 1
			return l, true
		}
		id := FuncID(CalleeObj(x))
		switch {
		case strings.HasSuffix(id, ".(DumpedMachineStatePayload).SigQuorumCount"):
			l := newLin()
			l.Coef["N:Sig"] = 1
			return l, true
		case strings.HasSuffix(id, ".(DumpedMachineStatePayload).DKGQuorumCount"):
			l := newLin()
			l.Coef["N:DKG"] = 1
			return l, true
		case strings.HasSuffix(id, ".(DumpedMachineStatePayload).SigningQuorumCount"):
			l := newLin()
			l.Coef["N:Signing"] = 1
			return l, true
		case strings.HasSuffix(id, ".(DumpedMachineStatePayload).GetThreshold"):
			l := newLin()
			l.Coef["T"] = 1
			return l, true
		}
		return n.fail("call to %s is not a quorum size or threshold", id)
	case *ssa.UnOp:
		if x.Op == token.MUL {
			if fa, ok := x.X.(*ssa.FieldAddr); ok {
				if f := FieldOf(fa); f != nil && f.Name() == "Threshold" && OwnerName(fa) == "DumpedMachineStatePayload" {
					l := newLin()
					l.Coef["T"] = 1
					return l, true
				}
			}
		}
		if x.Op == token.SUB {
			if l, ok := n.Value(x.X); ok {
				return l.neg(), true
			}
		}
		return n.fail("unsupported unary value %s", Path(x))
	case *ssa.BinOp:
		switch x.Op {
		case token.ADD, token.SUB:
			a, ok1 := n.Value(x.X)
			b, ok2 := n.Value(x.Y)
			if !ok1 || !ok2 {
				return Lin{}, false
			}
			if x.Op == token.ADD {
				return a.add(b, 1), true
			}
			return a.add(b, -1), true
		}
		if x.Op == token.MUL {
			// multiplication by an integer constant (`-1*t`)
			for _, pr := range [][2]ssa.Value{{x.X, x.Y}, {x.Y, x.X}} {
				if k, ok := ConstInt(pr[0]); ok {
					if l, ok := n.Value(pr[1]); ok {
						return l.scale(int(k)), true
					}
				}
			}
		}
		return n.fail("unsupported operator %s", x.Op)
	case *ssa.Phi:
		return n.counter(x)
	}
	return n.fail("unsupported value %T %s", v, Path(v))
}

// counter recognises a loop counter: one initial value from outside the cycle, and ±1 steps
// each executed under `elem.Status == K` for an element of a range over a quorum.
func (n *Normalizer) counter(p *ssa.Phi) (Lin, bool) {
	inCycle := map[ssa.Value]bool{}
	var inits []ssa.Value
	type step struct {
		b    *ssa.BinOp
		sign int
	}
	var steps []step
	var visit func(v ssa.Value) bool
	visit = func(v ssa.Value) bool {
		v = Resolve(v)
		if inCycle[v] {
			return true
		}
		switch x := v.(type) {
		case *ssa.Phi:
			inCycle[v] = true
			for _, e := range FeasibleEdges(x) {
				if !visit(e) {
					return false
				}
			}
			return true
		case *ssa.BinOp:
			if x.Op == token.ADD || x.Op == token.SUB {
				if k, ok := ConstInt(x.Y); ok && k == 1 && reaches(x.X, p) {
					inCycle[v] = true
					s := 1
					if x.Op == token.SUB {
						s = -1
					}
					steps = append(steps, step{x, s})
					return visit(x.X)
				}
			}
		}
		inits = append(inits, v)
		return true
	}
	if !visit(p) {
		return Lin{}, false
	}
	// distinct inits
	uniqInit := map[ssa.Value]bool{}
	for _, i := range inits {
		uniqInit[i] = true
	}
	if len(uniqInit) != 1 {
		return n.fail("counter %s has %d initial values (expected 1)", p.Comment, len(uniqInit))
	}
	var init ssa.Value
	for i := range uniqInit {
		init = i
	}
	if len(steps) == 0 {
		return n.Value(init)
	}
	l, ok := n.Value(init)
	if !ok {
		return Lin{}, false
	}
	seenK := map[string]bool{}
	for _, st := range steps {
		atom, ok := n.statusGuard(p, st.b)
		if !ok {
			return Lin{}, false
		}
		if seenK[atom] {
			return n.fail("counter %s steps twice under the same status test %s", p.Comment, atom)
		}
		seenK[atom] = true
		a := newLin()
		a.Coef[atom] = 1
		l = l.add(a, st.sign)
	}
	return l, true
}

func reaches(v ssa.Value, p *ssa.Phi) bool {
	seen := map[ssa.Value]bool{}
	var f func(v ssa.Value) bool
	f = func(v ssa.Value) bool {
		v = Resolve(v)
		if v == ssa.Value(p) {
			return true
		}
		if seen[v] {
			return false
		}
		seen[v] = true
		switch x := v.(type) {
		case *ssa.Phi:
			for _, e := range FeasibleEdges(x) {
				if f(e) {
					return true
				}
			}
		case *ssa.BinOp:
			return f(x.X)
		}
		return false
	}
	return f(v)
}

// StatusCond describes a branch `elem.Status == K` where elem ranges over a quorum.
type StatusCond struct {
	Cond   Cond
	K      int64
	Quorum string
	EqEdge Edge
	Base   string // access path of the element
}

// StatusConds lists the status tests of fn.
func StatusConds(fn *ssa.Function) []StatusCond { return StatusCondsUnder(fn, nil) }

// ConstIntUnder evaluates v to an integer constant under the assumption that the cut edges are never taken: a phi
// collapses to the common constant of its alternatives whose predecessor is still reachable from the entry.
func ConstIntUnder(fn *ssa.Function, v ssa.Value, cut []Edge) (int64, bool) {
	return constIntUnder(fn, v, cut, 0)
}

// Assumption: the branch edges never taken, plus one value known to equal a string constant (the event of a shared
// callback).
type Assumption struct {
	Cut      []Edge
	KeyVal   ssa.Value
	KeyConst string
}

// ConstIntUnderA is ConstIntUnder that also evaluates lookups in package-level constant tables keyed by the assumed value.
func ConstIntUnderA(fn *ssa.Function, v ssa.Value, a Assumption) (int64, bool) {
	if k, ok := constIntUnder(fn, v, a.Cut, 0); ok {
		return k, true
	}
	if a.KeyVal == nil {
		return 0, false
	}
	if tf, ok := AsTableField(Resolve(v)); ok && Resolve(tf.Key) == Resolve(a.KeyVal) {
		if cv, ok := ConstOfTableField(tf, a.KeyConst); ok && cv.Kind() == constant.Int {
			if k, exact := constant.Int64Val(cv); exact {
				return k, true
			}
		}
	}
	for _, cand := range []ssa.Value{v, Resolve(v)} {
		if rf, ok := AsRowField(fn, cand, a.KeyVal); ok {
			if cv, ok := ConstOfRowField(rf, a.KeyConst); ok && cv.Kind() == constant.Int {
				if k, exact := constant.Int64Val(cv); exact {
					return k, true
				}
			}
		}
	}
	return 0, false
}

func constIntUnder(fn *ssa.Function, v ssa.Value, cut []Edge, depth int) (int64, bool) {
	if k, ok := ConstInt(v); ok {
		return k, true
	}
	if depth > 6 || len(cut) == 0 {
		return 0, false
	}
	p, ok := Resolve(v).(*ssa.Phi)
	if !ok {
		return 0, false
	}
	b := p.Block()
	have, val := false, int64(0)
	for i, e := range p.Edges {
		pred := b.Preds[i]
		if len(pred.Instrs) == 0 {
			continue
		}
		// is the edge pred->b usable: pred reachable avoiding the cuts, and the edge itself not cut
		if !ReachableAvoiding(fn, pred.Instrs[len(pred.Instrs)-1], cut, nil) {
			continue
		}
		isCut := false
		for _, c := range cut {
			if c.From == pred && c.Succ < len(pred.Succs) && pred.Succs[c.Succ] == b {
				// cut only if every edge from pred to b is cut (an If with both arms to b is not produced by go/ssa)
				isCut = true
			}
		}
		if isCut {
			continue
		}
		k, ok := constIntUnder(fn, e, cut, depth+1)
		if !ok {
			return 0, false
		}
		if have && k != val {
			return 0, false
		}
		have, val = true, k
	}
	return val, have
}

// StatusCondsUnder is StatusConds where the constant side may be a value that is constant under the assumption.
func StatusCondsUnder(fn *ssa.Function, cut []Edge) []StatusCond {
	return StatusCondsUnderA(fn, Assumption{Cut: cut})
}

func StatusCondsUnderA(fn *ssa.Function, a Assumption) []StatusCond {
	var out []StatusCond
	for _, c := range Conds(fn) {
		if c.Op != token.EQL && c.Op != token.NEQ {
			continue
		}
		for _, pr := range [][2]ssa.Value{{c.X, c.Y}, {c.Y, c.X}} {
			k, ok := ConstIntUnderA(fn, pr[1], a)
			if !ok {
				continue
			}
			ld, ok := Resolve(pr[0]).(*ssa.UnOp)
			if !ok || ld.Op != token.MUL {
				continue
			}
			fa, ok := ld.X.(*ssa.FieldAddr)
			if !ok {
				continue
			}
			f := FieldOf(fa)
			if f == nil || f.Name() != "Status" {
				continue
			}
			base := Path(fa.X)
			e, _ := c.EdgeWhere(token.EQL)
			out = append(out, StatusCond{Cond: c, K: k, Quorum: quorumTag(base), EqEdge: e, Base: base})
		}
	}
	return out
}

// statusGuard finds the unique status test whose equal-edge must be taken (after the loop
// header phi) to reach the step instruction.
func (n *Normalizer) statusGuard(p *ssa.Phi, step ssa.Instruction) (string, bool) {
	var found []StatusCond
	for _, sc := range StatusConds(n.Fn) {
		if !strings.Contains(sc.Base, "next(range(") {
			continue
		}
		if !ReachableFrom(n.Fn, p, step, []Edge{sc.EqEdge}, nil) {
			found = append(found, sc)
		}
	}
	if len(found) != 1 {
		_, ok := n.fail("counter step at %s is guarded by %d status tests (expected exactly 1)", step.String(), len(found))
		return "", ok
	}
	sc := found[0]
	if sc.Quorum == "" {
		_, ok := n.fail("status test on %s is not over a known quorum", sc.Base)
		return "", ok
	}
	// the step must lie inside the loop whose header holds the phi: it must reach the phi again
	if !blockReaches(step.Block(), p.Block()) {
		_, ok := n.fail("counter step is not inside the counting loop")
		return "", ok
	}
	return fmt.Sprintf("c:%s:%d", sc.Quorum, sc.K), true
}

func blockReaches(a, b *ssa.BasicBlock) bool {
	seen := map[*ssa.BasicBlock]bool{}
	stack := []*ssa.BasicBlock{a}
	for len(stack) > 0 {
		x := stack[len(stack)-1]
		stack = stack[:len(stack)-1]
		for _, s := range x.Succs {
			if s == b {
				return true
			}
			if !seen[s] {
				seen[s] = true
				stack = append(stack, s)
			}
		}
	}
	return false
}

// Flag recognises a boolean accumulator: phi of `false` (initial) and `true` set under a
// status test inside a range over a quorum. It returns the atom c:<quorum>:<K>; the flag is
// true iff that count is >= 1.
func (n *Normalizer) Flag(v ssa.Value) (string, bool) {
	p, ok := Resolve(v).(*ssa.Phi)
	if !ok {
		_, ok := n.fail("flag is not a phi")
		return "", ok
	}
	// collect the cycle of phis
	cyc := map[*ssa.Phi]bool{}
	var trueEdges []Edge
	var walk func(p *ssa.Phi) bool
	walk = func(p *ssa.Phi) bool {
		if cyc[p] {
			return true
		}
		cyc[p] = true
		for i, e := range p.Edges {
			e = Resolve(e)
			switch x := e.(type) {
			case *ssa.Phi:
				if !walk(x) {
					return false
				}
			case *ssa.Const:
				if x.Value == nil {
					return false
				}
				if x.Value.String() == "true" {
					pred := p.Block().Preds[i]
					// the edge pred -> p.Block()
					for si, s := range pred.Succs {
						if s == p.Block() {
							trueEdges = append(trueEdges, Edge{pred, si})
						}
					}
				} else if x.Value.String() != "false" {
					return false
				}
			default:
				return false
			}
		}
		return true
	}
	if !walk(p) {
		_, ok := n.fail("flag %s has non-constant inputs", p.Comment)
		return "", ok
	}
	if len(trueEdges) == 0 {
		_, ok := n.fail("flag %s is never set", p.Comment)
		return "", ok
	}
	atoms := map[string]bool{}
	for _, te := range trueEdges {
		// the block that sets true must be reachable only via a status-equal edge
		var found []StatusCond
		var probe ssa.Instruction = te.From.Instrs[len(te.From.Instrs)-1]
		for _, sc := range StatusConds(n.Fn) {
			if !strings.Contains(sc.Base, "next(range(") {
				continue
			}
			if sc.EqEdge == te {
				found = append(found, sc)
				continue
			}
			if !ReachableAvoiding(n.Fn, probe, []Edge{sc.EqEdge}, nil) {
				found = append(found, sc)
			}
		}
		if len(found) != 1 || found[0].Quorum == "" {
			_, ok := n.fail("flag %s set under %d status tests (expected exactly 1)", p.Comment, len(found))
			return "", ok
		}
		atoms[fmt.Sprintf("c:%s:%d", found[0].Quorum, found[0].K)] = true
	}
	if len(atoms) != 1 {
		_, ok := n.fail("flag %s is set under several different statuses", p.Comment)
		return "", ok
	}
	for a := range atoms {
		return a, true
	}
	return "", false
}

// EdgeRelations returns, for every branch of fn whose condition normalises, the canonical
// relation that holds on each of its two edges.
func (n *Normalizer) EdgeRelations() map[Edge]GE0 {
	out := map[Edge]GE0{}
	for _, c := range Conds(n.Fn) {
		switch c.Op {
		case token.ILLEGAL:
			// boolean flag
			sub := &Normalizer{Fn: n.Fn}
			atom, ok := sub.Flag(c.X)
			if !ok {
				continue
			}
			tr := newLin()
			tr.Coef[atom] = 1
			tr.Const = -1 // c - 1 >= 0
			fl := newLin()
			fl.Coef[atom] = -1 // -c >= 0  (c == 0)
			te, _ := c.BoolEdge(true)
			fe, _ := c.BoolEdge(false)
			out[te] = GE0{tr}
			out[fe] = GE0{fl}
		case token.LSS, token.LEQ, token.GTR, token.GEQ:
			sub := &Normalizer{Fn: n.Fn}
			a, ok1 := sub.Value(c.X)
			b, ok2 := sub.Value(c.Y)
			if !ok1 || !ok2 {
				continue
			}
			f := a.add(b, -1) // X - Y
			blk := c.If.Block()
			out[Edge{blk, 0}] = relGE0(f, c.Op)
			out[Edge{blk, 1}] = relGE0(f, NegateOp(c.Op))
		}
	}
	return out
}

// relGE0 converts "f op 0" over the integers into the canonical "g >= 0".
func relGE0(f Lin, op token.Token) GE0 {
	switch op {
	case token.GEQ:
		return GE0{f}
	case token.GTR: // f > 0  <=> f-1 >= 0
		g := f.add(newLin(), 1)
		g.Const--
		return GE0{g}
	case token.LEQ: // f <= 0 <=> -f >= 0
		return GE0{f.neg()}
	case token.LSS: // f < 0 <=> -f-1 >= 0
		g := f.neg()
		g.Const--
		return GE0{g}
	}
	return GE0{f}
}

// MakeLin builds a linear form from atom coefficients (for expected relations).
func MakeLin(c int, coef map[string]int) Lin {
	l := newLin()
	for k, v := range coef {
		if v != 0 {
			l.Coef[k] = v
		}
	}
	l.Const = c
	return l
}


// lenCounter: p is a slice that starts empty and is grown by append(p, oneElement) inside a counting loop, each append under
// exactly one status test of the ranged quorum: len(p) is then the number of participants in that status.
func (n *Normalizer) lenCounter(p *ssa.Phi) (Lin, bool) {
	inCycle := map[ssa.Value]bool{}
	var steps []*ssa.Call
	var visit func(v ssa.Value) bool
	visit = func(v ssa.Value) bool {
		v = Resolve(v)
		if inCycle[v] {
			return true
		}
		switch x := v.(type) {
		case *ssa.Phi:
			inCycle[v] = true
			for _, e := range FeasibleEdges(x) {
				if !visit(e) {
					return false
				}
			}
			return true
		case *ssa.Const:
			return x.Value == nil
		case *ssa.Call:
			b, isB := x.Common().Value.(*ssa.Builtin)
			if !isB || b.Name() != "append" || len(x.Common().Args) != 2 || !reaches(x.Common().Args[0], p) {
				return false
			}
			// exactly one element appended: the variadic backing array has length 1
			sl, isSl := x.Common().Args[1].(*ssa.Slice)
			if !isSl {
				return false
			}
			al, isAl := sl.X.(*ssa.Alloc)
			if !isAl {
				return false
			}
			pt, isPt := al.Type().Underlying().(*types.Pointer)
			if !isPt {
				return false
			}
			arr, isArr := pt.Elem().Underlying().(*types.Array)
			if !isArr || arr.Len() != 1 {
				return false
			}
			inCycle[v] = true
			steps = append(steps, x)
			return visit(x.Common().Args[0])
		}
		return false
	}
	if !visit(p) || len(steps) == 0 {
		return n.fail("len of slice %s: not a per-status collection", p.Comment)
	}
	l := newLin()
	seenK := map[string]bool{}
	for _, st := range steps {
		atom, ok := n.statusGuard(p, st)
		if !ok {
			return Lin{}, false
		}
		if seenK[atom] {
			return n.fail("slice %s grows twice under the same status test %s", p.Comment, atom)
		}
		seenK[atom] = true
		a := newLin()
		a.Coef[atom] = 1
		l = l.add(a, 1)
	}
	return l, true
}
