// Package ssax holds the SSA helpers shared by the rules: resolved callees,
// access paths (value provenance), branch-condition recognition, and the
// "must pass through" reachability primitive.
package ssax

import (
	"os"
	"fmt"
	"go/constant"
	"go/token"
	"go/types"
	"sort"
	"strings"

	"golang.org/x/tools/go/ssa"
)

// ---------- callees ----------

// CalleeObj returns the *types.Func a call resolves to: the static callee
// (including the method behind a bound-method closure) or the interface method.
func CalleeObj(c ssa.CallInstruction) *types.Func {
	cc := c.Common()
	if cc.IsInvoke() {
		return cc.Method
	}
	if f := cc.StaticCallee(); f != nil {
		if f.Object() != nil {
			if tf, ok := f.Object().(*types.Func); ok {
				return tf
			}
		}
		// instantiated generic or wrapper
		if o := f.Origin(); o != nil && o.Object() != nil {
			if tf, ok := o.Object().(*types.Func); ok {
				return tf
			}
		}
	}
	return nil
}

// FuncAlias: functions analysed under the name they had on the reference tree (load.detectRenames).
var FuncAlias = map[*types.Func]string{}

// FuncID renders "pkgpath.(Recv).Name" or "pkgpath.Name" for a *types.Func.
func FuncID(f *types.Func) string {
	if f == nil {
		return ""
	}
	if old, ok := FuncAlias[f]; ok {
		return strings.TrimSuffix(funcID(f), f.Name()) + old
	}
	return funcID(f)
}

func funcID(f *types.Func) string {
	sig := f.Type().(*types.Signature)
	pkg := ""
	if f.Pkg() != nil {
		pkg = f.Pkg().Path()
	}
	if r := sig.Recv(); r != nil {
		t := r.Type()
		if p, ok := t.(*types.Pointer); ok {
			t = p.Elem()
		}
		name := t.String()
		if n, ok := t.(*types.Named); ok {
			name = n.Obj().Name()
			if n.Obj().Pkg() != nil {
				pkg = n.Obj().Pkg().Path()
			}
		}
		return pkg + ".(" + name + ")." + f.Name()
	}
	return pkg + "." + f.Name()
}

// IsCallTo reports whether the call resolves to the function id (see FuncID).
func IsCallTo(c ssa.CallInstruction, id string) bool {
	return FuncID(CalleeObj(c)) == id
}

// Calls lists the call instructions of fn (optionally including nested
// anonymous functions) whose callee satisfies pred.
func Calls(fn *ssa.Function, nested bool, pred func(c ssa.CallInstruction) bool) []ssa.CallInstruction {
	var out []ssa.CallInstruction
	var walk func(f *ssa.Function)
	walk = func(f *ssa.Function) {
		for _, b := range f.Blocks {
			for _, in := range b.Instrs {
				if c, ok := in.(ssa.CallInstruction); ok && pred(c) {
					out = append(out, c)
				}
			}
		}
		if nested {
			for _, a := range f.AnonFuncs {
				walk(a)
			}
		}
	}
	if fn != nil {
		walk(fn)
	}
	return out
}

// CallsTo lists calls in fn resolving to any of ids.
func CallsTo(fn *ssa.Function, ids ...string) []ssa.CallInstruction {
	set := map[string]bool{}
	for _, id := range ids {
		set[id] = true
	}
	return Calls(fn, false, func(c ssa.CallInstruction) bool { return set[FuncID(CalleeObj(c))] })
}

// ---------- resolving values ----------

// Strip removes value-preserving wrappers.
func Strip(v ssa.Value) ssa.Value {
	for {
		switch x := v.(type) {
		case *ssa.ChangeType:
			v = x.X
		case *ssa.MakeInterface:
			v = x.X
		case *ssa.ChangeInterface:
			v = x.X
		case *ssa.Convert:
			// string<->named string, []byte<->named: value preserving when underlying kinds agree
			if types.Identical(x.X.Type().Underlying(), x.Type().Underlying()) {
				v = x.X
			} else {
				return v
			}
		case *ssa.Phi:
			// a phi whose alternatives are correlated with an error phi tested right after the merge (the shape left by
			// `x, err := helper(); if err != nil { return }` once helper is expanded): only the alternatives of the
			// branch in which the value is used are feasible
			if fe := FeasibleEdges(x); len(fe) == 1 {
				v = fe[0]
			} else if one := lazyInitValue(x); one != nil {
				v = one
			} else {
				return v
			}
		default:
			return v
		}
	}
}

var (
	feCache      = map[*ssa.Phi][]ssa.Value{}
	feInProgress = map[*ssa.Phi]bool{}
)

func rawStrip(v ssa.Value) ssa.Value {
	for {
		switch x := v.(type) {
		case *ssa.ChangeType:
			v = x.X
		case *ssa.MakeInterface:
			v = x.X
		case *ssa.ChangeInterface:
			v = x.X
		default:
			return v
		}
	}
}

// FeasibleEdges returns the alternatives of p that can reach p's uses: if p's block ends in a test `e == nil` / `e != nil`
// of a sibling phi e of the same block and every use of p lies only behind one of the two edges, the alternatives whose
// e-alternative contradicts that edge are dropped.
func FeasibleEdges(p *ssa.Phi) []ssa.Value {
	if fe, ok := feCache[p]; ok {
		return fe
	}
	if feInProgress[p] {
		return p.Edges
	}
	feInProgress[p] = true
	defer delete(feInProgress, p)
	out := p.Edges
	defer func() { feCache[p] = out }()
	b := p.Block()
	em := errMergeOf(b)
	e := mergePhiOf(b)
	if em == nil || e == nil || len(em.succ) != len(p.Edges) {
		return out
	}
	refs := p.Referrers()
	if refs == nil || len(*refs) == 0 {
		return out
	}
	// which successor do all uses of p lie behind?
	fn := b.Parent()
	behindOK := [2]bool{true, true}
	n := 0
	for _, u := range *refs {
		if _, dbg := u.(*ssa.DebugRef); dbg {
			continue
		}
		if up, isPhi := u.(*ssa.Phi); isPhi {
			// a phi uses the value only when control arrives over the corresponding predecessor
			for i, e := range up.Edges {
				if e != ssa.Value(p) || i >= len(up.Block().Preds) {
					continue
				}
				n++
				pb := up.Block().Preds[i]
				if pb == b {
					// used along the edge b -> up.Block() itself
					for si := 0; si < 2 && si < len(b.Succs); si++ {
						if b.Succs[si] != up.Block() || b.Succs[1-si] == up.Block() {
							behindOK[si] = false
						}
					}
					continue
				}
				if len(pb.Instrs) == 0 {
					behindOK = [2]bool{}
					continue
				}
				last := pb.Instrs[len(pb.Instrs)-1]
				for si := 0; si < 2; si++ {
					if ReachableAvoiding(fn, last, []Edge{{b, si}}, nil) {
						behindOK[si] = false
					}
				}
			}
			continue
		}
		if u.Block() == b {
			// the test itself, or a spill of the merged value into a local: then the uses of that local count
			if st, isStore := u.(*ssa.Store); isStore && st.Val == ssa.Value(p) {
				if al, isAlloc := st.Addr.(*ssa.Alloc); isAlloc && al.Referrers() != nil {
					for _, r := range *al.Referrers() {
						if r == u || r.Block() == b {
							continue
						}
						if _, dbg := r.(*ssa.DebugRef); dbg {
							continue
						}
						n++
						for si := 0; si < 2; si++ {
							if ReachableAvoiding(fn, r, []Edge{{b, si}}, nil) {
								behindOK[si] = false
							}
						}
					}
				}
			}
			continue
		}
		n++
		for si := 0; si < 2; si++ {
			if ReachableAvoiding(fn, u, []Edge{{b, si}}, nil) {
				behindOK[si] = false
			}
		}
	}
	behind := -1
	if n > 0 && behindOK[0] != behindOK[1] {
		if behindOK[0] {
			behind = 0
		} else {
			behind = 1
		}
	}
	if os.Getenv("DCVERIF_DEBUG_FE") != "" {
		println("FE", fn.Name(), p.Comment, p.Type().String(), "block", b.Index, "behind", behind, "refs", len(*refs))
		for _, u := range *refs {
			println("   ref", u.String(), "in block", u.Block().Index)
		}
	}
	if behind < 0 {
		return out
	}
	var keep []ssa.Value
	for i := range p.Edges {
		if em.succ[i] < 0 || em.succ[i] == behind {
			keep = append(keep, p.Edges[i])
		}
	}
	if len(keep) > 0 {
		out = keep
	}
	return out
}

// storesTo lists Store instructions whose address is exactly a.
func storesTo(a *ssa.Alloc) []*ssa.Store {
	var out []*ssa.Store
	if a.Referrers() == nil {
		return nil
	}
	for _, r := range *a.Referrers() {
		if s, ok := r.(*ssa.Store); ok && s.Addr == a {
			out = append(out, s)
		}
	}
	return out
}

// LoadSource resolves a load `*a` of a local alloca to the value it must hold:
// the latest store in the same block before the load, or the unique store in
// the function. Returns nil when ambiguous.
func LoadSource(u *ssa.UnOp) ssa.Value {
	if u.Op != token.MUL {
		return nil
	}
	a, ok := u.X.(*ssa.Alloc)
	if !ok {
		return nil
	}
	b := u.Block()
	idx := -1
	for i, in := range b.Instrs {
		if in == ssa.Instruction(u) {
			idx = i
			break
		}
	}
	for i := idx - 1; i >= 0; i-- {
		if s, ok := b.Instrs[i].(*ssa.Store); ok && s.Addr == a {
			return s.Val
		}
		// a call that takes &a could write it; be conservative
		if c, ok := b.Instrs[i].(ssa.CallInstruction); ok {
			for _, arg := range c.Common().Args {
				if arg == ssa.Value(a) {
					return nil
				}
			}
		}
	}
	st := storesTo(a)
	if len(st) == 1 {
		return st[0].Val
	}
	return nil
}

// Resolve strips wrappers and follows loads of local allocas with a determinable source.
func Resolve(v ssa.Value) ssa.Value {
	for i := 0; i < 32; i++ {
		v = Strip(v)
		if u, ok := v.(*ssa.UnOp); ok && u.Op == token.MUL {
			if src := LoadSource(u); src != nil {
				v = src
				continue
			}
			if src := FieldLoadSource(u); src != nil {
				v = src
				continue
			}
		}
		return v
	}
	return v
}

// FieldLoadSource resolves a load of a field of a local struct, `*(&local.f)`, when the struct was built in one place:
// the field was stored exactly once through &local.f, or the local is a copy of another local struct (a composite
// literal, a value returned through an expanded helper) whose field f was stored exactly once.
func FieldLoadSource(u *ssa.UnOp) ssa.Value {
	fa, ok := u.X.(*ssa.FieldAddr)
	if !ok {
		return nil
	}
	return fieldOfLocal(fa.X, fa.Field, 0)
}

func fieldOfLocal(base ssa.Value, field int, depth int) ssa.Value {
	if depth > 4 {
		return nil
	}
	al, ok := base.(*ssa.Alloc)
	if !ok || al.Referrers() == nil {
		return nil
	}
	var fieldStores []*ssa.Store
	var whole []*ssa.Store
	for _, r := range *al.Referrers() {
		switch x := r.(type) {
		case *ssa.FieldAddr:
			if x.Field != field || x.Referrers() == nil {
				continue
			}
			for _, rr := range *x.Referrers() {
				if st, ok := rr.(*ssa.Store); ok && st.Addr == ssa.Value(x) {
					fieldStores = append(fieldStores, st)
				}
			}
		case *ssa.Store:
			if x.Addr == ssa.Value(al) {
				whole = append(whole, x)
			}
		case ssa.CallInstruction:
			return nil // the address escapes: anything may write it
		}
	}
	if len(fieldStores) == 1 && len(whole) == 0 {
		return fieldStores[0].Val
	}
	if len(fieldStores) == 0 && len(whole) == 1 {
		// a copy of another struct value
		src := Strip(whole[0].Val)
		if ld, ok := src.(*ssa.UnOp); ok && ld.Op == token.MUL {
			return fieldOfLocal(ld.X, field, depth+1)
		}
	}
	return nil
}

// ConstOf returns the constant value behind v, if any.
func ConstOf(v ssa.Value) (constant.Value, bool) {
	v = Resolve(v)
	if c, ok := v.(*ssa.Const); ok {
		if c.Value == nil {
			return nil, false // nil / zero
		}
		return c.Value, true
	}
	return nil, false
}

// IsNilConst reports whether v is the nil/zero constant.
func IsNilConst(v ssa.Value) bool {
	c, ok := Strip(v).(*ssa.Const)
	return ok && c.Value == nil
}

// ---------- access paths ----------

// Path renders a canonical provenance string for v: parameters, field chains,
// calls (with receiver/args), constants, index/lookup, phi alternatives.
// Two values with equal paths inside one function denote the same source
// expression modulo SSA spilling; the string is used for identity-flow checks.
// ParamNames gives parameters of reference-tree functions their reference names (set by the loader).
var ParamNames = map[*ssa.Parameter]string{}

func Path(v ssa.Value) string { return path(v, 0, map[ssa.Value]bool{}) }

func path(v ssa.Value, depth int, seen map[ssa.Value]bool) string {
	if v == nil {
		return "<nil>"
	}
	if depth > 24 {
		return "<deep>"
	}
	v = Strip(v)
	if seen[v] {
		return "<cycle>"
	}
	switch x := v.(type) {
	case *ssa.Parameter:
		if n, ok := ParamNames[x]; ok {
			return n
		}
		return x.Name()
	case *ssa.FreeVar:
		return "free:" + x.Name()
	case *ssa.Const:
		if x.Value == nil {
			return "nil"
		}
		return x.Value.ExactString()
	case *ssa.Global:
		return "global:" + x.Pkg.Pkg.Name() + "." + x.Name()
	case *ssa.Function:
		return "func:" + x.String()
	case *ssa.Alloc:
		st := storesTo(x)
		if len(st) == 1 {
			seen[v] = true
			defer delete(seen, v)
			return path(st[0].Val, depth+1, seen)
		}
		// array literal / varargs backing array: render the stored elements
		if elems := ArrayElems(x); len(elems) > 0 {
			seen[v] = true
			defer delete(seen, v)
			var parts []string
			for _, e := range elems {
				parts = append(parts, path(e, depth+1, seen))
			}
			return "{" + strings.Join(parts, ", ") + "}"
		}
		// the target of a JSON decode is named by what was decoded, not by the variable's name (renaming a local must
		// not change a provenance string)
		if src := decodeSource(x); src != nil {
			seen[v] = true
			defer delete(seen, v)
			return "json(" + path(src, depth+1, seen) + ")"
		}
		if x.Comment != "" {
			return "local:" + x.Comment
		}
		return "alloc"
	case *ssa.UnOp:
		switch x.Op {
		case token.MUL:
			if src := LoadSource(x); src != nil {
				return path(src, depth+1, seen)
			}
			return path(x.X, depth+1, seen)
		case token.NOT:
			return "!" + path(x.X, depth+1, seen)
		case token.SUB:
			return "-" + path(x.X, depth+1, seen)
		case token.ARROW:
			return "<-" + path(x.X, depth+1, seen)
		}
		return x.Op.String() + path(x.X, depth+1, seen)
	case *ssa.FieldAddr:
		return path(x.X, depth+1, seen) + "." + fieldName(x.X.Type(), x.Field)
	case *ssa.Field:
		return path(x.X, depth+1, seen) + "." + fieldName(x.X.Type(), x.Field)
	case *ssa.IndexAddr:
		return path(x.X, depth+1, seen) + "[" + path(x.Index, depth+1, seen) + "]"
	case *ssa.Index:
		return path(x.X, depth+1, seen) + "[" + path(x.Index, depth+1, seen) + "]"
	case *ssa.Lookup:
		// m[k] with k the key variable of a range over the same map reads the range's value: `for k := range m { v := m[k] }`
		// is `for _, v := range m` (as long as the loop does not write m, which the rules about such loops check anyway)
		if nx := RangeKeyOf(x); nx != nil && !x.CommaOk {
			return path(nx, depth+1, seen) + "#2"
		}
		return path(x.X, depth+1, seen) + "[" + path(x.Index, depth+1, seen) + "]"
	case *ssa.Slice:
		s := path(x.X, depth+1, seen)
		if x.Low == nil && x.High == nil && x.Max == nil {
			return s + "[:]"
		}
		lo, hi := "", ""
		if x.Low != nil {
			lo = path(x.Low, depth+1, seen)
		}
		if x.High != nil {
			hi = path(x.High, depth+1, seen)
		}
		return s + "[" + lo + ":" + hi + "]"
	case *ssa.Extract:
		return path(x.Tuple, depth+1, seen) + "#" + fmt.Sprint(x.Index)
	case *ssa.Call:
		return callPath(x.Common(), depth, seen)
	case *ssa.Phi:
		seen[v] = true
		defer delete(seen, v)
		var alts []string
		for _, e := range FeasibleEdges(x) {
			alts = append(alts, path(e, depth+1, seen))
		}
		sort.Strings(alts)
		alts = uniq(alts)
		if len(alts) == 1 {
			return alts[0]
		}
		return "phi(" + strings.Join(alts, "|") + ")"
	case *ssa.BinOp:
		return "(" + path(x.X, depth+1, seen) + " " + x.Op.String() + " " + path(x.Y, depth+1, seen) + ")"
	case *ssa.Convert:
		return "conv<" + types.TypeString(x.Type(), shortQ) + ">(" + path(x.X, depth+1, seen) + ")"
	case *ssa.TypeAssert:
		return path(x.X, depth+1, seen) + ".(" + types.TypeString(x.AssertedType, shortQ) + ")"
	case *ssa.MakeClosure:
		return "closure:" + x.Fn.String()
	case *ssa.Next:
		return "next(" + path(x.Iter, depth+1, seen) + ")"
	case *ssa.Range:
		return "range(" + path(x.X, depth+1, seen) + ")"
	case *ssa.MakeSlice:
		return "make"
	case *ssa.MakeMap:
		return "makemap<" + types.TypeString(x.Type(), shortQ) + ">"
	}
	return fmt.Sprintf("<%T>", v)
}

func shortQ(p *types.Package) string { return p.Name() }

// decodeSource: a is passed (as &a) to exactly one encoding/json.Unmarshal call; returns the data argument.
func decodeSource(a *ssa.Alloc) ssa.Value {
	if a.Referrers() == nil {
		return nil
	}
	var src ssa.Value
	n := 0
	for _, r := range *a.Referrers() {
		mi, ok := r.(*ssa.MakeInterface)
		if !ok || mi.Referrers() == nil {
			continue
		}
		for _, u := range *mi.Referrers() {
			if call, ok := u.(*ssa.Call); ok && !call.Call.IsInvoke() {
				if sc := call.Call.StaticCallee(); sc != nil && sc.String() == "encoding/json.Unmarshal" && len(call.Call.Args) == 2 && call.Call.Args[1] == ssa.Value(mi) {
					src = call.Call.Args[0]
					n++
				}
			}
		}
	}
	if n == 1 {
		return src
	}
	return nil
}

func callPath(cc *ssa.CallCommon, depth int, seen map[ssa.Value]bool) string {
	var args []string
	for _, a := range cc.Args {
		args = append(args, path(a, depth+1, seen))
	}
	if cc.IsInvoke() {
		return path(cc.Value, depth+1, seen) + "." + cc.Method.Name() + "(" + strings.Join(args, ", ") + ")"
	}
	if f := cc.StaticCallee(); f != nil {
		name := f.Name()
		if f.Signature.Recv() != nil && len(args) > 0 {
			return args[0] + "." + name + "(" + strings.Join(args[1:], ", ") + ")"
		}
		if f.Pkg != nil {
			name = f.Pkg.Pkg.Name() + "." + name
		}
		return name + "(" + strings.Join(args, ", ") + ")"
	}
	if b, ok := cc.Value.(*ssa.Builtin); ok {
		return b.Name() + "(" + strings.Join(args, ", ") + ")"
	}
	return "dyn:" + path(cc.Value, depth+1, seen) + "(" + strings.Join(args, ", ") + ")"
}

func uniq(s []string) []string {
	out := s[:0]
	for i, x := range s {
		if i == 0 || x != s[i-1] {
			out = append(out, x)
		}
	}
	return out
}

func fieldName(t types.Type, i int) string {
	if p, ok := t.Underlying().(*types.Pointer); ok {
		t = p.Elem()
	}
	if st, ok := t.Underlying().(*types.Struct); ok && i < st.NumFields() {
		return st.Field(i).Name()
	}
	return fmt.Sprintf("f%d", i)
}

// FieldOf returns the *types.Var of the field accessed by a FieldAddr/Field.
func FieldOf(v ssa.Value) *types.Var {
	var t types.Type
	var i int
	switch x := v.(type) {
	case *ssa.FieldAddr:
		t, i = x.X.Type(), x.Field
	case *ssa.Field:
		t, i = x.X.Type(), x.Field
	default:
		return nil
	}
	if p, ok := t.Underlying().(*types.Pointer); ok {
		t = p.Elem()
	}
	if st, ok := t.Underlying().(*types.Struct); ok && i < st.NumFields() {
		return st.Field(i)
	}
	return nil
}

// OwnerName returns the named struct type that declares the field accessed by v.
func OwnerName(v ssa.Value) string {
	var t types.Type
	switch x := v.(type) {
	case *ssa.FieldAddr:
		t = x.X.Type()
	case *ssa.Field:
		t = x.X.Type()
	default:
		return ""
	}
	if p, ok := t.Underlying().(*types.Pointer); ok {
		t = p.Elem()
	}
	if n, ok := t.(*types.Named); ok {
		return n.Obj().Name()
	}
	return ""
}

// ---------- control flow ----------

// Edge is the successor edge #Succ of block From.
type Edge struct {
	From *ssa.BasicBlock
	Succ int
}

// Cond is a recognised branch condition in normal form: X Op Y holds on the
// true edge (Succs[0]) of If.
type Cond struct {
	If *ssa.If
	Op token.Token // EQL NEQ LSS LEQ GTR GEQ, or ILLEGAL for a plain boolean value
	X  ssa.Value
	Y  ssa.Value // nil for a plain boolean
	// Neg: the boolean was negated (the condition X holds on the FALSE edge)
	Neg bool
}

// Conds lists every If of fn with its condition decomposed.
func Conds(fn *ssa.Function) []Cond {
	var out []Cond
	for _, b := range fn.Blocks {
		if len(b.Instrs) == 0 {
			continue
		}
		iff, ok := b.Instrs[len(b.Instrs)-1].(*ssa.If)
		if !ok {
			continue
		}
		out = append(out, DecomposeCond(iff))
		// a short-circuit expression evaluated in an expanded helper (`return a == x || b == y`) ends in a block that
		// merges the constant of the short-circuit arm with the last comparison and branches on the merge: expose that
		// comparison as a condition of this branch (exact on the edge the constant arm cannot take)
		if c, ok := mergedComparison(b, iff); ok {
			out = append(out, c)
		}
	}
	return out
}

// mergedComparison: b branches on a boolean phi all of whose alternatives are constants except one comparison.
func mergedComparison(b *ssa.BasicBlock, iff *ssa.If) (Cond, bool) {
	bp, neg := boolPhiTest(b)
	if bp == nil {
		return Cond{}, false
	}
	var cmp *ssa.BinOp
	unknown := 0
	for _, ev := range bp.Edges {
		if c, ok := rawStrip(ev).(*ssa.Const); ok && c.Value != nil && c.Value.Kind() == constant.Bool {
			continue
		}
		unknown++
		v, n2 := rawStrip(ev), false
		for {
			if u, ok := v.(*ssa.UnOp); ok && u.Op == token.NOT {
				v, n2 = u.X, !n2
				continue
			}
			break
		}
		if bo, ok := v.(*ssa.BinOp); ok {
			switch bo.Op {
			case token.EQL, token.NEQ, token.LSS, token.LEQ, token.GTR, token.GEQ:
				cmp = bo
				if n2 {
					neg = !neg
				}
			}
		}
	}
	if unknown != 1 || cmp == nil {
		return Cond{}, false
	}
	c := Cond{If: iff, Op: cmp.Op, X: cmp.X, Y: cmp.Y}
	if neg {
		c.Op = NegateOp(c.Op)
	}
	return c.canonical(), true
}

func DecomposeCond(iff *ssa.If) Cond {
	c := Cond{If: iff}
	v := iff.Cond
	neg := false
	for {
		v = Resolve(v)
		if u, ok := v.(*ssa.UnOp); ok && u.Op == token.NOT {
			neg = !neg
			v = u.X
			continue
		}
		break
	}
	if b, ok := v.(*ssa.BinOp); ok {
		switch b.Op {
		case token.EQL, token.NEQ, token.LSS, token.LEQ, token.GTR, token.GEQ:
			c.Op, c.X, c.Y = b.Op, b.X, b.Y
			if neg {
				c.Op = NegateOp(c.Op)
			}
			return c.canonical()
		}
	}
	c.Op, c.X, c.Neg = token.ILLEGAL, v, neg
	return c
}

// canonical puts a constant operand on the right (`0 == len(x)` and `nil != err` read like `len(x) == 0`, `err != nil`):
// the rules are written for that order.
func (c Cond) canonical() Cond {
	_, xc := rawStrip(c.X).(*ssa.Const)
	_, yc := rawStrip(c.Y).(*ssa.Const)
	if xc && !yc {
		c.X, c.Y = c.Y, c.X
		c.Op = MirrorOp(c.Op)
		return c
	}
	return c
}

func isLenCall(v ssa.Value) bool {
	call, ok := rawStrip(v).(*ssa.Call)
	if !ok {
		return false
	}
	b, ok := call.Common().Value.(*ssa.Builtin)
	return ok && b.Name() == "len"
}

// MirrorOp: X op Y  <=>  Y MirrorOp(op) X.
func MirrorOp(op token.Token) token.Token {
	switch op {
	case token.LSS:
		return token.GTR
	case token.GTR:
		return token.LSS
	case token.LEQ:
		return token.GEQ
	case token.GEQ:
		return token.LEQ
	}
	return op
}

func NegateOp(op token.Token) token.Token {
	switch op {
	case token.EQL:
		return token.NEQ
	case token.NEQ:
		return token.EQL
	case token.LSS:
		return token.GEQ
	case token.GEQ:
		return token.LSS
	case token.GTR:
		return token.LEQ
	case token.LEQ:
		return token.GTR
	}
	return op
}

// EdgeWhere returns the edge of c.If on which the relation (X op Y) holds, for
// op in {EQL, NEQ}; ok=false if c is not an equality test.
func (c Cond) EdgeWhere(op token.Token) (Edge, bool) {
	if c.Op != token.EQL && c.Op != token.NEQ {
		return Edge{}, false
	}
	if c.Op == op {
		return Edge{c.If.Block(), 0}, true
	}
	return Edge{c.If.Block(), 1}, true
}

// BoolEdge returns the edge on which the plain boolean X is `want`.
func (c Cond) BoolEdge(want bool) (Edge, bool) {
	if c.Op != token.ILLEGAL {
		return Edge{}, false
	}
	holdsOnTrue := !c.Neg
	if want == holdsOnTrue {
		return Edge{c.If.Block(), 0}, true
	}
	return Edge{c.If.Block(), 1}, true
}

// ErrNilEdges returns, for a value holding an error (a call result or an
// extracted tuple element), the edges on which it was tested to be nil.
// It recognises `if err != nil {…}`, `if err == nil {…}` in both operand
// orders, through named-result allocas.
func ErrNilEdges(fn *ssa.Function, isErr func(v ssa.Value) bool) []Edge {
	var out []Edge
	for _, c := range Conds(fn) {
		if c.Op != token.EQL && c.Op != token.NEQ {
			continue
		}
		x, y := Resolve(c.X), Resolve(c.Y)
		var e ssa.Value
		switch {
		case IsNilConst(y):
			e = x
		case IsNilConst(x):
			e = y
		default:
			continue
		}
		if !isErr(e) {
			continue
		}
		if ed, ok := c.EdgeWhere(token.EQL); ok {
			out = append(out, ed)
		}
	}
	return out
}

// ResultOf reports whether v is result #idx of call c (idx<0: any/only result).
func ResultOf(v ssa.Value, c ssa.CallInstruction, idx int) bool {
	v = Resolve(v)
	cv, ok := c.(ssa.Value)
	if !ok {
		return false
	}
	if v == cv {
		return true
	}
	if ex, ok := v.(*ssa.Extract); ok && ex.Tuple == cv && (idx < 0 || ex.Index == idx) {
		return true
	}
	// phi of the same call result on all edges (go/ssa does not CSE)
	return false
}

// ErrIndex returns the index of the error result of a call's signature, or -1.
func ErrIndex(c ssa.CallInstruction) int {
	sig := c.Common().Signature()
	res := sig.Results()
	for i := res.Len() - 1; i >= 0; i-- {
		if types.Identical(res.At(i).Type(), types.Universe.Lookup("error").Type()) {
			return i
		}
	}
	return -1
}

// NilErrEdgesOfCall returns the edges on which the error result of call c is nil.
func NilErrEdgesOfCall(fn *ssa.Function, c ssa.CallInstruction) []Edge {
	ei := ErrIndex(c)
	if ei < 0 {
		return nil
	}
	single := c.Common().Signature().Results().Len() == 1
	return ErrNilEdges(fn, func(v ssa.Value) bool {
		if single {
			return ResultOf(v, c, -1)
		}
		return ResultOf(v, c, ei)
	})
}

// BoolEdgesOfCall returns the edges on which the boolean result (#idx, or the
// only result when idx<0) of call c equals want.
func BoolEdgesOfCall(fn *ssa.Function, c ssa.CallInstruction, idx int, want bool) []Edge {
	var out []Edge
	for _, cd := range Conds(fn) {
		if cd.Op == token.ILLEGAL {
			if ResultOf(cd.X, c, idx) {
				if e, ok := cd.BoolEdge(want); ok {
					out = append(out, e)
				}
			}
			continue
		}
		// forms `f() == true`
		if cd.Op == token.EQL || cd.Op == token.NEQ {
			for _, p := range [][2]ssa.Value{{cd.X, cd.Y}, {cd.Y, cd.X}} {
				if ResultOf(p[0], c, idx) {
					if k, ok := ConstOf(p[1]); ok && k.Kind() == constant.Bool {
						w := constant.BoolVal(k) == want
						op := token.EQL
						if !w {
							op = token.NEQ
						}
						if e, ok := cd.EdgeWhere(op); ok {
							out = append(out, e)
						}
					}
				}
			}
		}
	}
	return out
}

// ReachableAvoiding reports whether `target` can be reached from the entry of
// fn along a path that takes none of the cut edges and executes none of the
// cut instructions. (false ⇒ every path to target passes a cut: the
// must-pass-through property.)
func ReachableAvoiding(fn *ssa.Function, target ssa.Instruction, cutEdges []Edge, cutInstrs []ssa.Instruction) bool {
	return ReachableFrom(fn, nil, target, cutEdges, cutInstrs)
}

// ReachableFrom is ReachableAvoiding starting just after instruction `from`
// (or at function entry when from is nil).
func ReachableFrom(fn *ssa.Function, from ssa.Instruction, target ssa.Instruction, cutEdges []Edge, cutInstrs []ssa.Instruction) bool {
	if len(fn.Blocks) == 0 {
		return false
	}
	cutE := map[Edge]bool{}
	for _, e := range cutEdges {
		cutE[e] = true
	}
	cutI := map[ssa.Instruction]bool{}
	for _, i := range cutInstrs {
		cutI[i] = true
	}
	// a state is a block plus, for blocks that merge an error result and test it at once (see errMerge), the
	// predecessor through which the block was entered: that predecessor decides which way the test goes
	type state struct {
		b    *ssa.BasicBlock
		pred int
	}
	visited := map[state]bool{}
	var stack []state
	push := func(from *ssa.BasicBlock, s *ssa.BasicBlock) {
		st := state{s, -1}
		if em := errMergeOf(s); em != nil && from != nil {
			for k, p := range s.Preds {
				if p == from {
					st.pred = k
				}
			}
		}
		if !visited[st] {
			visited[st] = true
			stack = append(stack, st)
		}
	}
	// scan returns true if target found; pushes successors if block end reached
	scan := func(st state, start int) bool {
		b := st.b
		for i := start; i < len(b.Instrs); i++ {
			in := b.Instrs[i]
			if in == target {
				return true
			}
			if cutI[in] {
				return false
			}
		}
		em := errMergeOf(b)
		for si, s := range b.Succs {
			if cutE[Edge{b, si}] {
				continue
			}
			if em != nil && st.pred >= 0 && st.pred < len(em.succ) {
				// entering through this predecessor decides the test
				if want := em.succ[st.pred]; want >= 0 && si != want {
					continue
				}
			}
			push(b, s)
		}
		return false
	}
	if from == nil {
		st := state{fn.Blocks[0], -1}
		visited[st] = true
		if scan(st, 0) {
			return true
		}
	} else {
		b := from.Block()
		idx := 0
		for i, in := range b.Instrs {
			if in == from {
				idx = i + 1
			}
		}
		if scan(state{b, -1}, idx) {
			return true
		}
	}
	for len(stack) > 0 {
		st := stack[len(stack)-1]
		stack = stack[:len(stack)-1]
		if scan(st, 0) {
			return true
		}
	}
	return false
}

// errMerge describes a block that merges a value from several predecessors (a phi) and branches on it at once, with
// nothing but phis, spills of results and the comparison in between — the shape left by
// `x, err := helper(...); if err != nil {…}` or `if !helper(...) {…}` once helper is expanded in place. The merged value
// is an error compared with nil, or a boolean.
type errMerge struct {
	succ []int // per predecessor: the successor index that will be taken, or -1 when not known
}

var errMergeCache = map[*ssa.BasicBlock]*errMerge{}

func errMergeOf(b *ssa.BasicBlock) *errMerge {
	if em, ok := errMergeCache[b]; ok {
		return em
	}
	var out *errMerge
	defer func() { errMergeCache[b] = out }()
	if e, cmp := errPhiTest(b); e != nil {
		nilSucc := 0
		if cmp.Op == token.NEQ {
			nilSucc = 1
		}
		em := &errMerge{}
		for i, ev := range e.Edges {
			k := -1
			switch x := rawStrip(ev).(type) {
			case *ssa.Const:
				if x.Value == nil {
					k = nilSucc
				}
			case *ssa.Call:
				if sc := x.Call.StaticCallee(); sc != nil && (sc.String() == "fmt.Errorf" || sc.String() == "errors.New") {
					k = 1 - nilSucc
				}
			case *ssa.UnOp:
				if IsSentinelErr(x) {
					k = 1 - nilSucc
				}
			}
			if k < 0 && i < len(b.Preds) && knownNonNilOn(b.Preds[i], ev) {
				k = 1 - nilSucc
			}
			em.succ = append(em.succ, k)
		}
		out = em
		return out
	}
	if bp, neg := boolPhiTest(b); bp != nil {
		em := &errMerge{}
		for _, ev := range bp.Edges {
			k := -1
			if c, ok := rawStrip(ev).(*ssa.Const); ok && c.Value != nil && c.Value.Kind() == constant.Bool {
				val := constant.BoolVal(c.Value)
				if neg {
					val = !val
				}
				if val {
					k = 0
				} else {
					k = 1
				}
			}
			em.succ = append(em.succ, k)
		}
		out = em
	}
	return out
}

// knownNonNilOn: block pb (a predecessor of a merge) is entered only over the `v != nil` edge of a test of v — the
// `if err != nil { return err }` shape of an expanded helper.
func knownNonNilOn(pb *ssa.BasicBlock, v ssa.Value) bool {
	for hops := 0; hops < 3 && pb != nil; hops++ {
		if len(pb.Preds) != 1 {
			return false
		}
		pp := pb.Preds[0]
		if len(pp.Instrs) == 0 {
			return false
		}
		if iff, ok := pp.Instrs[len(pp.Instrs)-1].(*ssa.If); ok {
			cmp, ok := iff.Cond.(*ssa.BinOp)
			if !ok || (cmp.Op != token.EQL && cmp.Op != token.NEQ) {
				return false
			}
			for _, pr := range [][2]ssa.Value{{cmp.X, cmp.Y}, {cmp.Y, cmp.X}} {
				if c, isC := rawStrip(pr[1]).(*ssa.Const); isC && c.Value == nil {
					x := rawStrip(pr[0])
					if ld, isLd := x.(*ssa.UnOp); isLd && ld.Op == token.MUL {
						if src := LoadSource(ld); src != nil {
							x = rawStrip(src)
						}
					}
					y := rawStrip(v)
					if ld, isLd := y.(*ssa.UnOp); isLd && ld.Op == token.MUL {
						if src := LoadSource(ld); src != nil {
							y = rawStrip(src)
						}
					}
					if x == y {
						nonNilSucc := 0
						if cmp.Op == token.EQL {
							nonNilSucc = 1
						}
						return pp.Succs[nonNilSucc] == pb
					}
				}
			}
			return false
		}
		pb = pp
	}
	return false
}

// mergePhiOf returns the phi the block's test depends on (error or boolean form).
func mergePhiOf(b *ssa.BasicBlock) *ssa.Phi {
	if e, _ := errPhiTest(b); e != nil {
		return e
	}
	bp, _ := boolPhiTest(b)
	return bp
}

// boolPhiTest recognises a block made of phis (and negations) that branches on one of its boolean phis.
func boolPhiTest(b *ssa.BasicBlock) (*ssa.Phi, bool) {
	if b == nil || len(b.Instrs) == 0 {
		return nil, false
	}
	iff, ok := b.Instrs[len(b.Instrs)-1].(*ssa.If)
	if !ok {
		return nil, false
	}
	for _, in := range b.Instrs[:len(b.Instrs)-1] {
		switch x := in.(type) {
		case *ssa.Phi, *ssa.DebugRef:
		case *ssa.UnOp:
			if x.Op != token.NOT {
				return nil, false
			}
		case *ssa.Store:
			// a merged result spilled into a local (its fields are read later)
			if _, ok := x.Addr.(*ssa.Alloc); !ok {
				return nil, false
			}
		default:
			return nil, false
		}
	}
	v, neg := iff.Cond, false
	for {
		if u, ok := v.(*ssa.UnOp); ok && u.Op == token.NOT {
			v, neg = u.X, !neg
			continue
		}
		break
	}
	if ph, ok := v.(*ssa.Phi); ok && ph.Block() == b && len(ph.Edges) == len(b.Preds) {
		return ph, neg
	}
	return nil, false
}

// errPhiTest recognises the block shape of errMerge and returns the error phi and the comparison.
func errPhiTest(b *ssa.BasicBlock) (*ssa.Phi, *ssa.BinOp) {
	if b == nil || len(b.Instrs) == 0 {
		return nil, nil
	}
	iff, ok := b.Instrs[len(b.Instrs)-1].(*ssa.If)
	if !ok {
		return nil, nil
	}
	var cmp *ssa.BinOp
	for _, in := range b.Instrs[:len(b.Instrs)-1] {
		switch x := in.(type) {
		case *ssa.Phi, *ssa.DebugRef:
		case *ssa.BinOp:
			cmp = x
		case *ssa.Store:
			if _, ok := x.Addr.(*ssa.Alloc); !ok {
				return nil, nil
			}
		case *ssa.UnOp:
			if _, ok := x.X.(*ssa.Alloc); !ok || x.Op != token.MUL {
				return nil, nil
			}
		default:
			return nil, nil
		}
	}
	if cmp == nil || ssa.Value(cmp) != iff.Cond || (cmp.Op != token.EQL && cmp.Op != token.NEQ) {
		return nil, nil
	}
	for _, pr := range [][2]ssa.Value{{cmp.X, cmp.Y}, {cmp.Y, cmp.X}} {
		if c, ok := rawStrip(pr[1]).(*ssa.Const); ok && c.Value == nil {
			x := rawStrip(pr[0])
			if ld, ok := x.(*ssa.UnOp); ok && ld.Op == token.MUL && ld.Block() == b {
				if src := LoadSource(ld); src != nil {
					x = rawStrip(src)
				}
			}
			if ph, ok := x.(*ssa.Phi); ok && ph.Block() == b && len(ph.Edges) == len(b.Preds) {
				if n, isN := ph.Type().(*types.Named); isN && n.Obj().Pkg() == nil && n.Obj().Name() == "error" {
					return ph, cmp
				}
			}
		}
	}
	return nil, nil
}

// Leaf is one alternative of a (possibly merged) value together with the instruction after which that alternative is
// chosen: the value itself at its use, or the end of the predecessor block of a phi.
type Leaf struct {
	V  ssa.Value
	At ssa.Instruction
}

// Leaves expands v, used at instruction `at`, through phis.
func Leaves(v ssa.Value, at ssa.Instruction) []Leaf {
	var out []Leaf
	seen := map[*ssa.Phi]bool{}
	var walk func(v ssa.Value, at ssa.Instruction, depth int)
	walk = func(v ssa.Value, at ssa.Instruction, depth int) {
		p, ok := Resolve(v).(*ssa.Phi)
		if !ok || seen[p] || depth > 6 {
			out = append(out, Leaf{Resolve(v), at})
			return
		}
		seen[p] = true
		fe := FeasibleEdges(p)
		for i, e := range p.Edges {
			feasible := false
			for _, f := range fe {
				if f == e {
					feasible = true
				}
			}
			if !feasible || i >= len(p.Block().Preds) {
				continue
			}
			pb := p.Block().Preds[i]
			if len(pb.Instrs) == 0 {
				continue
			}
			walk(e, pb.Instrs[len(pb.Instrs)-1], depth+1)
		}
	}
	walk(v, at, 0)
	return out
}

// Returns lists the Return instructions of fn.
func Returns(fn *ssa.Function) []*ssa.Return {
	var out []*ssa.Return
	for _, b := range fn.Blocks {
		for _, in := range b.Instrs {
			if r, ok := in.(*ssa.Return); ok {
				out = append(out, r)
			}
		}
	}
	return out
}

// Instrs iterates all instructions of fn.
func Instrs(fn *ssa.Function, f func(in ssa.Instruction)) {
	for _, b := range fn.Blocks {
		for _, in := range b.Instrs {
			f(in)
		}
	}
}

// InstrIndex returns the index of in within its block.
func InstrIndex(in ssa.Instruction) int {
	for i, x := range in.Block().Instrs {
		if x == in {
			return i
		}
	}
	return -1
}

// ConstString returns the string constant behind v.
func ConstString(v ssa.Value) (string, bool) {
	k, ok := ConstOf(v)
	if !ok || k.Kind() != constant.String {
		return "", false
	}
	return constant.StringVal(k), true
}

// ConstInt returns the integer constant behind v.
func ConstInt(v ssa.Value) (int64, bool) { return constInt(v, 0) }

func constInt(v ssa.Value, depth int) (int64, bool) {
	if k, ok := ConstOf(v); ok {
		if k.Kind() != constant.Int {
			return 0, false
		}
		n, exact := constant.Int64Val(k)
		return n, exact
	}
	if depth > 4 {
		return 0, false
	}
	switch x := Resolve(v).(type) {
	case *ssa.BinOp:
		// arithmetic over statically known integers (go/ssa folds only literal constants)
		a, ok1 := constInt(x.X, depth+1)
		b, ok2 := constInt(x.Y, depth+1)
		if !ok1 || !ok2 {
			return 0, false
		}
		switch x.Op {
		case token.ADD:
			return a + b, true
		case token.SUB:
			return a - b, true
		case token.MUL:
			return a * b, true
		}
	case *ssa.Convert:
		if b, ok := x.Type().Underlying().(*types.Basic); ok && b.Info()&types.IsInteger != 0 {
			return constInt(x.X, depth+1)
		}
	case *ssa.Call:
		// len / copy over slices of arrays with constant bounds
		if bi, ok := x.Call.Value.(*ssa.Builtin); ok {
			switch bi.Name() {
			case "len":
				return staticLen(x.Call.Args[0], depth+1)
			case "copy":
				a, ok1 := staticLen(x.Call.Args[0], depth+1)
				b, ok2 := staticLen(x.Call.Args[1], depth+1)
				if ok1 && ok2 {
					if a < b {
						return a, true
					}
					return b, true
				}
			}
		}
	}
	return 0, false
}

// staticLen: length of an array, a pointer to an array, or a slice of one with statically known bounds.
func staticLen(v ssa.Value, depth int) (int64, bool) {
	t := v.Type()
	if pt, ok := t.Underlying().(*types.Pointer); ok {
		t = pt.Elem()
	}
	if at, ok := t.Underlying().(*types.Array); ok {
		return at.Len(), true
	}
	sl, ok := v.(*ssa.Slice)
	if !ok || depth > 6 {
		return 0, false
	}
	n, ok := staticLen(sl.X, depth+1)
	if !ok {
		return 0, false
	}
	lo, hi := int64(0), n
	if sl.Low != nil {
		k, ok := constInt(sl.Low, depth+1)
		if !ok {
			return 0, false
		}
		lo = k
	}
	if sl.High != nil {
		k, ok := constInt(sl.High, depth+1)
		if !ok {
			return 0, false
		}
		hi = k
	}
	if lo < 0 || hi < lo || hi > n {
		return 0, false
	}
	return hi - lo, true
}

// ArrayElems returns the values stored into the elements of a local array allocation
// (composite literals and varargs slices), in index order when the indices are constant.
func ArrayElems(a *ssa.Alloc) []ssa.Value {
	if a.Referrers() == nil {
		return nil
	}
	pt, ok := a.Type().Underlying().(*types.Pointer)
	if !ok {
		return nil
	}
	if _, ok := pt.Elem().Underlying().(*types.Array); !ok {
		return nil
	}
	type ent struct {
		idx int64
		v   ssa.Value
	}
	var ents []ent
	for _, r := range *a.Referrers() {
		ia, ok := r.(*ssa.IndexAddr)
		if !ok || ia.Referrers() == nil {
			continue
		}
		idx, _ := ConstInt(ia.Index)
		for _, rr := range *ia.Referrers() {
			if st, ok := rr.(*ssa.Store); ok && st.Addr == ia {
				ents = append(ents, ent{idx, st.Val})
			}
		}
	}
	sort.SliceStable(ents, func(i, j int) bool { return ents[i].idx < ents[j].idx })
	var out []ssa.Value
	for _, e := range ents {
		out = append(out, e.v)
	}
	return out
}

// CondsBetween lists the branch conditions of blocks that lie on some path from instruction
// `from` to instruction `to` (blocks reachable from `from` that can reach `to`), including from's own block.
func CondsBetween(fn *ssa.Function, from, to ssa.Instruction) []Cond {
	fwd := map[*ssa.BasicBlock]bool{}
	var walk func(b *ssa.BasicBlock)
	walk = func(b *ssa.BasicBlock) {
		if fwd[b] {
			return
		}
		fwd[b] = true
		if b == to.Block() {
			return
		}
		for _, s := range b.Succs {
			walk(s)
		}
	}
	walk(from.Block())
	bwd := map[*ssa.BasicBlock]bool{}
	var back func(b *ssa.BasicBlock)
	back = func(b *ssa.BasicBlock) {
		if bwd[b] {
			return
		}
		bwd[b] = true
		if b == from.Block() {
			return
		}
		for _, p := range b.Preds {
			back(p)
		}
	}
	back(to.Block())
	var out []Cond
	for _, c := range Conds(fn) {
		b := c.If.Block()
		if fwd[b] && bwd[b] && b != to.Block() {
			out = append(out, c)
		}
	}
	return out
}


// RangeKeyOf: lk = m[k] where k is the key produced by a range over the same map m; returns that range's Next.
func RangeKeyOf(lk *ssa.Lookup) *ssa.Next {
	ex, ok := Resolve(lk.Index).(*ssa.Extract)
	if !ok || ex.Index != 1 {
		return nil
	}
	nx, ok := ex.Tuple.(*ssa.Next)
	if !ok || nx.IsString {
		return nil
	}
	rg, ok := nx.Iter.(*ssa.Range)
	if !ok {
		return nil
	}
	if _, isMap := rg.X.Type().Underlying().(*types.Map); !isMap {
		return nil
	}
	a, b := Resolve(rg.X), Resolve(lk.X)
	if a == b {
		return nx
	}
	// two loads of the same field
	if Path(a) != "" && pathNoLookup(a) == pathNoLookup(b) {
		return nx
	}
	return nil
}

// pathNoLookup renders an access path of a map operand (a field load or a call result) without entering RangeKeyOf again.
func pathNoLookup(v ssa.Value) string {
	if _, isLk := v.(*ssa.Lookup); isLk {
		return ""
	}
	return Path(v)
}


// IsSentinelErr: v is the value of a package-level error variable named Err…/EOF (io.ErrShortWrite, a module's own
// ErrNotFound): by convention such variables are initialised once to a non-nil error and never assigned nil.
func IsSentinelErr(v ssa.Value) bool {
	ld, ok := v.(*ssa.UnOp)
	if !ok || ld.Op != token.MUL {
		return false
	}
	g, ok := ld.X.(*ssa.Global)
	if !ok {
		return false
	}
	n := g.Name()
	if !(strings.HasPrefix(n, "Err") || strings.HasPrefix(n, "err") || n == "EOF") {
		return false
	}
	pt, ok := g.Type().Underlying().(*types.Pointer)
	return ok && pt.Elem().String() == "error"
}


// lazyInitValue: the loop-carried "compute once, on first use" idiom —
//
//	var k *T
//	for … { if k == nil { k, err = load(); … } use(k) }
//
// leaves, at the use, a phi over {the call's result, the phi of the previous iteration, nil}: every alternative that is
// not nil and not the cycle itself is ONE call result (a pointer, dereferenced at the use, so the nil alternative cannot
// be the value used). The phi then denotes that call's result.
func lazyInitValue(p *ssa.Phi) ssa.Value {
	if _, isPtr := p.Type().Underlying().(*types.Pointer); !isPtr {
		return nil
	}
	var one ssa.Value
	seen := map[*ssa.Phi]bool{}
	var walk func(v ssa.Value) bool
	walk = func(v ssa.Value) bool {
		v = rawStrip(v)
		switch x := v.(type) {
		case *ssa.Phi:
			if seen[x] {
				return true
			}
			seen[x] = true
			for _, e := range x.Edges {
				if !walk(e) {
					return false
				}
			}
			return true
		case *ssa.Const:
			return x.Value == nil
		case *ssa.Extract:
			if _, isCall := x.Tuple.(*ssa.Call); !isCall {
				return false
			}
			if one != nil && one != v {
				return false
			}
			one = v
			return true
		case *ssa.Call:
			if one != nil && one != v {
				return false
			}
			one = v
			return true
		case *ssa.UnOp:
			// a field of the call's result (`k = loaded.Field` in a helper expanded into the loop): still one value
			if x.Op != token.MUL {
				return false
			}
			if _, isField := x.X.(*ssa.FieldAddr); !isField {
				return false
			}
			if one != nil && one != v {
				return false
			}
			one = v
			return true
		}
		return false
	}
	if !walk(p) || one == nil || len(seen) < 2 {
		return nil
	}
	return one
}
