// Package report collects obligations, matches known findings, writes evidence
// files (EVIDENCE.schema.json) and replay files, and prints the VIOLATION /
// KNOWN-FINDING protocol lines.
package report

import (
	"encoding/json"
	"fmt"
	"os"
	"path/filepath"
	"sort"
	"strings"
	"time"
)

type Status string

const (
	Discharged Status = "discharged"
	Violated   Status = "violated"
	Undecided  Status = "undecided" // a shape the rule does not understand: reported as a violation
)

// Obligation is one rule instance on one construct.
type Obligation struct {
	Rule      string `json:"rule"`      // e.g. "C09/R1"
	Construct string `json:"construct"` // stable key: function + callee/field/expression, never a line number
	What      string `json:"what"`      // human description of what must hold
	Status    Status `json:"status"`
	Pos       string `json:"pos,omitempty"` // file:line for reporting only
	Detail    string `json:"detail,omitempty"`
	Known     string `json:"known,omitempty"` // id of the matching known finding
}

func (o *Obligation) Key() string { return o.Rule + "@" + o.Construct }

// Finding is an entry of known_findings.json.
type Finding struct {
	ID        string `json:"id"`
	Property  string `json:"property"`
	Rule      string `json:"rule"`
	Construct string `json:"construct"`
	What      string `json:"what"`
	Status    string `json:"status"` // "known" | "fixed"
	Commit    string `json:"commit,omitempty"`
	Witness   string `json:"witness,omitempty"`
	// DetailContains: fragments the obligation's detail must contain for this entry to apply. A known finding is one
	// specific failing shape; a change that breaks the same construct in ANOTHER way (the slot now first-writer-wins
	// instead of last-writer-wins) produces a different detail and is reported as a violation.
	DetailContains []string `json:"detail_contains,omitempty"`
}

type Report struct {
	Property string
	Tier     string
	Seed     int64
	Start    time.Time
	Obs      []*Obligation
	Notes    []string // observations recorded in evidence, not findings
	Analysed map[string]int
	Floors   map[string]int // rule -> minimum instance count confirmed by hand
	Explain  string
	Trusted  []string
	Assume   []string
	RuleDocs map[string]string
	Extra    map[string]interface{}
}

func New(prop, tier string, seed int64) *Report {
	return &Report{Property: prop, Tier: tier, Seed: seed, Start: time.Now(),
		Analysed: map[string]int{}, Floors: map[string]int{}, RuleDocs: map[string]string{}, Extra: map[string]interface{}{}}
}

func (r *Report) Rule(id, doc string, floor int) {
	r.RuleDocs[id] = doc
	r.Floors[id] = floor
}

func (r *Report) add(rule, construct, what string, st Status, pos, detail string) *Obligation {
	o := &Obligation{Rule: rule, Construct: construct, What: what, Status: st, Pos: pos, Detail: detail}
	r.Obs = append(r.Obs, o)
	return o
}

func (r *Report) OK(rule, construct, what, pos string) *Obligation {
	return r.add(rule, construct, what, Discharged, pos, "")
}
func (r *Report) OKd(rule, construct, what, pos, detail string) *Obligation {
	return r.add(rule, construct, what, Discharged, pos, detail)
}
func (r *Report) Fail(rule, construct, what, pos, detail string) *Obligation {
	return r.add(rule, construct, what, Violated, pos, detail)
}
func (r *Report) Unknown(rule, construct, what, pos, detail string) *Obligation {
	return r.add(rule, construct, what, Undecided, pos, detail)
}

// Check adds a discharged or violated obligation depending on ok.
func (r *Report) Check(ok bool, rule, construct, what, pos, failDetail string) *Obligation {
	if ok {
		return r.OK(rule, construct, what, pos)
	}
	return r.Fail(rule, construct, what, pos, failDetail)
}

func (r *Report) Note(format string, a ...interface{}) {
	r.Notes = append(r.Notes, fmt.Sprintf(format, a...))
}

func (r *Report) Count(k string, n int) { r.Analysed[k] += n }

// LoadFindings reads known_findings.json.
func LoadFindings(path string) ([]Finding, error) {
	b, err := os.ReadFile(path)
	if err != nil {
		if os.IsNotExist(err) {
			return nil, nil
		}
		return nil, err
	}
	var f struct {
		Findings []Finding `json:"findings"`
	}
	if err := json.Unmarshal(b, &f); err != nil {
		return nil, fmt.Errorf("%s: %w", path, err)
	}
	return f.Findings, nil
}

// Finish applies floors and known findings, writes evidence + replay files and
// prints protocol lines. It returns the process exit code.
func (r *Report) Finish(outDir string, findings []Finding) int {
	// floors: a rule that matched fewer instances than confirmed by hand cannot pass vacuously
	count := map[string]int{}
	for _, o := range r.Obs {
		count[o.Rule]++
	}
	var rules []string
	for id := range r.Floors {
		rules = append(rules, id)
	}
	sort.Strings(rules)
	for _, id := range rules {
		if count[id] < r.Floors[id] {
			r.add(id, "floor", fmt.Sprintf("rule must match at least %d instances", r.Floors[id]), Undecided, "",
				fmt.Sprintf("matched %d instances, floor is %d: anchors moved or the rule no longer sees the code it was confirmed on", count[id], r.Floors[id]))
		}
	}
	known := map[string]Finding{}
	for _, f := range findings {
		if f.Property == r.Property && f.Status == "known" {
			known[f.Rule+"@"+f.Construct] = f
		}
	}
	sort.SliceStable(r.Obs, func(i, j int) bool {
		if r.Obs[i].Rule != r.Obs[j].Rule {
			return r.Obs[i].Rule < r.Obs[j].Rule
		}
		return r.Obs[i].Construct < r.Obs[j].Construct
	})
	nViol, nKnown, nDis := 0, 0, 0
	var lines []string
	_ = os.MkdirAll(filepath.Join(outDir, "replay"), 0o755)
	_ = os.MkdirAll(filepath.Join(outDir, "evidence"), 0o755)
	// remove stale replay files for this property
	if old, _ := filepath.Glob(filepath.Join(outDir, "replay", r.Property+"-*.json")); old != nil {
		for _, f := range old {
			_ = os.Remove(f)
		}
	}
	seenKnown := map[string]bool{}
	for _, o := range r.Obs {
		switch o.Status {
		case Discharged:
			nDis++
		default:
			if f, ok := known[o.Key()]; ok && detailMatches(f, o.Detail) {
				o.Known = f.ID
				nKnown++
				if !seenKnown[f.ID+o.Key()] {
					seenKnown[f.ID+o.Key()] = true
					lines = append(lines, fmt.Sprintf("KNOWN-FINDING: property=%s %s %s: %s", r.Property, f.ID, o.Key(), f.What))
					if os.Getenv("DCVERIF_DEBUG") != "" {
						lines = append(lines, "  detail: "+o.Detail)
					}
				}
				continue
			}
			nViol++
			name := fmt.Sprintf("%s-%s.json", r.Property, sanitize(o.Key()))
			path := filepath.Join(outDir, "replay", name)
			b, _ := json.MarshalIndent(map[string]interface{}{
				"property": r.Property, "rule": o.Rule, "construct": o.Construct, "status": o.Status,
				"what": o.What, "pos": o.Pos, "detail": o.Detail, "rule_doc": r.RuleDocs[o.Rule],
			}, "", " ")
			_ = os.WriteFile(path, b, 0o644)
			lines = append(lines, fmt.Sprintf("VIOLATION property=%s replay=%s", r.Property, path))
			lines = append(lines, fmt.Sprintf("  %s [%s] %s at %s: %s", o.Key(), o.Status, o.What, o.Pos, o.Detail))
		}
	}
	// evidence
	samples := []interface{}{}
	perRule := map[string]int{}
	for _, o := range r.Obs {
		if perRule[o.Rule] < 2 || o.Status != Discharged {
			perRule[o.Rule]++
			samples = append(samples, o)
		}
	}
	ruleTable := []map[string]interface{}{}
	var ids []string
	for id := range r.RuleDocs {
		ids = append(ids, id)
	}
	sort.Strings(ids)
	for _, id := range ids {
		ruleTable = append(ruleTable, map[string]interface{}{"rule": id, "doc": r.RuleDocs[id], "instances": count[id], "floor": r.Floors[id]})
	}
	if r.Trusted == nil {
		r.Trusted = []string{}
	}
	if r.Notes == nil {
		r.Notes = []string{}
	}
	cov := map[string]interface{}{
		"explanation":     r.Explain,
		"obligations":     len(r.Obs),
		"discharged":      nDis,
		"known":           nKnown,
		"violated":        nViol,
		"analysed":        r.Analysed,
		"rules":           ruleTable,
		"samples":         samples,
		"observations":    r.Notes,
		"trusted_base":    r.Trusted,
		"checker_cmd":     strings.Join(os.Args, " "),
		"exhaustive":      false,
		"all_obligations": keys(r.Obs),
	}
	for k, v := range r.Extra {
		cov[k] = v
	}
	if r.Assume == nil {
		r.Assume = []string{}
	}
	if r.Trusted == nil {
		r.Trusted = []string{}
	}
	if r.Notes == nil {
		r.Notes = []string{}
	}
	r.Assume = append(r.Assume, "static analysis only: no dc4bc code is executed; the verdict is about the shape of the source on every path, for the named necessary conditions")
	ev := map[string]interface{}{
		"property_id": r.Property,
		"tier":        r.Tier,
		"seed":        r.Seed,
		"level":       "other",
		"coverage":    cov,
		"assumptions": r.Assume,
		"wall_s":      time.Since(r.Start).Seconds(),
		"violations":  nViol,
	}
	b, _ := json.MarshalIndent(ev, "", " ")
	if err := os.WriteFile(filepath.Join(outDir, "evidence", r.Property+".json"), b, 0o644); err != nil {
		fmt.Fprintf(os.Stderr, "cannot write evidence: %v\n", err)
		return 2
	}
	for _, l := range lines {
		fmt.Println(l)
	}
	fmt.Printf("%s tier=%s obligations=%d discharged=%d known=%d violations=%d wall=%.1fs\n",
		r.Property, r.Tier, len(r.Obs), nDis, nKnown, nViol, time.Since(r.Start).Seconds())
	if nViol > 0 {
		return 1
	}
	return 0
}

func keys(obs []*Obligation) []string {
	var out []string
	for _, o := range obs {
		s := o.Key() + " = " + string(o.Status)
		if o.Known != "" {
			s += " (" + o.Known + ")"
		}
		out = append(out, s)
	}
	return out
}

func sanitize(s string) string {
	var b strings.Builder
	for _, c := range s {
		switch {
		case c >= 'a' && c <= 'z', c >= 'A' && c <= 'Z', c >= '0' && c <= '9', c == '-', c == '_', c == '.':
			b.WriteRune(c)
		default:
			b.WriteRune('_')
		}
	}
	out := b.String()
	if len(out) > 150 {
		out = out[:150]
	}
	return out
}


func detailMatches(f Finding, detail string) bool {
	for _, frag := range f.DetailContains {
		if !strings.Contains(detail, frag) {
			return false
		}
	}
	return true
}
