// dcverif: static checks of dc4bc properties C01..C20 against /repo's working tree.
//
//	dcverif check <Cxx> [--tier quick|thorough] [--repo DIR] [--out DIR]
package main

import (
	"sort"
	"encoding/json"
	"flag"
	"fmt"
	"os"
	"path/filepath"
	"strconv"

	"dcverif/internal/load"
	"dcverif/internal/report"
	"dcverif/internal/rules"
)

func main() {
	if len(os.Args) < 3 || os.Args[1] != "check" {
		fmt.Fprintln(os.Stderr, "usage: dcverif check <Cxx> [--tier quick|thorough] [--repo DIR] [--out DIR]")
		os.Exit(2)
	}
	prop := os.Args[2]
	fs := flag.NewFlagSet("check", flag.ExitOnError)
	tier := fs.String("tier", envOr("VERIF_TIER", "quick"), "quick|thorough")
	repo := fs.String("repo", envOr("DCVERIF_REPO", "/repo"), "repository working tree")
	out := fs.String("out", envOr("DCVERIF_OUT", "/verif"), "output dir (evidence/, replay/)")
	kf := fs.String("known", "", "known_findings.json (default <out>/known_findings.json)")
	_ = fs.Parse(os.Args[3:])
	if *tier != "quick" && *tier != "thorough" {
		*tier = "quick"
	}
	seed, _ := strconv.ParseInt(os.Getenv("VERIF_SEED"), 10, 64)
	if prop == "ALL" {
		if *kf == "" {
			*kf = filepath.Join(*out, "known_findings.json")
		}
		findings, err := report.LoadFindings(*kf)
		if err != nil {
			fmt.Fprintf(os.Stderr, "known findings: %v\n", err)
			os.Exit(2)
		}
		abs, _ := filepath.Abs(*repo)
		os.Exit(runAll(seed, abs, *out, findings))
	}
	rule, ok := rules.Registry[prop]
	if !ok {
		fmt.Fprintf(os.Stderr, "unknown property %s\n", prop)
		os.Exit(2)
	}
	if *kf == "" {
		*kf = filepath.Join(*out, "known_findings.json")
	}
	findings, err := report.LoadFindings(*kf)
	if err != nil {
		fmt.Fprintf(os.Stderr, "known findings: %v\n", err)
		os.Exit(2)
	}
	abs, _ := filepath.Abs(*repo)
	code := runOnce(prop, *tier, seed, abs, *out, findings, rule)
	os.Exit(code)
}

// runAll (self-test support): every property's quick rule set on ONE load of the tree. Loading dominates the cost of a
// check, and the self-test corpus asks the same question of every property for hundreds of scratch trees. Each property
// gets its own report and output directory (<out>/<prop>); after each one a line "=== <prop> exit=<n>" is printed.
// The verdicts are the ones `check <prop>` gives: same loader, same rules, nothing shared between the reports.
func runAll(seed int64, repo, out string, findings []report.Finding) int {
	p, err := load.Load(load.Options{Dir: repo})
	if err != nil {
		fmt.Fprintf(os.Stderr, "dcverif: cannot load %s: %v\n", repo, err)
		return 2
	}
	var props []string
	for k := range rules.Registry {
		if len(k) == 3 && k[0] == 'C' {
			props = append(props, k)
		}
	}
	sort.Strings(props)
	worst := 0
	for _, prop := range props {
		code := func() (code int) {
			defer func() {
				if r := recover(); r != nil {
					fmt.Fprintf(os.Stderr, "dcverif: internal error while checking %s: %v\n", prop, r)
					code = 2
				}
			}()
			rep := report.New(prop, "quick", seed)
			rep.Count("module_packages", p.NModule)
			rep.Count("all_packages", p.NAll)
			ctx := rules.NewCtx(p, rep, "quick")
			rules.Registry[prop](ctx)
			return rep.Finish(filepath.Join(out, prop), findings)
		}()
		fmt.Printf("=== %s exit=%d\n", prop, code)
		if code > worst {
			worst = code
		}
	}
	return worst
}

func runOnce(prop, tier string, seed int64, repo, out string, findings []report.Finding, rule rules.RuleFunc) (code int) {
	rep := report.New(prop, tier, seed)
	defer func() {
		if r := recover(); r != nil {
			// a panic inside the analyzer is "checker broken", never a pass and never a VIOLATION
			fmt.Fprintf(os.Stderr, "dcverif: internal error while checking %s: %v\n", prop, r)
			panic(r)
		}
	}()
	configs := []load.Options{{Dir: repo}}
	if tier == "thorough" {
		configs = append(configs, load.Options{Dir: repo, Tests: true})
	}
	for i, opt := range configs {
		p, err := load.Load(opt)
		if err != nil {
			fmt.Fprintf(os.Stderr, "dcverif: cannot load %s: %v\n", repo, err)
			return 2
		}
		rep.Count("module_packages", p.NModule)
		rep.Count("all_packages", p.NAll)
		if i == 0 {
			for pk := range p.DeadNewPkgs {
				rep.Note("treated as test support (new package, imported by no non-test file of the module): %s", pk.Path())
			}
			for _, rf := range p.RenamedFields {
				rep.Note("treated as renamed (same struct, type and tag as a field missing from the reference list): %s.%s is analysed as %s", rf.Type, rf.New, rf.Old)
			}
			for _, rn := range p.RenamedFuncs {
				rep.Note("treated as renamed (same package, receiver and parameter types as a function missing from the reference list): %s is analysed as %s (%s)", rn.New, rn.Old, rn.Pos)
			}
			rep.Count("helper_calls_expanded_in_place", len(p.Inlined))
			for k, il := range p.Inlined {
				if k < 12 {
					rep.Note("expanded in place (function not on the reference tree): %s <- %s at %s", il.Caller, il.Callee, il.Pos)
				}
			}
		}
		ctx := rules.NewCtx(p, rep, tier)
		if i > 0 {
			ctx.Variant = "tests"
			// second configuration: run on a scratch report, merge only non-discharged obligations not already present
			sub := report.New(prop, tier, seed)
			ctx.R = sub
			rule(ctx)
			have := map[string]bool{}
			for _, o := range rep.Obs {
				have[o.Key()] = true
			}
			for _, o := range sub.Obs {
				if o.Status != report.Discharged && !have[o.Key()] {
					o.Construct += " [with test files]"
					rep.Obs = append(rep.Obs, o)
				}
			}
			rep.Count("obligations_rechecked_with_test_files", len(sub.Obs))
			continue
		}
		rule(ctx)
	}
	if st := os.Getenv("DCVERIF_SELFTEST"); st != "" {
		if b, err := os.ReadFile(st); err == nil {
			var v map[string]interface{}
			if json.Unmarshal(b, &v) == nil {
				delete(v, "results")
				rep.Extra["selftest"] = v
			}
		}
	}
	return rep.Finish(out, findings)
}

func envOr(k, d string) string {
	if v := os.Getenv(k); v != "" {
		return v
	}
	return d
}
