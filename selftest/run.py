#!/usr/bin/env python3
"""Self-test of the analyzer: every mutant is a small source rewrite of a scratch copy of
/repo that still type-checks; the named property's check must exit 1 and name the expected
rule (substring of an obligation key) in its output. Behaviour-preserving refactors
("silent": true) must leave the check at exit 0.

Every item is analysed once for all properties (`dcverif check ALL`: one load of the scratch tree) and the per-property
outcome is cached under $TMPDIR keyed by analyzer binary, known findings, /repo's tree and the item, so the thorough tier
of the second property does not repeat the work of the first. The cache is only an accelerator: delete it at will.

usage: run.py [--prop Cxx] [--only id] [--jobs N] [--repo /repo] [--keep]
Exit 0 = all mutants detected and all refactors silent; exit 2 = the checker is broken
(a mutant escaped or a refactor alarmed). Never prints VIOLATION lines against /repo.
"""
import argparse, json, os, shutil, subprocess, sys, tempfile, glob
from concurrent.futures import ThreadPoolExecutor

HERE = os.path.dirname(os.path.abspath(__file__))
VERIF = os.path.dirname(HERE)
BIN = os.path.join(VERIF, "bin", "dcverif")


def load_mutants():
    out = []
    for f in sorted(glob.glob(os.path.join(HERE, "mutants", "*.json"))):
        for m in json.load(open(f)):
            m["_file"] = os.path.basename(f)
            out.append(m)
    # seeded breaking changes written by independent sub-agents (seeded/<id>/): the property's check must keep
    # reporting them, naming the obligation recorded when the seed was first detected
    for mf in sorted(glob.glob(os.path.join(VERIF, "seeded", "*", "meta.json"))):
        try:
            meta = json.load(open(mf))
        except Exception:
            continue
        if meta.get("obsolete_on_current_tree"):
            continue
        prop = meta.get("property")
        det = (meta.get("detected_by") or {}).get(prop) or {}
        if det.get("exit") != 1 or not det.get("obligations"):
            continue
        sid = os.path.basename(os.path.dirname(mf))
        # (any obligation of the property may report it: which one fires first depends on how much of the change the
        # analysis sees through, e.g. a helper introduced by the change is expanded into its callers)
        out.append(dict(id="seed-" + sid, property=prop, expect=prop + "/",
                        patch=os.path.join(os.path.dirname(mf), "patch.diff"), _file="seeded/" + sid))
    # behaviour-preserving refactorings written by independent sub-agents (selftest/refactors/*.diff): every
    # property's check must stay silent on each of them
    for f in sorted(glob.glob(os.path.join(HERE, "refactors", "*.diff"))):
        out.append(dict(id="refactor-" + os.path.basename(f)[:-5], property="*", silent=True, patch=f, _file="refactors"))
    return out


def apply_patch(root, patch):
    p = subprocess.run(["patch", "-p1", "-s", "-f", "--no-backup-if-mismatch", "-d", root, "-i", patch], capture_output=True, text=True)
    if p.returncode != 0:
        return "patch does not apply: " + (p.stdout + p.stderr).strip()[:200]
    return None


def apply_edits(root, edits):
    for e in edits:
        p = os.path.join(root, e["file"])
        s = open(p).read()
        cnt = s.count(e["old"])
        want = e.get("count", 1)
        if cnt < 1 or (want != "all" and cnt != want):
            return "anchor text occurs %d times in %s (want %s)" % (cnt, e["file"], want)
        s = s.replace(e["old"], e["new"])
        open(p, "w").write(s)
    return None


def tree_key(repo):
    """Identifies the analyzer binary, the known-findings file and the working tree the results were computed for."""
    import hashlib
    h = hashlib.sha256()
    for f in (BIN, os.path.join(VERIF, "known_findings.json")):
        h.update(open(f, "rb").read())
    for root, dirs, files in os.walk(repo):
        dirs[:] = sorted(d for d in dirs if d != ".git")
        for fn in sorted(files):
            fp = os.path.join(root, fn)
            h.update(os.path.relpath(fp, repo).encode())
            try:
                h.update(open(fp, "rb").read())
            except OSError:
                pass
    return h.hexdigest()[:24]


def item_key(m):
    import hashlib
    h = hashlib.sha256(m["id"].encode())
    if "patch" in m:
        h.update(open(m["patch"], "rb").read())
    else:
        h.update(json.dumps(m["edits"], sort_keys=True).encode())
    return h.hexdigest()[:16]


def run_item_all(m, repo, keep, cache_dir):
    """One scratch copy and ONE load of it answers every property's check (`dcverif check ALL`): what `check Cxx` would
    print and return on that tree, per property. Results are cached per (analyzer, known findings, tree, item): the
    thorough tier of the next property asks the same questions of the same scratch trees."""
    cf = os.path.join(cache_dir, item_key(m) + ".json")
    if os.path.exists(cf):
        try:
            return json.load(open(cf))
        except Exception:
            pass
    tmp = tempfile.mkdtemp(prefix="dcverif-mut-")
    try:
        dst = os.path.join(tmp, "repo")
        subprocess.run(["rsync", "-a", "--exclude", ".git", repo + "/", dst + "/"], check=True)
        err = apply_patch(dst, m["patch"]) if "patch" in m else apply_edits(dst, m["edits"])
        if err:
            res = dict(skipped="anchor gone: " + err)
        else:
            out = os.path.join(tmp, "out")
            os.makedirs(out)
            env = dict(os.environ, GOFLAGS="-mod=mod", GOPROXY="off", GOSUMDB="off", GOTOOLCHAIN="local")
            env.pop("GOWORK", None)
            p = subprocess.run([BIN, "check", "ALL", "--repo", dst, "--out", out, "--known", os.path.join(VERIF, "known_findings.json")],
                               capture_output=True, text=True, env=env)
            props, cur = {}, []
            for line in p.stdout.splitlines():
                if line.startswith("=== ") and " exit=" in line:
                    name, code = line[4:].split(" exit=")
                    props[name] = dict(exit=int(code), text="\n".join(cur)[-4000:])
                    cur = []
                else:
                    cur.append(line)
            res = dict(props=props, rc=p.returncode, stderr=p.stderr[-1500:])
        os.makedirs(cache_dir, exist_ok=True)
        tmpf = cf + ".%d.tmp" % os.getpid()
        json.dump(res, open(tmpf, "w"))
        os.replace(tmpf, cf)
        return res
    finally:
        if not keep:
            shutil.rmtree(tmp, ignore_errors=True)


def judge(m, res):
    prop = m.get("_prop", m["property"])
    if "skipped" in res:
        return dict(id=m["id"], result="skipped", why=res["skipped"])
    pr = res.get("props", {}).get(prop)
    if pr is None or pr["exit"] == 2:
        why = (pr or {}).get("text", "") + res.get("stderr", "")
        return dict(id=m["id"], result="broken", why="analyzer exit 2 (mutant does not type-check or analyzer failed): " + why[-600:])
    txt, rc = pr["text"], pr["exit"]
    if m.get("silent"):
        if rc == 0:
            return dict(id=m["id"], result="ok", why="refactor stayed silent")
        return dict(id=m["id"], result="FALSE-ALARM", why=txt[-1500:])
    if rc != 1:
        return dict(id=m["id"], result="ESCAPED", why="exit %d; expected a violation naming %s" % (rc, m["expect"]))
    exps = m["expect"] if isinstance(m["expect"], list) else [m["expect"]]
    missing = [e for e in exps if e not in txt]
    if missing:
        return dict(id=m["id"], result="WRONG-REPORT", why="violation reported but not naming %s:\n%s" % (missing, txt[-1500:]))
    return dict(id=m["id"], result="ok", why="detected")


def run_one(m, repo, keep, cache_dir):
    return judge(m, run_item_all(m, repo, keep, cache_dir))


def main():
    ap = argparse.ArgumentParser()
    ap.add_argument("--prop")
    ap.add_argument("--only")
    ap.add_argument("--jobs", type=int, default=6)
    ap.add_argument("--repo", default="/repo")
    ap.add_argument("--keep", action="store_true")
    ap.add_argument("--json")
    a = ap.parse_args()
    ms = []
    for m in load_mutants():
        if a.only and m["id"] != a.only:
            continue
        if m["property"] == "*":
            if a.prop:
                ms.append(dict(m, _prop=a.prop))
            continue
        if not a.prop or m["property"] == a.prop:
            ms.append(m)
    if not ms:
        print("no mutants selected")
        return 0
    cache_dir = os.path.join(os.environ.get("TMPDIR", "/tmp"), "dcverif-selftest-cache-" + tree_key(a.repo))
    with ThreadPoolExecutor(max_workers=a.jobs) as ex:
        res = list(ex.map(lambda m: run_one(m, a.repo, a.keep, cache_dir), ms))
    bad = 0
    for r in res:
        tag = r["result"]
        if tag in ("ok",):
            print("  ok      %-45s %s" % (r["id"], r["why"]))
        elif tag == "skipped":
            print("  skipped %-45s %s" % (r["id"], r["why"]))
        else:
            bad += 1
            print("  %s %s\n%s" % (tag, r["id"], r["why"]))
    n_ok = sum(1 for r in res if r["result"] == "ok")
    n_skip = sum(1 for r in res if r["result"] == "skipped")
    print("selftest: %d mutants, %d ok, %d skipped, %d failed" % (len(res), n_ok, n_skip, bad))
    if a.json:
        json.dump(dict(total=len(res), ok=n_ok, skipped=n_skip, failed=bad, results=res), open(a.json, "w"), indent=1)
    return 2 if bad else 0


if __name__ == "__main__":
    sys.exit(main())
