#!/bin/bash
# usage: seed_confirm.sh <seed-id> <src-dir with patch.diff demo_test.go meta.json>
# Confirms a seeded change in a scratch worktree of /repo's HEAD: builds, stable suite passes with the change,
# demonstration fails with it and passes without it. On success stores it as /verif/seeded/<seed-id>/.
set -u
export GOFLAGS=-mod=mod GOPROXY=off GOSUMDB=off GOTOOLCHAIN=local
ID="$1"; SRC="$2"
WT=/tmp/wt/confirm-$ID
LOG=/tmp/wt/confirm-$ID.log
: > "$LOG"
git -C /repo worktree remove --force "$WT" >/dev/null 2>&1
git -C /repo worktree add -q --detach "$WT" HEAD || exit 2
cleanup() { git -C /repo worktree remove --force "$WT" >/dev/null 2>&1; }
trap cleanup EXIT
cd "$WT"
if ! git apply --3way "$SRC/patch.diff" >>"$LOG" 2>&1; then
  if ! patch -p1 --fuzz=3 < "$SRC/patch.diff" >>"$LOG" 2>&1; then echo "RESULT $ID patch-does-not-apply"; exit 1; fi
fi
git diff HEAD > /tmp/wt/confirm-$ID.rebased.diff
DEMODIR=$(python3 -c "import json;print(json.load(open('$SRC/meta.json'))['demo_dir'])")
DEMORUN=$(python3 -c "import json;print(json.load(open('$SRC/meta.json'))['demo_run'])")
if ! go build ./... >>"$LOG" 2>&1; then echo "RESULT $ID build-fails"; exit 1; fi
PKGS="./fsm/... ./airgapped ./client/services/... ./client/repositories/... ./client/modules/... ./client/api/... ./client/types/... ./storage/file_storage ./pkg/... ./cmd/dc4bc_cli ./dkg/..."
# the project's tests use fixed /tmp paths: every run gets a private /tmp (mount namespace); /tmp/wt stays visible
PRIV="mkdir -p /run/oldtmp && mount --rbind /tmp /run/oldtmp && mount -t tmpfs tmpfs /tmp && mkdir -p /tmp/wt && mount --rbind /run/oldtmp/wt /tmp/wt && cd $WT && "
ok=0
for try in 1 2 3 4 5 6; do
  # the airgapped tests use the fixed path /tmp/airgapped_test: give this run a private one (mount namespace)
  unshare -m bash -c "$PRIV go test -count=1 -vet=off $PKGS" > "$LOG.suite" 2>&1 && { ok=1; break; }
  # airgapped uses a fixed /tmp path shared with other jobs: retry on that collision only
  grep -q "resource temporarily unavailable" "$LOG.suite" || break
  sleep 20
done
cat "$LOG.suite" >> "$LOG"
if [ $ok -ne 1 ]; then echo "RESULT $ID suite-fails-with-change"; grep -E "^(--- FAIL|FAIL|panic)" "$LOG.suite" | head; exit 1; fi
mkdir -p "$DEMODIR"
cp "$SRC/demo_test.go" "$DEMODIR/zz_demo_${ID//-/_}_test.go"
if (timeout 600 unshare -m bash -c "$PRIV$DEMORUN") >>"$LOG" 2>&1; then echo "RESULT $ID demo-passes-with-change(should fail)"; exit 1; fi
git reset -q --hard HEAD >>"$LOG" 2>&1   # never `git stash`: the stash is shared by all worktrees (untracked demo file stays)
if ! (timeout 600 unshare -m bash -c "$PRIV$DEMORUN") >>"$LOG" 2>&1; then echo "RESULT $ID demo-fails-without-change(should pass)"; tail -30 "$LOG"; exit 1; fi
if [ -n "${NO_STORE:-}" ]; then echo "RESULT $ID confirmed"; exit 0; fi
mkdir -p /verif/seeded/$ID
cp /tmp/wt/confirm-$ID.rebased.diff /verif/seeded/$ID/patch.diff
cp "$SRC/demo_test.go" /verif/seeded/$ID/demo_test.go
python3 - "$SRC/meta.json" /verif/seeded/$ID/meta.json "$ID" <<'PY'
import json,sys,subprocess
m=json.load(open(sys.argv[1]))
m['seed_id']=sys.argv[3]
m['confirmed']={'by':'tools/seed_confirm.sh in a scratch worktree of /repo HEAD '+subprocess.check_output(['git','-C','/repo','rev-parse','--short','HEAD'],text=True).strip(),
  'build':True,'stable_suite_passes_with_change':True,'demo_fails_with_change':True,'demo_passes_without_change':True}
json.dump(m,open(sys.argv[2],'w'),indent=1)
PY
echo "RESULT $ID confirmed"
