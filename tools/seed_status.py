#!/usr/bin/env python3
"""Runs every kept seeded change (/verif/seeded/<id>/patch.diff) against the quick checks of its own property
(plus extra properties given in meta.json 'also_check'), one at a time on /repo (apply, check, undo), and records the
outcome in seeded/<id>/meta.json ('detected_by') and in seeded/STATUS.md. Usage: seed_status.py [seed-id ...]"""
import json, os, subprocess, sys, glob, re
V='/verif'
claimed=set(c['property_id'] for c in json.load(open(V+'/MANIFEST.json'))['checks'])
ids=sys.argv[1:] or sorted(os.path.basename(d) for d in glob.glob(V+'/seeded/c*') if os.path.isdir(d))
if subprocess.run(['git','-C','/repo','status','--porcelain'],capture_output=True,text=True).stdout.strip():
    sys.exit('/repo is not clean')
rows=[]
for sid in ids:
    mp=f'{V}/seeded/{sid}/meta.json'
    m=json.load(open(mp))
    props=[m['property']]+m.get('also_check',[])
    if m.get('obsolete_on_current_tree'):
        rows.append((sid,m['property'],'OBSOLETE on the repaired tree',m['obsolete_on_current_tree'][:160]))
        continue
    r=subprocess.run(['git','-C','/repo','apply',f'{V}/seeded/{sid}/patch.diff'],capture_output=True,text=True)
    if r.returncode!=0:
        rows.append((sid,m['property'],'patch does not apply to current /repo',''))
        continue
    det={}
    try:
        for p in props:
            if p not in claimed:
                det[p]={'result':'property not claimed'}
                continue
            out=f'/tmp/seedout/{sid}'
            os.makedirs(out,exist_ok=True)
            pr=subprocess.run([V+'/bin/dcverif','check',p,'--repo','/repo','--out',out,'--known',V+'/known_findings.json'],capture_output=True,text=True)
            keys=re.findall(r'^  (C\d+/\S+@\S+) \[(violated|undecided)\]',pr.stdout,re.M)
            det[p]={'exit':pr.returncode,'obligations':[k for k,_ in keys][:8]}
    finally:
        subprocess.run(['git','-C','/repo','checkout','--','.'])
        subprocess.run(['git','-C','/repo','clean','-fdq'])
    m['detected_by']=det
    json.dump(m,open(mp,'w'),indent=1)
    own=det.get(m['property'],{})
    rows.append((sid,m['property'],'DETECTED' if own.get('exit')==1 else ('not claimed' if 'result' in own else 'MISSED'),', '.join(own.get('obligations',[])[:3])))
if not sys.argv[1:]:
    with open(V+'/seeded/STATUS.md','w') as f:
        f.write('# Seeded changes vs. quick checks\n\n| seed | property | outcome | first obligations reported |\n|---|---|---|---|\n')
        for r in rows: f.write('| %s | %s | %s | %s |\n'%r)
for r in rows: print('%-8s %-4s %-10s %s'%r)
