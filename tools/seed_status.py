#!/usr/bin/env python3
"""Runs every kept seeded change (/verif/seeded/<id>/patch.diff) against the quick check of its own property (plus extra
properties given in meta.json 'also_check'), each on a scratch copy of /repo's working tree (never on /repo itself), and
records the outcome in seeded/<id>/meta.json ('detected_by') and in seeded/STATUS.md. Usage: seed_status.py [seed-id ...]"""
import json, os, sys, glob
from concurrent.futures import ThreadPoolExecutor
sys.path.insert(0, os.path.dirname(os.path.abspath(__file__)))
import seed_try
V = '/verif'
ids = sys.argv[1:] or sorted(os.path.basename(d) for d in glob.glob(V + '/seeded/c*') if os.path.isdir(d))
rows = []
def run(sid):
    mp = f'{V}/seeded/{sid}/meta.json'
    m = json.load(open(mp))
    if m.get('obsolete_on_current_tree'):
        return (sid, m['property'], 'OBSOLETE on the repaired tree', m['obsolete_on_current_tree'][:160])
    s, prop, st, info, det = seed_try.one(f'{V}/seeded/{sid}', False)
    if det:
        m['detected_by'] = {p: {'exit': v['exit'], 'obligations': v['obligations']} for p, v in det.items()}
        json.dump(m, open(mp, 'w'), indent=1)
    return (sid, prop, st, info.split(' | also')[0])
with ThreadPoolExecutor(4) as ex:
    rows = list(ex.map(run, ids))
if not sys.argv[1:]:
    with open(V + '/seeded/STATUS.md', 'w') as f:
        f.write('# Seeded changes vs. quick checks\n\n| seed | property | outcome | first obligations reported |\n|---|---|---|---|\n')
        for r in rows: f.write('| %s | %s | %s | %s |\n' % r)
for r in rows: print('%-8s %-4s %-10s %s' % r)
