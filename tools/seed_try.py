#!/usr/bin/env python3
"""Runs quick checks against seeded changes WITHOUT touching /repo: each patch is applied to a scratch copy of /repo's
working tree (rsync without .git, under $TMPDIR, removed afterwards).
usage: seed_try.py [--all-props] [--jobs N] <dir-with-patch.diff-and-meta.json> [...]
For each directory: property from meta.json (plus also_check); with --all-props every claimed property is run (to see
which other checks report it too). Prints one line per seed: DETECTED / MISSED and the first obligations."""
import json, os, re, shutil, subprocess, sys, tempfile
from concurrent.futures import ThreadPoolExecutor
V = '/verif'
env = dict(os.environ, GOFLAGS='-mod=mod', GOPROXY='off', GOSUMDB='off', GOTOOLCHAIN='local'); env.pop('GOWORK', None)
claimed = [c['property_id'] for c in json.load(open(V + '/MANIFEST.json'))['checks']]

def check(p, repo, out):
    os.makedirs(out, exist_ok=True)
    r = subprocess.run([V + '/bin/dcverif', 'check', p, '--repo', repo, '--out', out, '--known', V + '/known_findings.json'],
                       capture_output=True, text=True, env=env)
    keys = re.findall(r'^  (C\d+/\S+@.*?) \[(violated|undecided)\]', r.stdout, re.M)
    return p, r.returncode, [k for k, _ in keys][:6], (r.stderr[-400:] if r.returncode == 2 else '')

def one(d, allprops):
    d = os.path.abspath(d)
    sid = os.path.basename(d.rstrip('/'))
    m = json.load(open(d + '/meta.json'))
    props = claimed if allprops else [m['property']] + m.get('also_check', [])
    tmp = tempfile.mkdtemp(prefix='dcverif-seed-')
    repo = tmp + '/repo'
    try:
        subprocess.run(['rsync', '-a', '--exclude', '.git', '/repo/', repo + '/'], check=True)
        a = subprocess.run(['patch', '-p1', '-s', '-f', '--no-backup-if-mismatch', '-d', repo, '-i', d + '/patch.diff'], capture_output=True, text=True)
        if a.returncode != 0:
            return sid, m['property'], 'patch does not apply', (a.stdout + a.stderr).strip()[:200], {}
        with ThreadPoolExecutor(6) as ex:
            res = list(ex.map(lambda p: check(p, repo, tmp + '/out/' + p), props))
    finally:
        shutil.rmtree(tmp, ignore_errors=True)
    det = {p: {'exit': rc, 'obligations': k, **({'stderr': e} if e else {})} for p, rc, k, e in res}
    own = det[m['property']]
    others = [p for p, v in det.items() if p != m['property'] and v['exit'] != 0]
    st = 'DETECTED' if own['exit'] == 1 else ('BROKEN(exit %d)' % own['exit'] if own['exit'] != 0 else 'MISSED')
    return sid, m['property'], st, ', '.join(own['obligations'][:3]) + ((' | also: ' + ','.join(others)) if others else ''), det

def main():
    args = sys.argv[1:]
    allprops = '--all-props' in args
    jobs = 3
    if '--jobs' in args:
        i = args.index('--jobs'); jobs = int(args[i + 1]); del args[i:i + 2]
    dirs = [a for a in args if not a.startswith('--')]
    with ThreadPoolExecutor(jobs) as ex:
        for sid, prop, st, info, det in ex.map(lambda d: one(d, allprops), dirs):
            print('%-8s %-4s %-10s %s' % (sid, prop, st, info), flush=True)

if __name__ == '__main__':
    main()
