#!/usr/bin/env python3
"""Generates MANIFEST.json from tools/claims.json (one entry per claimed property) and
properties.jsonl (every unclaimed property is listed under not_applicable with its reason)."""
import json, os
HERE = os.path.dirname(os.path.abspath(__file__))
V = os.path.dirname(HERE)
claims = json.load(open(os.path.join(HERE, "claims.json")))
props = [json.loads(l)["id"] for l in open(os.path.join(V, "properties.jsonl")) if l.strip()]
checks, na = [], []
for pid in props:
    c = claims.get(pid)
    if c and c.get("claimed"):
        checks.append({
            "property_id": pid,
            "quick_cmd": "./check %s quick" % pid,
            "thorough_cmd": "./check %s thorough" % pid,
            "evidence_file": "/verif/evidence/%s.json" % pid,
            "replay_cmd_template": "cat {path}",
            "engine": "dcverif",
            "level_claimed": {"category": "other", "text": c["text"], "design_ref": "DESIGN.md §4 " + pid},
            "level_note": c["note"],
            "technique": c["technique"],
        })
    else:
        na.append({"property_id": pid, "reason": (c or {}).get("reason", "static check for this property is not built yet (see DESIGN.md §9 build order)")})
m = {
    "version": 1,
    "setup_cmd": "cd /verif/analyzer && GOFLAGS=-mod=mod GOPROXY=off GOSUMDB=off GOTOOLCHAIN=local go build -o ../bin/dcverif ./cmd/dcverif",
    "hooks": {
        "guard": "verif",
        "enable": "none: the analyzer reads /repo's source (go/packages + go/ssa); no instrumentation is compiled into dc4bc",
        "baseline_off_cmd": json.load(open("/root/.vp/BASELINE.json"))["cmd"] if os.path.exists("/root/.vp/BASELINE.json") else "",
        "source_commits": [],
        "add_only": True,
    },
    "engines": [{"name": "dcverif", "path": "/verif/analyzer", "serves_properties": [c["property_id"] for c in checks],
                 "kind_free_text": "repository-specific static analyzer (Go, golang.org/x/tools v0.29.0: go/packages, go/types, go/ssa, VTA call graph); no dc4bc code is executed"}],
    "checks": checks,
    "not_applicable": na,
    "notes": "All checks are static analyses of /repo's current working tree at level 'other': each decides named structural necessary conditions of its property (see level_claimed.text and DESIGN.md) and says what it does not decide. Known genuine defects are listed in known_findings.json.",
}
json.dump(m, open(os.path.join(V, "MANIFEST.json"), "w"), indent=1)
print("claimed:", [c["property_id"] for c in checks])
print("not_applicable:", [n["property_id"] for n in na])
