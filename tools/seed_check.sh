#!/bin/bash
# usage: seed_check.sh <seed-id> [props...]   applies /verif/seeded/<id>/patch.diff to /repo, runs the quick checks, undoes it.
set -u
ID="$1"; shift
cd /repo
if [ -n "$(git status --porcelain)" ]; then echo "/repo not clean"; exit 2; fi
PROPS="$*"
if [ -z "$PROPS" ]; then PROPS=$(python3 -c "import json;print(json.load(open('/verif/seeded/$ID/meta.json'))['property'])"); fi
git apply /verif/seeded/$ID/patch.diff || { echo "cannot apply"; exit 2; }
for P in $PROPS; do
  mkdir -p /tmp/seedout/$ID
  (cd /verif && DCVERIF_OUT=/tmp/seedout/$ID bin/dcverif check $P --repo /repo --out /tmp/seedout/$ID --known /verif/known_findings.json) > /tmp/seedout/$ID/$P.log 2>&1
  rc=$?
  echo "SEED $ID check=$P exit=$rc"
  grep -A1 "^VIOLATION" /tmp/seedout/$ID/$P.log | grep -v "^VIOLATION\|^--" | cut -c1-400
done
git checkout -- . && git clean -fdq
