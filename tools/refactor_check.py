#!/usr/bin/env python3
"""Applies each behaviour-preserving refactoring patch (*.diff in the given directories) to /repo, runs the quick checks of
all claimed properties, undoes the patch, and reports every check that alarmed (exit 1) or broke (exit 2).
A refactoring that preserves behaviour must leave every check at exit 0: anything else is a false alarm to be corrected
in the analyzer. Usage: refactor_check.py <dir-with-diffs> [...]"""
import json, os, subprocess, sys, glob, re
from concurrent.futures import ThreadPoolExecutor
V='/verif'
props=[c['property_id'] for c in json.load(open(V+'/MANIFEST.json'))['checks']]
import tempfile, shutil
# every patch is applied to a scratch copy of /repo (outside /repo and /verif, removed afterwards)
env=dict(os.environ, GOFLAGS='-mod=mod', GOPROXY='off', GOSUMDB='off', GOTOOLCHAIN='local'); env.pop('GOWORK',None)
def run(p, out, repo):
    os.makedirs(out, exist_ok=True)
    r=subprocess.run([V+'/bin/dcverif','check',p,'--repo',repo,'--out',out,'--known',V+'/known_findings.json'],capture_output=True,text=True,env=env)
    keys=re.findall(r'^  (C\d+/\S+@.*?) \[(violated|undecided)\]',r.stdout,re.M)
    return p, r.returncode, [k for k,_ in keys][:6], (r.stderr[-300:] if r.returncode==2 else '')
bad=0
for d in sys.argv[1:]:
    for f in sorted(glob.glob(os.path.abspath(d)+'/*.diff')):
        name=os.path.basename(d.rstrip('/'))+'/'+os.path.basename(f)
        tmp=tempfile.mkdtemp(prefix='dcverif-rf-')
        repo=tmp+'/repo'
        subprocess.run(['rsync','-a','--exclude','.git','/repo/',repo+'/'],check=True)
        a=subprocess.run(['patch','-p1','-s','-f','--no-backup-if-mismatch','-d',repo,'-i',f],capture_output=True,text=True)
        if a.returncode!=0:
            print('%-28s patch does not apply: %s'%(name,(a.stdout+a.stderr).strip()[:120])); shutil.rmtree(tmp,ignore_errors=True); continue
        try:
            with ThreadPoolExecutor(10) as ex:
                res=list(ex.map(lambda p: run(p,tmp+'/out/'+p,repo), props))
        finally:
            shutil.rmtree(tmp,ignore_errors=True)
        al=[(p,rc,k,e) for p,rc,k,e in res if rc!=0]
        if not al: print('%-28s silent (%d checks)'%(name,len(res)))
        for p,rc,k,e in al:
            bad+=1
            print('%-28s ALARM %s exit=%d %s %s'%(name,p,rc,'; '.join(k),e.replace('\n',' ')))
print('alarms:',bad)
