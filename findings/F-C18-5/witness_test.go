// Witness for F-C18-5 (property C18, rule C18/R1). Copy to client/services/node/ and run
//   go test ./client/services/node/ -run TestWitnessProcessedOperationWithoutDKGPayload -count=1
// A result operation posted to the local API (POST /handleProcessedOperationJSON) with the event
// "operation_processed_successfully" for a round that has not reached key generation yet dereferences the round's nil
// DKGProposalPayload: the request ends in a panic (recovered by net/http, the connection is dropped) instead of an error.
package node

import (
	"context"
	"os"
	"testing"

	"github.com/golang/mock/gomock"

	"github.com/lidofinance/dc4bc/client/api/dto"
	"github.com/lidofinance/dc4bc/client/config"
	"github.com/lidofinance/dc4bc/client/modules/keystore"
	"github.com/lidofinance/dc4bc/client/modules/logger"
	"github.com/lidofinance/dc4bc/client/modules/state"
	"github.com/lidofinance/dc4bc/client/services"
	"github.com/lidofinance/dc4bc/client/services/fsmservice"
	"github.com/lidofinance/dc4bc/client/types"
	"github.com/lidofinance/dc4bc/fsm/state_machines"
	"github.com/lidofinance/dc4bc/mocks/clientMocks"
	"github.com/lidofinance/dc4bc/mocks/serviceMocks"
	"github.com/lidofinance/dc4bc/mocks/storageMocks"
)

func TestWitnessProcessedOperationWithoutDKGPayload(t *testing.T) {
	ctrl := gomock.NewController(t)
	defer ctrl.Finish()
	dir, _ := os.MkdirTemp("", "witness_c18_5_")
	defer os.RemoveAll(dir)
	st, err := state.NewLevelDBState(dir, "topic")
	if err != nil {
		t.Fatal(err)
	}
	ks := clientMocks.NewMockKeyStore(ctrl)
	ks.EXPECT().LoadKeys("alice", "").AnyTimes().Return(keystore.NewKeyPair(), nil)
	stg := storageMocks.NewMockStorage(ctrl)
	fsmSvc := fsmservice.NewFSMService(st, stg, "topic")
	ops := serviceMocks.NewMockOperationService(ctrl)
	sp := services.ServiceProvider{}
	sp.SetLogger(logger.NewLogger("alice"))
	sp.SetState(st)
	sp.SetKeyStore(ks)
	sp.SetStorage(stg)
	sp.SetFSMService(fsmSvc)
	sp.SetOperationService(ops)
	n, err := NewNode(context.Background(), &config.Config{Username: "alice", KafkaStorageConfig: &config.KafkaStorageConfig{Topic: "topic"}}, &sp)
	if err != nil {
		t.Fatal(err)
	}
	// a round that exists but has not reached key generation (no DKG payload yet)
	inst, err := state_machines.Create("round-1")
	if err != nil {
		t.Fatal(err)
	}
	bz, err := inst.Dump()
	if err != nil {
		t.Fatal(err)
	}
	if err := fsmSvc.SaveFSM("round-1", bz); err != nil {
		t.Fatal(err)
	}
	stored := &types.Operation{ID: "op-1", Type: "state_sig_proposal_await_participants_confirmations", Payload: []byte("{}"), DKGIdentifier: "round-1"}
	ops.EXPECT().GetOperationByID("op-1").AnyTimes().Return(stored, nil)
	ops.EXPECT().DeleteOperation(gomock.Any()).AnyTimes().Return(nil)

	defer func() {
		if p := recover(); p != nil {
			t.Fatalf("a result operation posted to the local API panics the handler: %v", p)
		}
	}()
	err = n.ProcessOperation(&dto.OperationDTO{ID: "op-1", Type: "state_sig_proposal_await_participants_confirmations", Payload: []byte("{}"), DkgID: "round-1", Event: types.OperationProcessed})
	if err == nil {
		t.Fatal("a processed-operation result for a round without key generation data was accepted")
	}
}
