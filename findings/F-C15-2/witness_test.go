// Witness for F-C15-2 (property C15, rule C15/R4 answer-serialised).
// Copy to: client/services/node/demo_test.go (package node)
// Run:     export GOFLAGS=-mod=mod GOPROXY=off GOSUMDB=off GOTOOLCHAIN=local
//
//	go test -count=1 ./client/services/node/ -run TestH15_SameResultSubmittedTwiceConcurrently -v
//
// Property C15: the messages of a result are posted once; after that the operation is no longer
// pending and cannot be answered again (for every history of duplicated submissions).
//
// Defect: executeOperation is check-then-act without any lock: it looks the operation up in the pool,
// signs and POSTS the messages, and only afterwards writes the tombstone. The HTTP API serves every
// request on its own goroutine, so two submissions of the same result file (an operator repeating
// `dc4bc_cli read_operation_result` while the first call hangs on a slow board, a double click, two
// CLI sessions) both pass the pool check and both post. The second one then fails with
// "operation ... was already deleted" - after its messages are already on the board.
// The same window exists without concurrency: when Send succeeds and DeleteOperation fails (or the
// process dies in between) the answered operation is still pending and is answered a second time.
//
// The board in the test is the real file board; the wrapper only makes Send wait (max 2s) until the
// second submission is inside Send as well, so that the interleaving is deterministic.
package node

import (
	"context"
	"crypto/ed25519"
	"encoding/json"
	"path/filepath"
	"sync"
	"testing"
	"time"

	"github.com/google/uuid"
	"github.com/stretchr/testify/require"

	"github.com/lidofinance/dc4bc/client/api/dto"
	"github.com/lidofinance/dc4bc/client/config"
	"github.com/lidofinance/dc4bc/client/modules/keystore"
	"github.com/lidofinance/dc4bc/client/modules/logger"
	"github.com/lidofinance/dc4bc/client/modules/state"
	oprepo "github.com/lidofinance/dc4bc/client/repositories/operation"
	sigrepo "github.com/lidofinance/dc4bc/client/repositories/signature"
	"github.com/lidofinance/dc4bc/client/services"
	"github.com/lidofinance/dc4bc/client/services/fsmservice"
	"github.com/lidofinance/dc4bc/client/services/operation"
	"github.com/lidofinance/dc4bc/client/services/signature"
	"github.com/lidofinance/dc4bc/client/types"
	dpf "github.com/lidofinance/dc4bc/fsm/state_machines/dkg_proposal_fsm"
	spf "github.com/lidofinance/dc4bc/fsm/state_machines/signature_proposal_fsm"
	"github.com/lidofinance/dc4bc/fsm/types/requests"
	"github.com/lidofinance/dc4bc/storage"
	"github.com/lidofinance/dc4bc/storage/file_storage"
)

type h15bNode struct {
	node    NodeService
	board   storage.Storage
	ops     operation.OperationService
	fsm     fsmservice.FSMService
	me      *keystore.KeyPair
	other   *keystore.KeyPair
	meName  string
	othName string
}

// a real node: LevelDB state, real operation repository, real FSM service, real file board
func h15bNewNode(t *testing.T) *h15bNode {
	return h15bNewNodeWithBoard(t, func(b storage.Storage) storage.Storage { return b })
}

func h15bNewNodeWithBoard(t *testing.T, wrap func(storage.Storage) storage.Storage) *h15bNode {
	dir := t.TempDir()
	const topic = "topic"
	userName := "node_me"

	st, err := state.NewLevelDBState(filepath.Join(dir, "state"), topic)
	require.NoError(t, err)
	board, err := file_storage.NewFileStorage(filepath.Join(dir, "board"), filepath.Join(dir, "board.lock"))
	require.NoError(t, err)
	board = wrap(board)
	ks, err := keystore.NewLevelDBKeyStore(userName, filepath.Join(dir, "keys"))
	require.NoError(t, err)
	me := keystore.NewKeyPair()
	require.NoError(t, ks.PutKeys(userName, me))

	repo, err := oprepo.NewOperationRepo(st, topic)
	require.NoError(t, err)

	sp := services.ServiceProvider{}
	sp.SetLogger(logger.NewLogger(userName))
	sp.SetState(st)
	sp.SetKeyStore(ks)
	sp.SetStorage(board)
	sp.SetFSMService(fsmservice.NewFSMService(st, board, topic))
	sp.SetOperationService(operation.NewOperationService(repo))
	sp.SetSignatureService(signature.NewSignatureService(sigrepo.NewSignatureRepo(st)))

	n, err := NewNode(context.Background(), &config.Config{
		Username:           userName,
		KafkaStorageConfig: &config.KafkaStorageConfig{Topic: topic},
	}, &sp)
	require.NoError(t, err)

	return &h15bNode{
		node: n, board: board, ops: sp.GetOperationService(), fsm: sp.GetFSMService(),
		me: me, other: keystore.NewKeyPair(), meName: userName, othName: "node_other",
	}
}

func (h *h15bNode) signed(t *testing.T, kp *keystore.KeyPair, sender, round, event string, req interface{}) storage.Message {
	data, err := json.Marshal(req)
	require.NoError(t, err)
	m := storage.Message{ID: uuid.New().String(), DkgRoundID: round, Event: event, Data: data, SenderAddr: sender}
	m.Signature = ed25519.Sign(kp.Priv, m.Bytes())
	return m
}

// drives a round through the proposal until the node holds the "send commits" operation
func (h *h15bNode) roundAtCommits(t *testing.T, round string) *types.Operation {
	now := time.Now()
	require.NoError(t, h.node.ProcessMessage(h.signed(t, h.other, h.othName, round, string(spf.EventInitProposal),
		requests.SignatureProposalParticipantsListRequest{
			Participants: []*requests.SignatureProposalParticipantsEntry{
				{Username: h.meName, PubKey: h.me.Pub, DkgPubKey: make([]byte, 128)},
				{Username: h.othName, PubKey: h.other.Pub, DkgPubKey: make([]byte, 128)},
			},
			SigningThreshold: 2,
			CreatedAt:        now,
		})))
	require.NoError(t, h.node.ProcessMessage(h.signed(t, h.me, h.meName, round, string(spf.EventConfirmSignatureProposal),
		requests.SignatureProposalParticipantRequest{ParticipantId: 0, CreatedAt: now})))
	require.NoError(t, h.node.ProcessMessage(h.signed(t, h.other, h.othName, round, string(spf.EventConfirmSignatureProposal),
		requests.SignatureProposalParticipantRequest{ParticipantId: 1, CreatedAt: now})))

	ops, err := h.ops.GetOperations()
	require.NoError(t, err)
	for _, o := range ops {
		if o.DKGIdentifier == round && string(o.Type) == string(dpf.StateDkgCommitsAwaitConfirmations) {
			return o
		}
	}
	t.Fatalf("no commits operation for round %s", round)
	return nil
}

// gatedBoard is the real board; Send only waits (at most 2s) until a second caller is inside Send too,
// which makes the interleaving of two simultaneous HTTP submissions deterministic.
type gatedBoard struct {
	storage.Storage
	mu      sync.Mutex
	inside  int
	arrived chan struct{}
}

func (g *gatedBoard) Send(msgs ...storage.Message) error {
	g.mu.Lock()
	g.inside++
	if g.inside == 2 {
		close(g.arrived)
	}
	g.mu.Unlock()
	select {
	case <-g.arrived:
	case <-time.After(2 * time.Second):
	}
	// the file board itself is not safe for concurrent use inside one process, keep the writes apart
	g.mu.Lock()
	defer g.mu.Unlock()
	return g.Storage.Send(msgs...)
}

func TestH15_SameResultSubmittedTwiceConcurrently(t *testing.T) {
	h := h15bNewNodeWithBoard(t, func(b storage.Storage) storage.Storage {
		return &gatedBoard{Storage: b, arrived: make(chan struct{})}
	})
	round := "cccccccccccccccccccccccccccccccccccccccccccccccccccccccccccccccc"
	op := h.roundAtCommits(t, round)

	before, err := h.board.GetMessages(0)
	require.NoError(t, err)

	commitReq, err := json.Marshal(requests.DKGProposalCommitConfirmationRequest{
		ParticipantId: 0, Commit: []byte(`["AAAA"]`), CreatedAt: op.CreatedAt})
	require.NoError(t, err)
	mkResult := func() *dto.OperationDTO {
		return &dto.OperationDTO{
			ID: op.ID, Type: string(op.Type), Payload: op.Payload, CreatedAt: op.CreatedAt, DkgID: round,
			Event: dpf.EventDKGCommitConfirmationReceived,
			ResultMsgs: []storage.Message{{
				Event: string(dpf.EventDKGCommitConfirmationReceived), Data: commitReq, DkgRoundID: round,
			}},
		}
	}

	var wg sync.WaitGroup
	errs := make([]error, 2)
	for i := 0; i < 2; i++ {
		wg.Add(1)
		go func(i int) {
			defer wg.Done()
			errs[i] = h.node.ProcessOperation(mkResult())
		}(i)
	}
	wg.Wait()

	after, err := h.board.GetMessages(0)
	require.NoError(t, err)
	t.Logf("submission errors: %v / %v; messages posted: %d", errs[0], errs[1], len(after)-len(before))
	require.Equal(t, 1, len(after)-len(before),
		"one pending operation was answered on the board more than once")
}
