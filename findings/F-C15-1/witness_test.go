// Witness for F-C15-1 (property C15, rule C15/R7).
// Copy to: client/services/node/demo_test.go (package node)
// Run:     export GOFLAGS=-mod=mod GOPROXY=off GOSUMDB=off GOTOOLCHAIN=local
//
//	go test -count=1 ./client/services/node/ -run TestH15_ResultEventAndRoundAreNotBound -v
//
// Property C15: the node posts exactly the messages of a result whose id, type and payload match a
// pending operation of its own pool; a result in which any other field was changed on the way back
// must not make the node do anything else.
//
// Defect: Operation.Equal binds ID, Type and Payload only. The fields Event, DKGIdentifier and
// ExtraData of the returned result are taken on trust, and executeOperation branches on them: a
// result of ANY pending operation (here: the "send commits" operation of round A) that comes back
// with Event = "operation_processed_successfully" is treated as the answer to a reinit operation:
// none of its ResultMsgs is posted, the bytes of ExtraData are written into the PubPolyBz of the round
// named by the returned DKGIdentifier (here: the unrelated round B), and the operation of round A is
// retired for good, so the real answer can never be posted.
package node

import (
	"context"
	"crypto/ed25519"
	"encoding/json"
	"path/filepath"
	"testing"
	"time"

	"github.com/google/uuid"
	"github.com/stretchr/testify/require"

	"github.com/lidofinance/dc4bc/client/api/dto"
	"github.com/lidofinance/dc4bc/client/config"
	"github.com/lidofinance/dc4bc/client/modules/keystore"
	"github.com/lidofinance/dc4bc/client/modules/logger"
	"github.com/lidofinance/dc4bc/client/modules/state"
	oprepo "github.com/lidofinance/dc4bc/client/repositories/operation"
	sigrepo "github.com/lidofinance/dc4bc/client/repositories/signature"
	"github.com/lidofinance/dc4bc/client/services"
	"github.com/lidofinance/dc4bc/client/services/fsmservice"
	"github.com/lidofinance/dc4bc/client/services/operation"
	"github.com/lidofinance/dc4bc/client/services/signature"
	"github.com/lidofinance/dc4bc/client/types"
	dpf "github.com/lidofinance/dc4bc/fsm/state_machines/dkg_proposal_fsm"
	spf "github.com/lidofinance/dc4bc/fsm/state_machines/signature_proposal_fsm"
	"github.com/lidofinance/dc4bc/fsm/types/requests"
	"github.com/lidofinance/dc4bc/storage"
	"github.com/lidofinance/dc4bc/storage/file_storage"
)

type h15aNode struct {
	node    NodeService
	board   storage.Storage
	ops     operation.OperationService
	fsm     fsmservice.FSMService
	me      *keystore.KeyPair
	other   *keystore.KeyPair
	meName  string
	othName string
}

// a real node: LevelDB state, real operation repository, real FSM service, real file board
func h15aNewNode(t *testing.T) *h15aNode {
	return h15aNewNodeWithBoard(t, func(b storage.Storage) storage.Storage { return b })
}

func h15aNewNodeWithBoard(t *testing.T, wrap func(storage.Storage) storage.Storage) *h15aNode {
	dir := t.TempDir()
	const topic = "topic"
	userName := "node_me"

	st, err := state.NewLevelDBState(filepath.Join(dir, "state"), topic)
	require.NoError(t, err)
	board, err := file_storage.NewFileStorage(filepath.Join(dir, "board"), filepath.Join(dir, "board.lock"))
	require.NoError(t, err)
	board = wrap(board)
	ks, err := keystore.NewLevelDBKeyStore(userName, filepath.Join(dir, "keys"))
	require.NoError(t, err)
	me := keystore.NewKeyPair()
	require.NoError(t, ks.PutKeys(userName, me))

	repo, err := oprepo.NewOperationRepo(st, topic)
	require.NoError(t, err)

	sp := services.ServiceProvider{}
	sp.SetLogger(logger.NewLogger(userName))
	sp.SetState(st)
	sp.SetKeyStore(ks)
	sp.SetStorage(board)
	sp.SetFSMService(fsmservice.NewFSMService(st, board, topic))
	sp.SetOperationService(operation.NewOperationService(repo))
	sp.SetSignatureService(signature.NewSignatureService(sigrepo.NewSignatureRepo(st)))

	n, err := NewNode(context.Background(), &config.Config{
		Username:           userName,
		KafkaStorageConfig: &config.KafkaStorageConfig{Topic: topic},
	}, &sp)
	require.NoError(t, err)

	return &h15aNode{
		node: n, board: board, ops: sp.GetOperationService(), fsm: sp.GetFSMService(),
		me: me, other: keystore.NewKeyPair(), meName: userName, othName: "node_other",
	}
}

func (h *h15aNode) signed(t *testing.T, kp *keystore.KeyPair, sender, round, event string, req interface{}) storage.Message {
	data, err := json.Marshal(req)
	require.NoError(t, err)
	m := storage.Message{ID: uuid.New().String(), DkgRoundID: round, Event: event, Data: data, SenderAddr: sender}
	m.Signature = ed25519.Sign(kp.Priv, m.Bytes())
	return m
}

// drives a round through the proposal until the node holds the "send commits" operation
func (h *h15aNode) roundAtCommits(t *testing.T, round string) *types.Operation {
	now := time.Now()
	require.NoError(t, h.node.ProcessMessage(h.signed(t, h.other, h.othName, round, string(spf.EventInitProposal),
		requests.SignatureProposalParticipantsListRequest{
			Participants: []*requests.SignatureProposalParticipantsEntry{
				{Username: h.meName, PubKey: h.me.Pub, DkgPubKey: make([]byte, 128)},
				{Username: h.othName, PubKey: h.other.Pub, DkgPubKey: make([]byte, 128)},
			},
			SigningThreshold: 2,
			CreatedAt:        now,
		})))
	require.NoError(t, h.node.ProcessMessage(h.signed(t, h.me, h.meName, round, string(spf.EventConfirmSignatureProposal),
		requests.SignatureProposalParticipantRequest{ParticipantId: 0, CreatedAt: now})))
	require.NoError(t, h.node.ProcessMessage(h.signed(t, h.other, h.othName, round, string(spf.EventConfirmSignatureProposal),
		requests.SignatureProposalParticipantRequest{ParticipantId: 1, CreatedAt: now})))

	ops, err := h.ops.GetOperations()
	require.NoError(t, err)
	for _, o := range ops {
		if o.DKGIdentifier == round && string(o.Type) == string(dpf.StateDkgCommitsAwaitConfirmations) {
			return o
		}
	}
	t.Fatalf("no commits operation for round %s", round)
	return nil
}

func TestH15_ResultEventAndRoundAreNotBound(t *testing.T) {
	h := h15aNewNode(t)

	roundA := "aaaaaaaaaaaaaaaaaaaaaaaaaaaaaaaaaaaaaaaaaaaaaaaaaaaaaaaaaaaaaaaa"
	roundB := "bbbbbbbbbbbbbbbbbbbbbbbbbbbbbbbbbbbbbbbbbbbbbbbbbbbbbbbbbbbbbbbb"
	opA := h.roundAtCommits(t, roundA)
	_ = h.roundAtCommits(t, roundB)

	dumpBBefore, err := h.fsm.GetFSMDump(&dto.DkgIdDTO{DkgID: roundB})
	require.NoError(t, err)
	require.Empty(t, dumpBBefore.Payload.DKGProposalPayload.PubPolyBz)

	before, err := h.board.GetMessages(0)
	require.NoError(t, err)

	// the answer of the airgapped machine to opA, as it would come back ...
	commitReq, err := json.Marshal(requests.DKGProposalCommitConfirmationRequest{
		ParticipantId: 0, Commit: []byte(`["AAAA"]`), CreatedAt: opA.CreatedAt})
	require.NoError(t, err)
	result := &dto.OperationDTO{
		ID:        opA.ID,           // unchanged
		Type:      string(opA.Type), // unchanged
		Payload:   opA.Payload,      // unchanged
		CreatedAt: opA.CreatedAt,
		ResultMsgs: []storage.Message{{
			Event: string(dpf.EventDKGCommitConfirmationReceived), Data: commitReq, DkgRoundID: roundA,
		}},
		// ... with three fields altered on the way back
		Event:     types.OperationProcessed,
		DkgID:     roundB,
		ExtraData: []byte("attacker chosen public polynomial"),
	}
	errSubmit := h.node.ProcessOperation(result)

	after, err := h.board.GetMessages(0)
	require.NoError(t, err)
	pool, err := h.ops.GetOperations()
	require.NoError(t, err)
	_, stillPending := pool[opA.ID]
	dumpBAfter, err := h.fsm.GetFSMDump(&dto.DkgIdDTO{DkgID: roundB})
	require.NoError(t, err)

	t.Logf("submit error: %v; posted %d message(s); opA still pending: %v; round B PubPolyBz: %q",
		errSubmit, len(after)-len(before), stillPending, dumpBAfter.Payload.DKGProposalPayload.PubPolyBz)

	// Either the altered result is refused (operation stays pending, nothing changes) or it is
	// accepted and then exactly its messages must be on the board. Neither is the case.
	if errSubmit != nil {
		require.True(t, stillPending)
		require.Equal(t, len(before), len(after))
	} else {
		require.Equal(t, len(before)+len(result.ResultMsgs), len(after),
			"the result was accepted and the operation retired, but its messages never reached the board")
	}
	require.Empty(t, dumpBAfter.Payload.DKGProposalPayload.PubPolyBz,
		"the answer to an operation of round A rewrote the public polynomial of round B")
}
