// Witness for F-C13-2 (property C13, rule C13/R3). Copy to client/services/node/ and run
//   go test ./client/services/node/ -run TestWitnessOperationLostBetweenSaveFSMAndPutOperation
// The round state is persisted (SaveFSM inside processMessage) before the derived operation is stored
// (PutOperation in ProcessMessage). If the node dies or PutOperation fails between the two writes, the round is
// advanced, the operation is lost, and re-reading the same board message cannot recreate it (FSM rejects it).
// The test asserts the property (operation offered after the retry) and therefore FAILS on the current tree.
package node

import (
	"context"
	"crypto/ed25519"
	"encoding/json"
	"errors"
	"os"
	"testing"
	"time"

	"github.com/golang/mock/gomock"
	"github.com/google/uuid"

	"github.com/lidofinance/dc4bc/client/config"
	"github.com/lidofinance/dc4bc/client/modules/keystore"
	"github.com/lidofinance/dc4bc/client/modules/logger"
	"github.com/lidofinance/dc4bc/client/modules/state"
	"github.com/lidofinance/dc4bc/client/services"
	"github.com/lidofinance/dc4bc/client/services/fsmservice"
	"github.com/lidofinance/dc4bc/client/types"
	spf "github.com/lidofinance/dc4bc/fsm/state_machines/signature_proposal_fsm"
	"github.com/lidofinance/dc4bc/fsm/types/requests"
	"github.com/lidofinance/dc4bc/mocks/clientMocks"
	"github.com/lidofinance/dc4bc/mocks/storageMocks"
	"github.com/lidofinance/dc4bc/storage"
)

type crashingOps struct {
	fail bool
	pool map[string]*types.Operation
}

func (o *crashingOps) GetOperations() (map[string]*types.Operation, error) { return o.pool, nil }
func (o *crashingOps) GetOperationByID(id string) (*types.Operation, error) {
	if op, ok := o.pool[id]; ok {
		return op, nil
	}
	return nil, errors.New("not found")
}
func (o *crashingOps) PutOperation(op *types.Operation) error {
	if o.fail {
		return errors.New("simulated crash / write failure after SaveFSM")
	}
	o.pool[op.ID] = op
	return nil
}
func (o *crashingOps) DeleteOperation(op *types.Operation) error { delete(o.pool, op.ID); return nil }

func TestWitnessOperationLostBetweenSaveFSMAndPutOperation(t *testing.T) {
	ctrl := gomock.NewController(t)
	defer ctrl.Finish()
	dir, _ := os.MkdirTemp("", "witness_c13_2_")
	defer os.RemoveAll(dir)
	st, err := state.NewLevelDBState(dir, "topic")
	if err != nil {
		t.Fatal(err)
	}
	user := "user_name"
	ks := clientMocks.NewMockKeyStore(ctrl)
	kp := keystore.NewKeyPair()
	ks.EXPECT().LoadKeys(user, "").AnyTimes().Return(kp, nil)
	stg := storageMocks.NewMockStorage(ctrl)
	ops := &crashingOps{fail: true, pool: map[string]*types.Operation{}}
	sp := services.ServiceProvider{}
	sp.SetLogger(logger.NewLogger(user))
	sp.SetState(st)
	sp.SetKeyStore(ks)
	sp.SetStorage(stg)
	sp.SetFSMService(fsmservice.NewFSMService(st, stg, "topic"))
	sp.SetOperationService(ops)
	n, err := NewNode(context.Background(), &config.Config{Username: user, KafkaStorageConfig: &config.KafkaStorageConfig{Topic: "topic"}}, &sp)
	if err != nil {
		t.Fatal(err)
	}
	sender := keystore.NewKeyPair()
	data, _ := json.Marshal(requests.SignatureProposalParticipantsListRequest{
		Participants: []*requests.SignatureProposalParticipantsEntry{
			{Username: user, PubKey: kp.Pub, DkgPubKey: make([]byte, 128)},
			{Username: "other", PubKey: sender.Pub, DkgPubKey: make([]byte, 128)},
		},
		CreatedAt: time.Now(), SigningThreshold: 2,
	})
	msg := storage.Message{ID: uuid.New().String(), DkgRoundID: "round-identifier", Event: string(spf.EventInitProposal), Data: data, SenderAddr: "other"}
	msg.Signature = ed25519.Sign(sender.Priv, msg.Bytes())

	if err := n.ProcessMessage(msg); err == nil {
		t.Fatal("expected the simulated failure")
	}
	// the node restarts (offset not advanced past the message in a crash; in the error case Poll even skips it) and reads the message again
	ops.fail = false
	_ = n.ProcessMessage(msg)
	if len(ops.pool) != 1 {
		t.Fatalf("the invitation operation was never offered: pool has %d operations although the round was advanced to await-confirmations", len(ops.pool))
	}
}
