// Witness for F-C18-11 (property C18, rule C18/R2 reinit-steps-own-round).
// Copy this file to <repo>/airgapped/demo_reinit_test.go and run:
//
//   go test -count=1 ./airgapped/ -run 'TestDemoRejectedReinit' -v
//
// (no fixed /tmp path is used, every machine lives in t.TempDir())
//
// Property C18: "Input that is rejected leaves all durable state ... unchanged."
//
// A reinit operation (Type "reinit_dkg") carries a list of inner operations. handleReinitDKG feeds every
// inner operation to GetOperationResult *under the inner operation's own DKGIdentifier* and only afterwards
// looks up the keyring of the outer DKGIdentifier. When the two identifiers differ the outer operation is
// refused (ProcessOperation returns "... this error is fatal"), but the inner master-key operation has already
// written - or overwritten - the encrypted BLS keyring of the inner round in LevelDB.
//
//   TestDemoRejectedReinitCreatesKeyring    - the refused operation leaves a brand-new keyring behind
//   TestDemoRejectedReinitOverwritesKeyring - the refused operation replaces the victim's share of an existing,
//                                             finished round by one from a ceremony that a single (former)
//                                             participant simulated on his own
package airgapped

import (
	"bytes"
	"encoding/binary"
	"encoding/json"
	"fmt"
	"testing"
	"time"

	"github.com/corestario/kyber"
	dkgPedersen "github.com/corestario/kyber/share/dkg/pedersen"
	vss "github.com/corestario/kyber/share/vss/pedersen"
	"github.com/corestario/kyber/sign/schnorr"

	client "github.com/lidofinance/dc4bc/client/types"
	"github.com/lidofinance/dc4bc/fsm/state_machines/dkg_proposal_fsm"
	"github.com/lidofinance/dc4bc/fsm/types/requests"
	"github.com/lidofinance/dc4bc/fsm/types/responses"
)

type demoNode struct {
	id   int
	name string
	path string
	m    *Machine
}

func demoMachine(t *testing.T, path string) *Machine {
	am, err := NewMachine(path)
	if err != nil {
		t.Fatal(err)
	}
	am.SetEncryptionKey([]byte("password"))
	if err := am.InitKeys(); err != nil {
		t.Fatal(err)
	}
	am.SetResultFolder(t.TempDir())
	return am
}

func demoNodes(t *testing.T, names ...string) []*demoNode {
	var out []*demoNode
	for i, name := range names {
		path := fmt.Sprintf("%s/db", t.TempDir())
		out = append(out, &demoNode{id: i, name: name, path: path, m: demoMachine(t, path)})
	}
	return out
}

func demoOp(round string, state interface{}, payload interface{}) client.Operation {
	bz, _ := json.Marshal(payload)
	return client.Operation{
		ID:            "0123456789abcdef",
		Type:          client.OperationType(fmt.Sprint(state)),
		Payload:       bz,
		CreatedAt:     time.Now(),
		DKGIdentifier: round,
	}
}

// demoRun runs handler of op on m and insists that it succeeded with the expected event
func demoRun(t *testing.T, m *Machine, op client.Operation, want interface{}) client.Operation {
	res, err := m.GetOperationResult(op)
	if err != nil {
		t.Fatalf("%s: %v", op.Type, err)
	}
	if fmt.Sprint(res.Event) != fmt.Sprint(want) {
		t.Fatalf("%s: event %s: %s", op.Type, res.Event, res.ResultMsgs[len(res.ResultMsgs)-1].Data)
	}
	return res
}

// transcript holds what was "published on the board" during a ceremony
type transcript struct {
	round     string
	thr       int
	nodes     []*demoNode
	commits   map[int][]byte         // participant -> commits
	deals     map[int]map[int][]byte // recipient -> sender -> encrypted deal
	responses map[int][]byte         // participant -> responses
}

func (tr *transcript) opCommits() client.Operation {
	var p responses.DKGProposalPubKeysParticipantResponse
	for _, n := range tr.nodes {
		pk, _ := n.m.GetPubKey().MarshalBinary()
		p = append(p, &responses.DKGProposalPubKeysParticipantEntry{ParticipantId: n.id, Username: n.name, DkgPubKey: pk, Threshold: tr.thr})
	}
	return demoOp(tr.round, dkg_proposal_fsm.StateDkgCommitsAwaitConfirmations, p)
}

func (tr *transcript) opDeals() client.Operation {
	var p responses.DKGProposalCommitParticipantResponse
	for _, n := range tr.nodes {
		p = append(p, &responses.DKGProposalCommitParticipantEntry{ParticipantId: n.id, Username: n.name, DkgCommit: tr.commits[n.id]})
	}
	return demoOp(tr.round, dkg_proposal_fsm.StateDkgDealsAwaitConfirmations, p)
}

func (tr *transcript) opResponses(to int) client.Operation {
	var p responses.DKGProposalDealParticipantResponse
	for _, n := range tr.nodes {
		if deal, ok := tr.deals[to][n.id]; ok {
			p = append(p, &responses.DKGProposalDealParticipantEntry{ParticipantId: n.id, Username: n.name, DkgDeal: deal})
		}
	}
	return demoOp(tr.round, dkg_proposal_fsm.StateDkgResponsesAwaitConfirmations, p)
}

func (tr *transcript) opMasterKey() client.Operation {
	var p responses.DKGProposalResponseParticipantResponse
	for _, n := range tr.nodes {
		p = append(p, &responses.DKGProposalResponseParticipantEntry{ParticipantId: n.id, Username: n.name, DkgResponse: tr.responses[n.id]})
	}
	return demoOp(tr.round, dkg_proposal_fsm.StateDkgMasterKeyAwaitConfirmations, p)
}

func (tr *transcript) stepCommits(t *testing.T, who ...*demoNode) {
	for _, n := range who {
		res := demoRun(t, n.m, tr.opCommits(), dkg_proposal_fsm.EventDKGCommitConfirmationReceived)
		var req requests.DKGProposalCommitConfirmationRequest
		if err := json.Unmarshal(res.ResultMsgs[0].Data, &req); err != nil {
			t.Fatal(err)
		}
		tr.commits[n.id] = req.Commit
	}
}

func (tr *transcript) stepDeals(t *testing.T, who ...*demoNode) {
	for _, n := range who {
		res := demoRun(t, n.m, tr.opDeals(), dkg_proposal_fsm.EventDKGDealConfirmationReceived)
		for _, msg := range res.ResultMsgs {
			var req requests.DKGProposalDealConfirmationRequest
			if err := json.Unmarshal(msg.Data, &req); err != nil {
				t.Fatal(err)
			}
			for _, to := range tr.nodes {
				if to.name == msg.RecipientAddr && to.id != n.id {
					tr.deals[to.id][n.id] = req.Deal
				}
			}
		}
	}
}

func (tr *transcript) stepResponses(t *testing.T, who ...*demoNode) {
	for _, n := range who {
		res := demoRun(t, n.m, tr.opResponses(n.id), dkg_proposal_fsm.EventDKGResponseConfirmationReceived)
		var req requests.DKGProposalResponseConfirmationRequest
		if err := json.Unmarshal(res.ResultMsgs[0].Data, &req); err != nil {
			t.Fatal(err)
		}
		tr.responses[n.id] = req.Response
	}
}

func newTranscript(round string, thr int, nodes []*demoNode) *transcript {
	tr := &transcript{round: round, thr: thr, nodes: nodes, commits: map[int][]byte{}, deals: map[int]map[int][]byte{}, responses: map[int][]byte{}}
	for _, n := range nodes {
		tr.deals[n.id] = map[int][]byte{}
	}
	return tr
}

// genuine ceremony of all nodes; returns the transcript
func demoCeremony(t *testing.T, round string, thr int, nodes []*demoNode) *transcript {
	tr := newTranscript(round, thr, nodes)
	tr.stepCommits(t, nodes...)
	tr.stepDeals(t, nodes...)
	tr.stepResponses(t, nodes...)
	for _, n := range nodes {
		demoRun(t, n.m, tr.opMasterKey(), dkg_proposal_fsm.EventDKGMasterKeyConfirmationReceived)
	}
	return tr
}

func relabel(round string, ops ...client.Operation) []client.Operation {
	var out []client.Operation
	for _, o := range ops {
		o.DKGIdentifier = round
		out = append(out, o)
	}
	return out
}

func reinitOp(round string, inner []client.Operation) client.Operation {
	bz, _ := json.Marshal(inner)
	return client.Operation{
		ID:            "fedcba9876543210",
		Type:          client.OperationType(client.ReinitDKG),
		Payload:       bz,
		CreatedAt:     time.Now(),
		DKGIdentifier: round,
	}
}

func dbSnapshot(t *testing.T, m *Machine) map[string][]byte {
	snap := map[string][]byte{}
	iter := m.db.NewIterator(nil, nil)
	defer iter.Release()
	for iter.Next() {
		snap[string(iter.Key())] = append([]byte{}, iter.Value()...)
	}
	if err := iter.Error(); err != nil {
		t.Fatal(err)
	}
	return snap
}

func diffSnapshots(before, after map[string][]byte) []string {
	var diff []string
	for k, v := range after {
		if old, ok := before[k]; !ok {
			diff = append(diff, "created "+k)
		} else if !bytes.Equal(old, v) {
			diff = append(diff, "changed "+k)
		}
	}
	for k := range before {
		if _, ok := after[k]; !ok {
			diff = append(diff, "deleted "+k)
		}
	}
	return diff
}

// restart closes the machine of n and opens it again: same database, empty memory
func restart(t *testing.T, n *demoNode) {
	if err := n.m.db.Close(); err != nil {
		t.Fatal(err)
	}
	n.m = demoMachine(t, n.path)
}

func processGuarded(t *testing.T, m *Machine, op client.Operation) (path string, err error) {
	defer func() {
		if r := recover(); r != nil {
			t.Fatalf("ProcessOperation panicked: %v", r)
		}
	}()
	return m.ProcessOperation(op, true)
}

func TestDemoRejectedReinitCreatesKeyring(t *testing.T) {
	nodes := demoNodes(t, "alice", "victim", "carol")
	victim := nodes[1]
	tr := demoCeremony(t, "round-A", 2, nodes)

	// the airgapped machine of the victim is switched off and on again
	restart(t, victim)

	// reinit operation of round-B whose inner operations say they belong to round-C
	inner := relabel("round-C", tr.opCommits(), tr.opDeals(), tr.opResponses(victim.id), tr.opMasterKey())
	op := reinitOp("round-B", inner)

	before := dbSnapshot(t, victim.m)
	path, err := processGuarded(t, victim.m, op)
	after := dbSnapshot(t, victim.m)

	if err == nil {
		t.Fatalf("expected the reinit operation to be refused, got result file %s", path)
	}
	t.Logf("the operation was refused: %v", err)

	if diff := diffSnapshots(before, after); len(diff) != 0 {
		t.Fatalf("C18 violated: the refused operation modified the durable state of the airgapped machine: %v", diff)
	}
}

// sessionID of kyber's vss (share/vss/pedersen sessionID): H(dealer || verifiers || commitments || t)
func demoSessionID(suite vss.Suite, dealer kyber.Point, verifiers, commitments []kyber.Point, thr int) []byte {
	h := suite.Hash()
	_, _ = dealer.MarshalTo(h)
	for _, v := range verifiers {
		_, _ = v.MarshalTo(h)
	}
	for _, c := range commitments {
		_, _ = c.MarshalTo(h)
	}
	_ = binary.Write(h, binary.LittleEndian, uint32(thr))
	return h.Sum(nil)
}

func TestDemoRejectedReinitOverwritesKeyring(t *testing.T) {
	// 1. genuine ceremony round-A of alice, victim and mallory; everyone gets a share, round-A is in use.
	nodes := demoNodes(t, "alice", "victim", "mallory")
	victim := nodes[1]
	genuine := demoCeremony(t, "round-A", 2, nodes)

	keyringBefore, err := victim.m.loadBLSKeyring("round-A")
	if err != nil {
		t.Fatal(err)
	}
	masterKeyBefore, _ := keyringBefore.PubPoly.Commit().MarshalBinary()

	// 2. the airgapped machine of the victim is switched off and on again (it keeps DKG instances in memory only)
	restart(t, victim)

	// 3. mallory simulates, all alone, a second ceremony "of round-A" between the victim and two sock puppets.
	//    All he needs from the victim are its public DKG key and its commits, and the victim's commits were
	//    broadcast during the genuine round-A (the dealer polynomial depends on the base seed and threshold only).
	puppets := demoNodes(t, "puppet0", "unused", "puppet2")
	fake := []*demoNode{puppets[0], {id: 1, name: "victim", m: victim.m}, puppets[2]}
	p0, p2 := fake[0], fake[2]
	forged := newTranscript("round-A", 2, fake)
	forged.stepCommits(t, p0, p2)
	forged.commits[1] = genuine.commits[1]
	forged.stepDeals(t, p0, p2)
	// the puppets process each other's deals; the victim's deals are not available (and not needed)
	forged.stepResponses(t, p0, p2)
	// ...and approve the victim's deal, which they have never seen: a response is (sessionID, index, status) signed
	suite := p0.m.baseSuite
	var victimCommits []kyber.Point
	var commitsBz [][]byte
	if err := json.Unmarshal(genuine.commits[1], &commitsBz); err != nil {
		t.Fatal(err)
	}
	for _, bz := range commitsBz {
		p := suite.Point()
		if err := p.UnmarshalBinary(bz); err != nil {
			t.Fatal(err)
		}
		victimCommits = append(victimCommits, p)
	}
	verifiers := []kyber.Point{p0.m.GetPubKey(), victim.m.GetPubKey(), p2.m.GetPubKey()}
	sid := demoSessionID(suite, victim.m.GetPubKey(), verifiers, victimCommits, 2)
	for _, p := range []*demoNode{p0, p2} {
		var resps []*dkgPedersen.Response
		if err := json.Unmarshal(forged.responses[p.id], &resps); err != nil {
			t.Fatal(err)
		}
		r := &vss.Response{SessionID: sid, Index: uint32(p.id), Status: vss.StatusApproval}
		if r.Signature, err = schnorr.Sign(suite, p.m.secKey, r.Hash(suite)); err != nil {
			t.Fatal(err)
		}
		resps = append(resps, &dkgPedersen.Response{Index: 1, Response: r})
		forged.responses[p.id], _ = json.Marshal(resps)
	}
	forged.responses[1] = []byte("[]")

	// 4. the forged transcript travels inside a reinit operation of an unrelated round
	op := reinitOp("round-B", []client.Operation{forged.opCommits(), forged.opDeals(), forged.opResponses(1), forged.opMasterKey()})

	path, err := processGuarded(t, victim.m, op)
	if err == nil {
		t.Fatalf("expected the reinit operation to be refused, got result file %s", path)
	}
	t.Logf("the operation was refused: %v", err)

	keyringAfter, err := victim.m.loadBLSKeyring("round-A")
	if err != nil {
		t.Fatal(err)
	}
	masterKeyAfter, _ := keyringAfter.PubPoly.Commit().MarshalBinary()
	if !bytes.Equal(masterKeyBefore, masterKeyAfter) || !keyringBefore.Share.V.Equal(keyringAfter.Share.V) {
		t.Fatalf("C18 violated: the refused operation replaced the victim's key share of the finished round-A:\n"+
			" master key before %x\n master key after  %x", masterKeyBefore, masterKeyAfter)
	}
}
