// Witness for F-C13-1 (property C13, rule C13/R1). Copy to client/repositories/operation/ and run
//   go test ./client/repositories/operation/ -run TestWitnessRestartKeepsPendingOperations
// On the defective tree constructing the repository again on the same state directory (= node restart)
// empties the operation pool and the tombstone list.
package operation

import (
	"os"
	"testing"

	"github.com/lidofinance/dc4bc/client/modules/state"
	"github.com/lidofinance/dc4bc/client/types"
)

func TestWitnessRestartKeepsPendingOperations(t *testing.T) {
	dir, err := os.MkdirTemp("", "witness_c13_")
	if err != nil {
		t.Fatal(err)
	}
	defer os.RemoveAll(dir)
	st, err := state.NewLevelDBState(dir, "topic")
	if err != nil {
		t.Fatal(err)
	}
	repo, err := NewOperationRepo(st, "topic")
	if err != nil {
		t.Fatal(err)
	}
	pending := types.NewOperation("round-identifier", []byte("payload-1"), "state_dkg_commits_await_confirmations")
	retired := types.NewOperation("round-identifier", []byte("payload-2"), "state_dkg_deals_await_confirmations")
	for _, o := range []*types.Operation{pending, retired} {
		if err := repo.PutOperation(o); err != nil {
			t.Fatal(err)
		}
	}
	if err := repo.DeleteOperation(retired); err != nil {
		t.Fatal(err)
	}
	// "restart": the service provider builds a new repository on the same state
	repo2, err := NewOperationRepo(st, "topic")
	if err != nil {
		t.Fatal(err)
	}
	ops, err := repo2.GetOperations()
	if err != nil {
		t.Fatal(err)
	}
	if _, ok := ops[pending.ID]; !ok {
		t.Fatalf("pending operation lost by restart: pool has %d entries", len(ops))
	}
	if err := repo2.DeleteOperation(retired); err == nil {
		t.Fatalf("tombstone of the retired operation lost by restart: it can be retired (answered) again")
	}
}
