// Witness for F-C12-1 (property C12, rule C12/R3 map iteration; also C04: the long-term key is disclosed).
// Copy this file to the repository directory  airgapped/  (package airgapped) and run:
//
//	export GOFLAGS=-mod=mod GOPROXY=off GOSUMDB=off GOTOOLCHAIN=local
//	go test -count=1 ./airgapped/ -run TestH12ReplayedResponsesReuseSchnorrNonces -v
//
// Property C12: an airgapped machine that is restarted and rebuilt with ReplayOperationsLog carries on
// indistinguishably from one that never stopped (observed at the ResultMsgs of each step).
//
// What the test does (n=4, t=3, only the real Machine API: ProcessOperation, ReplayOperationsLog):
//  1. four machines run commits, deals and responses; participant 0's responses result is what it published;
//  2. participant 0 is closed, reopened from its LevelDB and rebuilt with ReplayOperationsLog (the documented
//     procedure after every restart); the replay rewrites <op>_result.json of the responses step;
//  3. the rewritten result must equal the published one. It does not: dkg.ProcessDeals ranges over a Go map, so the
//     replay answers the deals in another order while the per-round suite (seeded with sha256(round||baseSeed))
//     hands out the SAME Schnorr nonces in the SAME order. The same nonce k (same R) now signs the response for a
//     different dealer;
//  4. from one published response and one replayed response with equal R the test computes the long-term DKG
//     private key  x = (s1-s2)/(h1-h2)  and decrypts a deal that was addressed to participant 0 with it.
//
// The order is random: with 3 foreign deals a replay reproduces the published order with probability 1/6, so the
// test restarts up to 8 times (the property also covers several restarts); it fails at the first divergence.
package airgapped

import (
	"bytes"
	"crypto/sha512"
	"encoding/json"
	"fmt"
	"io/ioutil"
	"os"
	"path/filepath"
	"sort"
	"testing"
	"time"

	"github.com/corestario/kyber"
	"github.com/corestario/kyber/encrypt/ecies"
	bls12381 "github.com/corestario/kyber/pairing/bls12381"
	dkgPedersen "github.com/corestario/kyber/share/dkg/pedersen"
	"github.com/tyler-smith/go-bip39"

	client "github.com/lidofinance/dc4bc/client/types"
	"github.com/lidofinance/dc4bc/fsm/state_machines/dkg_proposal_fsm"
	"github.com/lidofinance/dc4bc/fsm/types/requests"
	"github.com/lidofinance/dc4bc/fsm/types/responses"
)

const d1Round = "h12round-0001"

var d1Time = time.Date(2021, 1, 2, 3, 4, 5, 0, time.UTC)

type d1Node struct {
	t      *testing.T
	name   string
	pid    int
	dbPath string
	resDir string
	pass   []byte
	m      *Machine
}

func d1NewNode(t *testing.T, dir string, i int) *d1Node {
	n := &d1Node{
		t:      t,
		name:   fmt.Sprintf("user%d", i),
		pid:    i,
		dbPath: filepath.Join(dir, fmt.Sprintf("db%d", i)),
		resDir: filepath.Join(dir, fmt.Sprintf("res%d", i)),
		pass:   []byte(fmt.Sprintf("pw%d", i)),
	}
	if err := os.MkdirAll(n.resDir, 0700); err != nil {
		t.Fatal(err)
	}
	mnemonic, err := bip39.NewMnemonic(bytes.Repeat([]byte{byte(i + 1)}, 32))
	if err != nil {
		t.Fatal(err)
	}
	m, err := NewMachine(n.dbPath)
	if err != nil {
		t.Fatal(err)
	}
	m.SetResultFolder(n.resDir)
	m.SetEncryptionKey(n.pass)
	// same as the set_seed command
	if err := m.SetBaseSeed(mnemonic); err != nil {
		t.Fatal(err)
	}
	if err := m.GenerateKeys(); err != nil {
		t.Fatal(err)
	}
	n.m = m
	return n
}

// restartAndReplay does what cmd/airgapped does on start-up plus the replay_operations_log command
func (n *d1Node) restartAndReplay() {
	if err := n.m.db.Close(); err != nil {
		n.t.Fatal(err)
	}
	m, err := NewMachine(n.dbPath)
	if err != nil {
		n.t.Fatal(err)
	}
	m.SetResultFolder(n.resDir)
	m.SetEncryptionKey(n.pass)
	if err := m.InitKeys(); err != nil {
		n.t.Fatal(err)
	}
	n.m = m
	if err := m.ReplayOperationsLog(d1Round); err != nil {
		n.t.Fatalf("replay failed: %v", err)
	}
}

func (n *d1Node) readResult(op client.Operation) client.Operation {
	path := filepath.Join(n.resDir, op.Filename()+"_result.json")
	bz, err := ioutil.ReadFile(path)
	if err != nil {
		n.t.Fatal(err)
	}
	var res client.Operation
	if err := json.Unmarshal(bz, &res); err != nil {
		n.t.Fatalf("result file %s is not valid JSON: %v", path, err)
	}
	return res
}

// process is the read_operation command
func (n *d1Node) process(op client.Operation) client.Operation {
	if _, err := n.m.ProcessOperation(op, true); err != nil {
		n.t.Fatal(err)
	}
	return n.readResult(op)
}

func d1Op(id string, typ string, payload interface{}) client.Operation {
	bz, err := json.Marshal(payload)
	if err != nil {
		panic(err)
	}
	return client.Operation{
		ID:            id,
		Type:          client.OperationType(typ),
		Payload:       bz,
		CreatedAt:     d1Time,
		DKGIdentifier: d1Round,
	}
}

func d1Responses(t *testing.T, res client.Operation) []*dkgPedersen.Response {
	if res.Event != dkg_proposal_fsm.EventDKGResponseConfirmationReceived || len(res.ResultMsgs) != 1 {
		t.Fatalf("responses step failed: %s %+v", res.Event, res.ResultMsgs)
	}
	var req requests.DKGProposalResponseConfirmationRequest
	if err := json.Unmarshal(res.ResultMsgs[0].Data, &req); err != nil {
		t.Fatal(err)
	}
	var rs []*dkgPedersen.Response
	if err := json.Unmarshal(req.Response, &rs); err != nil {
		t.Fatal(err)
	}
	// the order inside the message is irrelevant for the comparison
	sort.Slice(rs, func(i, j int) bool { return rs[i].Index < rs[j].Index })
	return rs
}

// d1SchnorrHash is kyber/sign/schnorr.hash
func d1SchnorrHash(g kyber.Group, public kyber.Point, rBz []byte, msg []byte) kyber.Scalar {
	pubBz, _ := public.MarshalBinary()
	h := sha512.New()
	h.Write(rBz)
	h.Write(pubBz)
	h.Write(msg)
	return g.Scalar().SetBytes(h.Sum(nil))
}

func TestH12ReplayedResponsesReuseSchnorrNonces(t *testing.T) {
	const nCount, threshold = 4, 3
	dir := t.TempDir()
	var nodes []*d1Node
	for i := 0; i < nCount; i++ {
		nodes = append(nodes, d1NewNode(t, dir, i))
	}

	// step 1: commits
	var pubKeys responses.DKGProposalPubKeysParticipantResponse
	for _, n := range nodes {
		pk, err := n.m.GetPubKey().MarshalBinary()
		if err != nil {
			t.Fatal(err)
		}
		pubKeys = append(pubKeys, &responses.DKGProposalPubKeysParticipantEntry{
			ParticipantId: n.pid, Username: n.name, DkgPubKey: pk, Threshold: threshold,
		})
	}
	commitsOp := d1Op("c1111-commits", string(dkg_proposal_fsm.StateDkgCommitsAwaitConfirmations), pubKeys)
	var commits responses.DKGProposalCommitParticipantResponse
	for _, n := range nodes {
		res := n.process(commitsOp)
		var req requests.DKGProposalCommitConfirmationRequest
		if err := json.Unmarshal(res.ResultMsgs[0].Data, &req); err != nil {
			t.Fatal(err)
		}
		commits = append(commits, &responses.DKGProposalCommitParticipantEntry{
			ParticipantId: n.pid, Username: n.name, DkgCommit: req.Commit,
		})
	}

	// step 2: deals
	dealsOp := d1Op("d2222-deals", string(dkg_proposal_fsm.StateDkgDealsAwaitConfirmations), commits)
	var dealsForNode0 responses.DKGProposalDealParticipantResponse
	for _, n := range nodes {
		res := n.process(dealsOp)
		for _, msg := range res.ResultMsgs {
			if msg.RecipientAddr != nodes[0].name {
				continue
			}
			var req requests.DKGProposalDealConfirmationRequest
			if err := json.Unmarshal(msg.Data, &req); err != nil {
				t.Fatal(err)
			}
			dealsForNode0 = append(dealsForNode0, &responses.DKGProposalDealParticipantEntry{
				ParticipantId: n.pid, Username: n.name, DkgDeal: req.Deal,
			})
		}
	}

	// step 3: participant 0 answers the deals; this result is what goes to the bulletin board
	victim := nodes[0]
	responsesOp := d1Op("r3333-responses", string(dkg_proposal_fsm.StateDkgResponsesAwaitConfirmations), dealsForNode0)
	published := d1Responses(t, victim.process(responsesOp))
	publishedBz, _ := json.Marshal(published)

	for restart := 1; restart <= 8; restart++ {
		victim.restartAndReplay()
		replayed := d1Responses(t, victim.readResult(responsesOp))
		replayedBz, _ := json.Marshal(replayed)
		if bytes.Equal(publishedBz, replayedBz) {
			continue
		}

		// The replayed machine is distinguishable. Worse: find a nonce that signed two different messages.
		suite := bls12381.NewBLS12381Suite(nil)
		pointLen := suite.PointLen()
		pub := victim.m.GetPubKey()
		for _, a := range published {
			for _, b := range replayed {
				sa, sb := a.Response.Signature, b.Response.Signature
				if a.Index == b.Index || !bytes.Equal(sa[:pointLen], sb[:pointLen]) {
					continue
				}
				s1, s2 := suite.Scalar(), suite.Scalar()
				if err := s1.UnmarshalBinary(sa[pointLen:]); err != nil {
					t.Fatal(err)
				}
				if err := s2.UnmarshalBinary(sb[pointLen:]); err != nil {
					t.Fatal(err)
				}
				h1 := d1SchnorrHash(suite, pub, sa[:pointLen], a.Response.Hash(suite))
				h2 := d1SchnorrHash(suite, pub, sb[:pointLen], b.Response.Hash(suite))
				// s = k + x*h  =>  x = (s1-s2)/(h1-h2)
				x := suite.Scalar().Div(suite.Scalar().Sub(s1, s2), suite.Scalar().Sub(h1, h2))
				if !suite.Point().Mul(x, nil).Equal(pub) {
					t.Fatalf("restart %d: responses differ after the replay, but the key recovery did not work", restart)
				}
				// with x every deal addressed to participant 0 on the board can be opened
				plain, err := ecies.Decrypt(suite, x, dealsForNode0[1].DkgDeal, suite.Hash)
				if err != nil {
					t.Fatalf("recovered key does not open the deal: %v", err)
				}
				t.Fatalf("restart %d: the replayed machine answered the deals differently from the machine that never stopped:\n"+
					" published: response for dealer %d signed with R=%x\n"+
					" replayed : response for dealer %d signed with the same R\n"+
					"=> long-term DKG private key of %s recovered from the two result files (x*G == its public key: true, equals Machine.secKey: %v);\n"+
					"   a deal addressed to it was decrypted with the recovered key (%d bytes: %.60s...)",
					restart, a.Index, sa[:8], b.Index, victim.name, x.Equal(victim.m.secKey), len(plain), plain)
			}
		}
		t.Fatalf("restart %d: the replayed machine produced other responses than the one that never stopped:\n%s\n%s",
			restart, publishedBz, replayedBz)
	}
}
