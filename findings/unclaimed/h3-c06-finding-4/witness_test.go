package node

import (
	"context"
	"crypto/ed25519"
	"encoding/hex"
	"encoding/json"
	"fmt"
	"path/filepath"
	"sync"
	"testing"
	"time"

	"github.com/corestario/kyber/pairing"
	"github.com/corestario/kyber/pairing/bls12381"
	"github.com/corestario/kyber/share"
	"github.com/corestario/kyber/sign/tbls"
	"github.com/google/uuid"
	"github.com/stretchr/testify/assert"
	"github.com/stretchr/testify/require"

	"github.com/lidofinance/dc4bc/client/api/dto"
	"github.com/lidofinance/dc4bc/client/config"
	"github.com/lidofinance/dc4bc/client/modules/keystore"
	"github.com/lidofinance/dc4bc/client/modules/logger"
	"github.com/lidofinance/dc4bc/client/modules/state"
	oprepo "github.com/lidofinance/dc4bc/client/repositories/operation"
	sigrepo "github.com/lidofinance/dc4bc/client/repositories/signature"
	"github.com/lidofinance/dc4bc/client/services"
	"github.com/lidofinance/dc4bc/client/services/fsmservice"
	"github.com/lidofinance/dc4bc/client/services/operation"
	"github.com/lidofinance/dc4bc/client/services/signature"
	"github.com/lidofinance/dc4bc/dkg"
	"github.com/lidofinance/dc4bc/fsm/fsm"
	dpf "github.com/lidofinance/dc4bc/fsm/state_machines/dkg_proposal_fsm"
	spf "github.com/lidofinance/dc4bc/fsm/state_machines/signature_proposal_fsm"
	sif "github.com/lidofinance/dc4bc/fsm/state_machines/signing_proposal_fsm"
	"github.com/lidofinance/dc4bc/fsm/types/requests"
	"github.com/lidofinance/dc4bc/storage"
)

// --- in-memory board and keystore (the only stubs; everything else is the real code) ---

type c06f4Board struct {
	mu   sync.Mutex
	sent []storage.Message
}

func (b *c06f4Board) Send(messages ...storage.Message) error {
	b.mu.Lock()
	defer b.mu.Unlock()
	b.sent = append(b.sent, messages...)
	return nil
}
func (b *c06f4Board) GetMessages(offset uint64) ([]storage.Message, error) { return nil, nil }
func (b *c06f4Board) Close() error                                         { return nil }
func (b *c06f4Board) IgnoreMessages(messages []string, useOffset bool) error {
	return nil
}
func (b *c06f4Board) UnignoreMessages() {}

func (b *c06f4Board) countEvent(event fsm.Event) int {
	b.mu.Lock()
	defer b.mu.Unlock()
	c := 0
	for _, m := range b.sent {
		if m.Event == string(event) {
			c++
		}
	}
	return c
}

type c06f4KeyStore struct{ kp *keystore.KeyPair }

func (k *c06f4KeyStore) PutKeys(username string, keyPair *keystore.KeyPair) error { return nil }
func (k *c06f4KeyStore) LoadKeys(userName, password string) (*keystore.KeyPair, error) {
	return k.kp, nil
}

// --- a node (participant 0) of an n-participant round, brought to stage_signing_idle through real board messages ---

type c06f4Env struct {
	t        *testing.T
	n, thr   int
	dkgID    string
	node     *BaseNodeService
	fsmSvc   fsmservice.FSMService
	board    *c06f4Board
	names    []string
	keys     []*keystore.KeyPair
	suite    pairing.Suite
	priShare []*share.PriShare
	offset   uint64
}

func newC06f4Env(t *testing.T, n, thr int) *c06f4Env {
	req := require.New(t)
	e := &c06f4Env{t: t, n: n, thr: thr, dkgID: hex.EncodeToString([]byte("c06-round")), board: &c06f4Board{}}
	e.suite = bls12381.NewBLS12381Suite(nil).(pairing.Suite)

	for i := 0; i < n; i++ {
		e.names = append(e.names, fmt.Sprintf("node_%d", i))
		e.keys = append(e.keys, keystore.NewKeyPair())
	}

	st, err := state.NewLevelDBState(filepath.Join(t.TempDir(), "state"), "topic")
	req.NoError(err)
	opRepo, err := oprepo.NewOperationRepo(st, "topic")
	req.NoError(err)

	e.fsmSvc = fsmservice.NewFSMService(st, e.board, "topic")
	sp := services.ServiceProvider{}
	sp.SetLogger(logger.NewLogger(e.names[0]))
	sp.SetState(st)
	sp.SetKeyStore(&c06f4KeyStore{kp: e.keys[0]})
	sp.SetStorage(e.board)
	sp.SetFSMService(e.fsmSvc)
	sp.SetOperationService(operation.NewOperationService(opRepo))
	sp.SetSignatureService(signature.NewSignatureService(sigrepo.NewSignatureRepo(st)))

	nd, err := NewNode(context.Background(), &config.Config{Username: e.names[0]}, &sp)
	req.NoError(err)
	e.node = nd.(*BaseNodeService)

	// the threshold key of the round: a real (thr, n) sharing, its public polynomial is what the round retains
	priPoly := share.NewPriPoly(e.suite.G1(), thr, nil, e.suite.RandomStream())
	e.priShare = priPoly.Shares(n)
	keyring := &dkg.BLSKeyring{PubPoly: priPoly.Commit(e.suite.G1().Point().Base())}
	pubPolyBz, err := keyring.PubPolyBytes()
	req.NoError(err)

	// signature proposal
	var entries []*requests.SignatureProposalParticipantsEntry
	for i := 0; i < n; i++ {
		entries = append(entries, &requests.SignatureProposalParticipantsEntry{
			Username:  e.names[i],
			PubKey:    e.keys[i].Pub,
			DkgPubKey: make([]byte, 128),
		})
	}
	req.NoError(e.post(0, spf.EventInitProposal, requests.SignatureProposalParticipantsListRequest{
		Participants: entries, SigningThreshold: thr, CreatedAt: time.Now(),
	}))
	for i := 0; i < n; i++ {
		req.NoError(e.post(i, spf.EventConfirmSignatureProposal, requests.SignatureProposalParticipantRequest{
			ParticipantId: i, CreatedAt: time.Now(),
		}))
	}
	// key generation (the round FSM does not look inside these payloads)
	for i := 0; i < n; i++ {
		req.NoError(e.post(i, dpf.EventDKGCommitConfirmationReceived, requests.DKGProposalCommitConfirmationRequest{
			ParticipantId: i, Commit: []byte("commit"), CreatedAt: time.Now(),
		}))
	}
	for i := 0; i < n; i++ {
		req.NoError(e.post(i, dpf.EventDKGDealConfirmationReceived, requests.DKGProposalDealConfirmationRequest{
			ParticipantId: i, Deal: []byte("deal"), CreatedAt: time.Now(),
		}))
	}
	for i := 0; i < n; i++ {
		req.NoError(e.post(i, dpf.EventDKGResponseConfirmationReceived, requests.DKGProposalResponseConfirmationRequest{
			ParticipantId: i, Response: []byte("response"), CreatedAt: time.Now(),
		}))
	}
	for i := 0; i < n; i++ {
		req.NoError(e.post(i, dpf.EventDKGMasterKeyConfirmationReceived, requests.DKGProposalMasterKeyConfirmationRequest{
			ParticipantId: i, MasterKey: []byte("master-key"), PubPolyBz: pubPolyBz, CreatedAt: time.Now(),
		}))
	}
	req.Equal(sif.StateSigningIdle, e.state(), "setup: the round must be in the signing idle state")
	return e
}

// post delivers one board message, signed by participant `sender`, to the node (what the poller does per message)
func (e *c06f4Env) post(sender int, event fsm.Event, request interface{}) error {
	data, err := json.Marshal(request)
	require.NoError(e.t, err)
	e.offset++
	m := storage.Message{
		ID:         uuid.New().String(),
		DkgRoundID: e.dkgID,
		Offset:     e.offset,
		Event:      string(event),
		Data:       data,
		SenderAddr: e.names[sender],
	}
	m.Signature = ed25519.Sign(e.keys[sender].Priv, m.Bytes())
	return e.node.ProcessMessage(m)
}

func (e *c06f4Env) state() fsm.State {
	inst, err := e.fsmSvc.GetFSMInstance(e.dkgID, false)
	require.NoError(e.t, err)
	s, err := inst.State()
	require.NoError(e.t, err)
	return s
}

func (e *c06f4Env) propose(sender int, batchID string, msgs map[string][]byte) error {
	var tasks []requests.SigningTask
	for _, id := range c06f4SortedKeys(msgs) {
		tasks = append(tasks, requests.SigningTask{MessageID: id, File: id, Payload: msgs[id]})
	}
	return e.post(sender, sif.EventSigningStart, requests.SigningBatchProposalStartRequest{
		BatchID: batchID, ParticipantId: sender, CreatedAt: time.Now(), SigningTasks: tasks,
	})
}

// honestPartials is what the airgapped machine of participant `who` answers to the batch
func (e *c06f4Env) honestPartials(who int, batchID string, msgs map[string][]byte) requests.SigningProposalBatchPartialSignRequests {
	var signs []requests.PartialSign
	for _, id := range c06f4SortedKeys(msgs) {
		s, err := tbls.Sign(e.suite, e.priShare[who], msgs[id])
		require.NoError(e.t, err)
		signs = append(signs, requests.PartialSign{MessageID: id, Sign: s})
	}
	return requests.SigningProposalBatchPartialSignRequests{
		BatchID: batchID, ParticipantId: who, PartialSigns: signs, CreatedAt: time.Now(),
	}
}

// proposeViaAPI is the operator of this node proposing the next batch through the node's API (POST /proposeSignBatchMessages)
func (e *c06f4Env) proposeViaAPI(msgs map[string][]byte) error {
	dkgID, err := hex.DecodeString(e.dkgID)
	require.NoError(e.t, err)
	return e.node.ProposeSignMessages(&dto.ProposeSignBatchMessagesDTO{DkgID: dkgID, Data: msgs})
}

func (e *c06f4Env) reportError(who int, text string) error {
	return e.post(who, sif.EventSigningPartialSignError, requests.SignatureProposalConfirmationErrorRequest{
		ParticipantId: who, Error: requests.NewFSMError(fmt.Errorf("%s", text)), CreatedAt: time.Now(),
	})
}

func c06f4SortedKeys(m map[string][]byte) []string {
	var ks []string
	for k := range m {
		ks = append(ks, k)
	}
	for i := range ks {
		for j := i + 1; j < len(ks); j++ {
			if ks[j] < ks[i] {
				ks[i], ks[j] = ks[j], ks[i]
			}
		}
	}
	return ks
}

// sanity of the harness: an all-honest batch is reconstructed at exactly t contributions and the round returns to idle
func TestC06F4_Control_HonestBatch(t *testing.T) {
	e := newC06f4Env(t, 3, 2)
	msgs := map[string][]byte{"msgA": []byte("payload A"), "msgB": []byte("payload B")}
	require.NoError(t, e.propose(0, "batch-1", msgs))
	require.Equal(t, sif.StateSigningAwaitPartialSigns, e.state())
	require.NoError(t, e.post(1, sif.EventSigningPartialSignReceived, e.honestPartials(1, "batch-1", msgs)))
	require.Equal(t, sif.StateSigningAwaitPartialSigns, e.state())
	require.Equal(t, 0, e.board.countEvent("signature_reconstructed"))
	require.NoError(t, e.post(2, sif.EventSigningPartialSignReceived, e.honestPartials(2, "batch-1", msgs)))
	require.Equal(t, sif.StateSigningIdle, e.state())
	require.Equal(t, 1, e.board.countEvent("signature_reconstructed"))
	// and the next proposal is accepted, through the API and from the board
	assert.NoError(t, e.proposeViaAPI(msgs))
	assert.NoError(t, e.propose(1, "batch-2", msgs))
	assert.Equal(t, sif.StateSigningAwaitPartialSigns, e.state())
}

// FINDING 4 (C06): when more than n-t participants report failure the batch is cancelled, but the round does not return to idle:
// it stays in state_signing_partial_signs_await_cancelled_by_error until some further board message for the round
// happens to arrive, and until then the API refuses to propose the next batch (on every node).
func TestC06F4_CancelledBatchDoesNotReturnToIdle(t *testing.T) {
	e := newC06f4Env(t, 3, 2)
	msgs := map[string][]byte{"msgA": []byte("payload A")}

	require.NoError(t, e.propose(0, "batch-1", msgs))
	require.NoError(t, e.post(0, sif.EventSigningPartialSignReceived, e.honestPartials(0, "batch-1", msgs)))
	require.NoError(t, e.reportError(1, "airgapped failure"))
	require.NoError(t, e.reportError(2, "airgapped failure")) // n-t+1 = 2 failures: cancelled
	// every participant has answered, nothing more will be posted for this batch

	assert.Equal(t, sif.StateSigningIdle, e.state(), "after the cancellation the round must be back in idle")
	assert.NoError(t, e.proposeViaAPI(msgs), "the next proposal must be accepted")
}
