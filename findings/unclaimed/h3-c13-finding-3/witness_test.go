package node

// Witness for property C13: a hot node that dies while it handles a reinit message (reinit_dkg) and is restarted on the
// same state directory never finishes the reinitialisation: the re-delivered reinit message is skipped because the round
// "already exists".
//
// The old board log is produced by three real hot nodes with real airgapped machines running the real Poll loop. The
// reinitialised node is a real node on a fresh state directory with a new communication key; only its state handle is
// wrapped, and the wrapper only decides where the process dies.

import (
	"context"
	"crypto/ed25519"
	"encoding/json"
	"fmt"
	"path/filepath"
	"reflect"
	"sort"
	"strings"
	"testing"
	"time"
	"unsafe"

	"github.com/google/uuid"
	"github.com/syndtr/goleveldb/leveldb"

	"github.com/lidofinance/dc4bc/airgapped"
	"github.com/lidofinance/dc4bc/client/api/dto"
	"github.com/lidofinance/dc4bc/client/config"
	"github.com/lidofinance/dc4bc/client/modules/keystore"
	"github.com/lidofinance/dc4bc/client/modules/state"
	oprepo "github.com/lidofinance/dc4bc/client/repositories/operation"
	sigrepo "github.com/lidofinance/dc4bc/client/repositories/signature"
	"github.com/lidofinance/dc4bc/client/services"
	"github.com/lidofinance/dc4bc/client/services/fsmservice"
	"github.com/lidofinance/dc4bc/client/services/operation"
	"github.com/lidofinance/dc4bc/client/services/signature"
	"github.com/lidofinance/dc4bc/client/types"
	"github.com/lidofinance/dc4bc/fsm/fsm"
	spf "github.com/lidofinance/dc4bc/fsm/state_machines/signature_proposal_fsm"
	sif "github.com/lidofinance/dc4bc/fsm/state_machines/signing_proposal_fsm"
	"github.com/lidofinance/dc4bc/fsm/types/requests"
	"github.com/lidofinance/dc4bc/storage"
	"github.com/lidofinance/dc4bc/storage/file_storage"
)

const c13rTopic = "topic"

type c13rDied struct{}

var errC13rDied = fmt.Errorf("the process died")

type c13rQuietLogger struct{ lines []string }

func (l *c13rQuietLogger) Log(format string, args ...interface{}) {
	l.lines = append(l.lines, fmt.Sprintf(format, args...))
}

// c13rState is the victim's handle of its state database; die, when set, is asked before every write whether the
// process is dead now.
type c13rState struct {
	state.State
	die func(key string) bool
}

func (s *c13rState) Set(key string, value []byte) error {
	if s.die != nil && s.die(key) {
		panic(c13rDied{})
	}
	return s.State.Set(key, value)
}

type c13rNode struct {
	dieOnWrite func(key string) bool
	name     string
	stateDir string
	board    string
	lock     string
	ldb      *state.LevelDBState
	ks       keystore.KeyStore
	kp       *keystore.KeyPair
	air      *airgapped.Machine
	stg      storage.Storage
	node     *BaseNodeService
	ops      operation.OperationService
	fsm      fsmservice.FSMService
	logger   *c13rQuietLogger
	results  map[string]types.Operation // the operator keeps the answers of the airgapped machine
	down     bool
}

// start is what `dc4bc_d start` does on a state directory: state, repositories, services, node
func (n *c13rNode) start() error {
	ldb, err := state.NewLevelDBState(n.stateDir, c13rTopic)
	if err != nil {
		return err
	}
	n.ldb = ldb
	var st state.State = ldb
	if n.dieOnWrite != nil {
		st = &c13rState{State: ldb, die: n.dieOnWrite}
	}
	fs, err := file_storage.NewFileStorage(n.board, n.lock)
	if err != nil {
		return err
	}
	n.stg = fs

	opRepo, err := oprepo.NewOperationRepo(st, c13rTopic)
	if err != nil {
		return err
	}
	n.ops = operation.NewOperationService(opRepo)
	n.fsm = fsmservice.NewFSMService(st, n.stg, c13rTopic)

	sp := services.ServiceProvider{}
	sp.SetLogger(n.logger)
	sp.SetState(st)
	sp.SetKeyStore(n.ks)
	sp.SetStorage(n.stg)
	sp.SetFSMService(n.fsm)
	sp.SetOperationService(n.ops)
	sp.SetSignatureService(signature.NewSignatureService(sigrepo.NewSignatureRepo(st)))

	cfg := config.Config{Username: n.name, KafkaStorageConfig: &config.KafkaStorageConfig{Topic: c13rTopic}}
	svc, err := NewNode(context.Background(), &cfg, &sp)
	if err != nil {
		return err
	}
	n.node = svc.(*BaseNodeService)
	n.down = false
	return nil
}

// kill releases what the operating system takes back from a dead process: the lock of the state database and the
// board handle. Nothing is flushed or written.
func (n *c13rNode) kill() error {
	n.down = true
	_ = n.stg.Close()
	f := reflect.ValueOf(n.ldb).Elem().FieldByName("stateDb")
	db := *(**leveldb.DB)(unsafe.Pointer(f.UnsafeAddr()))
	return db.Close()
}

func (n *c13rNode) fsmState(dkgID string) string {
	inst, err := n.fsm.GetFSMInstance(dkgID, false)
	if err != nil {
		return "no round"
	}
	st, _ := inst.State()
	return string(st)
}

type c13rCluster struct {
	t     *testing.T
	dir   string
	nodes []*c13rNode
	dkgID string
}

var c13rMnemonics = []string{
	"old hawk occur merry sun valve reunion crime gallery purse mule shove ramp federal achieve ahead slam thought arrow can visual body response feed",
	"gold echo rookie frequent film mistake cart return teach off describe bright copper crucial brush present airport clutch slight theory rigid rib rich street",
	"fence body struggle huge neutral couple inherit almost battle demand unlock sport lawn raise slim robot water case economy orange fit spawn danger inside",
}

func c13rNewCluster(t *testing.T, n int) *c13rCluster {
	dir := t.TempDir()
	c := &c13rCluster{t: t, dir: dir}
	for i := 0; i < n; i++ {
		name := fmt.Sprintf("node_%d", i)
		nd := &c13rNode{
			name:     name,
			stateDir: filepath.Join(dir, name+"_state"),
			board:    filepath.Join(dir, "board"),
			lock:     filepath.Join(dir, "board.lock"),
			logger:   &c13rQuietLogger{},
			results:  map[string]types.Operation{},
		}
		ks, err := keystore.NewLevelDBKeyStore(name, filepath.Join(dir, name+"_keys"))
		if err != nil {
			t.Fatal(err)
		}
		nd.ks = ks
		nd.kp = keystore.NewKeyPair()
		if err := ks.PutKeys(name, nd.kp); err != nil {
			t.Fatal(err)
		}
		air, err := airgapped.NewMachine(filepath.Join(dir, name+"_airgapped"))
		if err != nil {
			t.Fatal(err)
		}
		air.SetEncryptionKey([]byte("very_strong_password"))
		if err := air.SetBaseSeed(c13rMnemonics[i]); err != nil {
			t.Fatal(err)
		}
		if err := air.InitKeys(); err != nil {
			t.Fatal(err)
		}
		nd.air = air
		if err := nd.start(); err != nil {
			t.Fatal(err)
		}
		c.nodes = append(c.nodes, nd)
	}
	return c
}

func (c *c13rCluster) stop() {
	for _, n := range c.nodes {
		if !n.down {
			_ = n.kill()
		}
	}
}

func (c *c13rCluster) boardLen() uint64 {
	fs, err := file_storage.NewFileStorage(filepath.Join(c.dir, "board"), filepath.Join(c.dir, "board.lock"))
	if err != nil {
		c.t.Fatal(err)
	}
	defer fs.Close()
	msgs, err := fs.GetMessages(0)
	if err != nil {
		c.t.Fatal(err)
	}
	return uint64(len(msgs))
}

// poll runs the real Poll loop of every running node until each of them has consumed the whole board
func (c *c13rCluster) poll() {
	type run struct {
		n      *c13rNode
		cancel context.CancelFunc
		done   chan error
	}
	var runs []run
	for _, n := range c.nodes {
		if n.down {
			continue
		}
		ctx, cancel := context.WithCancel(context.Background())
		n.node.ctx = ctx
		r := run{n: n, cancel: cancel, done: make(chan error, 1)}
		go func(r run) {
			defer func() {
				if p := recover(); p != nil {
					if _, ok := p.(c13rDied); !ok {
						panic(p)
					}
					r.done <- errC13rDied
				}
			}()
			r.done <- r.n.node.Poll()
		}(r)
		runs = append(runs, r)
	}
	deadline := time.Now().Add(60 * time.Second)
	stable := 0
	for stable < 2 {
		if time.Now().After(deadline) {
			c.t.Fatalf("the nodes did not consume the board in time")
		}
		time.Sleep(100 * time.Millisecond)
		want := c.boardLen()
		all := true
		for i := 0; i < len(runs); i++ {
			r := runs[i]
			select {
			case err := <-r.done:
				if err != errC13rDied {
					c.t.Fatalf("Poll of %s ended: %v", r.n.name, err)
				}
				if kerr := r.n.kill(); kerr != nil {
					c.t.Fatalf("kill: %v", kerr)
				}
				runs = append(runs[:i], runs[i+1:]...)
				i--
				continue
			default:
			}
			off, err := r.n.node.GetStateOffset()
			if err != nil {
				c.t.Fatal(err)
			}
			if off != want {
				all = false
			}
		}
		if all {
			stable++
		} else {
			stable = 0
		}
	}
	for _, r := range runs {
		r.cancel()
		if err := <-r.done; err != nil {
			c.t.Fatalf("Poll of %s failed: %v", r.n.name, err)
		}
	}
}

// operate is the operator of node n: every offered operation is carried to the airgapped machine (once, the answer is
// kept) and the answer is given back to the node. It returns the number of operations handled and whether the node died.
func (c *c13rCluster) operate(n *c13rNode) (handled int, died bool) {
	defer func() {
		if r := recover(); r != nil {
			if _, ok := r.(c13rDied); !ok {
				panic(r)
			}
			died = true
			if err := n.kill(); err != nil {
				c.t.Fatalf("kill: %v", err)
			}
		}
	}()
	ops, err := n.ops.GetOperations()
	if err != nil {
		c.t.Fatal(err)
	}
	ids := make([]string, 0, len(ops))
	for id := range ops {
		ids = append(ids, id)
	}
	sort.Strings(ids)
	for _, id := range ids {
		op := ops[id]
		handled++
		if fsm.State(op.Type) == spf.StateAwaitParticipantsConfirmations {
			if err := n.node.ApproveParticipation(&dto.OperationIdDTO{OperationID: id}); err != nil {
				c.t.Fatalf("%s: ApproveParticipation: %v", n.name, err)
			}
			continue
		}
		res, ok := n.results[id]
		if !ok {
			res, err = n.air.GetOperationResult(*op)
			if err != nil {
				c.t.Fatalf("%s: airgapped: %v", n.name, err)
			}
			n.results[id] = res
		}
		bz, _ := json.Marshal(res)
		var cp types.Operation
		_ = json.Unmarshal(bz, &cp)
		if err := n.node.ProcessOperation(&dto.OperationDTO{
			ID: cp.ID, Type: string(cp.Type), Payload: cp.Payload, ResultMsgs: cp.ResultMsgs, CreatedAt: cp.CreatedAt,
			DkgID: cp.DKGIdentifier, To: cp.To, Event: cp.Event, ExtraData: cp.ExtraData,
		}); err != nil {
			c.t.Fatalf("%s: ProcessOperation(%s): %v", n.name, cp.Type, err)
		}
	}
	return handled, false
}

// drive lets the running nodes and their operators work until nothing is left to do
func (c *c13rCluster) drive() {
	for round := 0; round < 40; round++ {
		c.poll()
		handled := 0
		for _, n := range c.nodes {
			if n.down {
				continue
			}
			k, _ := c.operate(n)
			handled += k
		}
		if handled == 0 {
			return
		}
	}
	c.t.Fatalf("the ceremony did not come to rest")
}

func (c *c13rCluster) startDKG(threshold int) {
	var participants []*requests.SignatureProposalParticipantsEntry
	for _, n := range c.nodes {
		pk, err := n.air.GetPubKey().MarshalBinary()
		if err != nil {
			c.t.Fatal(err)
		}
		participants = append(participants, &requests.SignatureProposalParticipantsEntry{Username: n.name, PubKey: n.kp.Pub, DkgPubKey: pk})
	}
	bz, err := json.Marshal(requests.SignatureProposalParticipantsListRequest{Participants: participants, SigningThreshold: threshold, CreatedAt: time.Now()})
	if err != nil {
		c.t.Fatal(err)
	}
	if err := c.nodes[0].node.StartDKG(&dto.StartDkgDTO{Payload: bz}); err != nil {
		c.t.Fatal(err)
	}
	msgs, err := c.nodes[0].stg.GetMessages(0)
	if err != nil || len(msgs) != 1 {
		c.t.Fatalf("board after StartDKG: %v %v", msgs, err)
	}
	c.dkgID = msgs[0].DkgRoundID
}

func (c *c13rCluster) states() string {
	var out []string
	for _, n := range c.nodes {
		if n.down {
			out = append(out, n.name+": down")
			continue
		}
		ops, _ := n.ops.GetOperations()
		out = append(out, fmt.Sprintf("%s: %s, %d operation(s) offered", n.name, n.fsmState(c.dkgID), len(ops)))
	}
	return strings.Join(out, "; ")
}

func (c *c13rCluster) allIdle() bool {
	for _, n := range c.nodes {
		if n.fsmState(c.dkgID) != string(sif.StateSigningIdle) {
			return false
		}
	}
	return true
}


// c13rOldCeremony runs a complete key generation of three nodes and returns the board log and the round id
func c13rOldCeremony(t *testing.T) ([]storage.Message, string) {
	c := c13rNewCluster(t, 3)
	defer c.stop()
	c.startDKG(2)
	c.drive()
	if !c.allIdle() {
		t.Fatalf("setup: the original key generation did not finish: %s", c.states())
	}
	msgs, err := c.nodes[0].stg.GetMessages(0)
	if err != nil {
		t.Fatal(err)
	}
	return msgs, c.dkgID
}

type c13rReinit struct {
	t       *testing.T
	c       *c13rCluster
	victim  *c13rNode
	dkgID   string
	newKeys map[string]*keystore.KeyPair
	armed   bool
}

// c13rPrepare sets up the reinitialised node_0 (fresh state directory, new communication key) on a new board and posts
// the reinit message made of the old log and the new communication keys of all participants
func c13rPrepare(t *testing.T, dieOnWrite func(r *c13rReinit, key string) bool) *c13rReinit {
	oldMessages, dkgID := c13rOldCeremony(t)

	dir := t.TempDir()
	r := &c13rReinit{t: t, dkgID: dkgID, newKeys: map[string]*keystore.KeyPair{}}
	victim := &c13rNode{
		name:     "node_0",
		stateDir: filepath.Join(dir, "node_0_state"),
		board:    filepath.Join(dir, "board"),
		lock:     filepath.Join(dir, "board.lock"),
		logger:   &c13rQuietLogger{},
		results:  map[string]types.Operation{},
	}
	if dieOnWrite != nil {
		victim.dieOnWrite = func(key string) bool { return r.armed && dieOnWrite(r, key) }
	}
	ks, err := keystore.NewLevelDBKeyStore(victim.name, filepath.Join(dir, "node_0_keys"))
	if err != nil {
		t.Fatal(err)
	}
	victim.ks = ks
	victim.kp = keystore.NewKeyPair()
	if err := ks.PutKeys(victim.name, victim.kp); err != nil {
		t.Fatal(err)
	}
	if err := victim.start(); err != nil {
		t.Fatal(err)
	}
	r.victim = victim
	r.c = &c13rCluster{t: t, dir: dir, nodes: []*c13rNode{victim}, dkgID: dkgID}

	pubs := map[string][]byte{}
	for _, name := range []string{"node_0", "node_1", "node_2"} {
		kp := keystore.NewKeyPair()
		if name == victim.name {
			kp = victim.kp
		}
		r.newKeys[name] = kp
		pubs[name] = kp.Pub
	}
	reDKG, err := types.GenerateReDKGMessage(oldMessages, pubs)
	if err != nil {
		t.Fatal(err)
	}
	reDKGBz, err := json.Marshal(reDKG)
	if err != nil {
		t.Fatal(err)
	}
	if err := victim.node.ReInitDKG(&dto.ReInitDKGDTO{ID: dkgID, Payload: reDKGBz}); err != nil {
		t.Fatal(err)
	}
	return r
}

// c13rCheck states what a node that has handled the reinit message must look like, and returns the deviations
func (r *c13rReinit) check() []string {
	var bad []string
	n := r.victim

	if off, _ := n.node.GetStateOffset(); off != 1 {
		bad = append(bad, fmt.Sprintf("saved offset is %d, expected 1", off))
	}
	if st := n.fsmState(r.dkgID); st != string(sif.StateSigningIdle) {
		bad = append(bad, fmt.Sprintf("the round is in state %q, expected %q (the whole old log replayed)", st, sif.StateSigningIdle))
	}
	ops, err := n.ops.GetOperations()
	if err != nil {
		r.t.Fatal(err)
	}
	reinitOps := 0
	for _, op := range ops {
		if fsm.State(op.Type) == types.ReinitDKG {
			reinitOps++
		}
	}
	if reinitOps != 1 {
		bad = append(bad, fmt.Sprintf("%d reinit_dkg operation(s) offered for the airgapped machine, expected 1", reinitOps))
	}
	inst, err := n.fsm.GetFSMInstance(r.dkgID, false)
	if err != nil {
		return append(bad, fmt.Sprintf("no round: %v", err))
	}
	for name, kp := range r.newKeys {
		pub, err := inst.GetPubKeyByUsername(name)
		if err != nil || !kp.Pub.Equal(pub) {
			bad = append(bad, fmt.Sprintf("the round does not hold the new communication key of %s", name))
		}
	}
	if n.fsmState(r.dkgID) != string(sif.StateSigningIdle) {
		return bad
	}

	// node_1 (reinitialised as well) proposes a message to sign, signed with its new communication key
	pid, err := inst.GetIDByUsername("node_1")
	if err != nil {
		r.t.Fatal(err)
	}
	data, err := json.Marshal(requests.SigningBatchProposalStartRequest{
		BatchID:       uuid.New().String(),
		ParticipantId: pid,
		CreatedAt:     time.Now(),
		SigningTasks:  []requests.SigningTask{{MessageID: "message_1", File: "file_1", Payload: []byte("message to sign")}},
	})
	if err != nil {
		r.t.Fatal(err)
	}
	msg := storage.Message{ID: uuid.New().String(), DkgRoundID: r.dkgID, Event: string(sif.EventSigningStart), Data: data, SenderAddr: "node_1"}
	msg.Signature = ed25519.Sign(r.newKeys["node_1"].Priv, msg.Bytes())
	if err := n.stg.Send(msg); err != nil {
		r.t.Fatal(err)
	}
	r.c.poll()
	ops, err = n.ops.GetOperations()
	if err != nil {
		r.t.Fatal(err)
	}
	signOps := 0
	for _, op := range ops {
		if fsm.State(op.Type) == sif.StateSigningAwaitPartialSigns {
			signOps++
		}
	}
	if signOps != 1 {
		why := ""
		for _, l := range n.logger.lines {
			if strings.HasPrefix(l, "Failed to process message with offset 1:") {
				if i := strings.LastIndex(l, "}: "); i > 0 {
					why = " (" + l[i+3:] + ")"
				}
			}
		}
		bad = append(bad, fmt.Sprintf("a signing proposal signed with node_1's new key produced %d partial-signature operation(s), expected 1%s", signOps, why))
	}
	return bad
}

// run lets the node handle the board; if it dies on the way it is restarted on the same state directory and handles
// the board again
func (r *c13rReinit) run() (died bool) {
	r.armed = true
	r.c.poll()
	r.armed = false
	if r.victim.down {
		died = true
		if err := r.victim.start(); err != nil {
			r.t.Fatalf("restart: %v", err)
		}
		r.c.poll()
	}
	return died
}

// Control: without a crash the reinit message leaves the node in the expected condition.
func TestC13ReinitControlNoCrash(t *testing.T) {
	r := c13rPrepare(t, nil)
	defer r.c.stop()
	if r.run() {
		t.Fatal("control run: the node died")
	}
	if bad := r.check(); len(bad) > 0 {
		t.Fatalf("control run: %s", strings.Join(bad, "; "))
	}
}

// Witness 1: the node dies while it replays the old log (the first replayed message has been saved, the second has not).
func TestC13NodeDiesWhileReplayingTheReinitLog(t *testing.T) {
	roundWrites := 0
	r := c13rPrepare(t, func(r *c13rReinit, key string) bool {
		if strings.HasSuffix(key, fsmservice.FSMStateKey) {
			roundWrites++
		}
		return roundWrites == 2
	})
	defer r.c.stop()
	if !r.run() {
		t.Fatal("setup: the node did not die")
	}
	if bad := r.check(); len(bad) > 0 {
		t.Fatalf("C13 violated: the node died between the first and the second round write of the reinit message (its offset was still 0) "+
			"and was restarted on the same state directory; the reinit message was delivered again, yet: %s", strings.Join(bad, "; "))
	}
}

// Witness 2: the node dies after it has stored the reinit operation and before it has stored the new communication keys.
func TestC13NodeDiesBeforeSavingTheNewCommunicationKeys(t *testing.T) {
	operationStored := false
	r := c13rPrepare(t, func(r *c13rReinit, key string) bool {
		if strings.HasSuffix(key, "_"+oprepo.OperationsKey) && !strings.HasSuffix(key, oprepo.DeletedOperationsKey) {
			operationStored = true
			return false
		}
		return operationStored && strings.HasSuffix(key, fsmservice.FSMStateKey)
	})
	defer r.c.stop()
	if !r.run() {
		t.Fatal("setup: the node did not die")
	}
	if bad := r.check(); len(bad) > 0 {
		t.Fatalf("C13 violated: the node died right after storing the reinit operation (its offset was still 0) and was restarted on "+
			"the same state directory; the reinit message was delivered again, yet: %s", strings.Join(bad, "; "))
	}
}
