package node

import (
	"context"
	"crypto/ed25519"
	"crypto/sha256"
	"encoding/hex"
	"encoding/json"
	"fmt"
	"path/filepath"
	"sort"
	"testing"
	"time"

	prysmBLS "github.com/prysmaticlabs/prysm/v3/crypto/bls"

	"bytes"
	"github.com/lidofinance/dc4bc/airgapped"
	"github.com/lidofinance/dc4bc/client/api/dto"
	"github.com/lidofinance/dc4bc/client/config"
	"github.com/lidofinance/dc4bc/client/modules/keystore"
	"github.com/lidofinance/dc4bc/client/modules/logger"
	state2 "github.com/lidofinance/dc4bc/client/modules/state"
	oprepo "github.com/lidofinance/dc4bc/client/repositories/operation"
	sigrepo "github.com/lidofinance/dc4bc/client/repositories/signature"
	"github.com/lidofinance/dc4bc/client/services"
	"github.com/lidofinance/dc4bc/client/services/fsmservice"
	"github.com/lidofinance/dc4bc/client/services/operation"
	"github.com/lidofinance/dc4bc/client/services/signature"
	"github.com/lidofinance/dc4bc/client/types"
	"github.com/lidofinance/dc4bc/fsm/fsm"
	spf "github.com/lidofinance/dc4bc/fsm/state_machines/signature_proposal_fsm"
	sif "github.com/lidofinance/dc4bc/fsm/state_machines/signing_proposal_fsm"
	fsmtypes "github.com/lidofinance/dc4bc/fsm/types"
	"github.com/lidofinance/dc4bc/fsm/types/requests"
	"github.com/lidofinance/dc4bc/pkg/utils"
	"github.com/lidofinance/dc4bc/storage"
	"github.com/lidofinance/dc4bc/storage/file_storage"
)

// ---- harness: n real nodes (LevelDB state, file board, real FSM/operation/signature services)
// ---- and n real airgapped machines, driven synchronously (no sleeps): pump() is the body of Poll().

type f1Node struct {
	name    string
	svc     *BaseNodeService
	stg     storage.Storage
	keyPair *keystore.KeyPair
	air     *airgapped.Machine
	sigSvc  signature.SignatureService
	opSvc   operation.OperationService
	fsmSvc  fsmservice.FSMService
}

type f1Net struct {
	t     *testing.T
	nodes []*f1Node
	dkgID string
	// partial-sign answers produced by the airgapped machines but not yet posted
}

func f1NewNet(t *testing.T, n int) *f1Net {
	dir := t.TempDir()
	boardPath := filepath.Join(dir, "board")
	lockPath := filepath.Join(dir, "board_lock")
	net := &f1Net{t: t}
	for i := 0; i < n; i++ {
		name := fmt.Sprintf("node_%d", i)
		st, err := state2.NewLevelDBState(filepath.Join(dir, name+"_state"), "topic")
		if err != nil {
			t.Fatalf("state: %v", err)
		}
		stg, err := file_storage.NewFileStorage(boardPath, lockPath)
		if err != nil {
			t.Fatalf("storage: %v", err)
		}
		ks, err := keystore.NewLevelDBKeyStore(name, filepath.Join(dir, name+"_keys"))
		if err != nil {
			t.Fatalf("keystore: %v", err)
		}
		kp := keystore.NewKeyPair()
		if err := ks.PutKeys(name, kp); err != nil {
			t.Fatalf("PutKeys: %v", err)
		}
		air, err := airgapped.NewMachine(filepath.Join(dir, name+"_air"))
		if err != nil {
			t.Fatalf("airgapped: %v", err)
		}
		air.SetEncryptionKey([]byte("very_strong_password"))
		if err := air.InitKeys(); err != nil {
			t.Fatalf("InitKeys: %v", err)
		}
		opRepo, err := oprepo.NewOperationRepo(st, "topic")
		if err != nil {
			t.Fatalf("oprepo: %v", err)
		}
		opSvc := operation.NewOperationService(opRepo)
		sigSvc := signature.NewSignatureService(sigrepo.NewSignatureRepo(st))
		fsmSvc := fsmservice.NewFSMService(st, stg, "")
		sp := services.ServiceProvider{}
		sp.SetLogger(logger.NewLogger(name))
		sp.SetState(st)
		sp.SetKeyStore(ks)
		sp.SetStorage(stg)
		sp.SetFSMService(fsmSvc)
		sp.SetOperationService(opSvc)
		sp.SetSignatureService(sigSvc)
		cfg := config.Config{Username: name, KafkaStorageConfig: &config.KafkaStorageConfig{Topic: "topic"}}
		svc, err := NewNode(context.Background(), &cfg, &sp)
		if err != nil {
			t.Fatalf("NewNode: %v", err)
		}
		net.nodes = append(net.nodes, &f1Node{
			name: name, svc: svc.(*BaseNodeService), stg: stg, keyPair: kp, air: air,
			sigSvc: sigSvc, opSvc: opSvc, fsmSvc: fsmSvc,
		})
	}
	return net
}

// pump is the body of BaseNodeService.Poll for one tick.
func (n *f1Node) pump(t *testing.T) int {
	offset, err := n.svc.getState().LoadOffset()
	if err != nil {
		t.Fatalf("LoadOffset: %v", err)
	}
	msgs, err := n.stg.GetMessages(offset)
	if err != nil {
		t.Fatalf("GetMessages: %v", err)
	}
	for _, m := range msgs {
		if m.RecipientAddr == "" || m.RecipientAddr == n.svc.GetUsername() {
			if err := n.svc.ProcessMessage(m); err != nil {
				n.svc.Logger.Log("Failed to process message with offset %d: %v", m.Offset, err)
			}
		}
		if err := n.svc.getState().SaveOffset(m.Offset + 1); err != nil {
			t.Fatalf("SaveOffset: %v", err)
		}
	}
	return len(msgs)
}

func (net *f1Net) pumpAll() int {
	total := 0
	for _, n := range net.nodes {
		total += n.pump(net.t)
	}
	return total
}

// pendingOps returns the node's pending operations in a fixed order.
func (n *f1Node) pendingOps(t *testing.T) []*types.Operation {
	ops, err := n.opSvc.GetOperations()
	if err != nil {
		t.Fatalf("GetOperations: %v", err)
	}
	out := make([]*types.Operation, 0, len(ops))
	for _, o := range ops {
		out = append(out, o)
	}
	sort.Slice(out, func(i, j int) bool { return out[i].CreatedAt.Before(out[j].CreatedAt) })
	return out
}

// answer runs one operation through the airgapped machine; edit (optional) may tamper with the answer
// before it is handed back to the node exactly as the HTTP API does.
func (n *f1Node) answer(t *testing.T, op *types.Operation, edit func(*types.Operation)) {
	if fsm.State(op.Type) == spf.StateAwaitParticipantsConfirmations {
		if err := n.svc.ApproveParticipation(&dto.OperationIdDTO{OperationID: op.ID}); err != nil {
			t.Fatalf("%s ApproveParticipation: %v", n.name, err)
		}
		return
	}
	res, err := n.air.GetOperationResult(*op)
	if err != nil {
		t.Fatalf("%s GetOperationResult: %v", n.name, err)
	}
	if edit != nil {
		edit(&res)
	}
	if err := n.svc.ProcessOperation(&dto.OperationDTO{
		ID: res.ID, Type: string(res.Type), Payload: res.Payload, ResultMsgs: res.ResultMsgs,
		CreatedAt: res.CreatedAt, DkgID: res.DKGIdentifier, To: res.To, Event: res.Event, ExtraData: res.ExtraData,
	}); err != nil {
		t.Fatalf("%s ProcessOperation(%s): %v", n.name, res.Type, err)
	}
}

// settle drives everything (all nodes poll, all operations are answered honestly) until quiescence.
func (net *f1Net) settle() {
	for i := 0; i < 200; i++ {
		progressed := net.pumpAll() > 0
		for _, n := range net.nodes {
			for _, op := range n.pendingOps(net.t) {
				n.answer(net.t, op, nil)
				progressed = true
			}
		}
		if !progressed {
			return
		}
	}
	net.t.Fatalf("network does not settle")
}

func (net *f1Net) runDKG(threshold int) {
	t := net.t
	var participants []*requests.SignatureProposalParticipantsEntry
	for _, n := range net.nodes {
		pk, err := n.air.GetPubKey().MarshalBinary()
		if err != nil {
			t.Fatalf("dkg pubkey: %v", err)
		}
		participants = append(participants, &requests.SignatureProposalParticipantsEntry{
			Username: n.name, PubKey: n.svc.GetPubKey(), DkgPubKey: pk,
		})
	}
	bz, err := json.Marshal(requests.SignatureProposalParticipantsListRequest{
		Participants: participants, SigningThreshold: threshold, CreatedAt: time.Now(),
	})
	if err != nil {
		t.Fatal(err)
	}
	if err := net.nodes[len(net.nodes)-1].svc.StartDKG(&dto.StartDkgDTO{Payload: bz}); err != nil {
		t.Fatalf("StartDKG: %v", err)
	}
	id := sha256.Sum256(bz)
	net.dkgID = hex.EncodeToString(id[:])
	net.settle()
	for _, n := range net.nodes {
		inst, err := n.fsmSvc.GetFSMInstance(net.dkgID, false)
		if err != nil {
			t.Fatalf("%s: no round after DKG: %v", n.name, err)
		}
		st, _ := inst.State()
		if st != sif.StateSigningIdle {
			t.Fatalf("%s: DKG did not complete, state %s", n.name, st)
		}
	}
}

func (net *f1Net) dkgIDBytes() []byte {
	b, _ := hex.DecodeString(net.dkgID)
	return b
}

// groupKey is the round's group public key as the airgapped machine of node i knows it.
func (net *f1Net) groupKey(i int) []byte {
	krs, err := net.nodes[i].air.GetBLSKeyrings()
	if err != nil {
		net.t.Fatalf("GetBLSKeyrings: %v", err)
	}
	kr, ok := krs[net.dkgID]
	if !ok {
		net.t.Fatalf("no keyring for the round on node %d", i)
	}
	bz, err := kr.PubPoly.Commit().MarshalBinary()
	if err != nil {
		net.t.Fatal(err)
	}
	return bz
}

// f1EthVerify is the independent Ethereum (prysm/blst) verifier.
func f1EthVerify(pub, msg, sig []byte) error {
	pk, err := prysmBLS.PublicKeyFromBytes(pub)
	if err != nil {
		return fmt.Errorf("bad public key: %w", err)
	}
	s, err := prysmBLS.SignatureFromBytes(sig)
	if err != nil {
		return fmt.Errorf("not a BLS signature (%d bytes): %w", len(sig), err)
	}
	if !s.Verify(pk, msg) {
		return fmt.Errorf("signature does not verify")
	}
	return nil
}

// postAs posts a board message signed with the node's own communication key (what a Byzantine
// participant can always do with its own node key).
func (n *f1Node) postAs(t *testing.T, dkgID string, event fsm.Event, data []byte) {
	m := storage.Message{DkgRoundID: dkgID, Event: string(event), Data: data, SenderAddr: n.name}
	m.Signature = ed25519.Sign(n.keyPair.Priv, m.Bytes())
	if err := n.stg.Send(m); err != nil {
		t.Fatalf("Send: %v", err)
	}
}

// Finding 1: a reconstructed-signature announcement is stored without any check.
func TestH3C01_StoredSignatureNotVerified(t *testing.T) {
	net := f1NewNet(t, 3)
	net.runDKG(2)
	pub := net.groupKey(1)
	payload := []byte("withdrawal credentials rotation #1")

	// node_0 proposes, everybody (node_0 included) behaves honestly until the batch is fully signed.
	if err := net.nodes[0].svc.ProposeSignMessages(&dto.ProposeSignBatchMessagesDTO{
		DkgID: net.dkgIDBytes(), Data: map[string][]byte{"msg": payload},
	}); err != nil {
		t.Fatal(err)
	}
	net.settle()

	honest := net.nodes[1]
	all, err := honest.sigSvc.GetSignatures(&dto.DkgIdDTO{DkgID: net.dkgID})
	if err != nil || len(all) != 1 {
		t.Fatalf("setup: %v, %d batches", err, len(all))
	}
	var batchID, msgID string
	for b, msgs := range all {
		batchID = b
		for m, entries := range msgs {
			msgID = m
			if len(entries) != 3 {
				t.Fatalf("setup: %d entries", len(entries))
			}
			for _, e := range entries {
				if err := f1EthVerify(pub, payload, e.Signature); err != nil {
					t.Fatalf("setup: honest run must give valid signatures: %v", err)
				}
			}
		}
	}

	// Byzantine participant node_0 now announces "its reconstruction" of the same message: 96 junk bytes.
	junk := bytes.Repeat([]byte{0x42}, 96)
	data, _ := json.Marshal([]fsmtypes.ReconstructedSignature{{
		File: "msg", BatchID: batchID, MessageID: msgID, SrcPayload: payload, Signature: junk,
	}})
	net.nodes[0].postAs(t, net.dkgID, types.SignatureReconstructed, data)
	net.nodes[1].pump(t)
	net.nodes[2].pump(t)

	for _, n := range net.nodes[1:] {
		batch, err := n.sigSvc.GetSignaturesByBatchID(&dto.SignaturesByBatchIdDTO{DkgID: net.dkgID, BatchID: batchID})
		if err != nil {
			t.Fatal(err)
		}
		for _, e := range batch[msgID] {
			if err := f1EthVerify(pub, payload, e.Signature); err != nil {
				t.Errorf("%s stores for message %s a value (announced by %s) that is not a signature of the proposed payload under the group key: %v",
					n.name, msgID, e.Username, err)
			}
		}
		exported, err := utils.PrepareSignaturesToDump(batch)
		if err != nil {
			t.Fatal(err)
		}
		for id, e := range *exported {
			if err := f1EthVerify(pub, payload, e.Signature); err != nil {
				t.Errorf("%s exports for message %s an invalid signature: %v", n.name, id, err)
			}
		}
	}
}

// Finding 1b: the stored/exported entry may carry another payload altogether: a valid group signature of an
// earlier payload X is announced as the signature of the later message Y.
func TestH3C01_StoredSignatureOfOtherPayload(t *testing.T) {
	net := f1NewNet(t, 3)
	net.runDKG(2)
	pub := net.groupKey(1)
	payloadX := []byte("payload X, signed last week")
	payloadY := []byte("payload Y, proposed today")

	if err := net.nodes[1].svc.ProposeSignMessages(&dto.ProposeSignBatchMessagesDTO{
		DkgID: net.dkgIDBytes(), Data: map[string][]byte{"x": payloadX},
	}); err != nil {
		t.Fatal(err)
	}
	net.settle()
	if err := net.nodes[0].svc.ProposeSignMessages(&dto.ProposeSignBatchMessagesDTO{
		DkgID: net.dkgIDBytes(), Data: map[string][]byte{"y": payloadY},
	}); err != nil {
		t.Fatal(err)
	}
	net.settle()

	honest := net.nodes[1]
	all, err := honest.sigSvc.GetSignatures(&dto.DkgIdDTO{DkgID: net.dkgID})
	if err != nil || len(all) != 2 {
		t.Fatalf("setup: %v, %d batches", err, len(all))
	}
	var batchY, msgY string
	var entryX fsmtypes.ReconstructedSignature
	for b, msgs := range all {
		for m, entries := range msgs {
			if len(entries) != 3 {
				t.Fatalf("setup: %d entries", len(entries))
			}
			if bytes.Equal(entries[0].SrcPayload, payloadY) {
				batchY, msgY = b, m
			} else {
				entryX = entries[0]
			}
		}
	}
	if batchY == "" || f1EthVerify(pub, payloadX, entryX.Signature) != nil {
		t.Fatalf("setup: both batches must be signed")
	}

	// node_0 (a registered participant, the proposer of batch Y) announces X's signature for message Y.
	data, _ := json.Marshal([]fsmtypes.ReconstructedSignature{{
		File: entryX.File, BatchID: batchY, MessageID: msgY, SrcPayload: payloadX, Signature: entryX.Signature,
	}})
	net.nodes[0].postAs(t, net.dkgID, types.SignatureReconstructed, data)
	net.nodes[1].pump(t)
	net.nodes[2].pump(t)

	for _, n := range net.nodes[1:] {
		batch, err := n.sigSvc.GetSignaturesByBatchID(&dto.SignaturesByBatchIdDTO{DkgID: net.dkgID, BatchID: batchY})
		if err != nil {
			t.Fatal(err)
		}
		exported, err := utils.PrepareSignaturesToDump(batch)
		if err != nil {
			t.Fatal(err)
		}
		e := (*exported)[msgY]
		if err := f1EthVerify(pub, payloadY, e.Signature); err != nil {
			t.Errorf("%s exports for message %s of batch %s a value that is not a signature of the proposed payload %q: %v (exported payload %q, file %q; self-consistent: %v)",
				n.name, msgY, batchY, payloadY, err, e.Payload, e.File, f1EthVerify(pub, e.Payload, e.Signature) == nil)
		}
	}
}
