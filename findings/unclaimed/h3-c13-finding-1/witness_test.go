package node

// Witness for property C13 on the production message board (Kafka).
//
// The node is wired exactly as dc4bc_d does it (services.CreateServiceProviderWithCfg + NewNode + Poll) against an
// in-process broker that speaks the subset of the Kafka protocol used by kafka-go's consumer-group reader
// (TLS + SASL/PLAIN, ApiVersions, Metadata, FindCoordinator, JoinGroup, SyncGroup, Heartbeat, LeaveGroup, OffsetFetch,
// OffsetCommit, ListOffsets, Fetch).

import (
	"bytes"
	"context"
	"crypto/ecdsa"
	"crypto/elliptic"
	"crypto/rand"
	"crypto/tls"
	"crypto/x509"
	"crypto/x509/pkix"
	"encoding/binary"
	"encoding/json"
	"encoding/pem"
	"fmt"
	"hash/crc32"
	"io"
	"math/big"
	"net"
	"os"
	"path/filepath"
	"reflect"
	"strconv"
	"sync"
	"testing"
	"time"
	"unsafe"

	"github.com/syndtr/goleveldb/leveldb"

	"github.com/lidofinance/dc4bc/client/config"
	"github.com/lidofinance/dc4bc/client/modules/keystore"
	"github.com/lidofinance/dc4bc/client/modules/state"
	"github.com/lidofinance/dc4bc/client/services"
	spf "github.com/lidofinance/dc4bc/fsm/state_machines/signature_proposal_fsm"
	"github.com/lidofinance/dc4bc/fsm/types/requests"
	"github.com/lidofinance/dc4bc/storage"
)

// ---------------------------------------------------------------------------------------------------------------------
// wire helpers

type c13kWriter struct{ b []byte }

func (w *c13kWriter) i8(v int8)   { w.b = append(w.b, byte(v)) }
func (w *c13kWriter) i16(v int16) { w.b = append(w.b, byte(v>>8), byte(v)) }
func (w *c13kWriter) i32(v int32) {
	var t [4]byte
	binary.BigEndian.PutUint32(t[:], uint32(v))
	w.b = append(w.b, t[:]...)
}
func (w *c13kWriter) i64(v int64) {
	var t [8]byte
	binary.BigEndian.PutUint64(t[:], uint64(v))
	w.b = append(w.b, t[:]...)
}
func (w *c13kWriter) str(s string) { w.i16(int16(len(s))); w.b = append(w.b, s...) }
func (w *c13kWriter) nullstr()     { w.i16(-1) }
func (w *c13kWriter) bytes(p []byte) {
	if p == nil {
		w.i32(-1)
		return
	}
	w.i32(int32(len(p)))
	w.b = append(w.b, p...)
}

type c13kReader struct {
	b   []byte
	off int
	bad bool
}

func (r *c13kReader) take(n int) []byte {
	if n < 0 || r.off+n > len(r.b) {
		r.bad = true
		return make([]byte, n&0xffff)
	}
	p := r.b[r.off : r.off+n]
	r.off += n
	return p
}
func (r *c13kReader) i8() int8   { return int8(r.take(1)[0]) }
func (r *c13kReader) i16() int16 { return int16(binary.BigEndian.Uint16(r.take(2))) }
func (r *c13kReader) i32() int32 { return int32(binary.BigEndian.Uint32(r.take(4))) }
func (r *c13kReader) i64() int64 { return int64(binary.BigEndian.Uint64(r.take(8))) }
func (r *c13kReader) str() string {
	n := r.i16()
	if n < 0 {
		return ""
	}
	return string(r.take(int(n)))
}
func (r *c13kReader) bytes() []byte {
	n := r.i32()
	if n < 0 {
		return nil
	}
	return append([]byte{}, r.take(int(n))...)
}

// ---------------------------------------------------------------------------------------------------------------------
// the broker: one topic, one partition, consumer-group offsets

type c13kBroker struct {
	t      *testing.T
	ln     net.Listener
	host   string
	port   int32
	caPath string
	topic  string

	mu         sync.Mutex
	log        [][]byte         // record values, index = offset
	committed  map[string]int64 // group -> next offset to read
	generation int32
	members    int
	served     map[int64]int    // offset -> how many times it was handed out by Fetch
	offFetches map[string][]int64
	closed     bool
}

func c13kNewBroker(t *testing.T, dir, topic string) *c13kBroker {
	key, err := ecdsa.GenerateKey(elliptic.P256(), rand.Reader)
	if err != nil {
		t.Fatal(err)
	}
	tmpl := &x509.Certificate{
		SerialNumber:          big.NewInt(1),
		Subject:               pkix.Name{CommonName: "in-process-broker"},
		NotBefore:             time.Now().Add(-time.Hour),
		NotAfter:              time.Now().Add(24 * time.Hour),
		KeyUsage:              x509.KeyUsageCertSign | x509.KeyUsageDigitalSignature,
		ExtKeyUsage:           []x509.ExtKeyUsage{x509.ExtKeyUsageServerAuth},
		BasicConstraintsValid: true,
		IsCA:                  true,
		IPAddresses:           []net.IP{net.ParseIP("127.0.0.1")},
	}
	der, err := x509.CreateCertificate(rand.Reader, tmpl, tmpl, &key.PublicKey, key)
	if err != nil {
		t.Fatal(err)
	}
	certPEM := pem.EncodeToMemory(&pem.Block{Type: "CERTIFICATE", Bytes: der})
	caPath := filepath.Join(dir, "ca.crt")
	if err := os.WriteFile(caPath, certPEM, 0600); err != nil {
		t.Fatal(err)
	}
	cert := tls.Certificate{Certificate: [][]byte{der}, PrivateKey: key}
	ln, err := tls.Listen("tcp", "127.0.0.1:0", &tls.Config{Certificates: []tls.Certificate{cert}})
	if err != nil {
		t.Fatal(err)
	}
	_, portStr, _ := net.SplitHostPort(ln.Addr().String())
	port, _ := strconv.Atoi(portStr)
	k := &c13kBroker{
		t: t, ln: ln, host: "127.0.0.1", port: int32(port), caPath: caPath, topic: topic,
		committed: map[string]int64{}, served: map[int64]int{}, offFetches: map[string][]int64{},
	}
	go k.acceptLoop()
	return k
}

func (k *c13kBroker) logf(format string, args ...interface{}) {
	k.mu.Lock()
	defer k.mu.Unlock()
	if !k.closed {
		k.t.Logf(format, args...)
	}
}

func (k *c13kBroker) addr() string { return net.JoinHostPort(k.host, strconv.Itoa(int(k.port))) }

func (k *c13kBroker) close() {
	k.mu.Lock()
	k.closed = true
	k.mu.Unlock()
	_ = k.ln.Close()
}

// append puts a board message on the topic, the way KafkaStorage.Send stores it (JSON value)
func (k *c13kBroker) append(m storage.Message) {
	bz, err := json.Marshal(m)
	if err != nil {
		k.t.Fatal(err)
	}
	k.mu.Lock()
	k.log = append(k.log, bz)
	k.mu.Unlock()
}

func (k *c13kBroker) acceptLoop() {
	for {
		c, err := k.ln.Accept()
		if err != nil {
			return
		}
		go k.serve(c)
	}
}

func c13kReadFrame(c net.Conn) ([]byte, error) {
	var szb [4]byte
	if _, err := io.ReadFull(c, szb[:]); err != nil {
		return nil, err
	}
	sz := binary.BigEndian.Uint32(szb[:])
	if sz > 64<<20 {
		return nil, fmt.Errorf("frame too big: %d", sz)
	}
	p := make([]byte, sz)
	if _, err := io.ReadFull(c, p); err != nil {
		return nil, err
	}
	return p, nil
}

func (k *c13kBroker) serve(c net.Conn) {
	defer c.Close()
	rawAuthNext := false
	for {
		frame, err := c13kReadFrame(c)
		if err != nil {
			return
		}
		if rawAuthNext {
			// SASL/PLAIN token after a v0 handshake: opaque bytes, answered by an empty challenge
			rawAuthNext = false
			if _, err := c.Write([]byte{0, 0, 0, 0}); err != nil {
				return
			}
			continue
		}
		r := &c13kReader{b: frame}
		apiKey := r.i16()
		apiVer := r.i16()
		corr := r.i32()
		_ = r.str() // client id
		w := &c13kWriter{}
		w.i32(corr)
		switch apiKey {
		case 18:
			k.apiVersions(w)
		case 17:
			_ = r.str()
			w.i16(0)
			w.i32(1)
			w.str("PLAIN")
			rawAuthNext = true
		case 3:
			k.metadata(w)
		case 10:
			w.i16(0)
			w.i32(1)
			w.str(k.host)
			w.i32(k.port)
		case 11:
			k.joinGroup(r, w)
		case 14:
			k.syncGroup(r, w)
		case 12, 13:
			w.i16(0)
		case 9:
			k.offsetFetch(r, w)
		case 8:
			k.offsetCommit(r, w)
		case 2:
			k.listOffsets(r, w)
		case 1:
			k.fetch(r, w)
		default:
			k.logf("in-process broker: unsupported api key %d v%d", apiKey, apiVer)
			return
		}
		if r.bad {
			k.logf("in-process broker: short request for api key %d v%d", apiKey, apiVer)
			return
		}
		out := make([]byte, 4, 4+len(w.b))
		binary.BigEndian.PutUint32(out, uint32(len(w.b)))
		out = append(out, w.b...)
		if _, err := c.Write(out); err != nil {
			return
		}
	}
}

func (k *c13kBroker) apiVersions(w *c13kWriter) {
	type v struct{ key, min, max int16 }
	vs := []v{{0, 0, 2}, {1, 0, 2}, {2, 0, 1}, {3, 0, 1}, {8, 0, 2}, {9, 0, 1}, {10, 0, 0}, {11, 0, 1}, {12, 0, 0}, {13, 0, 0}, {14, 0, 0}, {17, 0, 0}, {18, 0, 0}}
	w.i16(0)
	w.i32(int32(len(vs)))
	for _, e := range vs {
		w.i16(e.key)
		w.i16(e.min)
		w.i16(e.max)
	}
}

func (k *c13kBroker) metadata(w *c13kWriter) {
	w.i32(1) // brokers
	w.i32(1)
	w.str(k.host)
	w.i32(k.port)
	w.nullstr()
	w.i32(1) // controller
	w.i32(1) // topics
	w.i16(0)
	w.str(k.topic)
	w.i8(0)
	w.i32(1) // partitions
	w.i16(0)
	w.i32(0)
	w.i32(1)
	w.i32(1)
	w.i32(1)
	w.i32(1)
	w.i32(1)
}

func (k *c13kBroker) joinGroup(r *c13kReader, w *c13kWriter) {
	_ = r.str() // group
	_ = r.i32() // session timeout
	_ = r.i32() // rebalance timeout
	member := r.str()
	_ = r.str() // protocol type
	n := r.i32()
	var protoName string
	var protoMeta []byte
	for i := int32(0); i < n; i++ {
		name := r.str()
		meta := r.bytes()
		if i == 0 {
			protoName, protoMeta = name, meta
		}
	}
	k.mu.Lock()
	k.generation++
	gen := k.generation
	if member == "" {
		k.members++
		member = fmt.Sprintf("member-%d", k.members)
	}
	k.mu.Unlock()
	w.i16(0)
	w.i32(gen)
	w.str(protoName)
	w.str(member) // leader
	w.str(member)
	w.i32(1)
	w.str(member)
	w.bytes(protoMeta)
}

func (k *c13kBroker) syncGroup(r *c13kReader, w *c13kWriter) {
	_ = r.str()
	_ = r.i32()
	member := r.str()
	n := r.i32()
	var assignment []byte
	for i := int32(0); i < n; i++ {
		m := r.str()
		a := r.bytes()
		if m == member {
			assignment = a
		}
	}
	if assignment == nil {
		assignment = []byte{}
	}
	w.i16(0)
	w.bytes(assignment)
}

func (k *c13kBroker) offsetFetch(r *c13kReader, w *c13kWriter) {
	group := r.str()
	k.mu.Lock()
	off, ok := k.committed[group]
	if !ok {
		off = -1
	}
	k.offFetches[group] = append(k.offFetches[group], off)
	k.mu.Unlock()
	w.i32(1)
	w.str(k.topic)
	w.i32(1)
	w.i32(0)
	w.i64(off)
	w.str("")
	w.i16(0)
}

func (k *c13kBroker) offsetCommit(r *c13kReader, w *c13kWriter) {
	group := r.str()
	_ = r.i32()
	_ = r.str()
	_ = r.i64()
	nt := r.i32()
	for i := int32(0); i < nt; i++ {
		_ = r.str()
		np := r.i32()
		for j := int32(0); j < np; j++ {
			_ = r.i32()
			off := r.i64()
			_ = r.str()
			k.mu.Lock()
			if off > k.committed[group] {
				k.committed[group] = off
			}
			k.mu.Unlock()
		}
	}
	w.i32(1)
	w.str(k.topic)
	w.i32(1)
	w.i32(0)
	w.i16(0)
}

func (k *c13kBroker) listOffsets(r *c13kReader, w *c13kWriter) {
	_ = r.i32()
	_ = r.i32()
	_ = r.str()
	_ = r.i32()
	_ = r.i32()
	ts := r.i64()
	k.mu.Lock()
	off := int64(len(k.log))
	k.mu.Unlock()
	if ts == -2 {
		off = 0
	}
	w.i32(1)
	w.str(k.topic)
	w.i32(1)
	w.i32(0)
	w.i16(0)
	w.i64(-1)
	w.i64(off)
}

func (k *c13kBroker) fetch(r *c13kReader, w *c13kWriter) {
	_ = r.i32()
	maxWait := time.Duration(r.i32()) * time.Millisecond
	_ = r.i32()
	_ = r.i32()
	_ = r.str()
	_ = r.i32()
	_ = r.i32()
	offset := r.i64()
	_ = r.i32()

	if maxWait > 300*time.Millisecond {
		maxWait = 300 * time.Millisecond
	}
	deadline := time.Now().Add(maxWait)
	var set c13kWriter
	var hwm int64
	var errCode int16
	for {
		k.mu.Lock()
		hwm = int64(len(k.log))
		closed := k.closed
		if offset > hwm {
			errCode = 1 // offset out of range
		}
		for o := offset; errCode == 0 && o < hwm; o++ {
			var m c13kWriter
			m.i8(1) // magic
			m.i8(0) // attributes
			m.i64(time.Now().UnixNano() / int64(time.Millisecond))
			m.bytes(nil)
			m.bytes(k.log[o])
			set.i64(o)
			set.i32(int32(4 + len(m.b)))
			set.i32(int32(crc32.ChecksumIEEE(m.b)))
			set.b = append(set.b, m.b...)
			k.served[o]++
		}
		k.mu.Unlock()
		if errCode != 0 || len(set.b) > 0 || closed || time.Now().After(deadline) {
			break
		}
		time.Sleep(20 * time.Millisecond)
	}
	w.i32(0) // throttle
	w.i32(1)
	w.str(k.topic)
	w.i32(1)
	w.i32(0)
	w.i16(errCode)
	w.i64(hwm)
	w.i32(int32(len(set.b)))
	w.b = append(w.b, set.b...)
}

// ---------------------------------------------------------------------------------------------------------------------
// the node

type c13kDied struct{}

// c13kState lets the process die right after the n-th durable offset write has been completed
type c13kState struct {
	state.State
	dieAfterOffsetWrite int
	writes              int
}

func (s *c13kState) SaveOffset(o uint64) error {
	err := s.State.SaveOffset(o)
	s.writes++
	if s.dieAfterOffsetWrite > 0 && s.writes == s.dieAfterOffsetWrite {
		panic(c13kDied{})
	}
	return err
}

func c13kCloseLevelDB(obj interface{}, field string) error {
	f := reflect.ValueOf(obj).Elem().FieldByName(field)
	db := *(**leveldb.DB)(unsafe.Pointer(f.UnsafeAddr()))
	return db.Close()
}

type c13kProcess struct {
	sp     *services.ServiceProvider
	node   NodeService
	cancel context.CancelFunc
	done   chan string
}

// c13kStartNode is `dc4bc_d start`: service provider from the config, node, poller
func c13kStartNode(t *testing.T, cfg *config.Config, dieAfterOffsetWrite int) *c13kProcess {
	sp, err := services.CreateServiceProviderWithCfg(cfg)
	if err != nil {
		t.Fatalf("failed to init service provider: %v", err)
	}
	if dieAfterOffsetWrite > 0 {
		sp.SetState(&c13kState{State: sp.GetState(), dieAfterOffsetWrite: dieAfterOffsetWrite})
	}
	ctx, cancel := context.WithCancel(context.Background())
	n, err := NewNode(ctx, cfg, sp)
	if err != nil {
		t.Fatalf("failed to init node: %v", err)
	}
	p := &c13kProcess{sp: sp, node: n, cancel: cancel, done: make(chan string, 1)}
	go func() {
		defer func() {
			if r := recover(); r != nil {
				if _, ok := r.(c13kDied); ok {
					p.done <- "died"
					return
				}
				panic(r)
			}
		}()
		if err := n.Poll(); err != nil {
			p.done <- "poll error: " + err.Error()
			return
		}
		p.done <- "stopped"
	}()
	return p
}

// release gives back what the operating system takes from a dead process: sockets and file locks
func (p *c13kProcess) release(t *testing.T) {
	p.cancel()
	_ = p.sp.GetStorage().Close()
	st := p.sp.GetState()
	if d, ok := st.(*c13kState); ok {
		st = d.State
	}
	if err := c13kCloseLevelDB(st, "stateDb"); err != nil {
		t.Fatalf("failed to close the state db: %v", err)
	}
	if err := c13kCloseLevelDB(p.sp.GetKeyStore(), "keystoreDb"); err != nil {
		t.Fatalf("failed to close the keystore db: %v", err)
	}
}

func (p *c13kProcess) rounds(t *testing.T) map[string]bool {
	ops, err := p.sp.GetOperationService().GetOperations()
	if err != nil {
		t.Fatalf("GetOperations: %v", err)
	}
	res := map[string]bool{}
	for _, op := range ops {
		res[op.DKGIdentifier] = true
	}
	return res
}

func c13kInitProposal(t *testing.T, round string, self *keystore.KeyPair) storage.Message {
	data, err := json.Marshal(requests.SignatureProposalParticipantsListRequest{
		Participants: []*requests.SignatureProposalParticipantsEntry{
			{Username: "node_0", PubKey: self.Pub, DkgPubKey: bytes.Repeat([]byte{1}, 48)},
			{Username: "node_1", PubKey: keystore.NewKeyPair().Pub, DkgPubKey: bytes.Repeat([]byte{2}, 48)},
		},
		SigningThreshold: 2,
		CreatedAt:        time.Now(),
	})
	if err != nil {
		t.Fatal(err)
	}
	return storage.Message{ID: "msg-" + round, DkgRoundID: round, Event: string(spf.EventInitProposal), Data: data, SenderAddr: "node_1"}
}

func c13kNodeConfig(t *testing.T, dir string, k *c13kBroker) (*config.Config, *keystore.KeyPair) {
	cfg := &config.Config{
		Username:      "node_0",
		StateDBSN:     filepath.Join(dir, "state"),
		KeyStoreDBDSN: filepath.Join(dir, "keys"),
		KafkaStorageConfig: &config.KafkaStorageConfig{
			DBDSN:               k.addr(),
			Topic:               k.topic,
			ConsumerGroup:       "node_0_group",
			TlsConfig:           k.caPath,
			ProducerCredentials: "producer:producerpass",
			ConsumerCredentials: "consumer:consumerpass",
			ReadDuration:        "2s",
			Timeout:             "5s",
		},
	}
	// dc4bc_d gen_keys
	ks, err := keystore.NewLevelDBKeyStore(cfg.Username, cfg.KeyStoreDBDSN)
	if err != nil {
		t.Fatal(err)
	}
	kp := keystore.NewKeyPair()
	if err := ks.PutKeys(cfg.Username, kp); err != nil {
		t.Fatal(err)
	}
	if err := c13kCloseLevelDB(ks, "keystoreDb"); err != nil {
		t.Fatal(err)
	}
	return cfg, kp
}

func c13kWaitRounds(t *testing.T, p *c13kProcess, want []string, timeout time.Duration) map[string]bool {
	deadline := time.Now().Add(timeout)
	for {
		got := p.rounds(t)
		all := true
		for _, r := range want {
			if !got[r] {
				all = false
			}
		}
		if all || time.Now().After(deadline) {
			return got
		}
		time.Sleep(200 * time.Millisecond)
	}
}

const (
	c13kRoundA = "aaaaaaaaaaaaaaaaaaaaaaaaaaaaaaaaaaaaaaaaaaaaaaaaaaaaaaaaaaaaaaaa"
	c13kRoundB = "bbbbbbbbbbbbbbbbbbbbbbbbbbbbbbbbbbbbbbbbbbbbbbbbbbbbbbbbbbbbbbbb"
)

// Control: the same wiring without a crash handles both board messages (so a failure of the witness below is not a
// defect of the in-process broker).
func TestC13KafkaBoardControlNoCrash(t *testing.T) {
	dir := t.TempDir()
	k := c13kNewBroker(t, dir, "board")
	defer k.close()
	cfg, kp := c13kNodeConfig(t, dir, k)
	k.append(c13kInitProposal(t, c13kRoundA, kp))
	k.append(c13kInitProposal(t, c13kRoundB, kp))

	p := c13kStartNode(t, cfg, 0)
	got := c13kWaitRounds(t, p, []string{c13kRoundA, c13kRoundB}, 20*time.Second)
	off, _ := p.node.GetStateOffset()
	p.release(t)
	if !got[c13kRoundA] || !got[c13kRoundB] {
		t.Fatalf("control run: operations offered for rounds %v, want both rounds", got)
	}
	t.Logf("control: both invitations are offered, saved offset %d", off)
}

// Witness: two messages are on the board when the node polls. It handles the first one, saves offset 1 and dies.
// Restarted on the same state directory with the same configuration it must handle the message with offset 1; it
// never sees it, because KafkaStorage.GetMessages ignores the offset it is given and kafka-go's ReadMessage has
// already committed the consumer group past every message of the batch at the moment it was read.
func TestC13KafkaBoardMessageLostWhenNodeDiesMidBatch(t *testing.T) {
	dir := t.TempDir()
	k := c13kNewBroker(t, dir, "board")
	defer k.close()
	cfg, kp := c13kNodeConfig(t, dir, k)
	k.append(c13kInitProposal(t, c13kRoundA, kp))
	k.append(c13kInitProposal(t, c13kRoundB, kp))

	// first life: dies right after the offset of the first message has been written
	p1 := c13kStartNode(t, cfg, 1)
	select {
	case how := <-p1.done:
		if how != "died" {
			t.Fatalf("first life ended with %q, expected the simulated death", how)
		}
	case <-time.After(30 * time.Second):
		t.Fatal("the node did not reach the first offset write")
	}
	before := p1.rounds(t)
	savedOffset, err := p1.node.GetStateOffset()
	if err != nil {
		t.Fatal(err)
	}
	p1.release(t)
	if !before[c13kRoundA] || before[c13kRoundB] || savedOffset != 1 {
		t.Fatalf("setup: at the moment of death operations %v, saved offset %d; expected only round A handled and offset 1", before, savedOffset)
	}
	k.mu.Lock()
	committed := k.committed["node_0_group"]
	k.mu.Unlock()
	t.Logf("node died with saved offset %d; consumer group offset committed at the broker: %d", savedOffset, committed)

	// second life: same state directory, same configuration
	p2 := c13kStartNode(t, cfg, 0)
	defer p2.release(t)
	if off, _ := p2.node.GetStateOffset(); off != 1 {
		t.Fatalf("setup: restarted node reports offset %d, expected 1", off)
	}
	got := c13kWaitRounds(t, p2, []string{c13kRoundA, c13kRoundB}, 12*time.Second)
	k.mu.Lock()
	servedB := k.served[1]
	fetched := k.offFetches["node_0_group"]
	k.mu.Unlock()
	t.Logf("after restart: operations for rounds %v; message 1 handed out %d time(s); group offsets given to the reader at each start: %v", got, servedB, fetched)

	if !got[c13kRoundA] {
		t.Fatalf("the operation of round A is not offered after the restart")
	}
	if !got[c13kRoundB] {
		t.Fatalf("C13 violated: the node saved offset 1 and died; after the restart the board message with offset 1 (invitation to round B) "+
			"was never handled and its operation is not offered (operations: %v). The reader resumed from the consumer group offset %v "+
			"that was committed when the batch was read, not from the node's saved offset", got, fetched)
	}
}
