package node

import (
	"context"
	"crypto/ed25519"
	"encoding/json"
	"path/filepath"
	"strings"
	"sync"
	"testing"
	"time"

	"github.com/google/uuid"
	"github.com/stretchr/testify/require"

	"github.com/lidofinance/dc4bc/client/api/dto"
	"github.com/lidofinance/dc4bc/client/config"
	"github.com/lidofinance/dc4bc/client/modules/keystore"
	"github.com/lidofinance/dc4bc/client/modules/logger"
	"github.com/lidofinance/dc4bc/client/modules/state"
	oprepo "github.com/lidofinance/dc4bc/client/repositories/operation"
	"github.com/lidofinance/dc4bc/client/services"
	"github.com/lidofinance/dc4bc/client/services/fsmservice"
	"github.com/lidofinance/dc4bc/client/services/operation"
	"github.com/lidofinance/dc4bc/fsm/fsm"
	dpf "github.com/lidofinance/dc4bc/fsm/state_machines/dkg_proposal_fsm"
	spf "github.com/lidofinance/dc4bc/fsm/state_machines/signature_proposal_fsm"
	sif "github.com/lidofinance/dc4bc/fsm/state_machines/signing_proposal_fsm"
	"github.com/lidofinance/dc4bc/fsm/types/requests"
	"github.com/lidofinance/dc4bc/storage"
)

// c05bBoard is an in-memory append-only bulletin board
type c05bBoard struct {
	mu       sync.Mutex
	messages []storage.Message
}

func (b *c05bBoard) Send(messages ...storage.Message) error {
	b.mu.Lock()
	defer b.mu.Unlock()
	for _, m := range messages {
		m.Offset = uint64(len(b.messages))
		b.messages = append(b.messages, m)
	}
	return nil
}

func (b *c05bBoard) GetMessages(offset uint64) ([]storage.Message, error) {
	b.mu.Lock()
	defer b.mu.Unlock()
	if offset >= uint64(len(b.messages)) {
		return nil, nil
	}
	return append([]storage.Message(nil), b.messages[offset:]...), nil
}
func (b *c05bBoard) Close() error                        { return nil }
func (b *c05bBoard) IgnoreMessages([]string, bool) error { return nil }
func (b *c05bBoard) UnignoreMessages()                   {}

func c05bNewNode(t *testing.T, userName string, keyPair *keystore.KeyPair, board storage.Storage) (*BaseNodeService, *services.ServiceProvider) {
	dir := t.TempDir()
	topic := "topic"

	st, err := state.NewLevelDBState(filepath.Join(dir, "state_"+userName), topic)
	require.NoError(t, err)
	ks, err := keystore.NewLevelDBKeyStore(userName, filepath.Join(dir, "keys_"+userName))
	require.NoError(t, err)
	require.NoError(t, ks.(*keystore.LevelDBKeyStore).PutKeys(userName, keyPair))
	opRepo, err := oprepo.NewOperationRepo(st, topic)
	require.NoError(t, err)

	sp := &services.ServiceProvider{}
	sp.SetLogger(logger.NewLogger(userName))
	sp.SetState(st)
	sp.SetKeyStore(ks)
	sp.SetStorage(board)
	sp.SetFSMService(fsmservice.NewFSMService(st, board, topic))
	sp.SetOperationService(operation.NewOperationService(opRepo))

	n, err := NewNode(context.Background(), &config.Config{
		Username:           userName,
		KafkaStorageConfig: &config.KafkaStorageConfig{Topic: topic},
	}, sp)
	require.NoError(t, err)
	return n.(*BaseNodeService), sp
}

// C05: "... an expired deadline ... puts the round into a cancelled state from which it can never become signing-ready".
//
// The deadline of the key generation phases is not a function of the history on the board: the node sets it to
// time.Now()+DkgConfirmationDeadline at the moment it happens to process the last participation confirmation
// (processMessage, hand-over to event_dkg_init_process). A key announcement that arrives after the deadline cancels
// the round by timeout on the node that followed the board live, but a node that reads the very same board later
// (restart on a fresh state, /resetState + replay, a reinit message, a participant that joins late) computes a later
// deadline, accepts the same announcement and ends signing-ready: the cancelled round has become signing-ready.
func TestC05_RoundCancelledByDeadlineBecomesSigningReadyOnReplay(t *testing.T) {
	req := require.New(t)
	board := &c05bBoard{}
	const dkgRoundID = "c05-deadline-replay-round"

	names := []string{"alice", "bob"}
	keys := map[string]*keystore.KeyPair{"alice": keystore.NewKeyPair(), "bob": keystore.NewKeyPair()}

	post := func(sender string, event fsm.Event, data interface{}) {
		bz, err := json.Marshal(data)
		req.NoError(err)
		m := storage.Message{ID: uuid.New().String(), DkgRoundID: dkgRoundID, Event: string(event), Data: bz, SenderAddr: sender}
		m.Signature = ed25519.Sign(keys[sender].Priv, m.Bytes())
		req.NoError(board.Send(m))
	}
	// what Poll does with the messages of the board, from the given offset on
	poll := func(n *BaseNodeService, offset uint64) uint64 {
		messages, err := board.GetMessages(offset)
		req.NoError(err)
		for _, m := range messages {
			if m.RecipientAddr == "" || m.RecipientAddr == n.GetUsername() {
				if err := n.ProcessMessage(m); err != nil {
					t.Logf("offset %d (%s from %s) refused: %v", m.Offset, m.Event, m.SenderAddr, err)
				}
			}
			offset = m.Offset + 1
		}
		return offset
	}
	dumpOf := func(sp *services.ServiceProvider) (fsm.State, time.Time) {
		d, err := sp.GetFSMService().GetFSMDump(&dto.DkgIdDTO{DkgID: dkgRoundID})
		req.NoError(err)
		var expires time.Time
		if d.Payload.DKGProposalPayload != nil {
			expires = d.Payload.DKGProposalPayload.ExpiresAt
		}
		return d.State, expires
	}

	// --- the history on the board -------------------------------------------------------------------------------
	start := time.Now()
	var participants []*requests.SignatureProposalParticipantsEntry
	for _, name := range names {
		participants = append(participants, &requests.SignatureProposalParticipantsEntry{Username: name, PubKey: keys[name].Pub, DkgPubKey: make([]byte, 32)})
	}
	post("alice", spf.EventInitProposal, requests.SignatureProposalParticipantsListRequest{Participants: participants, SigningThreshold: 2, CreatedAt: start})
	for id, name := range names {
		post(name, spf.EventConfirmSignatureProposal, requests.SignatureProposalParticipantRequest{ParticipantId: id, CreatedAt: start})
	}

	// alice's node follows the board live
	live, liveSP := c05bNewNode(t, "alice", keys["alice"], board)
	offset := poll(live, 0)
	state, deadline := dumpOf(liveSP)
	req.Equal(dpf.StateDkgCommitsAwaitConfirmations, state)
	t.Logf("live node: key generation started, deadline %s", deadline.Format(time.RFC3339Nano))

	for id, name := range names {
		post(name, dpf.EventDKGCommitConfirmationReceived, requests.DKGProposalCommitConfirmationRequest{ParticipantId: id, Commit: []byte("commit"), CreatedAt: start})
	}
	for id, name := range names {
		post(name, dpf.EventDKGDealConfirmationReceived, requests.DKGProposalDealConfirmationRequest{ParticipantId: id, Deal: []byte("deal"), CreatedAt: start})
	}
	for id, name := range names {
		post(name, dpf.EventDKGResponseConfirmationReceived, requests.DKGProposalResponseConfirmationRequest{ParticipantId: id, Response: []byte("response"), CreatedAt: start})
	}
	post("alice", dpf.EventDKGMasterKeyConfirmationReceived, requests.DKGProposalMasterKeyConfirmationRequest{ParticipantId: 0, MasterKey: []byte("group key"), PubPolyBz: []byte("poly"), CreatedAt: start})
	// bob announces the key one second after the deadline
	post("bob", dpf.EventDKGMasterKeyConfirmationReceived, requests.DKGProposalMasterKeyConfirmationRequest{ParticipantId: 1, MasterKey: []byte("group key"), PubPolyBz: []byte("poly"), CreatedAt: deadline.Add(time.Second)})

	poll(live, offset)
	liveState, _ := dumpOf(liveSP)
	req.Equal(dpf.StateDkgMasterKeyAwaitCanceledByTimeout, liveState, "the late announcement must cancel the round on the live node")

	// --- the same participant reads the same board again on a fresh state, a little later -------------------------
	time.Sleep(3 * time.Second)
	replayed, replayedSP := c05bNewNode(t, "alice", keys["alice"], board)
	poll(replayed, 0)
	replayedState, replayedDeadline := dumpOf(replayedSP)
	t.Logf("live node: %s (deadline %s); after the replay of the same board: %s (deadline %s)",
		liveState, deadline.Format(time.RFC3339Nano), replayedState, replayedDeadline.Format(time.RFC3339Nano))

	if replayedState == sif.StateSigningIdle || !strings.Contains(string(replayedState), "canceled") {
		t.Fatalf("the round was cancelled by the expired deadline (%s) when the board was followed live, "+
			"but the replay of the same board leaves it in %q: a cancelled round became signing-ready", liveState, replayedState)
	}
}
