package node

import (
	"context"
	"crypto/ed25519"
	"encoding/json"
	"strings"
	"sync"
	"testing"
	"time"

	"github.com/golang/mock/gomock"
	"github.com/google/uuid"
	"github.com/stretchr/testify/require"

	"github.com/lidofinance/dc4bc/client/api/dto"
	"github.com/lidofinance/dc4bc/client/config"
	"github.com/lidofinance/dc4bc/client/modules/keystore"
	"github.com/lidofinance/dc4bc/client/modules/logger"
	"github.com/lidofinance/dc4bc/client/modules/state"
	oprepo "github.com/lidofinance/dc4bc/client/repositories/operation"
	sigrepo "github.com/lidofinance/dc4bc/client/repositories/signature"
	"github.com/lidofinance/dc4bc/client/services"
	"github.com/lidofinance/dc4bc/client/services/fsmservice"
	opservice "github.com/lidofinance/dc4bc/client/services/operation"
	sigservice "github.com/lidofinance/dc4bc/client/services/signature"
	"github.com/lidofinance/dc4bc/client/types"
	"github.com/lidofinance/dc4bc/fsm/fsm"
	dpf "github.com/lidofinance/dc4bc/fsm/state_machines/dkg_proposal_fsm"
	spf "github.com/lidofinance/dc4bc/fsm/state_machines/signature_proposal_fsm"
	"github.com/lidofinance/dc4bc/fsm/types/requests"
	"github.com/lidofinance/dc4bc/mocks/clientMocks"
	"github.com/lidofinance/dc4bc/mocks/storageMocks"
	"github.com/lidofinance/dc4bc/storage"
)

// preC14State passes every call to the real LevelDB state. A test can arm it once: the next Set of a key with
// the armed suffix announces itself and waits until it is released, which pins one request between its read and
// its write of a stored blob.
type preC14State struct {
	state.State

	mu      sync.Mutex
	suffix  string
	reached chan struct{}
	release chan struct{}
}

func (s *preC14State) arm(suffix string) (reached, release chan struct{}) {
	s.mu.Lock()
	defer s.mu.Unlock()
	s.suffix = suffix
	s.reached = make(chan struct{})
	s.release = make(chan struct{})
	return s.reached, s.release
}

func (s *preC14State) Set(key string, value []byte) error {
	s.mu.Lock()
	var reached, release chan struct{}
	if s.suffix != "" && strings.HasSuffix(key, s.suffix) {
		reached, release = s.reached, s.release
		s.suffix = ""
	}
	s.mu.Unlock()

	if reached != nil {
		close(reached)
		<-release
	}
	return s.State.Set(key, value)
}

type preC14Party struct {
	name string
	keys *keystore.KeyPair
}

func preC14InitProposal(t *testing.T, roundID string, parties []preC14Party) storage.Message {
	request := requests.SignatureProposalParticipantsListRequest{
		CreatedAt:        time.Now(),
		SigningThreshold: 2,
	}
	for _, p := range parties {
		request.Participants = append(request.Participants, &requests.SignatureProposalParticipantsEntry{
			Username:  p.name,
			PubKey:    p.keys.Pub,
			DkgPubKey: make([]byte, 128),
		})
	}
	data, err := json.Marshal(request)
	require.NoError(t, err)
	return storage.Message{
		ID:         uuid.New().String(),
		DkgRoundID: roundID,
		Event:      string(spf.EventInitProposal),
		Data:       data,
		SenderAddr: parties[0].name,
	}
}

func preC14Confirmation(t *testing.T, roundID string, party preC14Party, id int) storage.Message {
	data, err := json.Marshal(requests.SignatureProposalParticipantRequest{ParticipantId: id, CreatedAt: time.Now()})
	require.NoError(t, err)
	return storage.Message{
		ID:         uuid.New().String(),
		DkgRoundID: roundID,
		Event:      string(spf.EventConfirmSignatureProposal),
		Data:       data,
		SenderAddr: party.name,
	}
}

// The API finishes the reinitialisation of round X (the answer of the airgapped machine stores the public polynomial in
// the round) while the poller applies the message which opens round Y. Whatever the order of the two, both rounds
// must be in the node's state afterwards.
func TestPreC14ReinitAnswerVsMessageOfSameRound(t *testing.T) {
	req := require.New(t)
	ctrl := gomock.NewController(t)
	defer ctrl.Finish()

	const (
		topic    = "demo_topic"
		userName = "node_user"
		roundX   = "round_x"
		roundY   = "round_y"
	)

	levelDB, err := state.NewLevelDBState(t.TempDir(), topic)
	req.NoError(err)
	st := &preC14State{State: levelDB}

	nodeKeys := keystore.NewKeyPair()
	keyStore := clientMocks.NewMockKeyStore(ctrl)
	keyStore.EXPECT().LoadKeys(userName, "").AnyTimes().Return(nodeKeys, nil)
	stg := storageMocks.NewMockStorage(ctrl)
	stg.EXPECT().Send(gomock.Any()).AnyTimes().Return(nil)

	repo, err := oprepo.NewOperationRepo(st, topic)
	req.NoError(err)

	sp := services.ServiceProvider{}
	sp.SetLogger(logger.NewLogger(userName))
	sp.SetState(st)
	sp.SetKeyStore(keyStore)
	sp.SetStorage(stg)
	sp.SetFSMService(fsmservice.NewFSMService(st, stg, topic))
	sp.SetOperationService(opservice.NewOperationService(repo))
	sp.SetSignatureService(sigservice.NewSignatureService(sigrepo.NewSignatureRepo(st)))

	n, err := NewNode(context.Background(), &config.Config{
		Username:           userName,
		KafkaStorageConfig: &config.KafkaStorageConfig{Topic: topic},
	}, &sp)
	req.NoError(err)

	parties := []preC14Party{
		{name: userName, keys: nodeKeys},
		{name: "other_user", keys: keystore.NewKeyPair()},
	}

	// round X is rebuilt from a reinit message, its operation waits for the answer of the airgapped machine
	reDKG := types.ReDKG{DKGID: roundX, Threshold: 2}
	for _, p := range parties {
		reDKG.Participants = append(reDKG.Participants, types.Participant{
			DKGPubKey:     make([]byte, 128),
			OldCommPubKey: p.keys.Pub,
			NewCommPubKey: p.keys.Pub,
			Name:          p.name,
		})
	}
	reDKG.Messages = []storage.Message{
		preC14InitProposal(t, roundX, parties),
		preC14Confirmation(t, roundX, parties[0], 0),
		preC14Confirmation(t, roundX, parties[1], 1),
	}
	reDKGBz, err := json.Marshal(reDKG)
	req.NoError(err)
	req.NoError(n.ProcessMessage(storage.Message{
		ID:         uuid.New().String(),
		DkgRoundID: roundX,
		Event:      string(fsm.Event(types.ReinitDKG)),
		Data:       reDKGBz,
		SenderAddr: userName,
	}))

	operations, err := sp.GetOperationService().GetOperations()
	req.NoError(err)
	req.Len(operations, 1)
	var reinitOperation *types.Operation
	for _, o := range operations {
		reinitOperation = o
	}
	req.Equal(types.OperationType(types.ReinitDKG), reinitOperation.Type)

	pubPoly := []byte("public polynomial of round x")

	// the API request stops right before it writes the rounds back
	reached, release := st.arm(fsmservice.FSMStateKey)
	apiDone := make(chan error, 1)
	go func() {
		apiDone <- n.ProcessOperation(&dto.OperationDTO{
			ID:        reinitOperation.ID,
			Type:      string(reinitOperation.Type),
			Payload:   reinitOperation.Payload,
			CreatedAt: reinitOperation.CreatedAt,
			DkgID:     roundX,
			Event:     types.OperationProcessed,
			ExtraData: pubPoly,
		})
	}()
	<-reached

	// the poller gets a message of the same round X: the commit of the other participant
	commitData, err := json.Marshal(requests.DKGProposalCommitConfirmationRequest{ParticipantId: 1, Commit: []byte("commit"), CreatedAt: time.Now()})
	req.NoError(err)
	commitMessage := storage.Message{
		ID:         uuid.New().String(),
		DkgRoundID: roundX,
		Event:      string(dpf.EventDKGCommitConfirmationReceived),
		Data:       commitData,
		SenderAddr: parties[1].name,
	}
	commitMessage.Signature = ed25519.Sign(parties[1].keys.Priv, commitMessage.Bytes())
	pollDone := make(chan error, 1)
	go func() {
		pollDone <- n.ProcessMessage(commitMessage)
	}()

	// either the poller gets through while the request is held, or it has to wait for the request
	var pollErr error
	pollFinished := false
	select {
	case pollErr = <-pollDone:
		pollFinished = true
	case <-time.After(2 * time.Second):
	}
	close(release)
	req.NoError(<-apiDone)
	if !pollFinished {
		pollErr = <-pollDone
	}
	req.NoError(pollErr)

	// in both serial orders round X carries the public polynomial AND the commit of participant 1
	dumpX, err := sp.GetFSMService().GetFSMDump(&dto.DkgIdDTO{DkgID: roundX})
	req.NoError(err)
	dumpBz, _ := json.Marshal(dumpX)
	t.Logf("round X: %s", dumpBz)
	req.Equal(pubPoly, dumpX.Payload.DKGProposalPayload.PubPolyBz, "the answer of the airgapped machine is lost")
	req.Equal([]byte("commit"), dumpX.Payload.DKGProposalPayload.Quorum[1].DkgCommit, "the commit is lost")
	_ = roundY
}

// preC14ResetState lets a state reset (the API request) land right after the poller saved the given offset
type preC14ResetState struct {
	state.State
	afterOffset uint64
	reset       func()
	saved       chan uint64
}

func (s *preC14ResetState) SaveOffset(offset uint64) error {
	err := s.State.SaveOffset(offset)
	if offset == s.afterOffset && s.reset != nil {
		s.reset()
	}
	s.saved <- offset
	return err
}

// One poll tick over two messages (round A is proposed, round B is proposed); the state reset request lands between
// the two. reset;tick gives a new state with both rounds and offset 2, tick;reset gives an empty new state with offset 0
// (the next tick replays both messages).
func TestPreC14ResetBetweenTwoMessagesOfATick(t *testing.T) {
	req := require.New(t)
	ctrl := gomock.NewController(t)
	defer ctrl.Finish()

	const (
		topic    = "demo_topic"
		userName = "node_user"
	)

	dir := t.TempDir()
	levelDB, err := state.NewLevelDBState(dir+"/old", topic)
	req.NoError(err)
	st := &preC14ResetState{State: levelDB, afterOffset: 1, saved: make(chan uint64, 16)}

	nodeKeys := keystore.NewKeyPair()
	keyStore := clientMocks.NewMockKeyStore(ctrl)
	keyStore.EXPECT().LoadKeys(userName, "").AnyTimes().Return(nodeKeys, nil)
	stg := storageMocks.NewMockStorage(ctrl)
	stg.EXPECT().IgnoreMessages(gomock.Any(), gomock.Any()).AnyTimes().Return(nil)

	parties := []preC14Party{
		{name: userName, keys: nodeKeys},
		{name: "other_user", keys: keystore.NewKeyPair()},
	}
	m0 := preC14InitProposal(t, "round_a", parties)
	m0.Offset = 0
	m1 := preC14InitProposal(t, "round_b", parties)
	m1.Offset = 1
	stg.EXPECT().GetMessages(gomock.Any()).AnyTimes().DoAndReturn(func(offset uint64) ([]storage.Message, error) {
		var res []storage.Message
		for _, m := range []storage.Message{m0, m1} {
			if m.Offset >= offset {
				res = append(res, m)
			}
		}
		return res, nil
	})

	repo, err := oprepo.NewOperationRepo(st, topic)
	req.NoError(err)

	sp := services.ServiceProvider{}
	sp.SetLogger(logger.NewLogger(userName))
	sp.SetState(st)
	sp.SetKeyStore(keyStore)
	sp.SetStorage(stg)
	sp.SetFSMService(fsmservice.NewFSMService(st, stg, topic))
	sp.SetOperationService(opservice.NewOperationService(repo))
	sp.SetSignatureService(sigservice.NewSignatureService(sigrepo.NewSignatureRepo(st)))

	st.reset = func() {
		st.reset = nil
		_, err := sp.GetFSMService().ResetFSMState(&dto.ResetStateDTO{NewStateDBDSN: dir + "/new"})
		req.NoError(err)
	}

	ctx, cancel := context.WithCancel(context.Background())
	n, err := NewNode(ctx, &config.Config{
		Username:           userName,
		KafkaStorageConfig: &config.KafkaStorageConfig{Topic: topic},
	}, &sp)
	req.NoError(err)

	pollDone := make(chan error, 1)
	go func() { pollDone <- n.Poll() }()
	req.Equal(uint64(1), <-st.saved)
	req.Equal(uint64(2), <-st.saved)
	cancel()
	req.NoError(<-pollDone)

	rounds, err := sp.GetFSMService().GetFSMList()
	req.NoError(err)
	offset, err := st.LoadOffset()
	req.NoError(err)
	operations, err := sp.GetOperationService().GetOperations()
	req.NoError(err)
	t.Logf("new state: rounds %v, offset %d, %d operations", rounds, offset, len(operations))

	serial1 := len(rounds) == 2 && offset == 2 && len(operations) == 2 // reset; tick
	serial2 := len(rounds) == 0 && offset == 0 && len(operations) == 0 // tick; reset
	req.True(serial1 || serial2, "the new state matches neither serial order: message 0 will never be applied to it")
}
